(* C03 — the clock (account expiry against a last-login stamp on either side of the clock reading) and the on-line
   table (entries are per account, the client address decides nothing). *)
From Coq Require Import ZArith List Lia Bool.
From Verif Require Import Base.Common Gen.Consts_default Model.C03.
Import ListNotations.
Local Open Scope Z_scope.

Lemma quot60_spec : forall a, Z.quot a 60 * 60 <= a < Z.quot a 60 * 60 + 60 \/ (a < 0 /\ a <= Z.quot a 60 * 60 < a + 60).
Proof.
  intros a.
  pose proof (Z.quot_rem' a 60) as Hqr.
  destruct (Z_le_gt_dec 0 a) as [Hpos | Hneg].
  - left. pose proof (Z.rem_bound_pos a 60 Hpos ltac:(lia)). lia.
  - right. split; [lia|].
    assert (Hr : -60 < Z.rem a 60 <= 0).
    { pose proof (Z.rem_opp_l a 60 ltac:(lia)) as Ho.
      pose proof (Z.rem_bound_pos (- a) 60 ltac:(lia) ltac:(lia)). lia. }
    lia.
Qed.

(* exactly when an account is removed by the clean-up, for every age, negative ones included *)
Lemma expired_spec : forall keep age, 0 <= keep + ptttype.CLEAN_USER_EXPIRE_RANGE_MIN ->
  0 <= ptttype.CLEAN_USER_EXPIRE_RANGE_MIN ->
  expired keep age = ((keep + ptttype.CLEAN_USER_EXPIRE_RANGE_MIN + 1) * 60 <=? age).
Proof.
  intros keep age Hk Hr. unfold expired, expire_value, since_login_min.
  pose proof (quot60_spec age) as Hq.
  set (q := Z.quot age 60) in *. set (R := ptttype.CLEAN_USER_EXPIRE_RANGE_MIN) in *.
  destruct ((keep + R + 1) * 60 <=? age) eqn:E.
  - apply Z.leb_le in E. apply andb_true_iff. split; [apply Z.ltb_lt | apply Z.ltb_lt]; nia.
  - apply Z.leb_gt in E. apply andb_false_iff.
    destruct (Z_lt_ge_dec R (- (keep - q))) as [Hlt | Hge].
    + exfalso. nia.
    + right. apply Z.ltb_ge. lia.
Qed.

Lemma stamp_ahead_never_expires : forall keep age, 0 <= keep + ptttype.CLEAN_USER_EXPIRE_RANGE_MIN ->
  age <= 0 -> expired keep age = false.
Proof.
  intros keep age Hk Ha. rewrite expired_spec by (auto; vm_compute; discriminate).
  apply Z.leb_gt. lia.
Qed.

Lemma clock_back_keeps_unexpired : forall keep age d, 0 <= keep + ptttype.CLEAN_USER_EXPIRE_RANGE_MIN ->
  0 <= d -> expired keep age = false -> expired keep (age - d) = false.
Proof.
  intros keep age d Hk Hd. rewrite !expired_spec by (auto; vm_compute; discriminate).
  intros H. apply Z.leb_gt in H. apply Z.leb_gt. lia.
Qed.

(* the ages of the harness keep their side of the limit under every step back of the clock it takes *)
Lemma leb_shift : forall L a d, 0 <= d <= 86400 -> (a < L \/ L + 86400 <= a) -> (L <=? a - d) = (L <=? a).
Proof.
  intros L a d Hd Ha. destruct (L <=? a - d) eqn:E1; destruct (L <=? a) eqn:E2; try reflexivity;
    rewrite ?Z.leb_le, ?Z.leb_gt in *; exfalso; lia.
Qed.

Lemma harness_ages_stable : forall code d, 0 <= d <= MAX_CLOCK_BACK ->
  expired KEEP_MIN_UNREGGED (age_of code - d) = expired KEEP_MIN_UNREGGED (age_of code).
Proof.
  intros code d Hd. rewrite !expired_spec by (vm_compute; discriminate).
  unfold MAX_CLOCK_BACK in Hd. apply leb_shift; [exact Hd|].
  assert (Hc : code = 1 \/ code = 2 \/ code = 3 \/ code = 4 \/ code = 5 \/ code = 6 \/ code = 7 \/ age_of code = 0).
  { destruct code as [|p|p]; try (repeat right; reflexivity).
    do 4 (try destruct p as [p|p|]); cbn; auto 10. }
  destruct Hc as [H|[H|[H|[H|[H|[H|[H|H]]]]]]]; try subst code; try rewrite H; vm_compute; intuition discriminate.
Qed.

(* ---- the on-line table *)
Lemma utmp_take_reuse : forall size ut pid, In pid ut -> utmp_take size ut pid = Some ut.
Proof.
  intros size ut pid Hin. unfold utmp_take.
  assert (E : existsb (Z.eqb pid) ut = true) by (apply existsb_exists; exists pid; split; [exact Hin | apply Z.eqb_refl]).
  rewrite E. reflexivity.
Qed.

Lemma utmp_never_full : forall size accts pids ut,
  (length accts <= size)%nat -> NoDup ut -> incl ut accts -> incl pids accts ->
  exists ut', utmp_run size ut pids = Some ut' /\ NoDup ut' /\ incl ut' accts.
Proof.
  intros size accts pids. induction pids as [|p r IH]; intros ut Hsz Hnd Hut Hps.
  - exists ut. cbn [utmp_run]. auto.
  - cbn [utmp_run]. unfold utmp_take.
    destruct (existsb (Z.eqb p) ut) eqn:E.
    + apply IH; auto. intros x Hx. apply Hps. right. exact Hx.
    + assert (Hnin : ~ In p ut).
      { intros Hin. assert (existsb (Z.eqb p) ut = true) by (apply existsb_exists; exists p; split; [exact Hin | apply Z.eqb_refl]). congruence. }
      assert (Hnd' : NoDup (p :: ut)) by (constructor; assumption).
      assert (Hin' : incl (p :: ut) accts).
      { intros x [Hx | Hx]; [subst x; apply Hps; left; reflexivity | apply Hut; exact Hx]. }
      pose proof (NoDup_incl_length Hnd' Hin') as Hlen. cbn [length] in Hlen.
      assert (El : (length ut <? size)%nat = true) by (apply Nat.ltb_lt; lia).
      rewrite El. apply IH; auto. intros x Hx. apply Hps. right. exact Hx.
Qed.

(* non-vacuity *)
Example expired_old : expired KEEP_MIN_UNREGGED (age_of 1) = true. Proof. vm_compute. reflexivity. Qed.
Example expired_edge : expired KEEP_MIN_UNREGGED (age_of 6) = false /\ expired KEEP_MIN_UNREGGED (age_of 7) = true. Proof. vm_compute. auto. Qed.
Example ahead_not_expired : expired KEEP_MIN_UNREGGED (age_of 4) = false. Proof. vm_compute. reflexivity. Qed.
(* what the wrapped difference of an unsigned computation would give for a stamp 5 s ahead of the clock: expired *)
Example wrapped_would_expire : expired KEEP_MIN_UNREGGED (2 ^ 32 - 5) = true. Proof. vm_compute. reflexivity. Qed.
Example utmp_one_account_many_logins : utmp_run 2 [] [7; 7; 7; 7; 7; 7] = Some [7]. Proof. vm_compute. reflexivity. Qed.
Example utmp_full : utmp_run 2 [] [7; 8; 9] = None. Proof. vm_compute. reflexivity. Qed.
