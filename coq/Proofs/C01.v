(* C01 — finite layout obligations (re-evaluated against the regenerated Gen/Layout_*.v, Gen/Consts_*.v)
   and the instantiation of the generic frame theorem for .PASSWDS / .PASSWD2. *)
From Coq Require Import String.
From Verif Require Import Base.Common Base.ListX Base.RecFile Model.C01_Frozen Model.C01.
From Verif Require Export Proofs.C01_codec Proofs.C01_frame Proofs.C01_restart.
From Verif Require Gen.Consts_default Gen.Consts_docker.
From Coq Require Import ZifyBool.
Ltac Zify.zify_post_hook ::= Z.div_mod_to_equations.
Local Open Scope string_scope.
Local Open Scope list_scope.
Local Open Scope Z_scope.

Lemma zlist_eqb_eq a : forall b, zlist_eqb a b = true -> a = b.
Proof.
  induction a as [|x a IH]; intros [|y b] H; try discriminate; [reflexivity|].
  cbn [zlist_eqb] in H. apply andb_prop in H. destruct H as [H1 H2]. f_equal; [lia|apply IH; exact H2].
Qed.

Definition rec_ok (t : rty) : bool :=
  zlist_eqb (go_offsets (fields_of t)) (packed_offsets (fields_of t)) && (go_size t =? packed_size t)
  && padding_free t && rty_wf t.

Lemma rec_ok_spec t : rec_ok t = true ->
  go_offsets (fields_of t) = packed_offsets (fields_of t) /\ go_size t = packed_size t /\
  padding_free t = true /\ rty_wf t = true.
Proof.
  unfold rec_ok. intros H. repeat (apply andb_prop in H; destruct H as [H ?]).
  repeat split; try assumption; [apply zlist_eqb_eq; assumption|lia].
Qed.

Definition named_ok (c : cfg) (name : string) : bool :=
  match lookup name (env c) with Some t => rec_ok t | None => false end.

(* ---------------------------------------------------------------- padding-freeness of the disk records *)
Lemma disk_sweep : forallb (fun c => forallb (named_ok c) strict_disk_records) [Default; Docker] = true.
Proof. vm_compute. reflexivity. Qed.

Lemma padding_free_disk : forall c name, In name strict_disk_records ->
  exists t, lookup name (env c) = Some t /\
            go_offsets (fields_of t) = packed_offsets (fields_of t) /\ go_size t = packed_size t /\
            padding_free t = true.
Proof.
  intros c name Hin. pose proof disk_sweep as H. rewrite forallb_forall in H.
  assert (Hc : In c [Default; Docker]) by (destruct c; cbn; auto).
  specialize (H c Hc). rewrite forallb_forall in H. specialize (H name Hin). unfold named_ok in H.
  destruct (lookup name (env c)) as [t|]; [|discriminate]. exists t.
  destruct (rec_ok_spec t H) as (H1 & H2 & H3 & _). repeat split; assumption.
Qed.

(* the .fav board entry: packed fields at their aligned offsets, 3 zero bytes added by BinWrite to reach Sizeof *)
Lemma padding_free_favboard : forall c,
  exists t, lookup "FavBoard" (env c) = Some t /\
            go_offsets (fields_of t) = packed_offsets (fields_of t) /\
            packed_size t = 9 /\ go_size t = 12 /\ binwrite_len (packed_size t) (go_size t) = 12.
Proof. intros []; eexists; (split; [vm_compute; reflexivity|]); vm_compute; repeat split; reflexivity. Qed.

(* the in-memory sizes this model computes are the ones go/types computed for the *_SZ constants *)
Lemma sizes_match_compiler_constants :
  (forall c t, lookup "UserecRaw" (env c) = Some t ->
     go_size t = match c with Default => Gen.Consts_default.ptttype.USEREC_RAW_SZ | Docker => Gen.Consts_docker.ptttype.USEREC_RAW_SZ end) /\
  (forall c t, lookup "Userec2Raw" (env c) = Some t ->
     go_size t = match c with Default => Gen.Consts_default.ptttype.USEREC2_RAW_SZ | Docker => Gen.Consts_docker.ptttype.USEREC2_RAW_SZ end) /\
  (forall c t, lookup "BoardHeaderRaw" (env c) = Some t ->
     go_size t = match c with Default => Gen.Consts_default.ptttype.BOARD_HEADER_RAW_SZ | Docker => Gen.Consts_docker.ptttype.BOARD_HEADER_RAW_SZ end) /\
  (forall c t, lookup "FileHeaderRaw" (env c) = Some t ->
     go_size t = match c with Default => Gen.Consts_default.ptttype.FILE_HEADER_RAW_SZ | Docker => Gen.Consts_docker.ptttype.FILE_HEADER_RAW_SZ end) /\
  (forall c t, lookup "PostLog" (env c) = Some t ->
     go_size t = match c with Default => Gen.Consts_default.ptt.POSTLOG_SZ | Docker => Gen.Consts_docker.ptt.POSTLOG_SZ end) /\
  (forall c t, lookup "FavBoard" (env c) = Some t ->
     go_size t = match c with Default => Gen.Consts_default.ptt_fav.SIZE_OF_FAV_BOARD | Docker => Gen.Consts_docker.ptt_fav.SIZE_OF_FAV_BOARD end) /\
  (forall c t, lookup "UserInfoRaw" (env c) = Some t ->
     go_size t = match c with Default => Gen.Consts_default.ptttype.USER_INFO_RAW_SZ | Docker => Gen.Consts_docker.ptttype.USER_INFO_RAW_SZ end) /\
  (forall c t, lookup "MsgQueueRaw" (env c) = Some t ->
     go_size t = match c with Default => Gen.Consts_default.ptttype.MSG_QUEUE_RAW_SZ | Docker => Gen.Consts_docker.ptttype.MSG_QUEUE_RAW_SZ end) /\
  (forall c t, lookup "SHMRaw" (env c) = Some t ->
     go_size t = match c with Default => Gen.Consts_default.cache.SHM_RAW_SZ | Docker => Gen.Consts_docker.cache.SHM_RAW_SZ end).
Proof.
  repeat split; intros [] t H; vm_compute in H; inversion H; subst t; vm_compute; reflexivity.
Qed.

(* ---------------------------------------------------------------- what reaches encoding/binary *)
Definition bin_wrappers : list string := ["AppendRecord"; "BinRead"; "BinWrite"; "SubstituteRecord"].
Definition bin_args_ok (c : cfg) : bool :=
  forallb (fun n => mem_str n strict_disk_records) (bin_raw_structs c)
  && forallb (fun n => mem_str n ["FavBoard"; "FavLine"; "FavFolder"]) (bin_padded_structs c)
  && forallb (fun n => negb (mem_str n ["UserInfoRaw"; "MsgQueueRaw"; "SHMRaw"; "shmGV2"])) (bin_raw_structs c ++ bin_padded_structs c)
  && forallb (fun n => mem_str n bin_wrappers) (bin_passthrough c)
  && match bin_other c with [] => true | _ => false end
  && forallb (fun n => match lookup n (env c) with Some _ => true | None => false end) ["FavBoard"; "FavLine"].

Lemma mem_str_In n l : mem_str n l = true -> In n l.
Proof.
  unfold mem_str. rewrite existsb_exists. intros (x & Hx & He). apply String.eqb_eq in He. subst. exact Hx.
Qed.

Lemma only_records_serialised_partial : forall c,
  (forall n, In n (bin_raw_structs c) -> In n strict_disk_records) /\
  (forall n, In n (bin_padded_structs c) -> (n = "FavBoard" \/ n = "FavLine") /\ lookup n (env c) <> None \/ n = "FavFolder") /\
  (forall n, In n (bin_raw_structs c ++ bin_padded_structs c) -> ~ In n ["UserInfoRaw"; "MsgQueueRaw"; "SHMRaw"; "shmGV2"]) /\
  (forall f, In f (bin_passthrough c) -> In f bin_wrappers) /\
  bin_other c = [].
Proof.
  intros c. assert (H : bin_args_ok c = true) by (destruct c; vm_compute; reflexivity).
  unfold bin_args_ok in H.
  apply andb_prop in H. destruct H as [H Hlk]. apply andb_prop in H. destruct H as [H Hoth].
  apply andb_prop in H. destruct H as [H Hpass]. apply andb_prop in H. destruct H as [H Hbad].
  apply andb_prop in H. destruct H as [Hraw Hpad].
  rewrite forallb_forall in Hlk, Hpass, Hbad, Hraw, Hpad. repeat split.
  - intros n Hn. apply mem_str_In. auto.
  - intros n Hn. specialize (Hpad n Hn). apply mem_str_In in Hpad. cbn [In] in Hpad.
    destruct Hpad as [<-|[<-|[<-|[]]]]; [left|left|right; reflexivity].
    + split; [left; reflexivity|]. specialize (Hlk "FavBoard" ltac:(cbn; auto)). destruct (lookup "FavBoard" (env c)); [discriminate|discriminate].
    + split; [right; reflexivity|]. specialize (Hlk "FavLine" ltac:(cbn; auto)). destruct (lookup "FavLine" (env c)); [discriminate|discriminate].
  - intros n Hn Hb. specialize (Hbad n Hn). assert (Hm : mem_str n ["UserInfoRaw"; "MsgQueueRaw"; "SHMRaw"; "shmGV2"] = true).
    { unfold mem_str. apply existsb_exists. exists n. split; [exact Hb|apply String.eqb_refl]. }
    rewrite Hm in Hbad. discriminate.
  - intros f Hf. apply mem_str_In. auto.
  - destruct (bin_other c); [reflexivity|discriminate].
Qed.

(* ---------------------------------------------------------------- the frozen pttbbs layout *)
Definition same_as_frozen_any_cfg : list string :=
  ["UserecRaw"; "Userec2Raw"; "BoardHeaderRaw"; "FileHeaderRaw"; "FavBoard"; "MsgQueueRaw"].

Definition layout_eqb (a b : option (Z * list (string * Z * Z))) : bool :=
  match a, b with
  | Some (sa, la), Some (sb, lb) =>
      (sa =? sb) && (length la =? length lb)%nat
      && forallb (fun p => String.eqb (fst (fst (fst p))) (fst (fst (snd p)))
                           && (snd (fst (fst p)) =? snd (fst (snd p))) && (snd (fst p) =? snd (snd p))) (combine la lb)
  | _, _ => false
  end.

Lemma layout_eqb_eq a b : layout_eqb a b = true -> a = b /\ a <> None.
Proof.
  destruct a as [[sa la]|], b as [[sb lb]|]; try discriminate. cbn [layout_eqb]. intros H.
  apply andb_prop in H. destruct H as [H H3]. apply andb_prop in H. destruct H as [H1 H2].
  split; [|discriminate]. assert (sa = sb) by lia. subst sb. do 2 f_equal.
  apply Nat.eqb_eq in H2. revert lb H2 H3. induction la as [|[[n o] s] la IH]; intros [|[[n' o'] s'] lb] Hl H; try discriminate; [reflexivity|].
  cbn [combine forallb fst snd] in H. apply andb_prop in H. destruct H as [Hh Ht].
  apply andb_prop in Hh. destruct Hh as [Hh Hs]. apply andb_prop in Hh. destruct Hh as [Hn Ho].
  apply String.eqb_eq in Hn. subst n'. assert (o = o') by lia. assert (s = s') by lia. subst. f_equal.
  apply IH; [cbn in Hl; lia|exact Ht].
Qed.

Definition postlog_norm (l : option (Z * list (string * Z * Z))) : option (Z * list (string * Z * Z)) :=
  option_map (fun l => (fst l, absorb_pads (snd l))) l.

Lemma frozen_sweep :
  forallb (fun c => forallb (fun n => layout_eqb (go_layout_of c n) (frozen_layout_of n)) same_as_frozen_any_cfg
                    && layout_eqb (postlog_norm (go_layout_of c "PostLog")) (frozen_layout_of "PostLog")
                    && forallb (fun n => layout_eqb (packed_layout_of c n) (go_layout_of c n)) strict_disk_records)
          [Default; Docker]
  && forallb (fun n => layout_eqb (go_layout_of Docker n) (frozen_layout_of n)) mapped_records_docker = true.
Proof. vm_compute. reflexivity. Qed.

Lemma matches_frozen :
  (forall c name, In name same_as_frozen_any_cfg ->
     go_layout_of c name = frozen_layout_of name /\ go_layout_of c name <> None) /\
  (forall c, postlog_norm (go_layout_of c "PostLog") = frozen_layout_of "PostLog" /\ go_layout_of c "PostLog" <> None) /\
  (forall name, In name mapped_records_docker ->
     go_layout_of Docker name = frozen_layout_of name /\ go_layout_of Docker name <> None) /\
  (forall c name, In name strict_disk_records -> packed_layout_of c name = go_layout_of c name).
Proof.
  pose proof frozen_sweep as H. apply andb_prop in H. destruct H as [Hc Hd].
  rewrite forallb_forall in Hc, Hd.
  assert (Hcc : forall c, In c [Default; Docker]) by (intros []; cbn; auto).
  assert (Hc' : forall c,
     forallb (fun n => layout_eqb (go_layout_of c n) (frozen_layout_of n)) same_as_frozen_any_cfg = true /\
     layout_eqb (postlog_norm (go_layout_of c "PostLog")) (frozen_layout_of "PostLog") = true /\
     forallb (fun n => layout_eqb (packed_layout_of c n) (go_layout_of c n)) strict_disk_records = true).
  { intros c. specialize (Hc c (Hcc c)). cbv beta in Hc.
    apply andb_prop in Hc. destruct Hc as [Hc H3]. apply andb_prop in Hc. destruct Hc as [H1 H2]. auto. }
  split; [|split; [|split]].
  - intros c name H. destruct (Hc' c) as (H1 & _ & _). rewrite forallb_forall in H1. apply (layout_eqb_eq _ _ (H1 name H)).
  - intros c. destruct (Hc' c) as (_ & H2 & _). destruct (layout_eqb_eq _ _ H2) as [He Hn]. split; [exact He|].
    intros E. apply Hn. unfold postlog_norm. rewrite E. reflexivity.
  - intros name H. apply (layout_eqb_eq _ _ (Hd name H)).
  - intros c name H. destruct (Hc' c) as (_ & _ & H3). rewrite forallb_forall in H3. apply (layout_eqb_eq _ _ (H3 name H)).
Qed.

(* ---------------------------------------------------------------- .PASSWDS partial updates *)
Lemma index_of_nth_error name : forall l i, index_of name l = Some i -> nth_error l i = Some name.
Proof.
  induction l as [|n l IH]; intros i H; [discriminate|]. cbn [index_of] in H.
  destruct (String.eqb n name) eqn:E.
  - inversion H; subst. apply String.eqb_eq in E. subst. reflexivity.
  - destruct (index_of name l) as [j|]; [|discriminate]. inversion H; subst. cbn [nth_error]. apply IH. reflexivity.
Qed.

Lemma field_index_nth t fname i : field_index t fname = Some i ->
  exists f, nth_error (fields_of t) i = Some f /\ fst f = fname /\ snd f = field_ty t i.
Proof.
  unfold field_index. intros H. apply index_of_nth_error in H. rewrite nth_error_map in H.
  destruct (nth_error (fields_of t) i) as [f|] eqn:E; [|discriminate]. inversion H. exists f.
  repeat split. unfold field_ty. rewrite (nth_error_nth _ _ _ E). reflexivity.
Qed.

Lemma userec_ok : forall c, userec c = RStruct (fields_of (userec c)) /\ rec_ok (userec c) = true.
Proof. intros []; split; vm_compute; reflexivity. Qed.
Lemma userec2_ok : forall c, userec2 c = RStruct (fields_of (userec2 c)) /\ rec_ok (userec2 c) = true.
Proof. intros []; split; vm_compute; reflexivity. Qed.

Lemma partial_update_frame : forall c fname i uid v file file',
  field_index (userec c) fname = Some i ->
  wt (field_ty (userec c) i) v = true ->
  passwd_update_field c fname uid v file = UOk file' ->
  go_size (userec c) * uid <= lenZ file ->
  let t := userec c in
  let sz := Z.to_nat (go_size t) in
  let off := Z.to_nat (go_size t * (uid - 1) + field_off t i) in
  let n := psz (field_ty t i) in
  1 <= uid <= max_users c /\
  length file' = length file /\
  (sz * Z.to_nat (uid - 1) <= off /\ off + n <= sz * Z.to_nat uid)%nat /\
  firstn off file' = firstn off file /\
  skipn (off + n) file' = skipn (off + n) file /\
  read_at off n file' = encode (field_ty t i) v /\
  (forall k, k <> Z.to_nat (uid - 1) -> record sz k file' = record sz k file) /\
  exists old, decode t (record sz (Z.to_nat (uid - 1)) file) = Some (VList old, []) /\
              decode t (record sz (Z.to_nat (uid - 1)) file') = Some (VList (set_nth i v old), []).
Proof.
  intros c fname i uid v file file' Hidx Hv Hupd Hlen. cbv zeta.
  destruct (userec_ok c) as [Hshape Hok]. destruct (rec_ok_spec _ Hok) as (Hoffs & Hsize & _ & Hwf).
  destruct (field_index_nth _ _ _ Hidx) as (f & Hf & _ & Hfty).
  unfold passwd_update_field in Hupd. rewrite Hidx in Hupd.
  assert (Huid : 1 <= uid <= max_users c).
  { destruct (String.eqb fname "Money"); [unfold uid_ok_money in Hupd|unfold uid_is_valid in Hupd];
      match type of Hupd with (if ?b then _ else _) = _ => destruct b eqn:E; [|discriminate] end; lia. }
  assert (Hfile : file' = field_update (userec c) i uid v file).
  { destruct (if String.eqb fname "Money" then uid_ok_money c uid else uid_is_valid c uid); [|discriminate].
    inversion Hupd. reflexivity. }
  subst file'. split; [exact Huid|]. rewrite <- Hfty in *.
  exact (frame_generic (userec c) (fields_of (userec c)) Hshape Hwf Hoffs Hsize i f uid v file Hf Hv ltac:(lia) Hlen).
Qed.

(* the entry points refuse a uid outside the table and leave the file alone (no result file at all) *)
Lemma partial_update_refuses : forall c fname uid v file,
  (uid < 1 \/ max_users c < uid) -> exists e, passwd_update_field c fname uid v file = UErr e.
Proof.
  intros c fname uid v file Hu. unfold passwd_update_field.
  destruct (field_index (userec c) fname); [|eexists; reflexivity].
  destruct (String.eqb fname "Money"); [unfold uid_ok_money|unfold uid_is_valid];
    match goal with |- exists e, (if ?b then _ else _) = _ => destruct b eqn:E; [lia|eexists; reflexivity] end.
Qed.

Example partial_update_nonvacuous :
  exists i file', field_index (userec Default) "Money" = Some i /\
    passwd_update_field Default "Money" 2 (VInt 77) (repeat 7 1024) = UOk file' /\
    read_at 632 4 file' = [77; 0; 0; 0] /\ firstn 632 file' = repeat 7 632 /\ skipn 636 file' = repeat 7 388.
Proof. eexists. eexists. vm_compute. repeat split; reflexivity. Qed.

(* ---------------------------------------------------------------- .PASSWD2 level-2 update *)
Lemma passwd2_shape : forall c,
  field_index (userec2 c) "UserLevel2" = Some 1%nat /\ field_index (userec2 c) "UpdateTS" = Some 2%nat /\
  go_size (userec2 c) = 128 /\ field_off (userec2 c) 1 = 4 /\ field_off (userec2 c) 2 = 8 /\
  field_ty (userec2 c) 1 = RInt U32 /\ field_ty (userec2 c) 2 = RInt I32.
Proof. intros []; vm_compute; repeat split; reflexivity. Qed.

Lemma passwd2_frame : forall c perm isSet now bs file',
  lenZ bs = go_size (userec2 c) ->
  passwd2_update_level2 c perm isSet now (Some bs) = UOk file' ->
  let old := le_val (read_at 4 4 bs) in
  let new := if isSet then Z.lor old perm else Z.land old (Z.lxor perm 4294967295) in
  length file' = 128%nat /\ firstn 4 file' = firstn 4 bs /\ skipn 12 file' = skipn 12 bs /\
  read_at 4 4 file' = le_bytes 4 new /\ read_at 8 4 file' = le_bytes 4 now.
Proof.
  intros c perm isSet now bs file' Hlen Hupd. cbv zeta.
  destruct (passwd2_shape c) as (Hi & Hj & Hsz & Ho1 & Ho2 & Ht1 & Ht2).
  unfold passwd2_update_level2, passwd2_prepare in Hupd. rewrite Hlen, Z.sub_diag in Hupd.
  cbn [Z.eqb] in Hupd. rewrite Hi, Hj in Hupd. unfold field_update in Hupd.
  rewrite Hsz, Ho1, Ho2, Ht1, Ht2 in Hupd. cbn [encode ik_bytes] in Hupd.
  change (Z.to_nat (128 * (1 - 1) + 4)) with 4%nat in Hupd. change (Z.to_nat (128 * (1 - 1) + 8)) with 8%nat in Hupd.
  change (Z.to_nat 4) with 4%nat in Hupd.
  unfold lenZ in Hlen. rewrite Hsz in Hlen.
  assert (Hold : match decode (RInt U32) (skipn 4 bs) with Some (VInt z, _) => z | _ => 0 end = le_val (read_at 4 4 bs)).
  { cbn [decode ik_bytes]. rewrite skipn_length.
    destruct (Nat.ltb_spec (length bs - 4) 4) as [Hlt|_]; [lia|]. reflexivity. }
  rewrite Hold in Hupd.
  set (new := if isSet then _ else _) in *.
  assert (Hf : file' = write_at 8 (le_bytes 4 now) (write_at 4 (le_bytes 4 new) bs)) by (injection Hupd as Hf; symmetry; exact Hf).
  clear Hupd. subst file'.
  set (f1 := write_at 4 (le_bytes 4 new) bs).
  assert (Hl1 : length f1 = length bs) by (apply write_at_length_inside; rewrite le_bytes_length; lia).
  split; [rewrite write_at_length_inside by (rewrite le_bytes_length; lia); lia|].
  split; [rewrite firstn_write_at by lia; unfold f1; apply firstn_write_at; lia|].
  split; [rewrite skipn_write_at by (rewrite le_bytes_length; lia); unfold f1; apply skipn_write_at; rewrite le_bytes_length; lia|].
  split.
  - rewrite read_at_write_at_before by lia. unfold f1.
    rewrite <- (le_bytes_length 4 new) at 2. apply read_at_write_at.
  - rewrite <- (le_bytes_length 4 now) at 2. apply read_at_write_at.
Qed.

Example passwd2_nonvacuous :
  passwd2_update_level2 Default 5 true 1600000000 None
  = UOk ([1; 0; 0; 0; 5; 0; 0; 0; 0; 16; 94; 95] ++ repeat 0 116).
Proof. vm_compute. reflexivity. Qed.

Example codec_nonvacuous :
  exists t, lookup "FavBoard" (env Default) = Some t /\ wt t (VList [VInt 12; VInt (-3); VInt (-128)]) = true /\
            encode t (VList [VInt 12; VInt (-3); VInt (-128)]) = [12; 0; 0; 0; 253; 255; 255; 255; 128].
Proof. eexists. split; [vm_compute; reflexivity|]. vm_compute. split; reflexivity. Qed.

Lemma favfolder_not_record : forall c, lookup "FavFolder" (env c) = None.
Proof. intros []; vm_compute; reflexivity. Qed.

(* ---------------------------------------------------------------- histories: writes in one process, some refused *)
Lemma nth_repeat0 n : forall p, nth p (repeat 0 n) 0 = 0.
Proof. induction n as [|n IH]; intros [|p]; cbn [repeat nth]; try reflexivity. apply IH. Qed.

Lemma nth_firstn_lt {A} (d : A) k : forall p l, (p < k)%nat -> nth p (firstn k l) d = nth p l d.
Proof.
  induction k as [|k IH]; intros p l Hp; [lia|]. destruct l as [|x l]; [reflexivity|].
  destruct p as [|p]; cbn [firstn nth]; [reflexivity|]. apply IH. lia.
Qed.

Lemma nth_skipn_add {A} (d : A) k : forall p l, nth p (skipn k l) d = nth (k + p) l d.
Proof.
  induction k as [|k IH]; intros p l; [reflexivity|]. destruct l as [|x l]; [destruct p; reflexivity|].
  cbn [skipn Nat.add nth]. apply IH.
Qed.

(* a positional write changes no byte outside the written range (bytes beyond the end read as 0) *)
Lemma nth_write_at_outside off bs f p : (p < off \/ off + length bs <= p)%nat ->
  nth p (write_at off bs f) 0 = nth p f 0.
Proof.
  intros H. unfold write_at. destruct H as [H|H].
  - destruct (Nat.lt_ge_cases p (length f)) as [Hl|Hl].
    + rewrite app_nth1 by (rewrite firstn_length; lia). apply nth_firstn_lt. exact H.
    + rewrite firstn_all2 by lia. rewrite app_nth2 by lia. rewrite app_nth1 by (rewrite repeat_length; lia).
      rewrite nth_repeat0. symmetry. apply nth_overflow. lia.
  - destruct (Nat.lt_ge_cases p (length f)) as [Hl|Hl].
    + replace (off - length f)%nat with 0%nat by lia. cbn [repeat app].
      rewrite app_nth2 by (rewrite firstn_length; lia). rewrite firstn_length.
      replace (Nat.min off (length f)) with off by lia.
      rewrite app_nth2 by lia. rewrite nth_skipn_add. f_equal. lia.
    + rewrite (nth_overflow f) by lia. apply nth_overflow.
      rewrite !app_length, firstn_length, repeat_length, skipn_length. lia.
Qed.

Lemma on_dev_refuse r : exists e, on_dev DevRefuse r = UErr e.
Proof. destruct r; eexists; reflexivity. Qed.

(* a refused step leaves both files exactly as they were *)
Lemma hstep_refused c s st : step_accepted s = false -> snd (hstep c s st) = st /\ fst (fst (hstep c s st)) = ST_ERR.
Proof.
  destruct s as [fname [|] uid v|[|] uid v|perm isSet now]; cbn [step_accepted]; try discriminate; intros _; cbn [hstep].
  - destruct (on_dev_refuse (passwd_update_field c fname uid v (st_pw st))) as [e He]. rewrite He. split; reflexivity.
  - destruct (on_dev_refuse (passwd_update_record c uid v (st_pw st))) as [e He]. rewrite He. split; reflexivity.
Qed.

Lemma run_history_cons c s h st :
  run_history c (s :: h) st = (fst (hstep c s st) :: fst (run_history c h (snd (hstep c s st))),
                               snd (run_history c h (snd (hstep c s st)))).
Proof.
  cbn [run_history]. destruct (hstep c s st) as [o st1]. cbn [fst snd].
  destruct (run_history c h st1) as [os st2]. reflexivity.
Qed.

Lemma run_history_app c h1 : forall h2 st,
  snd (run_history c (h1 ++ h2) st) = snd (run_history c h2 (snd (run_history c h1 st))).
Proof.
  induction h1 as [|s h1 IH]; intros h2 st; [reflexivity|].
  cbn [app]. rewrite !run_history_cons. cbn [snd]. apply IH.
Qed.

(* refused writes leave no trace: the files after a history are those after its accepted steps alone *)
Lemma history_refused_no_trace c h : forall st,
  snd (run_history c h st) = snd (run_history c (filter step_accepted h) st).
Proof.
  induction h as [|s h IH]; intros st; [reflexivity|]. cbn [filter]. rewrite run_history_cons. cbn [snd].
  destruct (step_accepted s) eqn:Ha.
  - rewrite run_history_cons. cbn [snd]. apply IH.
  - destruct (hstep_refused c s st Ha) as [Hs _]. rewrite Hs. apply IH.
Qed.

Lemma history_all_refused c h st : forallb (fun s => negb (step_accepted s)) h = true ->
  snd (run_history c h st) = st.
Proof.
  intros H. rewrite history_refused_no_trace.
  replace (filter step_accepted h) with (@nil step); [reflexivity|].
  induction h as [|s h IH]; [reflexivity|]. cbn [forallb] in H. apply andb_prop in H. destruct H as [H1 H2].
  cbn [filter]. destruct (step_accepted s); [discriminate|]. exact (IH H2).
Qed.

Lemma hstep_outside c s st p : outside p (step_range c s) ->
  nth p (st_pw (snd (hstep c s st))) 0 = nth p (st_pw st) 0.
Proof.
  intros Ho. destruct s as [fname [|] uid v|[|] uid v|perm isSet now]; cbn [hstep].
  - cbn [step_range] in Ho. unfold passwd_update_field. destruct (field_index (userec c) fname) as [i|]; [|reflexivity].
    destruct (if String.eqb fname "Money" then uid_ok_money c uid else uid_is_valid c uid); [|reflexivity].
    cbn [on_dev snd st_pw]. unfold field_update. apply nth_write_at_outside. apply Ho. left. reflexivity.
  - destruct (on_dev_refuse (passwd_update_field c fname uid v (st_pw st))) as [e He]. rewrite He. reflexivity.
  - cbn [step_range] in Ho. unfold passwd_update_record. destruct (uid_is_valid c uid); [|reflexivity].
    cbn [on_dev snd st_pw]. apply nth_write_at_outside. apply Ho. left. reflexivity.
  - destruct (on_dev_refuse (passwd_update_record c uid v (st_pw st))) as [e He]. rewrite He. reflexivity.
  - destruct (passwd2_update_level2 c perm isSet now (st_pw2 st)); reflexivity.
Qed.

(* over a whole history: a byte of .PASSWDS outside the ranges of the accepted steps keeps its value;
   refused steps contribute no range at all *)
Lemma history_untouched c h : forall st p, outside p (touched c h) ->
  nth p (st_pw (snd (run_history c h st))) 0 = nth p (st_pw st) 0.
Proof.
  induction h as [|s h IH]; intros st p Ho; [reflexivity|]. rewrite run_history_cons. cbn [snd].
  unfold touched in Ho. cbn [flat_map] in Ho.
  rewrite IH by (intros a n Hin; apply Ho; apply in_or_app; right; exact Hin).
  apply hstep_outside. intros a n Hin. apply Ho. apply in_or_app. left. exact Hin.
Qed.

(* the two files are separate: .PASSWDS steps leave .PASSWD2 alone and the level-2 step leaves .PASSWDS alone *)
Definition is_level2 (s : step) : bool := match s with SLevel2 _ _ _ => true | _ => false end.
Lemma hstep_separate c s st :
  (is_level2 s = false -> st_pw2 (snd (hstep c s st)) = st_pw2 st) /\
  (is_level2 s = true -> st_pw (snd (hstep c s st)) = st_pw st).
Proof.
  destruct s as [fname d uid v|d uid v|perm isSet now]; cbn [is_level2 hstep]; split; intros H; try discriminate.
  - destruct (on_dev d (passwd_update_field c fname uid v (st_pw st))); reflexivity.
  - destruct (on_dev d (passwd_update_record c uid v (st_pw st))); reflexivity.
  - destruct (passwd2_update_level2 c perm isSet now (st_pw2 st)); reflexivity.
Qed.

Lemma history_separate c h : forall st,
  (forallb (fun s => negb (is_level2 s)) h = true -> st_pw2 (snd (run_history c h st)) = st_pw2 st) /\
  (forallb is_level2 h = true -> st_pw (snd (run_history c h st)) = st_pw st).
Proof.
  induction h as [|s h IH]; intros st; [split; reflexivity|]. rewrite run_history_cons. cbn [snd forallb].
  destruct (IH (snd (hstep c s st))) as [I1 I2]. destruct (hstep_separate c s st) as [S1 S2].
  split; intros H; apply andb_prop in H; destruct H as [H1 H2].
  - rewrite (I1 H2). apply S1. destruct (is_level2 s); [discriminate|reflexivity].
  - rewrite (I2 H2). apply S2. exact H1.
Qed.

Lemma passwd_update_field_accepts c fname i uid v f :
  field_index (userec c) fname = Some i -> 1 <= uid <= max_users c ->
  passwd_update_field c fname uid v f = UOk (field_update (userec c) i uid v f).
Proof.
  intros Hi Hu. unfold passwd_update_field. rewrite Hi.
  replace (if String.eqb fname "Money" then uid_ok_money c uid else uid_is_valid c uid) with true; [reflexivity|].
  destruct (String.eqb fname "Money"); [unfold uid_ok_money|unfold uid_is_valid]; lia.
Qed.

(* after ANY history (accepted and refused steps in any order, from any files) a single-field update behaves as a
   first one: accepted, it satisfies the whole frame with respect to the file the history left and leaves
   .PASSWD2 alone; refused, it reports the error and leaves both files as they were *)
Lemma history_step_frame : forall c h st0 fname i uid v,
  let st := snd (run_history c h st0) in
  field_index (userec c) fname = Some i ->
  wt (field_ty (userec c) i) v = true ->
  1 <= uid <= max_users c ->
  go_size (userec c) * uid <= lenZ (st_pw st) ->
  let t := userec c in
  let sz := Z.to_nat (go_size t) in
  let off := Z.to_nat (go_size t * (uid - 1) + field_off t i) in
  let n := psz (field_ty t i) in
  hstep c (SField fname DevRefuse uid v) st = ((ST_ERR, ERR_IO), st) /\
  exists file', hstep c (SField fname DevOk uid v) st = ((ST_OK, 0), {| st_pw := file'; st_pw2 := st_pw2 st |}) /\
    length file' = length (st_pw st) /\
    (sz * Z.to_nat (uid - 1) <= off /\ off + n <= sz * Z.to_nat uid)%nat /\
    firstn off file' = firstn off (st_pw st) /\
    skipn (off + n) file' = skipn (off + n) (st_pw st) /\
    read_at off n file' = encode (field_ty t i) v /\
    (forall k, k <> Z.to_nat (uid - 1) -> record sz k file' = record sz k (st_pw st)) /\
    exists old, decode t (record sz (Z.to_nat (uid - 1)) (st_pw st)) = Some (VList old, []) /\
                decode t (record sz (Z.to_nat (uid - 1)) file') = Some (VList (set_nth i v old), []).
Proof.
  intros c h st0 fname i uid v st Hi Hv Hu Hlen. cbv zeta.
  pose proof (passwd_update_field_accepts c fname i uid v (st_pw st) Hi Hu) as Hacc.
  split; [cbn [hstep]; rewrite Hacc; reflexivity|].
  exists (field_update (userec c) i uid v (st_pw st)).
  split; [cbn [hstep]; rewrite Hacc; reflexivity|].
  destruct (partial_update_frame c fname i uid v (st_pw st) _ Hi Hv Hacc Hlen) as (_ & H).
  exact H.
Qed.

(* types.BinaryWrite to a writer: what reaches the writer is the value's image, whole (then it reads back as the
   value and has the packed size) or, when the writer refuses, a prefix of it - never anything else *)
Lemma binary_write_delivers : forall t v room, wt t v = true -> rty_wf t = true ->
  let o := fst (binary_write_to t v room) in
  let got := snd (binary_write_to t v room) in
  (o = (ST_OK, 0) /\ got = encode t v /\ decode t got = Some (v, []) /\ lenZ got = packed_size t) \/
  (o = (ST_ERR, ERR_IO) /\ exists k, room = Some k /\ (k < length (encode t v))%nat /\ got = firstn k (encode t v)).
Proof.
  intros t v room Hv Hwf. cbv zeta. destruct (codec_roundtrip t v Hv) as [Hd Hl]. specialize (Hl Hwf).
  unfold binary_write_to. destruct room as [k|].
  - destruct (Nat.leb_spec (length (encode t v)) k) as [Hle|Hgt]; cbn [fst snd].
    + left. repeat split; assumption.
    + right. split; [reflexivity|]. exists k. repeat split. exact Hgt.
  - left. cbn [fst snd]. repeat split; assumption.
Qed.

Example history_nonvacuous :
  let h := [SRecord DevRefuse 1 (VList []); SField "Money" DevOk 2 (VInt 77); SField "Money" DevRefuse 1 (VInt 5);
            SLevel2 5 true 1600000000] in
  let r := run_history Default h {| st_pw := repeat 7 1024; st_pw2 := None |} in
  fst r = [(3, 4); (0, 0); (3, 4); (0, 0)] /\
  st_pw (snd r) = repeat 7 632 ++ [77; 0; 0; 0] ++ repeat 7 388 /\
  st_pw2 (snd r) = Some ([1; 0; 0; 0; 5; 0; 0; 0; 0; 16; 94; 95] ++ repeat 0 116) /\
  touched Default h = [(632, 4)]%nat.
Proof. vm_compute. repeat split; reflexivity. Qed.

Lemma history_refused_all :
  (forall c h st, snd (run_history c h st) = snd (run_history c (filter step_accepted h) st)) /\
  (forall c s st, step_accepted s = false -> snd (hstep c s st) = st /\ fst (fst (hstep c s st)) = ST_ERR) /\
  (forall c h st, forallb (fun s => negb (step_accepted s)) h = true -> snd (run_history c h st) = st).
Proof. exact (conj history_refused_no_trace (conj hstep_refused history_all_refused)). Qed.

Lemma history_untouched_all :
  (forall c h st p, outside p (touched c h) -> nth p (st_pw (snd (run_history c h st))) 0 = nth p (st_pw st) 0) /\
  (forall c h st,
     (forallb (fun s => negb (is_level2 s)) h = true -> st_pw2 (snd (run_history c h st)) = st_pw2 st) /\
     (forallb is_level2 h = true -> st_pw (snd (run_history c h st)) = st_pw st)).
Proof. exact (conj history_untouched history_separate). Qed.
