(* C01 — finite layout obligations (re-evaluated against the regenerated Gen/Layout_*.v, Gen/Consts_*.v)
   and the instantiation of the generic frame theorem for .PASSWDS / .PASSWD2. *)
From Coq Require Import String.
From Verif Require Import Base.Common Base.ListX Base.RecFile Model.C01_Frozen Model.C01.
From Verif Require Export Proofs.C01_codec Proofs.C01_frame.
From Verif Require Gen.Consts_default Gen.Consts_docker.
From Coq Require Import ZifyBool.
Ltac Zify.zify_post_hook ::= Z.div_mod_to_equations.
Local Open Scope string_scope.
Local Open Scope list_scope.
Local Open Scope Z_scope.

Lemma zlist_eqb_eq a : forall b, zlist_eqb a b = true -> a = b.
Proof.
  induction a as [|x a IH]; intros [|y b] H; try discriminate; [reflexivity|].
  cbn [zlist_eqb] in H. apply andb_prop in H. destruct H as [H1 H2]. f_equal; [lia|apply IH; exact H2].
Qed.

Definition rec_ok (t : rty) : bool :=
  zlist_eqb (go_offsets (fields_of t)) (packed_offsets (fields_of t)) && (go_size t =? packed_size t)
  && padding_free t && rty_wf t.

Lemma rec_ok_spec t : rec_ok t = true ->
  go_offsets (fields_of t) = packed_offsets (fields_of t) /\ go_size t = packed_size t /\
  padding_free t = true /\ rty_wf t = true.
Proof.
  unfold rec_ok. intros H. repeat (apply andb_prop in H; destruct H as [H ?]).
  repeat split; try assumption; [apply zlist_eqb_eq; assumption|lia].
Qed.

Definition named_ok (c : cfg) (name : string) : bool :=
  match lookup name (env c) with Some t => rec_ok t | None => false end.

(* ---------------------------------------------------------------- padding-freeness of the disk records *)
Lemma disk_sweep : forallb (fun c => forallb (named_ok c) strict_disk_records) [Default; Docker] = true.
Proof. vm_compute. reflexivity. Qed.

Lemma padding_free_disk : forall c name, In name strict_disk_records ->
  exists t, lookup name (env c) = Some t /\
            go_offsets (fields_of t) = packed_offsets (fields_of t) /\ go_size t = packed_size t /\
            padding_free t = true.
Proof.
  intros c name Hin. pose proof disk_sweep as H. rewrite forallb_forall in H.
  assert (Hc : In c [Default; Docker]) by (destruct c; cbn; auto).
  specialize (H c Hc). rewrite forallb_forall in H. specialize (H name Hin). unfold named_ok in H.
  destruct (lookup name (env c)) as [t|]; [|discriminate]. exists t.
  destruct (rec_ok_spec t H) as (H1 & H2 & H3 & _). repeat split; assumption.
Qed.

(* the .fav board entry: packed fields at their aligned offsets, 3 zero bytes added by BinWrite to reach Sizeof *)
Lemma padding_free_favboard : forall c,
  exists t, lookup "FavBoard" (env c) = Some t /\
            go_offsets (fields_of t) = packed_offsets (fields_of t) /\
            packed_size t = 9 /\ go_size t = 12 /\ binwrite_len (packed_size t) (go_size t) = 12.
Proof. intros []; eexists; (split; [vm_compute; reflexivity|]); vm_compute; repeat split; reflexivity. Qed.

(* the in-memory sizes this model computes are the ones go/types computed for the *_SZ constants *)
Lemma sizes_match_compiler_constants :
  (forall c t, lookup "UserecRaw" (env c) = Some t ->
     go_size t = match c with Default => Gen.Consts_default.ptttype.USEREC_RAW_SZ | Docker => Gen.Consts_docker.ptttype.USEREC_RAW_SZ end) /\
  (forall c t, lookup "Userec2Raw" (env c) = Some t ->
     go_size t = match c with Default => Gen.Consts_default.ptttype.USEREC2_RAW_SZ | Docker => Gen.Consts_docker.ptttype.USEREC2_RAW_SZ end) /\
  (forall c t, lookup "BoardHeaderRaw" (env c) = Some t ->
     go_size t = match c with Default => Gen.Consts_default.ptttype.BOARD_HEADER_RAW_SZ | Docker => Gen.Consts_docker.ptttype.BOARD_HEADER_RAW_SZ end) /\
  (forall c t, lookup "FileHeaderRaw" (env c) = Some t ->
     go_size t = match c with Default => Gen.Consts_default.ptttype.FILE_HEADER_RAW_SZ | Docker => Gen.Consts_docker.ptttype.FILE_HEADER_RAW_SZ end) /\
  (forall c t, lookup "PostLog" (env c) = Some t ->
     go_size t = match c with Default => Gen.Consts_default.ptt.POSTLOG_SZ | Docker => Gen.Consts_docker.ptt.POSTLOG_SZ end) /\
  (forall c t, lookup "FavBoard" (env c) = Some t ->
     go_size t = match c with Default => Gen.Consts_default.ptt_fav.SIZE_OF_FAV_BOARD | Docker => Gen.Consts_docker.ptt_fav.SIZE_OF_FAV_BOARD end) /\
  (forall c t, lookup "UserInfoRaw" (env c) = Some t ->
     go_size t = match c with Default => Gen.Consts_default.ptttype.USER_INFO_RAW_SZ | Docker => Gen.Consts_docker.ptttype.USER_INFO_RAW_SZ end) /\
  (forall c t, lookup "MsgQueueRaw" (env c) = Some t ->
     go_size t = match c with Default => Gen.Consts_default.ptttype.MSG_QUEUE_RAW_SZ | Docker => Gen.Consts_docker.ptttype.MSG_QUEUE_RAW_SZ end) /\
  (forall c t, lookup "SHMRaw" (env c) = Some t ->
     go_size t = match c with Default => Gen.Consts_default.cache.SHM_RAW_SZ | Docker => Gen.Consts_docker.cache.SHM_RAW_SZ end).
Proof.
  repeat split; intros [] t H; vm_compute in H; inversion H; subst t; vm_compute; reflexivity.
Qed.

(* ---------------------------------------------------------------- what reaches encoding/binary *)
Definition bin_wrappers : list string := ["AppendRecord"; "BinRead"; "BinWrite"; "SubstituteRecord"].
Definition bin_args_ok (c : cfg) : bool :=
  forallb (fun n => mem_str n strict_disk_records) (bin_raw_structs c)
  && forallb (fun n => mem_str n ["FavBoard"; "FavLine"; "FavFolder"]) (bin_padded_structs c)
  && forallb (fun n => negb (mem_str n ["UserInfoRaw"; "MsgQueueRaw"; "SHMRaw"; "shmGV2"])) (bin_raw_structs c ++ bin_padded_structs c)
  && forallb (fun n => mem_str n bin_wrappers) (bin_passthrough c)
  && match bin_other c with [] => true | _ => false end
  && forallb (fun n => match lookup n (env c) with Some _ => true | None => false end) ["FavBoard"; "FavLine"].

Lemma mem_str_In n l : mem_str n l = true -> In n l.
Proof.
  unfold mem_str. rewrite existsb_exists. intros (x & Hx & He). apply String.eqb_eq in He. subst. exact Hx.
Qed.

Lemma only_records_serialised_partial : forall c,
  (forall n, In n (bin_raw_structs c) -> In n strict_disk_records) /\
  (forall n, In n (bin_padded_structs c) -> (n = "FavBoard" \/ n = "FavLine") /\ lookup n (env c) <> None \/ n = "FavFolder") /\
  (forall n, In n (bin_raw_structs c ++ bin_padded_structs c) -> ~ In n ["UserInfoRaw"; "MsgQueueRaw"; "SHMRaw"; "shmGV2"]) /\
  (forall f, In f (bin_passthrough c) -> In f bin_wrappers) /\
  bin_other c = [].
Proof.
  intros c. assert (H : bin_args_ok c = true) by (destruct c; vm_compute; reflexivity).
  unfold bin_args_ok in H.
  apply andb_prop in H. destruct H as [H Hlk]. apply andb_prop in H. destruct H as [H Hoth].
  apply andb_prop in H. destruct H as [H Hpass]. apply andb_prop in H. destruct H as [H Hbad].
  apply andb_prop in H. destruct H as [Hraw Hpad].
  rewrite forallb_forall in Hlk, Hpass, Hbad, Hraw, Hpad. repeat split.
  - intros n Hn. apply mem_str_In. auto.
  - intros n Hn. specialize (Hpad n Hn). apply mem_str_In in Hpad. cbn [In] in Hpad.
    destruct Hpad as [<-|[<-|[<-|[]]]]; [left|left|right; reflexivity].
    + split; [left; reflexivity|]. specialize (Hlk "FavBoard" ltac:(cbn; auto)). destruct (lookup "FavBoard" (env c)); [discriminate|discriminate].
    + split; [right; reflexivity|]. specialize (Hlk "FavLine" ltac:(cbn; auto)). destruct (lookup "FavLine" (env c)); [discriminate|discriminate].
  - intros n Hn Hb. specialize (Hbad n Hn). assert (Hm : mem_str n ["UserInfoRaw"; "MsgQueueRaw"; "SHMRaw"; "shmGV2"] = true).
    { unfold mem_str. apply existsb_exists. exists n. split; [exact Hb|apply String.eqb_refl]. }
    rewrite Hm in Hbad. discriminate.
  - intros f Hf. apply mem_str_In. auto.
  - destruct (bin_other c); [reflexivity|discriminate].
Qed.

(* ---------------------------------------------------------------- the frozen pttbbs layout *)
Definition same_as_frozen_any_cfg : list string :=
  ["UserecRaw"; "Userec2Raw"; "BoardHeaderRaw"; "FileHeaderRaw"; "FavBoard"; "MsgQueueRaw"].

Definition layout_eqb (a b : option (Z * list (string * Z * Z))) : bool :=
  match a, b with
  | Some (sa, la), Some (sb, lb) =>
      (sa =? sb) && (length la =? length lb)%nat
      && forallb (fun p => String.eqb (fst (fst (fst p))) (fst (fst (snd p)))
                           && (snd (fst (fst p)) =? snd (fst (snd p))) && (snd (fst p) =? snd (snd p))) (combine la lb)
  | _, _ => false
  end.

Lemma layout_eqb_eq a b : layout_eqb a b = true -> a = b /\ a <> None.
Proof.
  destruct a as [[sa la]|], b as [[sb lb]|]; try discriminate. cbn [layout_eqb]. intros H.
  apply andb_prop in H. destruct H as [H H3]. apply andb_prop in H. destruct H as [H1 H2].
  split; [|discriminate]. assert (sa = sb) by lia. subst sb. do 2 f_equal.
  apply Nat.eqb_eq in H2. revert lb H2 H3. induction la as [|[[n o] s] la IH]; intros [|[[n' o'] s'] lb] Hl H; try discriminate; [reflexivity|].
  cbn [combine forallb fst snd] in H. apply andb_prop in H. destruct H as [Hh Ht].
  apply andb_prop in Hh. destruct Hh as [Hh Hs]. apply andb_prop in Hh. destruct Hh as [Hn Ho].
  apply String.eqb_eq in Hn. subst n'. assert (o = o') by lia. assert (s = s') by lia. subst. f_equal.
  apply IH; [cbn in Hl; lia|exact Ht].
Qed.

Definition postlog_norm (l : option (Z * list (string * Z * Z))) : option (Z * list (string * Z * Z)) :=
  option_map (fun l => (fst l, absorb_pads (snd l))) l.

Lemma frozen_sweep :
  forallb (fun c => forallb (fun n => layout_eqb (go_layout_of c n) (frozen_layout_of n)) same_as_frozen_any_cfg
                    && layout_eqb (postlog_norm (go_layout_of c "PostLog")) (frozen_layout_of "PostLog")
                    && forallb (fun n => layout_eqb (packed_layout_of c n) (go_layout_of c n)) strict_disk_records)
          [Default; Docker]
  && forallb (fun n => layout_eqb (go_layout_of Docker n) (frozen_layout_of n)) mapped_records_docker = true.
Proof. vm_compute. reflexivity. Qed.

Lemma matches_frozen :
  (forall c name, In name same_as_frozen_any_cfg ->
     go_layout_of c name = frozen_layout_of name /\ go_layout_of c name <> None) /\
  (forall c, postlog_norm (go_layout_of c "PostLog") = frozen_layout_of "PostLog" /\ go_layout_of c "PostLog" <> None) /\
  (forall name, In name mapped_records_docker ->
     go_layout_of Docker name = frozen_layout_of name /\ go_layout_of Docker name <> None) /\
  (forall c name, In name strict_disk_records -> packed_layout_of c name = go_layout_of c name).
Proof.
  pose proof frozen_sweep as H. apply andb_prop in H. destruct H as [Hc Hd].
  rewrite forallb_forall in Hc, Hd.
  assert (Hcc : forall c, In c [Default; Docker]) by (intros []; cbn; auto).
  assert (Hc' : forall c,
     forallb (fun n => layout_eqb (go_layout_of c n) (frozen_layout_of n)) same_as_frozen_any_cfg = true /\
     layout_eqb (postlog_norm (go_layout_of c "PostLog")) (frozen_layout_of "PostLog") = true /\
     forallb (fun n => layout_eqb (packed_layout_of c n) (go_layout_of c n)) strict_disk_records = true).
  { intros c. specialize (Hc c (Hcc c)). cbv beta in Hc.
    apply andb_prop in Hc. destruct Hc as [Hc H3]. apply andb_prop in Hc. destruct Hc as [H1 H2]. auto. }
  split; [|split; [|split]].
  - intros c name H. destruct (Hc' c) as (H1 & _ & _). rewrite forallb_forall in H1. apply (layout_eqb_eq _ _ (H1 name H)).
  - intros c. destruct (Hc' c) as (_ & H2 & _). destruct (layout_eqb_eq _ _ H2) as [He Hn]. split; [exact He|].
    intros E. apply Hn. unfold postlog_norm. rewrite E. reflexivity.
  - intros name H. apply (layout_eqb_eq _ _ (Hd name H)).
  - intros c name H. destruct (Hc' c) as (_ & _ & H3). rewrite forallb_forall in H3. apply (layout_eqb_eq _ _ (H3 name H)).
Qed.

(* ---------------------------------------------------------------- .PASSWDS partial updates *)
Lemma index_of_nth_error name : forall l i, index_of name l = Some i -> nth_error l i = Some name.
Proof.
  induction l as [|n l IH]; intros i H; [discriminate|]. cbn [index_of] in H.
  destruct (String.eqb n name) eqn:E.
  - inversion H; subst. apply String.eqb_eq in E. subst. reflexivity.
  - destruct (index_of name l) as [j|]; [|discriminate]. inversion H; subst. cbn [nth_error]. apply IH. reflexivity.
Qed.

Lemma field_index_nth t fname i : field_index t fname = Some i ->
  exists f, nth_error (fields_of t) i = Some f /\ fst f = fname /\ snd f = field_ty t i.
Proof.
  unfold field_index. intros H. apply index_of_nth_error in H. rewrite nth_error_map in H.
  destruct (nth_error (fields_of t) i) as [f|] eqn:E; [|discriminate]. inversion H. exists f.
  repeat split. unfold field_ty. rewrite (nth_error_nth _ _ _ E). reflexivity.
Qed.

Lemma userec_ok : forall c, userec c = RStruct (fields_of (userec c)) /\ rec_ok (userec c) = true.
Proof. intros []; split; vm_compute; reflexivity. Qed.
Lemma userec2_ok : forall c, userec2 c = RStruct (fields_of (userec2 c)) /\ rec_ok (userec2 c) = true.
Proof. intros []; split; vm_compute; reflexivity. Qed.

Lemma partial_update_frame : forall c fname i uid v file file',
  field_index (userec c) fname = Some i ->
  wt (field_ty (userec c) i) v = true ->
  passwd_update_field c fname uid v file = UOk file' ->
  go_size (userec c) * uid <= lenZ file ->
  let t := userec c in
  let sz := Z.to_nat (go_size t) in
  let off := Z.to_nat (go_size t * (uid - 1) + field_off t i) in
  let n := psz (field_ty t i) in
  1 <= uid <= max_users c /\
  length file' = length file /\
  (sz * Z.to_nat (uid - 1) <= off /\ off + n <= sz * Z.to_nat uid)%nat /\
  firstn off file' = firstn off file /\
  skipn (off + n) file' = skipn (off + n) file /\
  read_at off n file' = encode (field_ty t i) v /\
  (forall k, k <> Z.to_nat (uid - 1) -> record sz k file' = record sz k file) /\
  exists old, decode t (record sz (Z.to_nat (uid - 1)) file) = Some (VList old, []) /\
              decode t (record sz (Z.to_nat (uid - 1)) file') = Some (VList (set_nth i v old), []).
Proof.
  intros c fname i uid v file file' Hidx Hv Hupd Hlen. cbv zeta.
  destruct (userec_ok c) as [Hshape Hok]. destruct (rec_ok_spec _ Hok) as (Hoffs & Hsize & _ & Hwf).
  destruct (field_index_nth _ _ _ Hidx) as (f & Hf & _ & Hfty).
  unfold passwd_update_field in Hupd. rewrite Hidx in Hupd.
  assert (Huid : 1 <= uid <= max_users c).
  { destruct (String.eqb fname "Money"); [unfold uid_ok_money in Hupd|unfold uid_is_valid in Hupd];
      match type of Hupd with (if ?b then _ else _) = _ => destruct b eqn:E; [|discriminate] end; lia. }
  assert (Hfile : file' = field_update (userec c) i uid v file).
  { destruct (if String.eqb fname "Money" then uid_ok_money c uid else uid_is_valid c uid); [|discriminate].
    inversion Hupd. reflexivity. }
  subst file'. split; [exact Huid|]. rewrite <- Hfty in *.
  exact (frame_generic (userec c) (fields_of (userec c)) Hshape Hwf Hoffs Hsize i f uid v file Hf Hv ltac:(lia) Hlen).
Qed.

(* the entry points refuse a uid outside the table and leave the file alone (no result file at all) *)
Lemma partial_update_refuses : forall c fname uid v file,
  (uid < 1 \/ max_users c < uid) -> exists e, passwd_update_field c fname uid v file = UErr e.
Proof.
  intros c fname uid v file Hu. unfold passwd_update_field.
  destruct (field_index (userec c) fname); [|eexists; reflexivity].
  destruct (String.eqb fname "Money"); [unfold uid_ok_money|unfold uid_is_valid];
    match goal with |- exists e, (if ?b then _ else _) = _ => destruct b eqn:E; [lia|eexists; reflexivity] end.
Qed.

Example partial_update_nonvacuous :
  exists i file', field_index (userec Default) "Money" = Some i /\
    passwd_update_field Default "Money" 2 (VInt 77) (repeat 7 1024) = UOk file' /\
    read_at 632 4 file' = [77; 0; 0; 0] /\ firstn 632 file' = repeat 7 632 /\ skipn 636 file' = repeat 7 388.
Proof. eexists. eexists. vm_compute. repeat split; reflexivity. Qed.

(* ---------------------------------------------------------------- .PASSWD2 level-2 update *)
Lemma passwd2_shape : forall c,
  field_index (userec2 c) "UserLevel2" = Some 1%nat /\ field_index (userec2 c) "UpdateTS" = Some 2%nat /\
  go_size (userec2 c) = 128 /\ field_off (userec2 c) 1 = 4 /\ field_off (userec2 c) 2 = 8 /\
  field_ty (userec2 c) 1 = RInt U32 /\ field_ty (userec2 c) 2 = RInt I32.
Proof. intros []; vm_compute; repeat split; reflexivity. Qed.

Lemma passwd2_frame : forall c perm isSet now bs file',
  lenZ bs = go_size (userec2 c) ->
  passwd2_update_level2 c perm isSet now (Some bs) = UOk file' ->
  let old := le_val (read_at 4 4 bs) in
  let new := if isSet then Z.lor old perm else Z.land old (Z.lxor perm 4294967295) in
  length file' = 128%nat /\ firstn 4 file' = firstn 4 bs /\ skipn 12 file' = skipn 12 bs /\
  read_at 4 4 file' = le_bytes 4 new /\ read_at 8 4 file' = le_bytes 4 now.
Proof.
  intros c perm isSet now bs file' Hlen Hupd. cbv zeta.
  destruct (passwd2_shape c) as (Hi & Hj & Hsz & Ho1 & Ho2 & Ht1 & Ht2).
  unfold passwd2_update_level2, passwd2_prepare in Hupd. rewrite Hlen, Z.sub_diag in Hupd.
  cbn [Z.eqb] in Hupd. rewrite Hi, Hj in Hupd. unfold field_update in Hupd.
  rewrite Hsz, Ho1, Ho2, Ht1, Ht2 in Hupd. cbn [encode ik_bytes] in Hupd.
  change (Z.to_nat (128 * (1 - 1) + 4)) with 4%nat in Hupd. change (Z.to_nat (128 * (1 - 1) + 8)) with 8%nat in Hupd.
  change (Z.to_nat 4) with 4%nat in Hupd.
  unfold lenZ in Hlen. rewrite Hsz in Hlen.
  assert (Hold : match decode (RInt U32) (skipn 4 bs) with Some (VInt z, _) => z | _ => 0 end = le_val (read_at 4 4 bs)).
  { cbn [decode ik_bytes]. rewrite skipn_length.
    destruct (Nat.ltb_spec (length bs - 4) 4) as [Hlt|_]; [lia|]. reflexivity. }
  rewrite Hold in Hupd.
  set (new := if isSet then _ else _) in *.
  assert (Hf : file' = write_at 8 (le_bytes 4 now) (write_at 4 (le_bytes 4 new) bs)) by (injection Hupd as Hf; symmetry; exact Hf).
  clear Hupd. subst file'.
  set (f1 := write_at 4 (le_bytes 4 new) bs).
  assert (Hl1 : length f1 = length bs) by (apply write_at_length_inside; rewrite le_bytes_length; lia).
  split; [rewrite write_at_length_inside by (rewrite le_bytes_length; lia); lia|].
  split; [rewrite firstn_write_at by lia; unfold f1; apply firstn_write_at; lia|].
  split; [rewrite skipn_write_at by (rewrite le_bytes_length; lia); unfold f1; apply skipn_write_at; rewrite le_bytes_length; lia|].
  split.
  - rewrite read_at_write_at_before by lia. unfold f1.
    rewrite <- (le_bytes_length 4 new) at 2. apply read_at_write_at.
  - rewrite <- (le_bytes_length 4 now) at 2. apply read_at_write_at.
Qed.

Example passwd2_nonvacuous :
  passwd2_update_level2 Default 5 true 1600000000 None
  = UOk ([1; 0; 0; 0; 5; 0; 0; 0; 0; 16; 94; 95] ++ repeat 0 116).
Proof. vm_compute. reflexivity. Qed.

Example codec_nonvacuous :
  exists t, lookup "FavBoard" (env Default) = Some t /\ wt t (VList [VInt 12; VInt (-3); VInt (-128)]) = true /\
            encode t (VList [VInt 12; VInt (-3); VInt (-128)]) = [12; 0; 0; 0; 253; 255; 255; 255; 128].
Proof. eexists. split; [vm_compute; reflexivity|]. vm_compute. split; reflexivity. Qed.

Lemma favfolder_not_record : forall c, lookup "FavFolder" (env c) = None.
Proof. intros []; vm_compute; reflexivity. Qed.
