(* C17 — initialisation paths: initBig5() as a state machine over the two maps (Model/C17.v: init_big5,
   run_inits), the converters on whatever the maps hold (big5_to_utf8_of / utf8_to_big5_of), and the glue
   in ptttype that derives BBSNAME_BIG5 from BBSNAME at start-up (bbs_init_config). *)
From Coq Require Import FMapPositive.
From Verif Require Import Base.Common Gen.Big5Tab Model.C17 Proofs.C17_main.

Local Strategy expand [b2u_map u2b_map].

(* ------------------------------------------------------------------ the guards *)

Lemma loaded_empty : loaded (PositiveMap.empty (list Z)) = false.
Proof. reflexivity. Qed.
Lemma loaded_b2u : loaded b2u_map = true.
Proof. vm_compute. reflexivity. Qed.
Lemma loaded_u2b : loaded u2b_map = true.
Proof. vm_compute. reflexivity. Qed.

Lemma load_into_empty kv rows : load_into (PositiveMap.empty (list Z)) kv rows = load_tab kv rows.
Proof. reflexivity. Qed.

(* every map is either as a new process has it or the regenerated table *)
Definition b2u_inv (m : tab) : Prop := m = PositiveMap.empty (list Z) \/ m = b2u_map.
Definition u2b_inv (m : tab) : Prop := m = PositiveMap.empty (list Z) \/ m = u2b_map.
Definition tabs_inv (t : tabs) : Prop := b2u_inv (tb t) /\ u2b_inv (tu t).

Lemma init_b2u_spec r m : b2u_inv m ->
  b2u_inv (snd (init_b2u r m)) /\
  (fst (init_b2u r m) = true -> snd (init_b2u r m) = b2u_map) /\
  (fst (init_b2u r m) = false -> snd (init_b2u r m) = m) /\
  (r = true -> fst (init_b2u r m) = true).
Proof.
  (* no [auto] here: it would try to decide [b2u_map = empty] by evaluating the loader *)
  intros [E|E]; subst m; unfold init_b2u.
  - rewrite loaded_empty. destruct r; cbn [fst snd].
    + rewrite load_into_empty. change (load_tab b2u_kv b2u_rows) with b2u_map.
      split; [right; reflexivity|]. split; [intros _; reflexivity|]. split; [intros H; discriminate H | intros _; reflexivity].
    + split; [left; reflexivity|]. split; [intros H; discriminate H|]. split; [intros _; reflexivity | intros H; exact H].
  - rewrite loaded_b2u. cbn [fst snd].
    split; [right; reflexivity|]. split; [intros _; reflexivity|]. split; [intros H; discriminate H | intros _; reflexivity].
Qed.

Lemma init_u2b_spec r m : u2b_inv m ->
  u2b_inv (snd (init_u2b r m)) /\
  (fst (init_u2b r m) = true -> snd (init_u2b r m) = u2b_map) /\
  (fst (init_u2b r m) = false -> snd (init_u2b r m) = m) /\
  (r = true -> fst (init_u2b r m) = true).
Proof.
  (* no [auto] here: it would try to decide [u2b_map = empty] by evaluating the loader *)
  intros [E|E]; subst m; unfold init_u2b.
  - rewrite loaded_empty. destruct r; cbn [fst snd].
    + rewrite load_into_empty. change (load_tab u2b_kv u2b_rows) with u2b_map.
      split; [right; reflexivity|]. split; [intros _; reflexivity|]. split; [intros H; discriminate H | intros _; reflexivity].
    + split; [left; reflexivity|]. split; [intros H; discriminate H|]. split; [intros _; reflexivity | intros H; exact H].
  - rewrite loaded_u2b. cbn [fst snd].
    split; [right; reflexivity|]. split; [intros _; reflexivity|]. split; [intros H; discriminate H | intros _; reflexivity].
Qed.

(* ------------------------------------------------------------------ initBig5 *)

Lemma init_big5_spec a t : tabs_inv t ->
  tabs_inv (snd (init_big5 a t)) /\
  (fst (init_big5 a t) = true -> snd (init_big5 a t) = all_tabs) /\
  (a = (true, true) -> fst (init_big5 a t) = true).
Proof.
  intros [Hb Hu]. unfold init_big5.
  destruct (init_b2u_spec (fst a) (tb t) Hb) as [B1 [B2 [B3 B4]]].
  destruct (init_b2u (fst a) (tb t)) as [ok1 m1]. cbn [fst snd] in *.
  destruct ok1.
  - destruct (init_u2b_spec (snd a) (tu t) Hu) as [U1 [U2 [U3 U4]]].
    destruct (init_u2b (snd a) (tu t)) as [ok2 m2]. cbn [fst snd] in *.
    split; [split; [exact B1 | exact U1]|]. split.
    + intros E. rewrite (B2 eq_refl), (U2 E). reflexivity.
    + intros E. subst a. apply U4. reflexivity.
  - split; [split; [exact B1 | exact Hu]|]. split; [intros H; discriminate H|].
    intros E. subst a. apply B4. reflexivity.
Qed.

Lemma no_tabs_inv : tabs_inv no_tabs.
Proof. split; left; reflexivity. Qed.
Lemma all_tabs_inv : tabs_inv all_tabs.
Proof. split; right; reflexivity. Qed.

Lemma run_inits_cons a h t :
  run_inits (a :: h) t = (fst (init_big5 a t) :: fst (run_inits h (snd (init_big5 a t))), snd (run_inits h (snd (init_big5 a t)))).
Proof. cbn [run_inits]. destruct (init_big5 a t) as [ok t1]. cbn [fst snd]. destruct (run_inits h t1). reflexivity. Qed.

Lemma run_inits_inv h : forall t, tabs_inv t -> tabs_inv (snd (run_inits h t)).
Proof.
  induction h as [|a h IH]; intros t Ht; [exact Ht|].
  rewrite run_inits_cons. cbn [snd]. apply IH. apply (init_big5_spec a t Ht).
Qed.

(* the tables of a process after any history of start-up attempts *)
Definition after (h : list (bool * bool)) : tabs := snd (run_inits h no_tabs).

Lemma after_inv h : tabs_inv (after h).
Proof. apply run_inits_inv. exact no_tabs_inv. Qed.

Lemma after_tables h :
  (tb (after h) = PositiveMap.empty (list Z) \/ tb (after h) = b2u_map) /\
  (tu (after h) = PositiveMap.empty (list Z) \/ tu (after h) = u2b_map).
Proof. exact (after_inv h). Qed.

(* a start-up that returns nil leaves both tables loaded — whatever happened before (failed attempts included) *)
Lemma init_success_loads_both h a :
  fst (init_big5 a (after h)) = true -> snd (init_big5 a (after h)) = all_tabs.
Proof. intros E. exact (proj1 (proj2 (init_big5_spec a _ (after_inv h))) E). Qed.

(* with both files readable the attempt does return nil *)
Lemma init_retry_succeeds h : fst (init_big5 (true, true) (after h)) = true.
Proof. exact (proj2 (proj2 (init_big5_spec (true, true) _ (after_inv h))) eq_refl). Qed.

(* once loaded, every later attempt returns nil and changes nothing (paths no longer matter) *)
Lemma all_tabs_stable a : init_big5 a all_tabs = (true, all_tabs).
Proof.
  unfold init_big5, all_tabs, init_b2u, init_u2b. cbn [tb tu]. rewrite loaded_b2u, loaded_u2b. reflexivity.
Qed.

Lemma run_inits_all_tabs h : run_inits h all_tabs = (map (fun _ => true) h, all_tabs).
Proof.
  induction h as [|a h IH]; [reflexivity|].
  rewrite run_inits_cons, all_tabs_stable. cbn [fst snd map]. rewrite IH. reflexivity.
Qed.

Lemma run_inits_app h1 : forall h2 t,
  snd (run_inits (h1 ++ h2) t) = snd (run_inits h2 (snd (run_inits h1 t))).
Proof.
  induction h1 as [|a h1 IH]; intros h2 t; [reflexivity|].
  cbn [app]. rewrite !run_inits_cons. cbn [snd]. apply IH.
Qed.

Lemma loaded_is_stable h1 a h2 :
  fst (init_big5 a (after h1)) = true -> after (h1 ++ a :: h2) = all_tabs.
Proof.
  intros E. unfold after. rewrite run_inits_app, run_inits_cons. cbn [snd].
  fold (after h1). rewrite (init_success_loads_both h1 a E), run_inits_all_tabs. reflexivity.
Qed.

(* ------------------------------------------------------------------ the converters of a state *)

Lemma b2u_of_loaded s : big5_to_utf8_of b2u_map s = big5_to_utf8 s.
Proof. reflexivity. Qed.
Lemma u2b_of_loaded s : utf8_to_big5_of u2b_map s = utf8_to_big5 s.
Proof. reflexivity. Qed.

(* after a start-up that returned nil the server's converters are the ones all theorems of Props/C17.v are about *)
Lemma post_init_converters h a : fst (init_big5 a (after h)) = true ->
  forall s, big5_to_utf8_of (tb (snd (init_big5 a (after h)))) s = big5_to_utf8 s /\
            utf8_to_big5_of (tu (snd (init_big5 a (after h)))) s = utf8_to_big5 s.
Proof. intros E s. rewrite (init_success_loads_both h a E). split; reflexivity. Qed.

Lemma post_init_table_exact h a : fst (init_big5 a (after h)) = true ->
  let t := snd (init_big5 a (after h)) in
  (forall c u, In (c, u) b2u_rows -> big5_to_utf8_of (tb t) (big5_bytes c) = Ok (utf8_std u)) /\
  (forall c u, In (c, u) u2b_rows -> 128 <= u -> utf8_to_big5_of (tu t) (utf8_std u) = Ok (big5_bytes c)) /\
  (forall s s', mutual_str s s' -> big5_to_utf8_of (tb t) s = Ok s' /\ utf8_to_big5_of (tu t) s' = Ok s).
Proof.
  intros E t. subst t. rewrite (init_success_loads_both h a E). cbn [tb tu all_tabs].
  split; [|split].
  - intros c u Hin. exact (proj2 (proj1 b2u_table_exact c u Hin)).
  - intros c u Hin Hu. exact (proj1 u2b_table_exact c u Hin Hu).
  - intros s s' H. exact (mutual_str_roundtrip s s' H).
Qed.

(* totality in every state a process can be in (also between a failed attempt and the retry) *)
Lemma lookup_empty k : lookup (PositiveMap.empty (list Z)) k = None.
Proof. unfold lookup. apply PositiveMap.gempty. Qed.

Lemma b2u_progress_of m : b2u_inv m -> progress 2 3 (b2u_body_of m).
Proof.
  intros [E|E]; subst m; [|exact b2u_progress].
  intros p. unfold b2u_body_of. destruct p as [|b0 r]; [exact I|].
  destruct (b0 <? 128); [cbn [length]; lia|].
  destruct r as [|b1 r1]; [exact I|]. rewrite lookup_empty. cbn [length]. lia.
Qed.

Lemma u2b_progress_of m : u2b_inv m -> progress 1 2 (u2b_body_of m).
Proof.
  intros [E|E]; subst m; [|exact u2b_progress].
  intros p. unfold u2b_body_of, u2b_else, u2b_get_of. destruct p as [|b0 r]; [exact I|].
  destruct (b0 <? 128); [cbn [length]; lia|].
  destruct r as [|b1 r1]; [cbn [length replacement]; lia|].
  destruct (Z.land b0 224 =? 192); [rewrite lookup_empty; cbn [length replacement]; lia|].
  destruct r1 as [|b2 r2]; [cbn [length replacement]; lia|].
  destruct (Z.land b0 240 =? 224); [rewrite lookup_empty|]; cbn [length replacement]; lia.
Qed.

Lemma any_state_total h s :
  (exists o, big5_to_utf8_of (tb (after h)) s = Ok o /\ (2 * length o <= 3 * length s)%nat) /\
  (exists o, utf8_to_big5_of (tu (after h)) s = Ok o /\ (length o <= 2 * length s)%nat).
Proof.
  destruct (after_inv h) as [Hb Hu]. split.
  - unfold big5_to_utf8_of. apply (scan_total 2 3 _ (b2u_progress_of _ Hb)). lia.
  - unfold utf8_to_big5_of. destruct (scan_total 1 2 _ (u2b_progress_of _ Hu) (S (length s)) s) as [o [H1 H2]]; [lia|].
    exists o. split; [exact H1 | lia].
Qed.

(* ------------------------------------------------------------------ BBSNAME_BIG5 follows BBSNAME *)

(* what the start-up glue has to establish: the Big5 name is the conversion of the UTF-8 name *)
Definition bbs_ok (t : tabs) (st : bbs) : Prop := utf8_to_big5_of (tu t) (bbs_name st) = Ok (bbs_big5 st).

Lemma bbs_init_config_spec t cfg st st' : bbs_init_config t cfg st = Ok st' ->
  bbs_ok t st' /\ bbs_name st' = match cfg with Some n => n | None => bbs_name st end.
Proof.
  unfold bbs_init_config, set_bbs_name, bbs_ok.
  set (n := bbs_name (match cfg with Some n => mk_bbs n (bbs_big5 st) | None => st end)).
  assert (En : n = match cfg with Some n => n | None => bbs_name st end) by (subst n; destruct cfg; reflexivity).
  destruct (utf8_to_big5_of (tu t) n) as [o| |] eqn:E; cbn [res_map]; try discriminate.
  intros H. inversion H; subst st'. cbn [bbs_name bbs_big5]. split; [exact E | exact En].
Qed.

(* after every ptttype.InitConfig() of every sequence — the first one of a new process (whatever the compiled-in
   values are), with or without a configured name, the same name again, the empty name *)
Lemma bbs_steps_ok t : forall cfgs st sts, bbs_steps t cfgs st = Ok sts -> Forall (bbs_ok t) sts.
Proof.
  induction cfgs as [|c r IH]; intros st sts H; cbn [bbs_steps] in H.
  - inversion H. constructor.
  - destruct (bbs_init_config t c st) as [st1| |] eqn:E1; cbn [res_bind] in H; try discriminate.
    destruct (bbs_steps t r st1) as [l| |] eqn:E2; cbn [res_map] in H; try discriminate.
    inversion H; subst sts. constructor; [exact (proj1 (bbs_init_config_spec _ _ _ _ E1)) | exact (IH _ _ E2)].
Qed.

(* ... and in every state the tables can be in, the steps do return *)
Lemma bbs_steps_total h : forall cfgs st, exists sts, bbs_steps (after h) cfgs st = Ok sts /\ length sts = length cfgs.
Proof.
  induction cfgs as [|c r IH]; intros st; [exists []; split; reflexivity|].
  cbn [bbs_steps]. unfold bbs_init_config at 1, set_bbs_name.
  set (n := bbs_name (match c with Some n => mk_bbs n (bbs_big5 st) | None => st end)).
  destruct (proj2 (any_state_total h n)) as [o [Ho _]]. rewrite Ho. cbn [res_map res_bind].
  destruct (IH (mk_bbs n o)) as [l [Hl Hlen]]. rewrite Hl. cbn [res_map].
  exists (mk_bbs n o :: l). split; [reflexivity | cbn [length]; rewrite Hlen; reflexivity].
Qed.

(* on the loaded tables: BBSNAME_BIG5 is the table-exact conversion the theorems of Props/C17.v describe *)
Lemma tu_mk x y : tu (mk_tabs x y) = y.
Proof. reflexivity. Qed.
Lemma bbs_ok_loaded s : bbs_ok all_tabs s -> utf8_to_big5 (bbs_name s) = Ok (bbs_big5 s).
Proof. unfold bbs_ok, all_tabs. rewrite tu_mk, u2b_of_loaded. intros H. exact H. Qed.

Lemma bbs_steps_loaded cfgs st sts : bbs_steps all_tabs cfgs st = Ok sts ->
  Forall (fun s => utf8_to_big5 (bbs_name s) = Ok (bbs_big5 s)) sts.
Proof.
  intros H. apply bbs_steps_ok in H. induction H as [|s l Hs _ IH]; constructor; [exact (bbs_ok_loaded s Hs) | exact IH].
Qed.

(* ------------------------------------------------------------------ non-vacuity *)

(* the history of seed C17-b1 (first attempt: UTF8_TO_BIG5 unreadable, then the retry), a failed first table:
   the statuses, and which table is there between the attempts (a second start-up after a good one: all_tabs_stable) *)
Example init_examples :
  fst (run_inits [(true, false); (true, true)] no_tabs) = [false; true] /\
  fst (run_inits [(false, true); (true, true)] no_tabs) = [false; true] /\
  (let t := after [(true, false)] in (loaded (tb t), loaded (tu t))) = (true, false) /\
  (let t := after [(false, true)] in (loaded (tb t), loaded (tu t))) = (false, false).
Proof. vm_compute. repeat split; reflexivity. Qed.

Example init_examples_loaded :
  after [(true, false); (true, true)] = all_tabs /\ after [(false, true); (true, true)] = all_tabs.
Proof.
  split.
  - apply (loaded_is_stable [(true, false)] (true, true) []). apply init_retry_succeeds.
  - apply (loaded_is_stable [(false, true)] (true, true) []). apply init_retry_succeeds.
Qed.

(* between the failed attempt and the retry Utf8ToBig5 knows no code point (FF FD), afterwards it does *)
Example half_loaded_example :
  utf8_to_big5_of (tu (after [(true, false)])) [228; 184; 128] = Ok replacement /\
  exists o, utf8_to_big5 [228; 184; 128] = Ok o /\ o <> replacement.
Proof. split; [vm_compute; reflexivity|]. vm_compute. eexists. split; [reflexivity | discriminate]. Qed.

(* the compiled-in names of ptttype/00-config.go agree with the table, and a configured name replaces both *)
Example bbs_examples :
  bbs_ok all_tabs default_bbs /\
  (exists st, bbs_steps all_tabs [Some [230; 184; 172; 97]] default_bbs = Ok [st] /\ bbs_name st = [230; 184; 172; 97] /\ bbs_big5 st <> bbs_big5 default_bbs) /\
  (exists st, bbs_steps all_tabs [Some []] default_bbs = Ok [st] /\ bbs_name st = [] /\ bbs_big5 st = []).
Proof.
  split; [vm_compute; reflexivity|]. split; vm_compute; eexists; repeat split; try reflexivity. discriminate.
Qed.
