(* C01 — partial updates: writing the packed image of one field at the field's offset inside one record
   of a record file changes that field of that record and nothing else. Generic in the record type. *)
From Coq Require Import String.
From Verif Require Import Base.Common Base.ListX Base.RecFile Model.C01 Proofs.C01_codec.
From Coq Require Import ZifyBool.
Ltac Zify.zify_post_hook ::= Z.div_mod_to_equations.
Local Open Scope Z_scope.

Lemma packed_size_fields_nonneg fs : rty_wf_fields fs = true -> 0 <= packed_size_fields fs.
Proof.
  intros H. pose proof (packed_size_nonneg (RStruct fs)) as Hx.
  rewrite packed_size_struct, rty_wf_struct in Hx. exact (Hx H).
Qed.

Lemma packed_offsets_shift fs : forall off i, (i < length fs)%nat ->
  nth i (packed_offsets_from off fs) 0 = off + nth i (packed_offsets_from 0 fs) 0.
Proof.
  induction fs as [|f r IH]; intros off i Hi; [cbn in Hi; lia|].
  destruct i as [|i]; cbn [packed_offsets_from nth]; [lia|].
  cbn [length] in Hi. rewrite (IH (off + packed_size (snd f))) by lia.
  rewrite (IH (0 + packed_size (snd f))) by lia. lia.
Qed.

(* the field lies inside the packed image *)
Lemma packed_offset_bounds fs : rty_wf_fields fs = true -> forall i f, nth_error fs i = Some f ->
  0 <= nth i (packed_offsets_from 0 fs) 0 /\
  nth i (packed_offsets_from 0 fs) 0 + packed_size (snd f) <= packed_size_fields fs.
Proof.
  induction fs as [|g r IH]; intros Hwf i f Hi; [destruct i; discriminate|].
  cbn [rty_wf_fields] in Hwf. apply andb_prop in Hwf. destruct Hwf as [H1 H2].
  pose proof (packed_size_nonneg _ H1). pose proof (packed_size_fields_nonneg r H2).
  destruct i as [|i]; cbn [nth_error] in Hi.
  - inversion Hi; subst. cbn [packed_offsets_from nth packed_size_fields]. lia.
  - cbn [packed_offsets_from nth packed_size_fields].
    assert (Hlt : (i < length r)%nat) by (apply nth_error_Some; congruence).
    rewrite packed_offsets_shift by exact Hlt. destruct (IH H2 i f Hi). lia.
Qed.

Lemma set_nth_0 {A} (a x : A) l : set_nth 0 a (x :: l) = a :: l.
Proof. reflexivity. Qed.

(* decoding after the write gives the old component list with component i replaced *)
Lemma decode_fields_update fs : rty_wf_fields fs = true ->
  forall i f v bs, nth_error fs i = Some f -> wt (snd f) v = true ->
  (Z.to_nat (packed_size_fields fs) <= length bs)%nat ->
  exists vs,
    (forall r, decode_fields fs (firstn (Z.to_nat (packed_size_fields fs)) bs ++ r) = Some (vs, r)) /\
    (forall r, decode_fields fs
                 (firstn (Z.to_nat (packed_size_fields fs))
                    (write_at (Z.to_nat (nth i (packed_offsets_from 0 fs) 0)) (encode (snd f) v) bs) ++ r)
               = Some (set_nth i v vs, r)).
Proof.
  induction fs as [|g fr IH]; intros Hwf i f v bs Hi Hv Hlen; [destruct i; discriminate|].
  cbn [rty_wf_fields] in Hwf. apply andb_prop in Hwf. destruct Hwf as [H1 H2].
  pose proof (packed_size_nonneg _ H1) as Hp1. pose proof (packed_size_fields_nonneg fr H2) as Hp2.
  cbn [packed_size_fields] in *. rewrite Z2Nat.inj_add in * by lia. fold (psz (snd g)) in *.
  set (s1 := psz (snd g)) in *. set (S' := Z.to_nat (packed_size_fields fr)) in *.
  assert (Hfr : Forall (fun f => forall bs, (psz (snd f) <= length bs)%nat ->
                         exists v, forall r, decode (snd f) (firstn (psz (snd f)) bs ++ r) = Some (v, r)) fr).
  { clear - H2. induction fr as [|x fr IHf]; [constructor|]. cbn [rty_wf_fields] in H2.
    apply andb_prop in H2. destruct H2 as [Ha Hb]. constructor; [apply decode_prefix; exact Ha|exact (IHf Hb)]. }
  destruct i as [|i]; cbn [nth_error] in Hi.
  - inversion Hi; subst f. clear Hi.
    destruct (decode_prefix (snd g) H1 bs ltac:(lia)) as (v0 & Hd0).
    destruct (decode_fields_prefix fr Hfr H2 (skipn s1 bs) ltac:(rewrite skipn_length; fold S'; lia)) as (vs & Hds).
    fold S' in Hds. exists (v0 :: vs). split.
    + intros r. cbn [decode_fields]. rewrite firstn_add, <- app_assoc. fold s1. rewrite Hd0, Hds. reflexivity.
    + intros r. cbn [packed_offsets_from nth]. change (Z.to_nat 0) with 0%nat.
      assert (Hel : length (encode (snd g) v) = s1).
      { pose proof (encode_length (snd g) H1 v Hv) as He. unfold lenZ in He. unfold s1, psz. lia. }
      rewrite write_at_inside by lia. cbn [firstn app Nat.add]. rewrite Hel.
      rewrite firstn_add. rewrite firstn_app, Hel, Nat.sub_diag. cbn [firstn]. rewrite app_nil_r.
      rewrite (firstn_all2 (n:=s1)) by lia.
      rewrite skipn_app, Hel, Nat.sub_diag. cbn [skipn]. rewrite (skipn_all2 (n:=s1)) by lia. cbn [app].
      cbn [decode_fields]. rewrite <- app_assoc. rewrite codec_roundtrip_rest by exact Hv.
      rewrite Hds. reflexivity.
  - assert (Hlt : (i < length fr)%nat) by (apply nth_error_Some; congruence).
    destruct (decode_prefix (snd g) H1 bs ltac:(lia)) as (v0 & Hd0).
    destruct (IH H2 i f v (skipn s1 bs) Hi Hv ltac:(rewrite skipn_length; fold S'; lia)) as (vs & Hold & Hnew).
    fold S' in Hold, Hnew. exists (v0 :: vs). split.
    + intros r. cbn [decode_fields]. rewrite firstn_add, <- app_assoc. fold s1. rewrite Hd0, Hold. reflexivity.
    + intros r. cbn [packed_offsets_from nth set_nth]. rewrite packed_offsets_shift by exact Hlt.
      destruct (packed_offset_bounds fr H2 i f Hi) as [Ho1 Ho2].
      rewrite Z2Nat.inj_add by lia. rewrite Z.add_0_l. fold (psz (snd g)). fold s1.
      rewrite write_at_skip by lia.
      rewrite firstn_add. rewrite firstn_app, firstn_length.
      replace (s1 - Nat.min s1 (length bs))%nat with 0%nat by lia. cbn [firstn]. rewrite app_nil_r.
      rewrite firstn_firstn, Nat.min_id.
      rewrite skipn_app, firstn_length. replace (s1 - Nat.min s1 (length bs))%nat with 0%nat by lia. cbn [skipn].
      rewrite (skipn_all2 (n:=s1) (firstn s1 bs)) by (rewrite firstn_length; lia). cbn [app].
      cbn [decode_fields]. rewrite <- app_assoc. rewrite Hd0, Hnew. reflexivity.
Qed.

(* ---------------------------------------------------------------- a record file with records of type t *)
Section Frame.
  Variable t : rty.
  Variable fs : list (string * rty).
  Hypothesis Ht : t = RStruct fs.
  Hypothesis Hwf : rty_wf t = true.
  Hypothesis Hoffs : go_offsets fs = packed_offsets fs.       (* Offsetof = packed offset, every field *)
  Hypothesis Hsize : go_size t = packed_size t.               (* Sizeof = packed size *)

  Let sz : nat := Z.to_nat (go_size t).

  Lemma frame_generic i f uid v file :
    nth_error fs i = Some f -> wt (snd f) v = true -> 1 <= uid -> go_size t * uid <= lenZ file ->
    let file' := field_update t i uid v file in
    let off := Z.to_nat (go_size t * (uid - 1) + field_off t i) in
    let n := psz (snd f) in
    length file' = length file /\
    (sz * Z.to_nat (uid - 1) <= off /\ off + n <= sz * Z.to_nat uid)%nat /\
    firstn off file' = firstn off file /\
    skipn (off + n) file' = skipn (off + n) file /\
    read_at off n file' = encode (snd f) v /\
    (forall k, k <> Z.to_nat (uid - 1) -> record sz k file' = record sz k file) /\
    exists old, decode t (record sz (Z.to_nat (uid - 1)) file) = Some (VList old, []) /\
                decode t (record sz (Z.to_nat (uid - 1)) file') = Some (VList (set_nth i v old), []).
  Proof.
    intros Hi Hv Huid Hlen. cbv zeta.
    assert (Hwff : rty_wf_fields fs = true) by (rewrite Ht, rty_wf_struct in Hwf; exact Hwf).
    assert (Hfw : rty_wf (snd f) = true).
    { clear - Hwff Hi. revert i Hi. induction fs as [|g r IH]; intros i Hi; [destruct i; discriminate|].
      cbn [rty_wf_fields] in Hwff. apply andb_prop in Hwff. destruct Hwff as [H1 H2].
      destruct i as [|i]; cbn [nth_error] in Hi; [inversion Hi; subst; exact H1|exact (IH H2 i Hi)]. }
    destruct (packed_offset_bounds fs Hwff i f Hi) as [Ho1 Ho2].
    assert (HS : go_size t = packed_size_fields fs) by (rewrite Hsize, Ht, packed_size_struct; reflexivity).
    pose proof (packed_size_fields_nonneg fs Hwff) as HSnn.
    pose proof (packed_size_nonneg _ Hfw) as Hfnn.
    assert (Hel : length (encode (snd f) v) = psz (snd f)).
    { pose proof (encode_length (snd f) Hfw v Hv) as He. unfold lenZ in He. unfold psz. lia. }
    assert (Hfo : fields_of t = fs) by (rewrite Ht; reflexivity).
    unfold field_update, field_off, field_ty. rewrite Hfo, Hoffs. unfold packed_offsets.
    rewrite (nth_error_nth fs i (EmptyString, RBool) Hi).
    set (o := nth i (packed_offsets_from 0 fs) 0) in *.
    set (S := go_size t) in *. unfold lenZ in Hlen.
    assert (Hoff : Z.to_nat (S * (uid - 1) + o) = (sz * Z.to_nat (uid - 1) + Z.to_nat o)%nat).
    { unfold sz. fold S. rewrite Z2Nat.inj_add, Z2Nat.inj_mul by nia. reflexivity. }
    assert (Hszu : (sz * Z.to_nat uid = sz * Z.to_nat (uid - 1) + sz)%nat).
    { replace (Z.to_nat uid) with (Datatypes.S (Z.to_nat (uid - 1))) by lia. lia. }
    assert (Hszlen : (sz * Z.to_nat uid <= length file)%nat).
    { unfold sz. fold S. rewrite <- Z2Nat.inj_mul by lia. lia. }
    assert (Hosz : (Z.to_nat o + psz (snd f) <= sz)%nat).
    { unfold sz, psz. fold S. lia. }
    set (a := (sz * Z.to_nat (uid - 1))%nat) in *.
    rewrite Hoff.
    split; [apply write_at_length_inside; lia|].
    split; [lia|].
    split; [apply firstn_write_at; lia|].
    split; [apply skipn_write_at; lia|].
    split; [rewrite <- Hel; apply read_at_write_at|].
    split.
    - intros k Hk. unfold record.
      destruct (Nat.lt_ge_cases k (Z.to_nat (uid - 1))) as [Hlt|Hge].
      + apply read_at_write_at_before; unfold a; nia.
      + apply read_at_write_at_after. unfold a. nia.
    - unfold record. replace (Z.to_nat (uid - 1) * sz)%nat with a by (unfold a; lia).
      rewrite read_at_write_at_within by lia.
      set (rec := read_at a sz file).
      assert (Hrl : length rec = sz) by (apply read_at_length; lia).
      assert (HszS : sz = Z.to_nat (packed_size_fields fs)) by (unfold sz; rewrite HS; reflexivity).
      destruct (decode_fields_update fs Hwff i f v rec Hi Hv ltac:(lia)) as (old & Hold & Hnew).
      exists old. rewrite Ht, !decode_struct. split.
      + specialize (Hold []). rewrite app_nil_r, <- HszS, firstn_all2 in Hold by lia. rewrite Hold. reflexivity.
      + specialize (Hnew []). rewrite app_nil_r, <- HszS in Hnew.
        rewrite firstn_all2 in Hnew by (rewrite write_at_length_inside; lia).
        fold o in Hnew. rewrite Hnew. reflexivity.
  Qed.
End Frame.
