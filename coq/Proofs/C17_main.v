(* C17 — the lemmas Props/C17.v states. Sweeps live in Proofs/C17_sweep_*.v (rebuilt only when
   Gen/Big5Tab.v changes), table-independent lemmas in Proofs/C17_scan.v. *)
From Coq Require Import FMapPositive.
From Verif Require Import Base.Common Gen.Big5Tab Model.C17.
From Verif Require Export Proofs.C17_spec Proofs.C17_scan Proofs.C17_sweep_enc Proofs.C17_sweep_b2u Proofs.C17_sweep_u2b.

Local Strategy expand [b2u_map u2b_map].

(* ------------------------------------------------------------------ keys of short byte strings are distinct *)

Lemma is_byte_range b : is_byte b = true -> 0 <= b < 256.
Proof. unfold is_byte. intros H. apply andb_true_iff in H. destruct H as [H1 H2]. apply Z.leb_le in H1. apply Z.ltb_lt in H2. lia. Qed.

Lemma bkey_inj_short l l' : bytes_ok l = true -> bytes_ok l' = true -> (length l <= 3)%nat -> (length l' <= 3)%nat ->
  bkey l = bkey l' -> l = l'.
Proof.
  intros Hb Hb' Hl Hl' Hk.
  assert (K : bkeyZ l = bkeyZ l').
  { unfold bkey in Hk. apply Z2Pos.inj in Hk; [exact Hk| |].
    - clear - Hb Hl. destruct l as [|a [|b [|c [|d l]]]]; cbn [length] in Hl; try lia; cbn [bytes_ok forallb] in Hb;
        repeat (apply andb_true_iff in Hb; destruct Hb as [?Hx Hb]); repeat match goal with H : is_byte _ = true |- _ => apply is_byte_range in H end;
        unfold bkeyZ; cbn [fold_left]; lia.
    - clear - Hb' Hl'. destruct l' as [|a [|b [|c [|d l]]]]; cbn [length] in Hl'; try lia; cbn [bytes_ok forallb] in Hb';
        repeat (apply andb_true_iff in Hb'; destruct Hb' as [?Hx Hb']); repeat match goal with H : is_byte _ = true |- _ => apply is_byte_range in H end;
        unfold bkeyZ; cbn [fold_left]; lia. }
  clear Hk.
  destruct l as [|a [|b [|c [|d l]]]]; cbn [length] in Hl; try lia;
  destruct l' as [|a' [|b' [|c' [|d' l']]]]; cbn [length] in Hl'; try lia;
  cbn [bytes_ok forallb] in Hb, Hb';
  repeat (apply andb_true_iff in Hb; destruct Hb as [?Hx Hb]); repeat (apply andb_true_iff in Hb'; destruct Hb' as [?Hy Hb']);
  repeat match goal with H : is_byte _ = true |- _ => apply is_byte_range in H end;
  unfold bkeyZ in K; cbn [fold_left] in K; try (exfalso; lia); try reflexivity.
  - f_equal; lia.
  - assert (a = a') by lia. assert (b = b') by lia. subst. reflexivity.
  - assert (a = a') by lia. assert (b = b') by lia. assert (c = c') by lia. subst. reflexivity.
Qed.

Lemma big5_bytes_ok c : 0 <= c < 65536 -> bytes_ok (big5_bytes c) = true.
Proof.
  intros Hc. unfold big5_bytes, bytes_ok, is_byte. cbn [forallb].
  assert (0 <= c / 256 < 256) by (split; [apply Z.div_pos; lia | apply Z.div_lt_upper_bound; lia]).
  pose proof (Z.mod_pos_bound c 256 ltac:(lia)).
  repeat (apply andb_true_iff; split); try apply Z.leb_le; try apply Z.ltb_lt; try lia.
Qed.

(* ------------------------------------------------------------------ Big5 -> UTF-8, table exactness *)

Lemma b2u_pair hi lo : 128 <= hi ->
  big5_to_utf8 [hi; lo] = Ok (match lookup b2u_map [hi; lo] with Some v => v | None => [] end).
Proof.
  intros H. unfold big5_to_utf8. cbn [length]. rewrite scan_S. unfold b2u_body.
  destruct (hi <? 128) eqn:E; [apply Z.ltb_lt in E; lia|].
  assert (E2 : (length (@nil Z) <? length [hi; lo])%nat = true) by reflexivity. rewrite E2.
  cbn [scan res_map]. rewrite app_nil_r. reflexivity.
Qed.

Lemma b2u_table_exact :
  (forall c u, In (c, u) b2u_rows -> 32768 <= c < 65536 /\ big5_to_utf8 (big5_bytes c) = Ok (utf8_std u)) /\
  (forall hi lo, 128 <= hi < 256 -> 0 <= lo < 256 -> (forall u, ~ In (hi * 256 + lo, u) b2u_rows) -> big5_to_utf8 [hi; lo] = Ok []).
Proof.
  split.
  - intros c u Hin. destruct (b2u_row c u Hin) as [Hc [_ [_ H]]]. split; assumption.
  - intros hi lo Hhi Hlo Hno. rewrite b2u_pair by lia.
    destruct (lookup b2u_map [hi; lo]) as [v|] eqn:E; [exfalso | reflexivity].
    apply b2u_lookup_sound in E. destruct E as [c [u [Hin [Hk _]]]].
    destruct (b2u_row c u Hin) as [Hc _].
    apply bkey_inj_short in Hk; [| | apply big5_bytes_ok; lia | cbn [length]; lia | cbn [length big5_bytes]; lia].
    + unfold big5_bytes in Hk. inversion Hk as [[Eh El]]. apply (Hno u).
      replace (hi * 256 + lo) with c; [exact Hin|]. rewrite (Z.div_mod c 256) by lia. lia.
    + unfold bytes_ok, is_byte. cbn [forallb]. repeat (apply andb_true_iff; split); try apply Z.leb_le; try apply Z.ltb_lt; try lia.
Qed.

(* a code has at most one entry *)
Lemma b2u_rows_functional c u u' : In (c, u) b2u_rows -> In (c, u') b2u_rows -> u = u'.
Proof.
  intros H H'. destruct (b2u_row c u H) as [_ [Hs [_ E]]]. destruct (b2u_row c u' H') as [_ [Hs' [_ E']]].
  rewrite E in E'. inversion E' as [E2]. apply utf8_std_inj; auto using scalar_range.
Qed.

(* ------------------------------------------------------------------ UTF-8 -> Big5, table exactness *)

(* a sequence whose lead byte selects the arm that consumes all of it is looked up as a whole *)
Lemma u2b_char s : lead_shape s = true -> utf8_to_big5 s = Ok (u2b_get s).
Proof.
  destruct s as [|b0 [|b1 [|b2 [|b3 s]]]]; cbn [lead_shape]; try discriminate; intros H.
  - apply andb_true_iff in H. destruct H as [H1 H2]. apply negb_true_iff in H1.
    unfold utf8_to_big5. cbn [length]. rewrite scan_S. unfold u2b_body. rewrite H1, H2.
    assert (E2 : (length (@nil Z) <? length [b0; b1])%nat = true) by reflexivity. rewrite E2.
    cbn [scan res_map]. rewrite app_nil_r. reflexivity.
  - apply andb_true_iff in H. destruct H as [H H3]. apply andb_true_iff in H. destruct H as [H1 H2].
    apply negb_true_iff in H1. apply negb_true_iff in H2.
    unfold utf8_to_big5. cbn [length]. rewrite scan_S. unfold u2b_body. rewrite H1, H2, H3.
    assert (E2 : (length (@nil Z) <? length [b0; b1; b2])%nat = true) by reflexivity. rewrite E2.
    cbn [scan res_map]. rewrite app_nil_r. reflexivity.
Qed.

Lemma lead_shape_len s : lead_shape s = true -> (2 <= length s <= 3)%nat.
Proof. destruct s as [|b0 [|b1 [|b2 [|b3 s]]]]; cbn [lead_shape length]; try discriminate; lia. Qed.

Lemma u2b_table_exact :
  (forall c u, In (c, u) u2b_rows -> 128 <= u -> utf8_to_big5 (utf8_std u) = Ok (big5_bytes c)) /\
  (forall u, 128 <= u < 65536 -> (forall c, ~ In (c, u) u2b_rows) -> utf8_to_big5 (utf8_std u) = Ok replacement).
Proof.
  split.
  - intros c u Hin Hu. destruct (u2b_row c u Hin) as [_ [_ H]]. destruct (H Hu) as [_ H2]. exact H2.
  - intros u Hu Hno. destruct (enc_ok u Hu) as [_ [Hshape [Hbytes _]]].
    rewrite (u2b_char _ Hshape). unfold u2b_get.
    destruct (lookup u2b_map (utf8_std u)) as [v|] eqn:E; [exfalso | reflexivity].
    apply u2b_lookup_sound in E. destruct E as [c [u' [Hin [Hk _]]]].
    destruct (u2b_row c u' Hin) as [_ [Hu' _]].
    pose proof (lead_shape_len _ Hshape) as Hlen.
    apply bkey_inj_short in Hk; [| exact Hbytes | apply utf8_enc_bytes | lia | apply utf8_enc_len].
    destruct (Z_lt_ge_dec u' 128) as [Hsmall|Hbig].
    + (* rows below 0x80 all collapse to the key "\0" *)
      assert (H0 : enc_ok1 u' = true).
      { apply (zsweep enc_ok1 0 (Z.to_nat 65536) enc_sweep). rewrite Z2Nat.id by lia. lia. }
      unfold enc_ok1 in H0. apply Z.ltb_lt in Hsmall. rewrite Hsmall in H0. apply zlist_eqb_eq in H0.
      rewrite H0 in Hk. rewrite Hk in Hlen. cbn [length] in Hlen. lia.
    + destruct (enc_ok u' ltac:(lia)) as [He _]. rewrite He in Hk.
      apply utf8_std_inj in Hk; [|lia|lia]. subst u'. exact (Hno c Hin).
Qed.

(* ------------------------------------------------------------------ Big5 -> UTF-8 yields well-formed UTF-8 *)

Lemma b2u_valid_utf8 s o : bytes_ok s = true -> big5_to_utf8 s = Ok o -> utf8_valid o = true.
Proof.
  unfold big5_to_utf8.
  apply (scan_inv b2u_body (fun p => bytes_ok p = true) (fun o => utf8_valid o = true)); [reflexivity|].
  intros p out rest HG Hb. unfold b2u_body in Hb. destruct p as [|b0 r]; [discriminate|].
  cbn [bytes_ok forallb] in HG. apply andb_true_iff in HG. destruct HG as [Hb0 Hr]. apply is_byte_range in Hb0.
  destruct (b0 <? 128) eqn:E.
  - inversion Hb; subst. split; [exact Hr|]. intros tail Ht. apply Z.ltb_lt in E.
    cbn [app utf8_valid]. assert (A : is_ascii b0 = true).
    { unfold is_ascii. apply andb_true_iff. split; [apply Z.leb_le | apply Z.ltb_lt]; lia. }
    rewrite A. exact Ht.
  - destruct r as [|b1 r1]; [discriminate|]. cbn [forallb] in Hr. apply andb_true_iff in Hr. destruct Hr as [_ Hr1].
    inversion Hb; subst. split; [exact Hr1|]. intros tail Ht.
    destruct (lookup b2u_map [b0; b1]) as [v|] eqn:L; [|exact Ht].
    apply b2u_lookup_sound in L. destruct L as [c [u [Hin [_ Hv]]]]. subst v.
    destruct (b2u_row c u Hin) as [_ [Hs _]].
    destruct (enc_ok u (scalar_range u Hs)) as [He [_ [_ [_ Hw]]]]. rewrite He.
    rewrite wf1_app; [exact Ht | apply Hw; exact Hs].
Qed.

(* ------------------------------------------------------------------ mutual round trip *)

Lemma mutual_roundtrip c u : In (c, u) b2u_rows -> In (c, u) u2b_rows ->
  big5_to_utf8 (big5_bytes c) = Ok (utf8_std u) /\ utf8_to_big5 (utf8_std u) = Ok (big5_bytes c).
Proof.
  intros Hb Hu. destruct (b2u_row c u Hb) as [_ [Hs [_ H1]]]. split; [exact H1|].
  destruct (u2b_row c u Hu) as [_ [_ H]]. pose proof (scalar_range u Hs). destruct H as [_ H2]; [lia | exact H2].
Qed.

(* ------------------------------------------------------------------ round trip of whole strings *)

Lemma scan_fuel body a b : progress a b body ->
  forall f1 f2 p, (length p < f1)%nat -> (length p < f2)%nat -> scan body f1 p = scan body f2 p.
Proof.
  intros Hp. induction f1 as [|f1 IH]; intros f2 p H1 H2; [lia|].
  destruct f2 as [|f2]; [lia|]. destruct p as [|x p]; [reflexivity|].
  rewrite !scan_S. specialize (Hp (x :: p)). destruct (body (x :: p)) as [|out rest]; [reflexivity|].
  destruct Hp as [Hlt _]. apply Nat.ltb_lt in Hlt as Hlt'. rewrite Hlt'.
  rewrite (IH f2 rest); [reflexivity | lia | lia].
Qed.

(* one iteration, then the conversion of what is left *)
Lemma scan_step body a b : progress a b body -> forall x p,
  scan body (S (length (x :: p))) (x :: p) =
  match body (x :: p) with Stop => Ok [] | Adv out rest => res_map (app out) (scan body (S (length rest)) rest) end.
Proof.
  intros Hp x p. rewrite scan_S. pose proof (Hp (x :: p)) as H. destruct (body (x :: p)) as [|out rest]; [reflexivity|].
  destruct H as [Hlt _]. apply Nat.ltb_lt in Hlt as Hlt'. rewrite Hlt'.
  rewrite (scan_fuel body a b Hp (length (x :: p)) (S (length rest)) rest); [reflexivity | lia | lia].
Qed.

Lemma b2u_cons_ascii b s : b < 128 -> big5_to_utf8 (b :: s) = res_map (app [b]) (big5_to_utf8 s).
Proof.
  intros Hb. unfold big5_to_utf8. rewrite (scan_step _ _ _ b2u_progress). unfold b2u_body.
  apply Z.ltb_lt in Hb. rewrite Hb. reflexivity.
Qed.

Lemma u2b_cons_ascii b s : b < 128 -> utf8_to_big5 (b :: s) = res_map (app [b]) (utf8_to_big5 s).
Proof.
  intros Hb. unfold utf8_to_big5. rewrite (scan_step _ _ _ u2b_progress). unfold u2b_body.
  apply Z.ltb_lt in Hb. rewrite Hb. reflexivity.
Qed.

Lemma b2u_cons_code c u s : In (c, u) b2u_rows -> big5_to_utf8 (big5_bytes c ++ s) = res_map (app (utf8_std u)) (big5_to_utf8 s).
Proof.
  intros Hin. destruct (b2u_row c u Hin) as [Hc [Hs [Hl _]]].
  destruct (enc_ok u (scalar_range u Hs)) as [He _].
  unfold big5_bytes in *. cbn [app]. unfold big5_to_utf8. rewrite (scan_step _ _ _ b2u_progress). unfold b2u_body.
  assert (E : (c / 256 <? 128) = false).
  { apply Z.ltb_ge. apply Z.div_le_lower_bound; lia. }
  rewrite E, Hl, He. reflexivity.
Qed.

Lemma u2b_body_shape s t : lead_shape s = true -> u2b_body (s ++ t) = Adv (u2b_get s) t.
Proof.
  destruct s as [|b0 [|b1 [|b2 [|b3 s]]]]; cbn [lead_shape]; try discriminate; intros H.
  - apply andb_true_iff in H. destruct H as [H1 H2]. apply negb_true_iff in H1.
    cbn [app]. unfold u2b_body. rewrite H1, H2. reflexivity.
  - apply andb_true_iff in H. destruct H as [H H3]. apply andb_true_iff in H. destruct H as [H1 H2].
    apply negb_true_iff in H1. apply negb_true_iff in H2.
    cbn [app]. unfold u2b_body. rewrite H1, H2, H3. reflexivity.
Qed.

Lemma u2b_cons_code c u t : In (c, u) u2b_rows -> 128 <= u ->
  utf8_to_big5 (utf8_std u ++ t) = res_map (app (big5_bytes c)) (utf8_to_big5 t).
Proof.
  intros Hin Hu. destruct (u2b_row c u Hin) as [_ [Hr H]]. destruct (H Hu) as [Hl _].
  destruct (enc_ok u ltac:(lia)) as [_ [Hshape _]].
  pose proof (u2b_body_shape _ t Hshape) as Hb.
  destruct (utf8_std u ++ t) as [|x p] eqn:E.
  { apply lead_shape_len in Hshape. apply (f_equal (@length Z)) in E. rewrite app_length in E. cbn [length] in E. lia. }
  unfold utf8_to_big5. rewrite (scan_step _ _ _ u2b_progress). rewrite Hb.
  unfold u2b_get. rewrite Hl. reflexivity.
Qed.

(* ASCII in front of anything is copied and does not disturb the conversion of the rest *)
Lemma b2u_ascii_prefix a s : all_ascii a -> big5_to_utf8 (a ++ s) = res_map (app a) (big5_to_utf8 s).
Proof.
  induction a as [|b a IH]; intros Ha; cbn [app]; [destruct (big5_to_utf8 s); reflexivity|].
  inversion Ha as [|? ? Hb Ha']; subst. rewrite (b2u_cons_ascii b (a ++ s) Hb), (IH Ha'). destruct (big5_to_utf8 s); reflexivity.
Qed.
Lemma u2b_ascii_prefix a s : all_ascii a -> utf8_to_big5 (a ++ s) = res_map (app a) (utf8_to_big5 s).
Proof.
  induction a as [|b a IH]; intros Ha; cbn [app]; [destruct (utf8_to_big5 s); reflexivity|].
  inversion Ha as [|? ? Hb Ha']; subst. rewrite (u2b_cons_ascii b (a ++ s) Hb), (IH Ha'). destruct (utf8_to_big5 s); reflexivity.
Qed.

(* a Big5 string made of ASCII bytes and of codes both tables map to each other, and its UTF-8 counterpart *)
Inductive mutual_str : list Z -> list Z -> Prop :=
| ms_nil : mutual_str [] []
| ms_ascii b s t : b < 128 -> mutual_str s t -> mutual_str (b :: s) (b :: t)
| ms_code c u s t : In (c, u) b2u_rows -> In (c, u) u2b_rows -> mutual_str s t -> mutual_str (big5_bytes c ++ s) (utf8_std u ++ t).

Lemma mutual_str_roundtrip s t : mutual_str s t -> big5_to_utf8 s = Ok t /\ utf8_to_big5 t = Ok s.
Proof.
  induction 1 as [|b s t Hb _ [IH1 IH2]|c u s t Hb Hu _ [IH1 IH2]].
  - split; reflexivity.
  - rewrite (b2u_cons_ascii b s Hb), (u2b_cons_ascii b t Hb), IH1, IH2. split; reflexivity.
  - destruct (b2u_row c u Hb) as [_ [Hs _]]. pose proof (scalar_range u Hs).
    rewrite (b2u_cons_code c u s Hb), (u2b_cons_code c u t Hu) by lia. rewrite IH1, IH2. split; reflexivity.
Qed.

Example mutual_str_nonempty : exists c u, In (c, u) b2u_rows /\ mutual_str (65 :: big5_bytes c ++ [66]) (65 :: utf8_std u ++ [66]).
Proof.
  destruct mutual_nonempty as [c [u [Hb [Hu _]]]]. exists c, u. split; [exact Hb|].
  apply ms_ascii; [lia|]. apply ms_code; [exact Hb | exact Hu|]. apply ms_ascii; [lia | apply ms_nil].
Qed.

(* ------------------------------------------------------------------ non-vacuity: the model on concrete inputs *)

(* (inputs that do not depend on what the tables contain) *)
Example model_examples :
  big5_to_utf8 [72; 105] = Ok [72; 105] /\ utf8_to_big5 [72; 105] = Ok [72; 105] /\ all_ascii [72; 105] /\
  big5_to_utf8 [72; 164] = Ok [72] /\                                          (* dangling lead byte: dropped *)
  bytes_ok [72; 164] = true /\ utf8_valid [72] = true /\
  utf8_to_big5 [240; 159; 152; 128] = Ok [255; 253; 255; 253; 255; 253; 255; 253] /\   (* the three inputs that used to stall *)
  utf8_to_big5 [128] = Ok [255; 253] /\
  utf8_to_big5 [228; 184] = Ok [255; 253; 255; 253] /\
  utf8_valid [228; 184; 128; 65] = true /\ utf8_valid [237; 160; 128] = false /\ utf8_valid [192; 128] = false /\ utf8_valid [128] = false.
Proof. vm_compute. repeat split; try reflexivity; repeat constructor. Qed.
