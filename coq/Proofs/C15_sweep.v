(* C15 — the expiry sweep tryCleanUser runs inside SetupNewUser on a full table (Model/C15.v, last section). *)
From Verif Require Import Base.Common Gen.Consts_default Model.C15.
From Coq Require Import Arith PeanoNat.

(* the longest distance now - LastLogin (seconds) at which no account of any kind is killed:
   (30 + CLEAN_USER_EXPIRE_RANGE_MIN + 1) minutes - 1 second *)
Definition SPARE_SECONDS : Z := 15769860.

(* an account is live for a clock reading [now] when its stamp is less than SPARE_SECONDS before it — or AFTER it *)
Definition live (now : Z) (r : srec) : Prop := -2147483648 <= now - snd r < SPARE_SECONDS.

Lemma wrap32_id z : -2147483648 <= z < 2147483648 -> wrap32 z = z.
Proof. intros H. unfold wrap32. rewrite Z.mod_small by lia. lia. Qed.

Lemma quot_bound d : d < SPARE_SECONDS -> Z.quot d 60 <= 262830.
Proof.
  intros H. unfold SPARE_SECONDS in H.
  assert (Hm : Z.quot d 60 <= Z.quot 15769859 60) by (apply Z.quot_le_mono; lia).
  replace (Z.quot 15769859 60) with 262830 in Hm by (vm_compute; reflexivity). exact Hm.
Qed.

Lemma sweep_spares now id lv ll :
  -2147483648 <= now - ll < SPARE_SECONDS -> sweep_kills now id lv ll = false.
Proof.
  intros H. unfold sweep_kills, expire_value.
  destruct (is_empty id || negb (Z.land lv ptttype.PERM_XEMPT =? 0) || eqbl id ID_GUEST); [reflexivity|].
  rewrite wrap32_id by (unfold SPARE_SECONDS in H; lia).
  pose proof (quot_bound (now - ll) (proj2 H)) as Hq.
  set (m := Z.quot (now - ll) 60) in *.
  unfold ptttype.CLEAN_USER_EXPIRE_RANGE_MIN, KEEP_DAYS_REGGED, KEEP_DAYS_UNREGGED.
  apply andb_false_iff. right. apply Z.ltb_ge.
  destruct (eqbl id ID_REGNEW); [lia|].
  destruct (negb (Z.land lv (ptttype.PERM_LOGINOK + ptttype.PERM_VIOLATELAW) =? 0)); lia.
Qed.

Lemma sweep_rec_live now r : live now r -> sweep_rec now r = r.
Proof.
  destruct r as [[id lv] ll]. unfold live. cbn [snd]. intros H. unfold sweep_rec.
  rewrite sweep_spares by exact H. reflexivity.
Qed.

Lemma sweep_identity now t : Forall (live now) t -> sweep now t = t.
Proof.
  intros H. destruct t as [|r0 rest]; [reflexivity|]. cbn [sweep]. f_equal.
  inversion H as [|? ? _ Hr]; subst. clear H.
  induction Hr as [|r l Hl _ IH]; [reflexivity|]. cbn [map]. rewrite sweep_rec_live by exact Hl. f_equal. exact IH.
Qed.

Lemma sweep_length now t : length (sweep now t) = length t.
Proof. destruct t; cbn [sweep length]; [reflexivity|]. rewrite map_length. reflexivity. Qed.

Lemma sweep_rec_cases now r : sweep_rec now r = r \/ sweep_rec now r = srec_empty.
Proof. destruct r as [[id lv] ll]. unfold sweep_rec. destruct (sweep_kills now id lv ll); auto. Qed.

Lemma sweep_only_frees now t k :
  nth k (sweep now t) srec_empty = nth k t srec_empty \/ nth k (sweep now t) srec_empty = srec_empty.
Proof.
  destruct t as [|r0 rest]; [left; reflexivity|]. cbn [sweep]. destruct k as [|k]; [left; reflexivity|]. cbn [nth].
  revert k. induction rest as [|r l IH]; intros k; [left; reflexivity|].
  cbn [map]. destruct k as [|k]; cbn [nth]; [apply sweep_rec_cases|apply IH].
Qed.

(* the slot of a live account is not freed, whatever the other accounts are *)
Lemma sweep_keeps_live now t k : live now (nth k t srec_empty) -> nth k (sweep now t) srec_empty = nth k t srec_empty.
Proof.
  destruct t as [|r0 rest]; [reflexivity|]. cbn [sweep]. destruct k as [|k]; [reflexivity|]. cbn [nth].
  revert k. induction rest as [|r l IH]; intros k H; [reflexivity|].
  cbn [map]. destruct k as [|k]; cbn [nth] in *; [apply sweep_rec_live; exact H|apply IH; exact H].
Qed.

Lemma sw_full_stays_full now t : Forall (live now) t -> sw_free t 0 = None -> sw_free (sweep now t) 0 = None.
Proof. intros H F. rewrite sweep_identity by exact H. exact F. Qed.

(* the step that leaves reg.checked (sweep + PasswdLock) does not touch a table of live accounts *)
Lemma sw_step_checked_keeps now ids lls tab stale pcs t tab' stale' pcs' v :
  Forall (live now) tab -> nth t pcs (9, 0) = (1, v) ->
  sw_step now ids lls (tab, stale, pcs) t = Some (tab', stale', pcs') -> tab' = tab.
Proof.
  intros L P. unfold sw_step. rewrite P. cbn [Z.eqb Pos.eqb].
  destruct (existsb _ pcs); [discriminate|].
  intros E. inversion E as [[E1 E2 E3]]. destruct (stale && _); [apply sweep_identity; exact L|reflexivity].
Qed.
