(* C02 — one dEncrypt step of the Go code is one textbook Feistel round with the salted E-box, for ALL 32-bit halves,
   ALL 48-bit round keys (placed by [place], Proofs/C02_KeySched.v) and ALL 12-bit salts.

   Representation: a 32-bit half L (FIPS bits 1..32) is the word [hw L] with FIPS bit q at word bit q mod 32 (fcrypt's
   rotated representation); the salt bits 0..5 are E0, bits 6..11 are E1 >> 4.
   Two layers:
   - linear layer (E expansion, salt swap, key xor): the eight 6-bit S-box indices dEncrypt computes are the eight
     6-bit groups of  salt_swap (E R) xor K . Proved by bit-blasting dEncrypt's shifts and masks on 92 boolean
     variables (Proofs/C02_Bits.v) and checking the 48 resulting boolean identities by case analysis;
   - S-box layer: every SPtrans[i][x] is, as a word, P applied to the output of S-box i+1 on x placed among zeros
     (a sweep over all 512 entries), so the OR of the eight lookups is P of the whole S-box layer. *)
From Verif Require Import Base.Common Base.Sweep Gen.CryptTab Model.C02 Model.C02_DesSpec Proofs.C02_Core Proofs.C02_Tables Proofs.C02_Sym Proofs.C02_Perm Proofs.C02_KeySched Proofs.C02_Bits.

(* ---------------------------------------------------------------- representation *)

Definition hwl (b : list bool) : list bool := map (fun j => nth ((j + 31) mod 32) b false) (seq 0 32).
Definition hw (b : list bool) : Z := ofbits (hwl b).
Definition E0_of (sb : list bool) : Z := ofbits (firstn 6 sb).
Definition E1_of (sb : list bool) : Z := ofbits (repeat false 4 ++ firstn 6 (skipn 6 sb)).

Lemma hw_range b : 0 <= hw b < 2 ^ 32.
Proof. unfold hw. pose proof (ofbits_range (hwl b)) as H. unfold hwl in H. rewrite map_length, seq_length in H. exact H. Qed.

(* ---------------------------------------------------------------- dEncrypt split in its two layers *)

Definition go_u (R E0 k0 : Z) : Z :=
  let t := Z.lxor R (shr R 16) in
  let u := Z.land t E0 in
  Z.lxor (Z.lxor (Z.lxor u (shl32 u 16)) R) k0.
Definition go_t (R E1 k1 : Z) : Z :=
  let t := Z.lxor R (shr R 16) in
  let t := Z.land t E1 in
  let t := Z.lxor (Z.lxor (Z.lxor t (shl32 t 16)) R) k1 in
  Z.lor (shr t 4) (shl32 t 28).
Definition sp_or (x0 x1 x2 x3 x4 x5 x6 x7 : Z) : Z :=
  Z.lor (Z.lor (Z.lor (Z.lor (Z.lor (Z.lor (Z.lor
    (tab SPtrans 1 x1) (tab SPtrans 3 x3)) (tab SPtrans 5 x5)) (tab SPtrans 7 x7))
    (tab SPtrans 0 x0)) (tab SPtrans 2 x2)) (tab SPtrans 4 x4)) (tab SPtrans 6 x6).

Lemma d_encrypt_layers L R E0 E1 k0 k1 :
  d_encrypt L R E0 E1 k0 k1 =
  let u := go_u R E0 k0 in let t := go_t R E1 k1 in
  Z.lxor L (sp_or (Z.land u 63) (Z.land t 63) (Z.land (shr u 8) 63) (Z.land (shr t 8) 63)
                  (Z.land (shr u 16) 63) (Z.land (shr t 16) 63) (Z.land (shr u 24) 63) (Z.land (shr t 24) 63)).
Proof. unfold d_encrypt, go_u, go_t, sp_or. cbv zeta. reflexivity. Qed.

(* ---------------------------------------------------------------- linear layer *)

Definition ebits (sb Rb K : list bool) : list bool := xorl (salt_swap sb (perm E Rb)) K.
Definition slice (y : list bool) (o : nat) : list bool := firstn 6 (skipn o y).

Tactic Notation "destruct_list" ident(l) integer(n) :=
  do n (destruct l as [|? l]; [discriminate|]); destruct l; [|discriminate].
Ltac bool_taut :=
  repeat match goal with |- context [?v] => is_var v; match type of v with bool => destruct v end end; reflexivity.
Ltac list_taut := repeat match goal with |- _ :: _ = _ :: _ => f_equal end; bool_taut.

Lemma idx_u sb Rb K : length sb = 12%nat -> length Rb = 32%nat -> length K = 48%nat ->
  let u := go_u (hw Rb) (E0_of sb) (place 0 K) in
  Z.land u 63 = ofbits (slice (ebits sb Rb K) 0) /\
  Z.land (shr u 8) 63 = ofbits (slice (ebits sb Rb K) 12) /\
  Z.land (shr u 16) 63 = ofbits (slice (ebits sb Rb K) 24) /\
  Z.land (shr u 24) 63 = ofbits (slice (ebits sb Rb K) 36).
Proof.
  intros Hs HR HK. cbv zeta.
  destruct_list sb 12. destruct_list Rb 32. destruct_list K 48. clear Hs HR HK.
  unfold go_u, hw, E0_of, place. cbv zeta.
  rewrite ?ofbits_shr, ?ofbits_xor, ?ofbits_and, ?ofbits_shl32, ?ofbits_xor, ?ofbits_shr, ?ofbits_and63 by lia.
  repeat split; apply f_equal; cbv; list_taut.
Qed.

Lemma idx_t sb Rb K : length sb = 12%nat -> length Rb = 32%nat -> length K = 48%nat ->
  let t := go_t (hw Rb) (E1_of sb) (place 1 K) in
  Z.land t 63 = ofbits (slice (ebits sb Rb K) 6) /\
  Z.land (shr t 8) 63 = ofbits (slice (ebits sb Rb K) 18) /\
  Z.land (shr t 16) 63 = ofbits (slice (ebits sb Rb K) 30) /\
  Z.land (shr t 24) 63 = ofbits (slice (ebits sb Rb K) 42).
Proof.
  intros Hs HR HK. cbv zeta.
  destruct_list sb 12. destruct_list Rb 32. destruct_list K 48. clear Hs HR HK.
  unfold go_t, hw, E1_of, place. cbv zeta.
  rewrite ?ofbits_shr, ?ofbits_xor, ?ofbits_and, ?ofbits_shl32, ?ofbits_xor, ?ofbits_shr, ?ofbits_shl32, ?ofbits_or, ?ofbits_shr, ?ofbits_and63 by lia.
  repeat split; apply f_equal; cbv; list_taut.
Qed.

(* ---------------------------------------------------------------- S-box layer *)

(* output bit k (0-based, of 4) of S-box i+1 on the six input bits bs (b1 first) *)
Definition sbit_of (i : nat) (bs : list bool) (k : nat) : bool := nth k (sbox_layer [nth i SBOXES []] bs) false.

(* the 32 bits (word order) of P applied to the S-box layer output in which only box i+1 contributes *)
Definition sp_bits (i : nat) (bs : list bool) : list bool :=
  map (fun j => let q := if (j =? 0)%nat then 32%nat else j in
                let s := nth (q - 1) P O in
                if ((s - 1) / 4 =? i)%nat then sbit_of i bs ((s - 1) mod 4) else false) (seq 0 32).

Definition sp_bits_ok (n : Z) : bool :=
  let i := Z.to_nat (n / 64) in let x := n mod 64 in
  tab SPtrans i x =? ofbits (sp_bits i (map (Z.testbit x) [0; 1; 2; 3; 4; 5])).
Lemma sp_bits_sweep : forallb sp_bits_ok (zrange 512) = true.
Proof. vm_compute. reflexivity. Qed.

Lemma sp_tab_bits i bs : (i < 8)%nat -> length bs = 6%nat -> tab SPtrans i (ofbits bs) = ofbits (sp_bits i bs).
Proof.
  intros Hi Hl. destruct_list bs 6. clear Hl.
  pose proof (ofbits_range [b; b0; b1; b2; b3; b4]) as Hx. cbn [length] in Hx. change (2 ^ Z.of_nat 6) with 64 in Hx.
  set (x := ofbits [b; b0; b1; b2; b3; b4]) in *.
  pose proof (sweep sp_bits_ok 512 sp_bits_sweep (64 * Z.of_nat i + x) ltac:(lia)) as H.
  unfold sp_bits_ok in H. cbv zeta in H.
  replace ((64 * Z.of_nat i + x) / 64) with (Z.of_nat i) in H by (apply Z.div_unique with x; lia).
  replace ((64 * Z.of_nat i + x) mod 64) with x in H by (apply Z.mod_unique with (Z.of_nat i); lia).
  rewrite Nat2Z.id in H. apply Z.eqb_eq in H. rewrite H. unfold x. rewrite testbits_ofbits6. reflexivity.
Qed.

(* the S-box layer on 48 bits, box by box *)
Lemma sbox_layer_bits y : length y = 48%nat ->
  sbox_layer SBOXES y =
  flat_map (fun i => map (sbit_of i (slice y (6 * i))) [0; 1; 2; 3]%nat) [0; 1; 2; 3; 4; 5; 6; 7]%nat.
Proof. intros Hl. destruct_list y 48. reflexivity. Qed.

Lemma slice_length y o : (o + 6 <= length y)%nat -> length (slice y o) = 6%nat.
Proof. intros H. unfold slice. rewrite firstn_length, skipn_length. lia. Qed.

Opaque sbit_of.

Lemma sp_or_is_P_after_S y : length y = 48%nat ->
  sp_or (ofbits (slice y 0)) (ofbits (slice y 6)) (ofbits (slice y 12)) (ofbits (slice y 18))
        (ofbits (slice y 24)) (ofbits (slice y 30)) (ofbits (slice y 36)) (ofbits (slice y 42)) =
  hw (perm P (sbox_layer SBOXES y)).
Proof.
  intros Hl. unfold sp_or. rewrite !sp_tab_bits by (try lia; apply slice_length; lia).
  rewrite !ofbits_or. rewrite (sbox_layer_bits y Hl). unfold hw. apply f_equal.
  cbv [sp_bits bor hwl perm P map seq flat_map app nth Nat.eqb Nat.sub Nat.div Nat.modulo Nat.divmod fst snd Nat.add Nat.mul].
  rewrite ?orb_false_r, ?orb_false_l. reflexivity.
Qed.

Transparent sbit_of.

(* ---------------------------------------------------------------- one round *)

Lemma hw_xor a b : length a = 32%nat -> length b = 32%nat -> Z.lxor (hw a) (hw b) = hw (xorl a b).
Proof.
  intros Ha Hb. destruct_list a 32. destruct_list b 32. unfold hw. rewrite ofbits_xor. reflexivity.
Qed.

Lemma feistel_length sb R K : length (feistel sb R K) = 32%nat.
Proof. unfold feistel, perm. rewrite map_length. reflexivity. Qed.

Lemma ebits_length sb Rb K : length K = 48%nat -> length (ebits sb Rb K) = 48%nat.
Proof.
  intros HK. unfold ebits, xorl, salt_swap. rewrite map_length, combine_length, map_length, seq_length. lia.
Qed.

Theorem d_encrypt_is_feistel sb Lb Rb K :
  length sb = 12%nat -> length Lb = 32%nat -> length Rb = 32%nat -> length K = 48%nat ->
  d_encrypt (hw Lb) (hw Rb) (E0_of sb) (E1_of sb) (place 0 K) (place 1 K) = hw (xorl Lb (feistel sb Rb K)).
Proof.
  intros Hs HL HR HK. rewrite d_encrypt_layers. cbv zeta.
  destruct (idx_u sb Rb K Hs HR HK) as (U0 & U1 & U2 & U3). destruct (idx_t sb Rb K Hs HR HK) as (T0 & T1 & T2 & T3).
  rewrite U0, U1, U2, U3, T0, T1, T2, T3.
  rewrite (sp_or_is_P_after_S (ebits sb Rb K) (ebits_length sb Rb K HK)).
  fold (feistel sb Rb K). apply hw_xor; [exact HL|apply feistel_length].
Qed.

Example round_ex :
  let sb := map (Z.testbit 2741) (zrange 12) in let Lb := map (Z.testbit 3141592653) (zrange 32) in
  let Rb := map (Z.testbit 2718281828) (zrange 32) in let K := map (Z.testbit 123456789012345) (zrange 48) in
  d_encrypt (hw Lb) (hw Rb) (E0_of sb) (E1_of sb) (place 0 K) (place 1 K) = hw (xorl Lb (feistel sb Rb K)) /\
  hw (xorl Lb (feistel sb Rb K)) <> hw Lb.
Proof. split; vm_compute; [reflexivity|discriminate]. Qed.
