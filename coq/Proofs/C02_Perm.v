(* C02 — the two word-level permutation networks of fcrypt that do not depend on tables, proved for ALL inputs by
   symbolic evaluation (Proofs/C02_Sym.v): the head of desSetKey is PC1, the tail of body is FP (on the rotated
   representation in which FIPS bit j of a 32-bit half sits at word bit j mod 32). *)
From Verif Require Import Base.Common Base.Sweep Model.C02 Model.C02_DesSpec Proofs.C02_Sym.

(* ---------------------------------------------------------------- final permutation *)

Definition sfinal (l r : sword) : sword * sword :=
  let r1 := sand (slor (sshr l 1) (sshl l 31)) 4294967295 in
  let l1 := sand (slor (sshr r 1) (sshl r 31)) 4294967295 in
  let p1 := sPermOp r1 l1 1 1431655765 in            (* (r, l) *)
  let p2 := sPermOp (snd p1) (fst p1) 8 16711935 in   (* (l, r) *)
  let p3 := sPermOp (snd p2) (fst p2) 2 858993459 in  (* (r, l) *)
  let p4 := sPermOp (snd p3) (fst p3) 16 65535 in     (* (l, r) *)
  let p5 := sPermOp (snd p4) (fst p4) 4 252645135 in  (* (r, l) *)
  (snd p5, fst p5).

Lemma final_repr x0 x1 : 0 <= x0 < 2 ^ 32 -> 0 <= x1 < 2 ^ 32 ->
  repr (fst (sfinal (svar 0) (svar 1))) (fst (final_perm x0 x1)) (X64 x0 x1) /\
  repr (snd (sfinal (svar 0) (svar 1))) (snd (final_perm x0 x1)) (X64 x0 x1).
Proof.
  intros H0 H1. set (X := X64 x0 x1).
  pose proof (repr_var0 x0 x1 H0) as V0. pose proof (repr_var1 x0 x1 H0 H1) as V1. fold X in V0, V1.
  assert (R1 : repr (sand (slor (sshr (svar 0) 1) (sshl (svar 0) 31)) 4294967295)
                    (Z.land (Z.lor (shr x0 1) (shl32 x0 31)) 4294967295) X).
  { apply repr_and, repr_lor; [vm_compute; reflexivity|apply repr_shr; [lia|exact V0]|apply repr_shl; [lia|exact V0]]. }
  assert (L1 : repr (sand (slor (sshr (svar 1) 1) (sshl (svar 1) 31)) 4294967295)
                    (Z.land (Z.lor (shr x1 1) (shl32 x1 31)) 4294967295) X).
  { apply repr_and, repr_lor; [vm_compute; reflexivity|apply repr_shr; [lia|exact V1]|apply repr_shl; [lia|exact V1]]. }
  unfold final_perm, sfinal. cbv zeta.
  match goal with |- context [PermOp ?a ?b 1 ?m] => pose proof (repr_PermOp _ _ a b 1 m X ltac:(lia) R1 L1) as [A1 B1]; destruct (PermOp a b 1 m) as [r2 l2] end.
  cbn [fst snd] in A1, B1.
  match goal with |- context [PermOp ?a ?b 8 ?m] => pose proof (repr_PermOp _ _ a b 8 m X ltac:(lia) B1 A1) as [A2 B2]; destruct (PermOp a b 8 m) as [l3 r3] end.
  cbn [fst snd] in A2, B2.
  match goal with |- context [PermOp ?a ?b 2 ?m] => pose proof (repr_PermOp _ _ a b 2 m X ltac:(lia) B2 A2) as [A3 B3]; destruct (PermOp a b 2 m) as [r4 l4] end.
  cbn [fst snd] in A3, B3.
  match goal with |- context [PermOp ?a ?b 16 ?m] => pose proof (repr_PermOp _ _ a b 16 m X ltac:(lia) B3 A3) as [A4 B4]; destruct (PermOp a b 16 m) as [l5 r5] end.
  cbn [fst snd] in A4, B4.
  match goal with |- context [PermOp ?a ?b 4 ?m] => pose proof (repr_PermOp _ _ a b 4 m X ltac:(lia) B4 A4) as [A5 B5]; destruct (PermOp a b 4 m) as [r6 l6] end.
  cbn [fst snd] in A5, B5 |- *.
  split; [exact B5|exact A5].
Qed.

(* Output word w (0: l, 1: r), bit j, is byte j/8 of that word, bit j mod 8 — FIPS bit n+1 of the output block with
   n = 32 w + 8 (j / 8) + 7 - j mod 8. FP takes it from bit q = FP[n] of the pre-output block l ++ r, which the rotated
   representation keeps at bit (q mod 32) of l (q <= 32) or bit ((q - 32) mod 32) of r. *)
Definition fp_pos (w j : Z) : Z :=
  let n := 32 * w + 8 * (j / 8) + 7 - j mod 8 in
  let q := Z.of_nat (nth (Z.to_nat n) FP O) in
  if q <=? 32 then q mod 32 else 32 + (q - 32) mod 32.

Lemma final_single :
  single_bits (fst (sfinal (svar 0) (svar 1))) (map (fp_pos 0) idx32) = true /\
  single_bits (snd (sfinal (svar 0) (svar 1))) (map (fp_pos 1) idx32) = true.
Proof. split; vm_compute; reflexivity. Qed.

Lemma final_perm_is_FP l r : 0 <= l < 2 ^ 32 -> 0 <= r < 2 ^ 32 -> forall j, 0 <= j < 32 ->
  Z.testbit (fst (final_perm l r)) j = Z.testbit (X64 l r) (fp_pos 0 j) /\
  Z.testbit (snd (final_perm l r)) j = Z.testbit (X64 l r) (fp_pos 1 j).
Proof.
  intros Hl Hr j Hj. destruct (final_repr l r Hl Hr) as [RL RR]. destruct final_single as [SL SR].
  pose proof (repr_single _ _ _ _ RL SL j Hj) as EL. pose proof (repr_single _ _ _ _ RR SR j Hj) as ER.
  rewrite sget_map in EL, ER by lia.
  assert (P0 : forallb (fun j => 0 <=? fp_pos 0 j) idx32 = true) by (vm_compute; reflexivity).
  assert (P1 : forallb (fun j => 0 <=? fp_pos 1 j) idx32 = true) by (vm_compute; reflexivity).
  rewrite forallb_forall in P0, P1. specialize (P0 j (zrange_in 32 j ltac:(lia))). specialize (P1 j (zrange_in 32 j ltac:(lia))).
  destruct (Z.ltb_spec (fp_pos 0 j) 0); [lia|]. destruct (Z.ltb_spec (fp_pos 1 j) 0); [lia|]. split; assumption.
Qed.

(* ---------------------------------------------------------------- PC1 *)

Definition spc1 (c d : sword) : sword * sword :=
  let p1 := sPermOp d c 4 252645135 in                 (* (d, c) *)
  let c1 := sHPermOp (snd p1) (-2) 3435921408 in
  let d1 := sHPermOp (fst p1) (-2) 3435921408 in
  let p2 := sPermOp d1 c1 1 1431655765 in              (* (d, c) *)
  let p3 := sPermOp (snd p2) (fst p2) 8 16711935 in    (* (c, d) *)
  let p4 := sPermOp (snd p3) (fst p3) 1 1431655765 in  (* (d, c) *)
  let d4 := fst p4 in let c4 := snd p4 in
  let d5 := slor (slor (slor (sshl (sand d4 255) 16) (sand d4 65280)) (sshr (sand d4 16711680) 16))
                 (sshr (sand c4 4026531840) 4) in
  (sand c4 268435455, d5).

Lemma pc1_repr x0 x1 : 0 <= x0 < 2 ^ 32 -> 0 <= x1 < 2 ^ 32 ->
  repr (fst (spc1 (svar 0) (svar 1))) (fst (pc1_net x0 x1)) (X64 x0 x1) /\
  repr (snd (spc1 (svar 0) (svar 1))) (snd (pc1_net x0 x1)) (X64 x0 x1).
Proof.
  intros H0 H1. set (X := X64 x0 x1).
  pose proof (repr_var0 x0 x1 H0) as V0. pose proof (repr_var1 x0 x1 H0 H1) as V1. fold X in V0, V1.
  unfold pc1_net, spc1. cbv zeta.
  match goal with |- context [PermOp ?a ?b 4 ?m] => pose proof (repr_PermOp _ _ a b 4 m X ltac:(lia) V1 V0) as [A1 B1]; destruct (PermOp a b 4 m) as [d1 c1] end.
  cbn [fst snd] in A1, B1.
  pose proof (repr_HPermOp _ _ (-2) 3435921408 X ltac:(lia) B1) as C2.
  pose proof (repr_HPermOp _ _ (-2) 3435921408 X ltac:(lia) A1) as D2.
  match goal with |- context [PermOp ?a ?b 1 ?m] => pose proof (repr_PermOp _ _ a b 1 m X ltac:(lia) D2 C2) as [A3 B3]; destruct (PermOp a b 1 m) as [d3 c3] end.
  cbn [fst snd] in A3, B3.
  match goal with |- context [PermOp ?a ?b 8 ?m] => pose proof (repr_PermOp _ _ a b 8 m X ltac:(lia) B3 A3) as [A4 B4]; destruct (PermOp a b 8 m) as [c4 d4] end.
  cbn [fst snd] in A4, B4.
  match goal with |- context [PermOp ?a ?b 1 ?m] => pose proof (repr_PermOp _ _ a b 1 m X ltac:(lia) B4 A4) as [A5 B5]; destruct (PermOp a b 1 m) as [d5 c5] end.
  cbn [fst snd] in A5, B5 |- *.
  split; [apply repr_and; exact B5|].
  apply repr_lor; [vm_compute; reflexivity| |apply repr_shr; [lia|apply repr_and; exact B5]].
  apply repr_lor; [vm_compute; reflexivity| |apply repr_shr; [lia|apply repr_and; exact A5]].
  apply repr_lor; [vm_compute; reflexivity|apply repr_shl; [lia|apply repr_and; exact A5]|apply repr_and; exact A5].
Qed.

(* Key FIPS bit n (1..64) is bit 7 - (n-1) mod 8 of key byte (n-1)/8; c2l puts byte i of the first (second) four
   at bits 8i.. of x0 (x1). Bit j < 28 of the word c (w = 0) or d (w = 1) is bit PC1[28 w + j] of the key; bits 28..31 are 0. *)
Definition pc1_pos (w j : Z) : Z :=
  if j <? 28 then
    let n := Z.of_nat (nth (Z.to_nat (28 * w + j)) PC1 O) in 8 * ((n - 1) / 8) + 7 - (n - 1) mod 8
  else -1.

Lemma pc1_single :
  single_bits (fst (spc1 (svar 0) (svar 1))) (map (pc1_pos 0) idx32) = true /\
  single_bits (snd (spc1 (svar 0) (svar 1))) (map (pc1_pos 1) idx32) = true.
Proof. split; vm_compute; reflexivity. Qed.

Lemma pc1_net_is_PC1 x0 x1 : 0 <= x0 < 2 ^ 32 -> 0 <= x1 < 2 ^ 32 -> forall j, 0 <= j < 32 ->
  Z.testbit (fst (pc1_net x0 x1)) j = (if j <? 28 then Z.testbit (X64 x0 x1) (pc1_pos 0 j) else false) /\
  Z.testbit (snd (pc1_net x0 x1)) j = (if j <? 28 then Z.testbit (X64 x0 x1) (pc1_pos 1 j) else false).
Proof.
  intros H0 H1 j Hj. destruct (pc1_repr x0 x1 H0 H1) as [RC RD]. destruct pc1_single as [SC SD].
  pose proof (repr_single _ _ _ _ RC SC j Hj) as EC. pose proof (repr_single _ _ _ _ RD SD j Hj) as ED.
  rewrite sget_map in EC, ED by lia.
  assert (P0 : forallb (fun j => Bool.eqb (pc1_pos 0 j <? 0) (negb (j <? 28)) && Bool.eqb (pc1_pos 1 j <? 0) (negb (j <? 28))) idx32 = true)
    by (vm_compute; reflexivity).
  rewrite forallb_forall in P0. specialize (P0 j (zrange_in 32 j ltac:(lia))).
  apply andb_prop in P0. destruct P0 as [Q0 Q1]. apply eqb_prop in Q0, Q1.
  rewrite Q0 in EC. rewrite Q1 in ED. destruct (j <? 28); cbn [negb] in EC, ED; split; assumption.
Qed.

(* ---------------------------------------------------------------- the key words are the key bytes, little-endian *)

Lemma byte_high k j : 0 <= k < 256 -> 8 <= j -> Z.testbit k j = false.
Proof.
  intros Hk Hj. destruct (Z.eq_dec k 0) as [->|Hz]; [apply Z.bits_0|]. apply Z.bits_above_log2; [lia|].
  apply Z.lt_le_trans with 8; [apply Z.log2_lt_pow2; lia|lia].
Qed.

Lemma shl32_bit v n j : 0 <= j -> Z.testbit (shl32 v n) j = (j <? 32) && Z.testbit v (j - n).
Proof.
  intros Hj. unfold shl32, u32. change 4294967295 with (Z.ones 32). rewrite Z.land_spec, Z.shiftl_spec by exact Hj.
  destruct (Z.ltb_spec j 32).
  - rewrite Z.ones_spec_low by lia. apply andb_true_r.
  - rewrite Z.ones_spec_high by lia. apply andb_false_r.
Qed.

Lemma c2l_bits k0 k1 k2 k3 j : 0 <= k0 < 256 -> 0 <= k1 < 256 -> 0 <= k2 < 256 -> 0 <= k3 < 256 -> 0 <= j ->
  Z.testbit (c2l k0 k1 k2 k3) j =
  if j <? 8 then Z.testbit k0 j else if j <? 16 then Z.testbit k1 (j - 8)
  else if j <? 24 then Z.testbit k2 (j - 16) else if j <? 32 then Z.testbit k3 (j - 24) else false.
Proof.
  intros H0 H1 H2 H3 Hj. unfold c2l. rewrite !Z.lor_spec, !shl32_bit by exact Hj.
  destruct (Z.ltb_spec j 8); [|destruct (Z.ltb_spec j 16); [|destruct (Z.ltb_spec j 24); [|destruct (Z.ltb_spec j 32)]]].
  - rewrite !(Z.testbit_neg_r _ (j - _)) by lia. destruct (j <? 32); cbn [andb]; rewrite !orb_false_r; reflexivity.
  - rewrite (byte_high k0), !(Z.testbit_neg_r _ (j - 16)), !(Z.testbit_neg_r _ (j - 24)) by lia.
    destruct (Z.ltb_spec j 32); [|lia]. cbn [andb orb]. rewrite !orb_false_r. reflexivity.
  - rewrite (byte_high k0), (byte_high k1), !(Z.testbit_neg_r _ (j - 24)) by lia.
    destruct (Z.ltb_spec j 32); [|lia]. cbn [andb orb]. rewrite !orb_false_r. reflexivity.
  - rewrite (byte_high k0), (byte_high k1), (byte_high k2) by lia.
    destruct (Z.ltb_spec j 32); [|lia]. reflexivity.
  - rewrite (byte_high k0) by lia. destruct (Z.ltb_spec j 32); [lia|]. reflexivity.
Qed.

Lemma c2l_range k0 k1 k2 k3 : 0 <= k0 < 256 -> 0 <= k1 < 256 -> 0 <= k2 < 256 -> 0 <= k3 < 256 ->
  0 <= c2l k0 k1 k2 k3 < 2 ^ 32.
Proof.
  intros H0 H1 H2 H3.
  assert (Hn : 0 <= c2l k0 k1 k2 k3).
  { unfold c2l, shl32, u32. repeat (apply Z.lor_nonneg; split); try lia; apply Z.land_nonneg; right; lia. }
  split; [exact Hn|]. destruct (Z.eq_dec (c2l k0 k1 k2 k3) 0) as [->|Hz]; [lia|].
  apply Z.log2_lt_pow2; [lia|]. apply Z.lt_nge. intros Hge.
  pose proof (Z.bit_log2 (c2l k0 k1 k2 k3) ltac:(lia)) as Hb.
  rewrite c2l_bits in Hb by (try assumption; apply Z.log2_nonneg).
  destruct (Z.ltb_spec (Z.log2 (c2l k0 k1 k2 k3)) 8); [lia|]. destruct (Z.ltb_spec (Z.log2 (c2l k0 k1 k2 k3)) 16); [lia|].
  destruct (Z.ltb_spec (Z.log2 (c2l k0 k1 k2 k3)) 24); [lia|]. destruct (Z.ltb_spec (Z.log2 (c2l k0 k1 k2 k3)) 32); [lia|discriminate].
Qed.

Lemma x64_bit x0 x1 p : 0 <= x0 < 2 ^ 32 -> 0 <= p ->
  Z.testbit (X64 x0 x1) p = if p <? 32 then Z.testbit x0 p else Z.testbit x1 (p - 32).
Proof.
  intros H0 Hp. unfold X64. rewrite Z.lor_spec, Z.shiftl_spec by exact Hp. destruct (Z.ltb_spec p 32).
  - rewrite (Z.testbit_neg_r x1) by lia. apply orb_false_r.
  - assert (Z.testbit x0 p = false) as ->; [|reflexivity].
    destruct (Z.eq_dec x0 0) as [->|Hz]; [apply Z.bits_0|]. apply Z.bits_above_log2; [lia|].
    apply Z.lt_le_trans with 32; [apply Z.log2_lt_pow2; lia|lia].
Qed.

(* FIPS bit n (1..64) of an 8-byte block: bit 7 - (n-1) mod 8 of byte (n-1)/8 *)
Definition key_bit (key : list Z) (n : Z) : bool :=
  Z.testbit (nth (Z.to_nat ((n - 1) / 8)) key 0) (7 - (n - 1) mod 8).

Lemma key_bit_pos k0 k1 k2 k3 k4 k5 k6 k7 n :
  0 <= k0 < 256 -> 0 <= k1 < 256 -> 0 <= k2 < 256 -> 0 <= k3 < 256 ->
  0 <= k4 < 256 -> 0 <= k5 < 256 -> 0 <= k6 < 256 -> 0 <= k7 < 256 -> 1 <= n <= 64 ->
  Z.testbit (X64 (c2l k0 k1 k2 k3) (c2l k4 k5 k6 k7)) (8 * ((n - 1) / 8) + 7 - (n - 1) mod 8) =
  key_bit [k0; k1; k2; k3; k4; k5; k6; k7] n.
Proof.
  intros H0 H1 H2 H3 H4 H5 H6 H7 Hn. unfold key_bit.
  pose proof (Z.mod_pos_bound (n - 1) 8 ltac:(lia)) as Hm. set (m := (n - 1) mod 8) in *.
  assert (Hb : 0 <= (n - 1) / 8 < 8) by (split; [apply Z.div_pos; lia|apply Z.div_lt_upper_bound; lia]).
  set (b := (n - 1) / 8) in *.
  rewrite x64_bit by (try apply c2l_range; try assumption; lia).
  assert (Hc : b = 0 \/ b = 1 \/ b = 2 \/ b = 3 \/ b = 4 \/ b = 5 \/ b = 6 \/ b = 7) by lia.
  destruct Hc as [E|[E|[E|[E|[E|[E|[E|E]]]]]]]; rewrite E; simpl (Z.to_nat _); cbn [nth];
    match goal with |- context [?p <? 32] => destruct (Z.ltb_spec p 32); try lia end;
    rewrite c2l_bits by (try assumption; lia);
    repeat (match goal with |- context [if ?x <? ?y then _ else _] => destruct (Z.ltb_spec x y); try lia end);
    f_equal; lia.
Qed.

(* the head of desSetKey on a key block: bit j < 28 of c / d is key bit PC1[j] / PC1[28 + j]; bits 28..31 are 0 *)
Lemma setkey_head_is_PC1 key : length key = 8%nat -> bytes_ok key = true -> forall j, 0 <= j < 32 ->
  Z.testbit (fst (pc1_words key)) j = (if j <? 28 then key_bit key (Z.of_nat (nth (Z.to_nat j) PC1 O)) else false) /\
  Z.testbit (snd (pc1_words key)) j = (if j <? 28 then key_bit key (Z.of_nat (nth (Z.to_nat (28 + j)) PC1 O)) else false).
Proof.
  intros Hl Hb j Hj.
  do 9 (destruct key as [|? key]; cbn [length] in Hl; try lia). clear Hl.
  apply bytes_ok_forall in Hb. repeat match goal with H : Forall _ (_ :: _) |- _ => inversion H; subst; clear H end.
  unfold pc1_words. cbn [nth].
  match goal with |- context [pc1_net ?a ?b] =>
    pose proof (pc1_net_is_PC1 a b ltac:(apply c2l_range; assumption) ltac:(apply c2l_range; assumption) j Hj) as [EC ED] end.
  rewrite EC, ED. destruct (Z.ltb_spec j 28); [|split; reflexivity].
  assert (R : forallb (fun j => let n0 := Z.of_nat (nth (Z.to_nat j) PC1 O) in let n1 := Z.of_nat (nth (Z.to_nat (28 + j)) PC1 O) in
                       (1 <=? n0) && (n0 <=? 64) && (1 <=? n1) && (n1 <=? 64)) (zrange 28) = true) by (vm_compute; reflexivity).
  rewrite forallb_forall in R. specialize (R j (zrange_in 28 j ltac:(lia))). cbv zeta in R.
  unfold pc1_pos. destruct (Z.ltb_spec j 28); [|lia]. cbv zeta.
  replace (28 * 0 + j) with j by lia. replace (28 * 1 + j) with (28 + j) by lia.
  split; apply key_bit_pos; try assumption; lia.
Qed.

(* the tail of body, readable form. Output word w (0: l, 1: r), bit j, is FIPS bit out_n w j + 1 of the 8 output bytes
   l2c l ++ l2c r; FIPS bit q (1..64) of the pre-output block l ++ r sits, in fcrypt's rotated representation, at
   bit (q mod 32) of l for q <= 32 and at bit ((q - 32) mod 32) of r otherwise. *)
Definition out_n (w j : Z) : Z := 32 * w + 8 * (j / 8) + 7 - j mod 8.
Definition block_bit (l r q : Z) : bool := if q <=? 32 then Z.testbit l (q mod 32) else Z.testbit r ((q - 32) mod 32).

Lemma body_tail_is_FP l r : 0 <= l < 2 ^ 32 -> 0 <= r < 2 ^ 32 -> forall j, 0 <= j < 32 ->
  Z.testbit (fst (final_perm l r)) j = block_bit l r (Z.of_nat (nth (Z.to_nat (out_n 0 j)) FP O)) /\
  Z.testbit (snd (final_perm l r)) j = block_bit l r (Z.of_nat (nth (Z.to_nat (out_n 1 j)) FP O)).
Proof.
  intros Hl Hr j Hj. destruct (final_perm_is_FP l r Hl Hr j Hj) as [EL ER]. rewrite EL, ER.
  unfold fp_pos, block_bit, out_n. cbv zeta.
  split.
  - set (q := Z.of_nat (nth (Z.to_nat (32 * 0 + 8 * (j / 8) + 7 - j mod 8)) FP O)).
    destruct (Z.leb_spec q 32).
    + rewrite x64_bit by (try assumption; apply Z.mod_pos_bound; lia).
      destruct (Z.ltb_spec (q mod 32) 32); [reflexivity|]. pose proof (Z.mod_pos_bound q 32 ltac:(lia)). lia.
    + pose proof (Z.mod_pos_bound (q - 32) 32 ltac:(lia)). rewrite x64_bit by (try assumption; lia).
      destruct (Z.ltb_spec (32 + (q - 32) mod 32) 32); [lia|]. f_equal. lia.
  - set (q := Z.of_nat (nth (Z.to_nat (32 * 1 + 8 * (j / 8) + 7 - j mod 8)) FP O)).
    destruct (Z.leb_spec q 32).
    + rewrite x64_bit by (try assumption; apply Z.mod_pos_bound; lia).
      destruct (Z.ltb_spec (q mod 32) 32); [reflexivity|]. pose proof (Z.mod_pos_bound q 32 ltac:(lia)). lia.
    + pose proof (Z.mod_pos_bound (q - 32) 32 ltac:(lia)). rewrite x64_bit by (try assumption; lia).
      destruct (Z.ltb_spec (32 + (q - 32) mod 32) 32); [lia|]. f_equal. lia.
Qed.

Example pc1_ex : pc1_words [2; 0; 0; 0; 0; 0; 0; 0] = (0, 128) /\ nth 35 PC1 O = 7%nat /\ key_bit [2; 0; 0; 0; 0; 0; 0; 0] 7 = true.
Proof. repeat split. Qed.
