(* C12 — the by-name lookup on tables of any size (production build: MAX_BOARD = 20000). Nothing here depends on
   MAX_BOARD: GetBid is a scan on every state whose by-name index is a sorted permutation of the slots. *)
From Verif Require Import Base.Common Base.ListX Gen.Consts_default Model.C12 Proofs.C12_base Proofs.C12_step.
Import ptttype.

Lemma forallb_map_comp {A B} (f : B -> bool) (g : A -> B) l : forallb f (map g l) = forallb (fun x => f (g x)) l.
Proof. induction l as [|x l IH]; cbn [map forallb]; [reflexivity|]. rewrite IH. reflexivity. Qed.

(* the pairwise test on the names in index order is the sortedness the theorems use *)
Lemma sorted_by_names c sn : sorted_by (less_name c) sn = sorted_lnames (map (fun b => map tolower (name_of (gets c b))) sn).
Proof.
  induction sn as [|x r IH]; cbn [sorted_by sorted_lnames map]; [reflexivity|].
  rewrite IH, forallb_map_comp. reflexivity.
Qed.

(* GetBid on ANY state with a sorted-permutation index: it returns a slot whose name matches case-insensitively, or 0
   exactly when a scan of all s_bnum slots finds none. No bound on the number of boards. *)
Lemma get_bid_spec_any s key : perm_ok (s_bnum s) (s_sn s) = true -> sorted_by (less_name (s_cache s)) (s_sn s) = true ->
  (get_bid s key = Ok 0 /\ forall b, 0 <= b < s_bnum s -> casecmp key (name_of (gets (s_cache s) b)) <> 0)
  \/ (exists b, 0 <= b < s_bnum s /\ get_bid s key = Ok (b + 1) /\ casecmp key (name_of (gets (s_cache s) b)) = 0).
Proof.
  intros Hperm Hsorted. destruct (perm_ok_parts _ _ Hperm) as (Hlen & Hrange & Hcov).
  unfold get_bid. destruct (s_bnum s - 1 <? 0) eqn:E.
  { left. split; [reflexivity|]. intros b Hb. lia. }
  destruct (search_loop_spec (s_cache s) (s_sn s) key Hsorted (S (S (Z.to_nat (s_bnum s)))) 0 (s_bnum s - 1))
    as [[Hr Hno]|(idx & Hidx & Hr & Hm)]; try lia.
  - left. split; [exact Hr|]. intros b Hb Heq.
    destruct (covers_spec _ _ Hcov (Z.to_nat b) ltac:(lia)) as (i & Hi & Hn).
    apply (Hno (Z.of_nat i)); [unfold lenZ in *; lia|].
    unfold getn. destruct (Z.of_nat i <? 0) eqn:E2; [lia|]. rewrite Nat2Z.id, Hn, Z2Nat.id by lia. exact Heq.
  - right. exists (getn 0 (s_sn s) idx). split; [|split; assumption].
    unfold getn. destruct (idx <? 0) eqn:E2; [lia|].
    apply in_range_nth; [exact Hrange|unfold lenZ in *; lia].
Qed.

(* what op 7 of the model accepts satisfies the hypotheses of get_bid_spec_any *)
Lemma lookup_ok_sound names sn : lookup_ok names sn = true ->
  perm_ok (s_bnum (lookup_state names sn)) (s_sn (lookup_state names sn)) = true /\
  sorted_by (less_name (s_cache (lookup_state names sn))) (s_sn (lookup_state names sn)) = true.
Proof.
  unfold lookup_ok, lookup_state. cbn [s_bnum s_sn s_cache]. rewrite andb_true_iff. intros [H1 H2].
  split; [exact H1|]. rewrite sorted_by_names. exact H2.
Qed.

Lemma lookup_all_is_scan names sn key : lookup_ok names sn = true ->
  let s := lookup_state names sn in
  (get_bid s key = Ok 0 /\ forall b, 0 <= b < lenZ names -> casecmp key (name_of (gets (s_cache s) b)) <> 0)
  \/ (exists b, 0 <= b < lenZ names /\ get_bid s key = Ok (b + 1) /\ casecmp key (name_of (gets (s_cache s) b)) = 0).
Proof.
  intros H s. destruct (lookup_ok_sound _ _ H) as [Hp Hs]. exact (get_bid_spec_any s key Hp Hs).
Qed.

(* ------------------------------------------------------------------ a large table: 2100 boards b00000 .. b02099 *)
Definition digit (i k : Z) : Z := 48 + (i / k) mod 10.
Definition bname (i : Z) : list Z := [98; digit i 10000; digit i 1000; digit i 100; digit i 10; digit i 1; 0; 0; 0; 0; 0; 0; 0].
Definition iota (n : nat) : list Z := map Z.of_nat (seq 0 n).
Definition big_n : nat := Z.to_nat 2100.
Definition big_names : list (list Z) := map bname (iota big_n).
Definition big_state : st := lookup_state big_names (iota big_n).
Definition key_B02099 : list Z := [66; 48; 50; 48; 57; 57; 0; 0; 0; 0; 0; 0; 0].     (* "B02099": the last board in the other letter case *)
Definition key_b02100 : list Z := [98; 48; 50; 49; 48; 48; 0; 0; 0; 0; 0; 0; 0].     (* "b02100": no such board *)

Lemma big_ok : lookup_ok big_names (iota big_n) = true.
Proof. vm_compute. reflexivity. Qed.

(* the index of the 2100-board table is a sorted permutation; the last board is found under its upper-case name, by the
   14th probe (12 or 13 probes are not enough: a search cut off there would report "no such board"); an absent name gives 0 *)
Example big_table_lookup :
  perm_ok (s_bnum big_state) (s_sn big_state) = true /\ sorted_by (less_name (s_cache big_state)) (s_sn big_state) = true /\
  get_bid big_state key_B02099 = Ok 2100 /\
  search_loop 13 (s_cache big_state) (s_sn big_state) key_B02099 0 (s_bnum big_state - 1) = Hang /\
  search_loop 14 (s_cache big_state) (s_sn big_state) key_B02099 0 (s_bnum big_state - 1) = Ok 2100 /\
  get_bid big_state key_b02100 = Ok 0.
Proof.
  destruct (lookup_ok_sound _ _ big_ok) as [Hp Hs].
  split; [exact Hp|]. split; [exact Hs|]. vm_compute. repeat split; reflexivity.
Qed.

(* ... and the general statement instantiated on it: no board of the 2100 carries the name b02100 in any letter case *)
Example big_table_absent : forall b, 0 <= b < 2100 -> casecmp key_b02100 (name_of (gets (s_cache big_state) b)) <> 0.
Proof.
  destruct (lookup_all_is_scan big_names (iota big_n) key_b02100 big_ok) as [[_ H]|(b & Hb0 & H & _)].
  - intros b Hb. apply H. change (lenZ big_names) with (Z.of_nat (length big_names)). 
    replace (Z.of_nat (length big_names)) with 2100 by (vm_compute; reflexivity). exact Hb.
  - exfalso. assert (E : get_bid (lookup_state big_names (iota big_n)) key_b02100 = Ok 0) by (vm_compute; reflexivity).
    rewrite E in H. inversion H. lia.
Qed.
