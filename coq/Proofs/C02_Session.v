(* C02 — sessions: in the model every call is a function of its own arguments, so the answers of a sequence of
   calls are the single-call answers, whatever came before, whatever comes after and in whatever order. *)
From Coq Require Import Permutation.
From Verif Require Import Base.Common Gen.CryptTab Model.C02.

(* what the caller holds after a call does not depend on what it held before *)
Lemma keeps_nonhash : forall c o, is_hash_call c = false -> keeps c o = None.
Proof. intros c o Hc. unfold keeps. rewrite Hc. destruct o as [[h | |] |]; reflexivity. Qed.

Lemma keeps_indep : forall kept c, keeps c (step kept c) = kept_alone c.
Proof.
  intros kept c. unfold kept_alone, alone. destruct c as [pw s | pw s | st pw | j pw]; try reflexivity.
  rewrite !keeps_nonhash by reflexivity. reflexivity.
Qed.

Lemma closed_step : forall kept c, closed c = true -> step kept c = alone c.
Proof. intros kept c Hc. destruct c; try reflexivity. discriminate Hc. Qed.

(* the answer at any position of any session *)
Lemma session_from_nth : forall pre kept c post,
  nth_error (session_from kept (pre ++ c :: post)) (length pre) = Some (step (kept ++ map kept_alone pre) c).
Proof.
  induction pre as [| d pre IH]; intros kept c post.
  - cbn [app length session_from nth_error map]. rewrite app_nil_r. reflexivity.
  - cbn [app length session_from nth_error map]. rewrite IH, keeps_indep, <- app_assoc. reflexivity.
Qed.

Lemma session_nth : forall pre c post,
  nth_error (session (pre ++ c :: post)) (length pre) = Some (step (map kept_alone pre) c).
Proof. intros pre c post. unfold session. rewrite session_from_nth. reflexivity. Qed.

Lemma session_from_closed : forall calls kept, Forall (fun c => closed c = true) calls ->
  session_from kept calls = map alone calls.
Proof.
  induction calls as [| c r IH]; intros kept HF; [reflexivity |].
  inversion HF as [| c' r' Hc Hr]; subst. cbn [session_from map]. rewrite (closed_step kept c Hc), IH by exact Hr. reflexivity.
Qed.

Lemma session_closed : forall calls, Forall (fun c => closed c = true) calls -> session calls = map alone calls.
Proof. intros calls HF. exact (session_from_closed calls [] HF). Qed.

(* CheckPasswd on the slice an earlier hash call returned is CheckPasswd on the value that call returns alone *)
Lemma kept_check : forall pre d mid pw h, kept_alone d = Some h ->
  step (map kept_alone (pre ++ d :: mid)) (CCheckKept (length pre) pw) = Some (res_map wire_bool (check_passwd h pw)).
Proof.
  intros pre d mid pw h Hd. cbn [step]. rewrite map_app. cbn [map].
  rewrite nth_error_app2 by (rewrite map_length; apply Nat.le_refl).
  rewrite map_length, Nat.sub_diag. cbn [nth_error]. rewrite Hd. reflexivity.
Qed.

Lemma calls_independent :
  (forall pre c post, nth_error (session (pre ++ c :: post)) (length pre) = Some (step (map kept_alone pre) c)) /\
  (forall kept c, closed c = true -> step kept c = alone c) /\
  (forall calls, Forall (fun c => closed c = true) calls -> session calls = map alone calls) /\
  (forall pre d mid post pw h, kept_alone d = Some h ->
     nth_error (session (pre ++ d :: mid ++ CCheckKept (length pre) pw :: post)) (length (pre ++ d :: mid)) =
     Some (Some (res_map wire_bool (check_passwd h pw)))).
Proof.
  split; [exact session_nth |]. split; [exact closed_step |]. split; [exact session_closed |].
  intros pre d mid post pw h Hd.
  replace (pre ++ d :: mid ++ CCheckKept (length pre) pw :: post) with ((pre ++ d :: mid) ++ CCheckKept (length pre) pw :: post)
    by (rewrite <- app_assoc; reflexivity).
  rewrite session_nth. f_equal. exact (kept_check pre d mid pw h Hd).
Qed.

(* order: any rearrangement of closed calls gives every call the answer it had *)
Lemma combine_map_self : forall (A B : Type) (f : A -> B) l, combine l (map f l) = map (fun x => (x, f x)) l.
Proof. induction l as [| a l IH]; [reflexivity |]. cbn [map combine]. rewrite IH. reflexivity. Qed.

Lemma order_independent : forall calls calls', Permutation calls calls' -> Forall (fun c => closed c = true) calls ->
  Permutation (combine calls (session calls)) (combine calls' (session calls')).
Proof.
  intros calls calls' HP HF.
  assert (HF' : Forall (fun c => closed c = true) calls').
  { apply Forall_forall. intros x Hx. apply (proj1 (Forall_forall _ _) HF). apply Permutation_sym in HP. exact (Permutation_in x HP Hx). }
  rewrite (session_closed calls HF), (session_closed calls' HF'), !combine_map_self.
  apply Permutation_map. exact HP.
Qed.

(* non-vacuity: a session of the shape the harness runs, evaluated by the kernel — two hashes kept, then the first one
   used as the stored hash for its own password (accepted) and for another one (rejected); both hashes are what the
   calls give alone ("bhwvOJtfT1TAI", "AA3QBhLWk1BWA") *)
Example session_example :
  let pw1 := [49; 50; 51; 49; 50; 51] in
  let pw2 := [48; 49; 50; 51; 52; 53; 54; 55; 56; 57; 48; 49] in
  session [CFcrypt pw1 [98; 104]; CFcrypt pw2 [65; 65]; CCheckKept 0 pw1; CCheckKept 0 [110; 111]; CCheckKept 1 pw2] =
  [Some (Ok [98; 104; 119; 118; 79; 74; 116; 102; 84; 49; 84; 65; 73; 0]);
   Some (Ok [65; 65; 51; 81; 66; 104; 76; 87; 107; 49; 66; 87; 65; 0]);
   Some (Ok [1]); Some (Ok [0]); Some (Ok [1])].
Proof. vm_compute. reflexivity. Qed.

Example order_example :
  let a := CFcrypt [49; 50; 51; 49; 50; 51] [98; 104] in
  let b := CCheck [98; 104; 119; 118; 79; 74; 116; 102; 84; 49; 84; 65; 73; 0] [110; 111] in
  Permutation [a; b] [b; a] /\ Forall (fun c => closed c = true) [a; b] /\
  session [a; b] = [alone a; alone b] /\ session [b; a] = [alone b; alone a] /\ alone b = Some (Ok [0]).
Proof.
  cbv zeta. split; [apply perm_swap |]. split; [repeat constructor |].
  split; [apply session_closed; repeat constructor |]. split; [apply session_closed; repeat constructor |]. vm_compute. reflexivity.
Qed.
