(* C02 — the model of crypt.Fcrypt equals traditional crypt(3) (Model/C02_DesSpec.v) for ALL passwords and ALL salts
   whose two characters are in the crypt alphabet. The chain:
     key block            keyblock pw = crypt_key pw                                   (Proofs/C02_Core.v)
     salt                 con_salt inverts the alphabet; E0 / E1 carry the 12 salt bits (here, a sweep over 64 x 64)
     key schedule         set_key kb = placed (key_schedule (bits kb))                 (Proofs/C02_KeySched.v, C02_Compose.v)
     one round            d_encrypt = L xor f(R, K) with the salted E, S1..S8, P       (Proofs/C02_Round.v)
     16 rounds x 25       iterate 25 = Nat.iter 25 des_block up to the last FP         (Proofs/C02_Compose.v)
     last FP              final_perm = FP, as bits of the two output words             (Proofs/C02_Perm.v, C02_Output.v)
     output               the 11-character loop = groups6 through the alphabet         (Proofs/C02_Output.v) *)
From Verif Require Import Base.Common Base.Sweep Gen.CryptTab Model.C02 Model.C02_DesSpec Proofs.C02_Core Proofs.C02_Tables Proofs.C02_Sym Proofs.C02_Perm Proofs.C02_KeySched Proofs.C02_Bits Proofs.C02_Round Proofs.C02_Compose Proofs.C02_Output Proofs.C02_Spec.

(* ---------------------------------------------------------------- the salt words *)

Definition salt_words_ok (n : Z) : bool :=
  let i0 := Z.to_nat (n mod 64) in let i1 := Z.to_nat (n / 64) in
  (u32 (Z.of_nat i0) =? E0_of (salt_bits i0 i1)) && (shl32 (Z.of_nat i1) 4 =? E1_of (salt_bits i0 i1)).
Lemma salt_words_sweep : forallb salt_words_ok (zrange 4096) = true.
Proof. vm_compute. reflexivity. Qed.

Lemma salt_words i0 i1 : (i0 < 64)%nat -> (i1 < 64)%nat ->
  u32 (Z.of_nat i0) = E0_of (salt_bits i0 i1) /\ shl32 (Z.of_nat i1) 4 = E1_of (salt_bits i0 i1).
Proof.
  intros H0 H1. pose proof (sweep salt_words_ok 4096 salt_words_sweep (64 * Z.of_nat i1 + Z.of_nat i0) ltac:(lia)) as H.
  unfold salt_words_ok in H. cbv zeta in H.
  replace ((64 * Z.of_nat i1 + Z.of_nat i0) / 64) with (Z.of_nat i1) in H by (apply Z.div_unique with (Z.of_nat i0); lia).
  replace ((64 * Z.of_nat i1 + Z.of_nat i0) mod 64) with (Z.of_nat i0) in H by (apply Z.mod_unique with (Z.of_nat i1); lia).
  rewrite !Nat2Z.id in H. apply andb_prop in H. destruct H as [A B]. split; lia.
Qed.

Lemma salt_bits_length i0 i1 : length (salt_bits i0 i1) = 12%nat.
Proof. unfold salt_bits. rewrite map_length, seq_length. reflexivity. Qed.

(* ---------------------------------------------------------------- the key block is eight bytes *)

Lemma key_loop_bytes n : forall buf, Forall (fun b => 0 <= b < 256) (key_loop n buf).
Proof.
  assert (R : forall m, Forall (fun b => 0 <= b < 256) (repeat 0 m)).
  { intros m. apply Forall_forall. intros x Hx. apply repeat_spec in Hx. lia. }
  induction n as [|n IH]; intros buf; [constructor|]. cbn [key_loop].
  destruct buf as [|c r]; [apply R|]. destruct (c =? 0); [apply R|].
  constructor; [|apply IH]. rewrite u8_mod. apply Z.mod_pos_bound. lia.
Qed.
Lemma keyblock_bytes pw : bytes_ok (keyblock pw) = true.
Proof. apply bytes_ok_forall. apply key_loop_bytes. Qed.

(* ---------------------------------------------------------------- body *)

Lemma body_is_crypt_core key sb : length key = 8%nat -> bytes_ok key = true -> length sb = 12%nat ->
  let blk := Nat.iter 25 (des_block sb (key_schedule (flat_map byte_bits key))) (repeat false 64) in
  body (set_key key) (E0_of sb) (E1_of sb) = (ofbits (out_bits 0 blk), ofbits (out_bits 1 blk)) /\ length blk = 64%nat.
Proof.
  intros Hl Hb Hs. cbv zeta. rewrite (set_key_is_placed_schedule key Hl Hb).
  destruct (key_schedule_shape _ (key_bits_length key Hl)) as [L16 K48].
  destruct (iterate25_is_crypt_core sb _ 8%nat L16 K48 Hs) as (Lf & Rf & HL & HR & Eit & Eblk).
  rewrite Eblk. unfold body. rewrite Eit. split; [apply final_perm_bits; assumption|].
  unfold perm. rewrite map_length. reflexivity.
Qed.

(* ---------------------------------------------------------------- the theorem *)

Lemma some_inj {A} (a b : A) : Some a = Some b -> a = b.
Proof. intros H. injection H. exact (fun e => e). Qed.

Theorem equals_crypt3 pw salt h : crypt pw salt = Some h -> fcrypt pw salt = Ok (h ++ [0]).
Proof.
  unfold crypt. destruct salt as [|s0 [|s1 rest]]; try discriminate.
  destruct (index_of s0 ALPHABET O) as [i0|] eqn:I0; [|discriminate].
  destruct (index_of s1 ALPHABET O) as [i1|] eqn:I1; [|discriminate].
  intros H. apply some_inj in H. subst h.
  destruct (con_salt_inverts_alphabet _ _ I0) as (L0 & N0 & C0).
  destruct (con_salt_inverts_alphabet _ _ I1) as (L1 & N1 & C1).
  unfold fcrypt, fcrypt_kb. rewrite N0, N1, C0, C1.
  destruct (salt_words i0 i1 L0 L1) as [-> ->].
  rewrite <- (keyblock_is_crypt_key pw).
  destruct (body_is_crypt_core (keyblock pw) (salt_bits i0 i1) (keyblock_length pw) (keyblock_bytes pw) (salt_bits_length i0 i1))
    as [-> Hblk].
  rewrite (encode_is_groups6 _ Hblk). reflexivity.
Qed.

Definition alphabet_salt (salt : list Z) : Prop :=
  (2 <= length salt)%nat /\ index_of (nth 0 salt 0) ALPHABET O <> None /\ index_of (nth 1 salt 0) ALPHABET O <> None.

Lemma crypt_defined pw salt : alphabet_salt salt <-> exists h, crypt pw salt = Some h.
Proof.
  unfold alphabet_salt, crypt. split.
  - intros (Hl & H0 & H1). destruct salt as [|s0 [|s1 rest]]; cbn [length] in Hl; try lia. cbn [nth] in H0, H1.
    destruct (index_of s0 ALPHABET O); [|contradiction]. destruct (index_of s1 ALPHABET O); [|contradiction].
    eexists. reflexivity.
  - intros (h & H). destruct salt as [|s0 [|s1 rest]]; try discriminate. cbn [length nth].
    destruct (index_of s0 ALPHABET O); [|discriminate]. destruct (index_of s1 ALPHABET O); [|discriminate].
    split; [lia|]. split; discriminate.
Qed.

Theorem equals_crypt3_total pw salt : alphabet_salt salt ->
  exists h, crypt pw salt = Some h /\ fcrypt pw salt = Ok (h ++ [0]).
Proof.
  intros Hs. destruct (proj1 (crypt_defined pw salt) Hs) as (h & Hh). exists h. split; [exact Hh|apply equals_crypt3; exact Hh].
Qed.

Theorem equals_crypt3_alphabet pw s0 s1 rest :
  index_of s0 ALPHABET O <> None -> index_of s1 ALPHABET O <> None ->
  exists h, crypt pw (s0 :: s1 :: rest) = Some h /\ fcrypt pw (s0 :: s1 :: rest) = Ok (h ++ [0]).
Proof.
  intros H0 H1. apply equals_crypt3_total. unfold alphabet_salt. cbn [length nth]. split; [lia|]. split; assumption.
Qed.

(* the hypotheses are met: the repo's own test vector *)
Example equals_crypt3_ex :
  alphabet_salt [65; 65] /\
  crypt [48; 49; 50; 51; 52; 53; 54; 55; 56; 57; 48; 49] [65; 65] = Some [65; 65; 51; 81; 66; 104; 76; 87; 107; 49; 66; 87; 65].
Proof. split; [unfold alphabet_salt; cbn; repeat split; try lia; discriminate|vm_compute; reflexivity]. Qed.
