(* C02 — all lemmas: Core (structure, shape, key locality, generate-then-verify), Tables (FIPS derivations of the
   tables), Sym + Perm (the PermOp/HPermOp networks are PC1 and FP, by symbolic evaluation), KeySched (all 16 round keys of desSetKey are the FIPS round keys, by symbolic evaluation),
   Bits + Round (one dEncrypt step is one salted Feistel round, by bit-blasting and the SPtrans sweep),
   Spec (what is proved
   about equality with textbook crypt(3)). *)
From Verif Require Export Proofs.C02_Core Proofs.C02_Tables Proofs.C02_Sym Proofs.C02_Perm Proofs.C02_KeySched Proofs.C02_Bits Proofs.C02_Round Proofs.C02_Spec.
