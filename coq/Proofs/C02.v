(* C02 — all lemmas: Core (structure, shape, key locality, generate-then-verify), Tables (FIPS derivations of the
   tables), Sym + Perm (the PermOp/HPermOp networks are PC1 and FP, by symbolic evaluation),
   KeySched (all 16 round keys of desSetKey are the FIPS round keys, by symbolic evaluation),
   Bits + Round (one dEncrypt step is one salted Feistel round, by bit-blasting and the SPtrans sweep),
   Compose (16 rounds x 25 iterations = chained textbook DES), Output (final_perm and the output loop in bits),
   Spec (kernel-evaluated vectors), Crypt3 (fcrypt = crypt(3) for all passwords and all alphabet salts),
   Session (the answers of a sequence of calls are the single-call answers, in every order),
   Accounts (histories of Register / Login / CheckPasswd / ChangePasswd: every entry point hands on the bytes it was given). *)
From Verif Require Export Proofs.C02_Core Proofs.C02_Tables Proofs.C02_Sym Proofs.C02_Perm Proofs.C02_KeySched Proofs.C02_Bits
  Proofs.C02_Round Proofs.C02_Compose Proofs.C02_Output Proofs.C02_Spec Proofs.C02_Crypt3 Proofs.C02_Session Proofs.C02_Accounts.
