From Verif Require Import Base.Common Base.Sweep Gen.CryptTab Model.C02.
From Verif Require Model.C02_Frozen.

Lemma tables_frozen :
  con_salt = C02_Frozen.con_salt /\ cov_2char = C02_Frozen.cov_2char /\ shifts2 = C02_Frozen.shifts2 /\
  skb = C02_Frozen.skb /\ SPtrans = C02_Frozen.SPtrans.
Proof. repeat split; vm_compute; reflexivity. Qed.
