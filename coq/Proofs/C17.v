(* C17 — everything Props/C17.v states: the converters on the loaded tables (Proofs/C17_main.v and the
   files it exports), the initialisation paths (Proofs/C17_init.v) and the whole start-up with time zone and
   linked table paths (Proofs/C17_start.v). *)
From Verif Require Export Proofs.C17_main Proofs.C17_init Proofs.C17_start.
