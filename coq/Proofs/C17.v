(* C17 — lemmas (interim: the tree as found; Utf8ToBig5 stalls) *)
From Coq Require Import FMapPositive.
From Verif Require Import Base.Common Model.C17.

Lemma u2b_total_refuted : exists s, bytes_ok s = true /\ utf8_to_big5 s = Hang.
Proof. exists [240]. split; vm_compute; reflexivity. Qed.
