(* C17 — everything Props/C17.v states: the converters on the loaded tables (Proofs/C17_main.v and the
   files it exports) and the initialisation paths (Proofs/C17_init.v). *)
From Verif Require Export Proofs.C17_main Proofs.C17_init.
