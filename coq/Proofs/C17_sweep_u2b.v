(* C17 — sweep over every row of the UCS -> Big5 table as gosync re-read it: codes are 16-bit, and for
   every row above ASCII the loaded map returns this row's Big5 code under the key "UTF-8 text of the
   code point", and the model converts that text to the two bytes of the code. *)
From Verif Require Import Base.Common Gen.Big5Tab Model.C17 Proofs.C17_spec.

Definition u2b_row_ok (r : Z * Z) : bool :=
  let (c, u) := r in
  (0 <=? c) && (c <? 65536) && (0 <=? u) && (u <? 65536)
  && ((u <? 128) || (opt_eqb (lookup u2b_map (utf8_std u)) (big5_bytes c) && res_eqb (utf8_to_big5 (utf8_std u)) (big5_bytes c))).

Lemma u2b_rows_sweep : forallb u2b_row_ok u2b_rows = true.
Proof. vm_compute. reflexivity. Qed.

Lemma u2b_row c u : In (c, u) u2b_rows ->
  0 <= c < 65536 /\ 0 <= u < 65536 /\
  (128 <= u -> lookup u2b_map (utf8_std u) = Some (big5_bytes c) /\ utf8_to_big5 (utf8_std u) = Ok (big5_bytes c)).
Proof.
  intros Hin. pose proof u2b_rows_sweep as H. rewrite forallb_forall in H. specialize (H _ Hin).
  unfold u2b_row_ok in H. repeat (apply andb_true_iff in H; destruct H as [H ?]).
  apply Z.leb_le in H. apply Z.ltb_lt in H3. apply Z.leb_le in H2. apply Z.ltb_lt in H1.
  split; [lia|]. split; [lia|]. intros Hu. apply orb_true_iff in H0. destruct H0 as [H0|H0]; [apply Z.ltb_lt in H0; lia|].
  apply andb_true_iff in H0. destruct H0 as [Ha Hb]. split; [apply opt_eqb_eq; assumption | apply res_eqb_eq; assumption].
Qed.

(* non-vacuity: U+4E00 is in this table too, with the same code as in the other one; U+D800 maps to FFFD *)
Example u2b_rows_sample : In (42048, 19968) u2b_rows /\ In (65533, 55296) u2b_rows /\ lenZ u2b_rows = 65407.
Proof.
  assert (F : forall a b, existsb (fun r => (fst r =? a) && (snd r =? b)) u2b_rows = true -> In (a, b) u2b_rows).
  { intros a b H. apply existsb_exists in H. destruct H as [[c u] [Hin H]]. cbn [fst snd] in H. apply andb_true_iff in H.
    destruct H as [H1 H2]. apply Z.eqb_eq in H1. apply Z.eqb_eq in H2. subst. exact Hin. }
  split; [apply F; vm_compute; reflexivity|]. split; [apply F; vm_compute; reflexivity | vm_compute; reflexivity].
Qed.
