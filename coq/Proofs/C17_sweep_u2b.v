(* C17 — sweep over every row of the UCS -> Big5 table as gosync re-read it: codes are 16-bit, and for
   every row above ASCII the loaded map returns this row's Big5 code under the key "UTF-8 text of the
   code point", and the model converts that text to the two bytes of the code. *)
From Verif Require Import Base.Common Gen.Big5Tab Model.C17 Proofs.C17_spec.

Definition u2b_row_ok (r : Z * Z) : bool :=
  let (c, u) := r in
  (0 <=? c) && (c <? 65536) && (0 <=? u) && (u <? 65536)
  && ((u <? 128) || (opt_eqb (lookup u2b_map (utf8_std u)) (big5_bytes c) && res_eqb (utf8_to_big5 (utf8_std u)) (big5_bytes c))).

Lemma u2b_rows_sweep : forallb u2b_row_ok u2b_rows = true.
Proof. vm_compute. reflexivity. Qed.

Lemma u2b_row c u : In (c, u) u2b_rows ->
  0 <= c < 65536 /\ 0 <= u < 65536 /\
  (128 <= u -> lookup u2b_map (utf8_std u) = Some (big5_bytes c) /\ utf8_to_big5 (utf8_std u) = Ok (big5_bytes c)).
Proof.
  intros Hin. pose proof u2b_rows_sweep as H. rewrite forallb_forall in H. specialize (H _ Hin).
  unfold u2b_row_ok in H. repeat (apply andb_true_iff in H; destruct H as [H ?]).
  apply Z.leb_le in H. apply Z.ltb_lt in H3. apply Z.leb_le in H2. apply Z.ltb_lt in H1.
  split; [lia|]. split; [lia|]. intros Hu. apply orb_true_iff in H0. destruct H0 as [H0|H0]; [apply Z.ltb_lt in H0; lia|].
  apply andb_true_iff in H0. destruct H0 as [Ha Hb]. split; [apply opt_eqb_eq; assumption | apply res_eqb_eq; assumption].
Qed.

(* non-vacuity: some code is in both tables with the same entry (the witness is computed from the tables) *)
Definition row_eqb (a b : Z * Z) : bool := (fst a =? fst b) && (snd a =? snd b).
Example mutual_nonempty : exists c u, In (c, u) b2u_rows /\ In (c, u) u2b_rows /\ 128 <= u.
Proof.
  assert (H : exists r, find (fun r => (128 <=? snd r) && existsb (row_eqb r) u2b_rows) b2u_rows = Some r) by (vm_compute; eexists; reflexivity).
  destruct H as [[c u] H]. apply find_some in H. destruct H as [Hin H]. apply andb_true_iff in H. destruct H as [Hu H].
  apply existsb_exists in H. destruct H as [[c' u'] [Hin' E]]. unfold row_eqb in E. cbn [fst snd] in E, Hu.
  apply andb_true_iff in E. destruct E as [E1 E2]. apply Z.eqb_eq in E1. apply Z.eqb_eq in E2. subst c' u'.
  apply Z.leb_le in Hu. exists c, u. auto.
Qed.
