From Verif Require Import Base.Common Base.ListX Gen.Consts_default Model.C10.
From Coq Require Import ZifyBool.
Ltac Zify.zify_post_hook ::= Z.div_mod_to_equations.

(* ---------------------------------------------------------------- patch / slice *)
Lemma nth_firstn {A} (l : list A) : forall n k, (k < n)%nat -> nth_error (firstn n l) k = nth_error l k.
Proof.
  induction l as [|x l IH]; intros n k H; [destruct n, k; reflexivity|].
  destruct n as [|n]; [lia|]. destruct k as [|k]; [reflexivity|]. cbn. apply IH. lia.
Qed.
Lemma nth_skipn {A} (l : list A) : forall n k, nth_error (skipn n l) k = nth_error l (n + k).
Proof.
  induction l as [|x l IH]; intros n k; [destruct n, k; reflexivity|].
  destruct n as [|n]; [reflexivity|]. cbn. apply IH.
Qed.
Lemma patch_length l off p : (off + length p <= length l)%nat -> length (patch l off p) = length l.
Proof. intros H. unfold patch. rewrite !app_length, firstn_length, skipn_length. lia. Qed.

Lemma patch_nth_outside l off p k : (off + length p <= length l)%nat -> (k < off \/ off + length p <= k)%nat ->
  nth_error (patch l off p) k = nth_error l k.
Proof.
  intros Hl Hk. unfold patch. destruct Hk as [Hk|Hk].
  - rewrite nth_error_app1 by (rewrite firstn_length; lia). rewrite nth_firstn by lia. reflexivity.
  - rewrite nth_error_app2 by (rewrite firstn_length; lia). rewrite firstn_length.
    rewrite nth_error_app2 by lia. rewrite nth_skipn. f_equal. lia.
Qed.

Lemma patch_nth_inside l off p k : (off + length p <= length l)%nat -> (off <= k < off + length p)%nat ->
  nth_error (patch l off p) k = nth_error p (k - off).
Proof.
  intros Hl Hk. unfold patch. rewrite nth_error_app2 by (rewrite firstn_length; lia). rewrite firstn_length.
  rewrite nth_error_app1 by lia. f_equal. lia.
Qed.

Lemma slice_length l off n : (off + n <= length l)%nat -> length (slice l off n) = n.
Proof. intros H. unfold slice. rewrite firstn_length, skipn_length. lia. Qed.

Lemma slice_nth l off n j : (j < n)%nat -> nth_error (slice l off n) j = nth_error l (off + j).
Proof. intros H. unfold slice. rewrite nth_firstn by lia. apply nth_skipn. Qed.

Lemma nth_error_ext {A} (a b : list A) : (forall k, nth_error a k = nth_error b k) -> a = b.
Proof.
  revert b. induction a as [|x a IH]; intros [|y b] H; [reflexivity|specialize (H 0%nat); discriminate..|].
  pose proof (H 0%nat) as H0. cbn in H0. injection H0 as ->. f_equal. apply IH. intros k. exact (H (S k)).
Qed.

Lemma slice_patch_same l off p : (off + length p <= length l)%nat -> slice (patch l off p) off (length p) = p.
Proof.
  intros H. apply nth_error_ext. intros k. destruct (Nat.lt_ge_cases k (length p)) as [Hk|Hk].
  - rewrite slice_nth by lia. rewrite patch_nth_inside by lia. f_equal. lia.
  - rewrite (proj2 (nth_error_None p k)) by lia. apply nth_error_None.
    rewrite slice_length; [lia|]. rewrite patch_length; lia.
Qed.

Lemma nth_of_nth_error (l : list Z) k v : nth_error l k = Some v -> nth k l 0 = v.
Proof. intros H. apply nth_error_nth. exact H. Qed.

(* ---------------------------------------------------------------- the record rewrite *)
Lemma le32_length x : length (le32 x) = 4%nat.
Proof. reflexivity. Qed.

Lemma modify_rec_length r mtime update : length r = REC_SZ -> length (modify_rec r mtime update) = REC_SZ.
Proof.
  intros Hr. change REC_SZ with 128%nat in *. unfold modify_rec.
  assert (H1 : length (if 0 <? mtime then patch r OFF_MODIFIED (le32 mtime) else r) = 128%nat).
  { destruct (0 <? mtime); [|exact Hr]. rewrite patch_length; [exact Hr|]. rewrite le32_length, Hr. unfold OFF_MODIFIED. lia. }
  destruct (update =? 0); [exact H1|]. rewrite patch_length; [exact H1|]. rewrite H1. unfold OFF_RECOMMEND. cbn [length]. lia.
Qed.

(* the rewritten record differs from the one read only in Modified (28..31) and Recommend (33) *)
Lemma modify_rec_frame r mtime update k : length r = REC_SZ ->
  ~ (28 <= k < 32)%nat -> k <> 33%nat -> nth_error (modify_rec r mtime update) k = nth_error r k.
Proof.
  intros Hr H1 H2. change REC_SZ with 128%nat in *. unfold modify_rec.
  set (r1 := if 0 <? mtime then patch r OFF_MODIFIED (le32 mtime) else r).
  assert (L1 : length r1 = 128%nat).
  { unfold r1. destruct (0 <? mtime); [|exact Hr]. rewrite patch_length; [exact Hr|]. rewrite le32_length, Hr. unfold OFF_MODIFIED. lia. }
  assert (E1 : nth_error r1 k = nth_error r k).
  { unfold r1. destruct (0 <? mtime); [|reflexivity]. apply patch_nth_outside; rewrite le32_length; unfold OFF_MODIFIED; lia. }
  destruct (update =? 0); [exact E1|]. rewrite patch_nth_outside; [exact E1| |]; cbn [length]; unfold OFF_RECOMMEND; lia.
Qed.

Lemma modify_rec_score r mtime update : length r = REC_SZ ->
  rec_score (modify_rec r mtime update) =
  if update =? 0 then rec_score r else wrap8 (u8 (clamp (wrap8 (update + rec_score r)))).
Proof.
  intros Hr. change REC_SZ with 128%nat in *. unfold modify_rec.
  set (r1 := if 0 <? mtime then patch r OFF_MODIFIED (le32 mtime) else r).
  assert (L1 : length r1 = 128%nat).
  { unfold r1. destruct (0 <? mtime); [|exact Hr]. rewrite patch_length; [exact Hr|]. rewrite le32_length, Hr. unfold OFF_MODIFIED. lia. }
  assert (E1 : nth_error r1 33 = nth_error r 33).
  { unfold r1. destruct (0 <? mtime); [|reflexivity]. apply patch_nth_outside; rewrite le32_length; unfold OFF_MODIFIED; lia. }
  destruct (update =? 0).
  - unfold rec_score, OFF_RECOMMEND. f_equal.
    destruct (nth_error r 33) as [v|] eqn:Ev.
    + rewrite (nth_of_nth_error r1 33 v) by exact E1. symmetry. apply nth_of_nth_error. exact Ev.
    + apply nth_error_None in Ev. lia.
  - unfold rec_score at 1. f_equal. apply nth_of_nth_error.
    rewrite patch_nth_inside; cbn [length]; unfold OFF_RECOMMEND; try lia. rewrite Nat.sub_diag. reflexivity.
Qed.

(* ---------------------------------------------------------------- lookup *)
Lemma find_entry_lt dir name k i : find_entry dir name k = Some i -> (i < k)%nat.
Proof.
  induction k as [|k IH]; [discriminate|]. cbn [find_entry].
  destruct (name_eq (rec_name (rec_at dir k)) name); [intros H; injection H as <-; lia|intros H; specialize (IH H); lia].
Qed.

Lemma entry_in_range (dir : list Z) i : (i < length dir / REC_SZ)%nat -> (i * REC_SZ + REC_SZ <= length dir)%nat.
Proof.
  change REC_SZ with 128%nat. intros H.
  pose proof (Nat.div_mod (length dir) 128 ltac:(lia)) as Hd. nia.
Qed.

(* ---------------------------------------------------------------- one accepted comment *)
Definition delta (ct : Z) : Z := if ct =? CT_RECOMMEND then 1 else if ct =? CT_BOO then -1 else 0.

Lemma accepted_inv c name ct content clock mtime s line s' :
  recommend c name ct content clock mtime s = COk line s' ->
  exists i, find_entry (s_dir s) name (length (s_dir s) / REC_SZ) = Some i /\
    c_norec c = false /\ nth 0 name 0 <> 76 /\ locked (rec_filemode (rec_at (s_dir s) i)) = false /\
    line = comment_line (c_align c) (c_iplog c) (c_uid13 c) (c_ip16 c) ct content clock /\
    s' = do_add_recommend s i line ct mtime.
Proof.
  unfold recommend. destruct (length (s_dir s) / REC_SZ =? 0)%nat; [discriminate|].
  destruct (find_entry (s_dir s) name (length (s_dir s) / REC_SZ)) as [i|]; [|discriminate].
  destruct (c_norec c) eqn:E1; [discriminate|]. destruct (nth 0 name 0 =? 76) eqn:E2; [discriminate|].
  destruct (locked (rec_filemode (rec_at (s_dir s) i))) eqn:E3; [discriminate|]. cbn [orb].
  intros H. injection H as <- <-. exists i. split; [reflexivity|]. split; [reflexivity|]. split; [lia|]. split; [exact E3|]. split; reflexivity.
Qed.

Lemma In_cprefix x l : In x (cprefix l) -> In x l.
Proof.
  induction l as [|c r IH]; [intros []|]. cbn [cprefix]. destruct (c =? 0); [intros []|].
  intros [->|H]; [left; reflexivity|right; apply IH; exact H].
Qed.

Lemma type_mark_no_lf ct : ~ In 10 (type_mark ct).
Proof.
  unfold type_mark. destruct (ct =? CT_RECOMMEND); [|destruct (ct =? CT_BOO); [|destruct (ct =? CT_COMMENT)]];
    cbn; intros H; repeat (destruct H as [H|H]; [discriminate|]); exact H.
Qed.

(* the article only grows, by exactly the returned line; the line is mark, blank, colour, user, ": ", text,
   padding, reset, [ip], blank, clock, LF in this order, and LF occurs only at its end *)
Lemma append_only c name ct content clock mtime s line s' :
  recommend c name ct content clock mtime s = COk line s' ->
  s_art s' = s_art s ++ line /\
  line = type_mark ct ++ [32] ++ ansi_color [51; 51] ++ (if c_align c then c_uid13 c else cprefix (c_uid13 c)) ++
         (ansi_reset ++ ansi_color [51; 51] ++ [58; 32]) ++ content ++
         repeat 32 (Z.to_nat (62 - (if c_iplog c then 15 else 0) - lenZ (if c_align c then c_uid13 c else cprefix (c_uid13 c)) - lenZ content)) ++
         ansi_reset ++ ((if c_iplog c then cprefix (c_ip16 c) else []) ++ [32] ++ clock) ++ [10] /\
  (~ In 10 (c_uid13 c) -> ~ In 10 (c_ip16 c) -> ~ In 10 content -> ~ In 10 clock ->
   exists body, line = body ++ [10] /\ ~ In 10 body).
Proof.
  intros H. destruct (accepted_inv _ _ _ _ _ _ _ _ _ H) as (i & _ & _ & _ & _ & Hl & Hs).
  split; [|split].
  - rewrite Hs. unfold do_add_recommend. destruct (0 <? mtime); reflexivity.
  - rewrite Hl. unfold comment_line. repeat f_equal.
  - intros Hu Hi Hc Hk. rewrite Hl. unfold comment_line.
    set (user := if c_align c then c_uid13 c else cprefix (c_uid13 c)).
    set (tail := (if c_iplog c then cprefix (c_ip16 c) else []) ++ [32] ++ clock).
    eexists. split; [rewrite !app_assoc; reflexivity|].
    assert (Huser : ~ In 10 user) by (unfold user; destruct (c_align c); [exact Hu|intros X; apply Hu, In_cprefix, X]).
    assert (Htail : ~ In 10 tail).
    { unfold tail. rewrite !in_app_iff. intros [X|[X|X]]; [destruct (c_iplog c); [apply Hi, In_cprefix, X|destruct X]|cbn in X; lia|apply Hk, X]. }
    rewrite !in_app_iff. intros X.
    repeat (destruct X as [X|X]); try (apply (type_mark_no_lf ct); exact X); try (apply Huser; exact X); try (apply Hc; exact X);
      try (apply Htail; exact X); try (apply repeat_spec in X; lia); cbn in X; unfold ESC in X; lia.
Qed.

(* ---------------------------------------------------------------- the index: frame and score *)
Lemma rec_at_length (dir : list Z) i : (i < length dir / REC_SZ)%nat -> length (rec_at dir i) = REC_SZ.
Proof. intros H. unfold rec_at. apply slice_length. apply entry_in_range. exact H. Qed.

Lemma modify_dir_frame (dir : list Z) i mtime update : (i < length dir / REC_SZ)%nat ->
  length (modify_dir_lite dir i mtime update) = length dir /\
  forall k, ~ (i * REC_SZ + 28 <= k < i * REC_SZ + 32)%nat -> k <> (i * REC_SZ + 33)%nat ->
    nth_error (modify_dir_lite dir i mtime update) k = nth_error dir k.
Proof.
  intros Hi. pose proof (entry_in_range dir i Hi) as Hr. pose proof (rec_at_length dir i Hi) as Hl.
  pose proof (modify_rec_length _ mtime update Hl) as Hl'. unfold modify_dir_lite.
  split; [apply patch_length; rewrite Hl'; exact Hr|].
  intros k H1 H2. change REC_SZ with 128%nat in *.
  destruct (Nat.lt_ge_cases k (i * 128)) as [Hk|Hk]; [apply patch_nth_outside; rewrite Hl'; lia|].
  destruct (Nat.lt_ge_cases k (i * 128 + 128)) as [Hk2|Hk2]; [|apply patch_nth_outside; rewrite Hl'; lia].
  rewrite patch_nth_inside by (rewrite Hl'; lia).
  rewrite modify_rec_frame; [|exact Hl|lia|lia].
  unfold rec_at. change REC_SZ with 128%nat. rewrite slice_nth by lia. f_equal. lia.
Qed.

Lemma index_frame c name ct content clock mtime s line s' :
  recommend c name ct content clock mtime s = COk line s' ->
  exists i, find_entry (s_dir s) name (length (s_dir s) / REC_SZ) = Some i /\
    length (s_dir s') = length (s_dir s) /\
    forall k, ~ (i * REC_SZ + 28 <= k < i * REC_SZ + 32)%nat -> k <> (i * REC_SZ + 33)%nat ->
      nth_error (s_dir s') k = nth_error (s_dir s) k.
Proof.
  intros H. destruct (accepted_inv _ _ _ _ _ _ _ _ _ H) as (i & Hf & _ & _ & _ & _ & Hs).
  exists i. split; [exact Hf|]. pose proof (find_entry_lt _ _ _ _ Hf) as Hi.
  rewrite Hs. unfold do_add_recommend. destruct (0 <? mtime); cbn [s_dir]; [|split; [reflexivity|intros; reflexivity]].
  apply modify_dir_frame. exact Hi.
Qed.

Lemma wrap8_small x : -128 <= x < 128 -> wrap8 x = x.
Proof. unfold wrap8. intros H. destruct (x mod 256 <? 128) eqn:E; lia. Qed.

Lemma wrap8_u8_small x : -128 <= x < 128 -> wrap8 (u8 x) = x.
Proof. unfold wrap8, u8. intros H. rewrite Z.mod_mod by lia. destruct (x mod 256 <? 128) eqn:E; lia. Qed.

Lemma clamp_eq x : clamp x = if 100 <? x then 100 else if x <? -100 then -100 else x.
Proof. reflexivity. Qed.
Lemma update_of_eq ct score : update_of ct score =
  if (ct =? CT_RECOMMEND) && (score <? 100) then 1 else if (ct =? CT_BOO) && (-100 <? score) then -1 else 0.
Proof. reflexivity. Qed.

Lemma clamp_range x : -100 <= clamp x <= 100.
Proof. rewrite clamp_eq. destruct (100 <? x) eqn:E1; [lia|]. destruct (x <? -100) eqn:E2; lia. Qed.

(* one accepted comment moves the score of the addressed entry to clamp(old + delta) *)
Lemma score_step c name ct content clock mtime s line s' i :
  recommend c name ct content clock mtime s = COk line s' ->
  find_entry (s_dir s) name (length (s_dir s) / REC_SZ) = Some i ->
  0 < mtime ->
  -100 <= rec_score (rec_at (s_dir s) i) <= 100 ->
  rec_score (rec_at (s_dir s') i) = clamp (rec_score (rec_at (s_dir s) i) + delta ct) /\
  -100 <= rec_score (rec_at (s_dir s') i) <= 100 /\
  -1 <= rec_score (rec_at (s_dir s') i) - rec_score (rec_at (s_dir s) i) <= 1.
Proof.
  intros H Hf Hm Hold. destruct (accepted_inv _ _ _ _ _ _ _ _ _ H) as (i' & Hf' & _ & _ & _ & _ & Hs).
  rewrite Hf in Hf'. injection Hf' as <-. pose proof (find_entry_lt _ _ _ _ Hf) as Hi.
  pose proof (entry_in_range _ i Hi) as Hr. pose proof (rec_at_length _ i Hi) as Hl.
  rewrite Hs. unfold do_add_recommend. assert (E : (0 <? mtime) = true) by lia. rewrite E. cbn [s_dir].
  set (old := rec_score (rec_at (s_dir s) i)) in *.
  assert (Hrec : rec_at (modify_dir_lite (s_dir s) i mtime (update_of ct old)) i = modify_rec (rec_at (s_dir s) i) mtime (update_of ct old)).
  { pose proof (slice_patch_same (s_dir s) (i * REC_SZ) (modify_rec (rec_at (s_dir s) i) mtime (update_of ct old))) as X.
    rewrite modify_rec_length in X by exact Hl. unfold modify_dir_lite. unfold rec_at at 1. apply X. exact Hr. }
  rewrite Hrec, modify_rec_score by exact Hl. fold old.
  assert (Hnew : (if update_of ct old =? 0 then old else wrap8 (u8 (clamp (wrap8 (update_of ct old + old))))) = clamp (old + delta ct)).
  { rewrite update_of_eq. unfold delta.
    destruct (ct =? CT_RECOMMEND) eqn:E1; cbn [andb].
    - destruct (old <? 100) eqn:E2; cbn [Z.eqb].
      + rewrite (wrap8_small (1 + old)) by lia. replace (old + 1) with (1 + old) by lia. apply wrap8_u8_small. pose proof (clamp_range (1 + old)). lia.
      + assert (Eb : (ct =? CT_BOO) = false) by (change CT_RECOMMEND with 1 in E1; change CT_BOO with 2; lia).
        rewrite Eb. cbn [andb Z.eqb]. rewrite clamp_eq. destruct (100 <? old + 1) eqn:E3; lia.
    - destruct (ct =? CT_BOO) eqn:E3; cbn [andb].
      + destruct (-100 <? old) eqn:E2; cbn [Z.eqb].
        * rewrite (wrap8_small (-1 + old)) by lia. replace (old + -1) with (-1 + old) by lia. apply wrap8_u8_small. pose proof (clamp_range (-1 + old)). lia.
        * rewrite clamp_eq. destruct (100 <? old + -1) eqn:E4; [lia|]. destruct (old + -1 <? -100) eqn:E5; lia.
      + cbn [Z.eqb]. rewrite clamp_eq, Z.add_0_r. destruct (100 <? old) eqn:E4; [lia|]. destruct (old <? -100) eqn:E5; lia. }
  rewrite Hnew. split; [reflexivity|]. split; [apply clamp_range|].
  rewrite clamp_eq. unfold delta.
  destruct (ct =? CT_RECOMMEND); [|destruct (ct =? CT_BOO)];
    match goal with |- context [100 <? ?x] => destruct (100 <? x) eqn:Ea; [lia|]; destruct (x <? -100) eqn:Eb; lia end.
Qed.

(* ---------------------------------------------------------------- the stamp stored before vs. the clock *)
Lemma modify_rec_modified r mtime update : length r = REC_SZ -> 0 < mtime ->
  rec_modified (modify_rec r mtime update) = le32 mtime.
Proof.
  intros Hr Hm. change REC_SZ with 128%nat in *. unfold modify_rec, rec_modified.
  assert (E : (0 <? mtime) = true) by lia. rewrite E.
  assert (L1 : length (patch r OFF_MODIFIED (le32 mtime)) = 128%nat).
  { rewrite patch_length; [exact Hr|]. rewrite le32_length, Hr. unfold OFF_MODIFIED. lia. }
  assert (S1 : slice (patch r OFF_MODIFIED (le32 mtime)) OFF_MODIFIED 4 = le32 mtime).
  { assert (Hb : (OFF_MODIFIED + length (le32 mtime) <= length r)%nat) by (rewrite le32_length, Hr; unfold OFF_MODIFIED; lia).
    exact (slice_patch_same r OFF_MODIFIED (le32 mtime) Hb). }
  destruct (update =? 0); [exact S1|].
  transitivity (slice (patch r OFF_MODIFIED (le32 mtime)) OFF_MODIFIED 4); [|exact S1]. apply nth_error_ext. intros k.
  destruct (Nat.lt_ge_cases k 4) as [Hk|Hk].
  - rewrite !slice_nth by exact Hk. apply patch_nth_outside; [rewrite L1; cbn [length]; unfold OFF_RECOMMEND; lia|cbn [length]; unfold OFF_RECOMMEND, OFF_MODIFIED; lia].
  - set (x := u8 (clamp (wrap8 (update + rec_score r)))).
    assert (L2 : length (patch (patch r OFF_MODIFIED (le32 mtime)) OFF_RECOMMEND [x]) = 128%nat).
    { rewrite patch_length; [exact L1|]. rewrite L1. cbn [length]. unfold OFF_RECOMMEND. lia. }
    transitivity (@None Z); [|symmetry]; apply nth_error_None.
    + rewrite slice_length by (rewrite L2; unfold OFF_MODIFIED; lia). lia.
    + rewrite slice_length by (rewrite L1; unfold OFF_MODIFIED; lia). lia.
Qed.

(* after an accepted comment the entry's Modified field is the article file's mtime - whatever was stored before *)
Lemma modified_is_mtime c name ct content clock mtime s line s' i :
  recommend c name ct content clock mtime s = COk line s' ->
  find_entry (s_dir s) name (length (s_dir s) / REC_SZ) = Some i ->
  0 < mtime ->
  rec_modified (rec_at (s_dir s') i) = le32 mtime.
Proof.
  intros H Hf Hm. destruct (accepted_inv _ _ _ _ _ _ _ _ _ H) as (i' & Hf' & _ & _ & _ & _ & Hs).
  rewrite Hf in Hf'. injection Hf' as <-. pose proof (find_entry_lt _ _ _ _ Hf) as Hi.
  pose proof (entry_in_range _ i Hi) as Hr. pose proof (rec_at_length _ i Hi) as Hl.
  rewrite Hs. unfold do_add_recommend. assert (E : (0 <? mtime) = true) by lia. rewrite E. cbn [s_dir].
  set (upd := update_of ct (rec_score (rec_at (s_dir s) i))).
  assert (Hrec : rec_at (modify_dir_lite (s_dir s) i mtime upd) i = modify_rec (rec_at (s_dir s) i) mtime upd).
  { pose proof (slice_patch_same (s_dir s) (i * REC_SZ) (modify_rec (rec_at (s_dir s) i) mtime upd)) as X.
    rewrite modify_rec_length in X by exact Hl. unfold modify_dir_lite. unfold rec_at at 1. apply X. exact Hr. }
  rewrite Hrec. apply modify_rec_modified; assumption.
Qed.

(* the clock reads EARLIER than the stamp stored in the entry (clock stepped back, entry stamped by a host running ahead):
   the comment is appended, the score moves by its delta and Modified becomes the file's mtime all the same *)
Lemma clock_behind_stamp c name ct content clock mtime s line s' i stamp :
  recommend c name ct content clock mtime s = COk line s' ->
  find_entry (s_dir s) name (length (s_dir s) / REC_SZ) = Some i ->
  rec_modified (rec_at (s_dir s) i) = le32 stamp -> 0 < mtime < stamp ->
  -100 <= rec_score (rec_at (s_dir s) i) <= 100 ->
  s_art s' = s_art s ++ line /\
  rec_score (rec_at (s_dir s') i) = clamp (rec_score (rec_at (s_dir s) i) + delta ct) /\
  rec_modified (rec_at (s_dir s') i) = le32 mtime.
Proof.
  intros H Hf _ [Hm _] Hs.
  split; [exact (proj1 (append_only _ _ _ _ _ _ _ _ _ H))|].
  split; [exact (proj1 (score_step _ _ _ _ _ _ _ _ _ _ H Hf Hm Hs))|].
  exact (modified_is_mtime _ _ _ _ _ _ _ _ _ _ H Hf Hm).
Qed.

Lemma refusals (c : cfg) name ct content clock mtime s i :
  find_entry (s_dir s) name (length (s_dir s) / REC_SZ) = Some i ->
  c_norec c = true \/ nth 0 name 0 = 76 \/ locked (rec_filemode (rec_at (s_dir s) i)) = true ->
  recommend c name ct content clock mtime s = CErr E_PERM /\
  next_state s (recommend c name ct content clock mtime s) = s.
Proof.
  intros Hf Hc. unfold recommend. rewrite Hf.
  destruct (length (s_dir s) / REC_SZ =? 0)%nat eqn:E0.
  - apply Nat.eqb_eq in E0. rewrite E0 in Hf. discriminate.
  - assert (E : c_norec c || (nth 0 name 0 =? 76) || locked (rec_filemode (rec_at (s_dir s) i)) = true).
    { destruct Hc as [->|[->| ->]]; [reflexivity|rewrite Z.eqb_refl, orb_true_r; reflexivity|apply orb_true_r]. }
    rewrite E. split; reflexivity.
Qed.

(* ---------------------------------------------------------------- sequences of comments *)
Definition step_in : Type := (Z * list Z * list Z * Z)%type.       (* type, text, clock string, mtime *)
Fixpoint run_seq (c : cfg) (name : list Z) (steps : list step_in) (s : st) : st :=
  match steps with
  | [] => s
  | (ct, content, clock, mt) :: r => run_seq c name r (next_state s (recommend c name ct content clock mt s))
  end.
Definition score_after (start : Z) (steps : list step_in) : Z :=
  fold_left (fun sc (st : step_in) => clamp (sc + delta (fst (fst (fst st))))) steps start.

Lemma frame_names (d d' : list Z) i : length d' = length d ->
  (forall k, ~ (i * REC_SZ + 28 <= k < i * REC_SZ + 32)%nat -> k <> (i * REC_SZ + 33)%nat -> nth_error d' k = nth_error d k) ->
  forall k, (k < length d / REC_SZ)%nat ->
    rec_name (rec_at d' k) = rec_name (rec_at d k) /\ rec_filemode (rec_at d' k) = rec_filemode (rec_at d k).
Proof.
  intros Hlen Hfr k Hk. pose proof (entry_in_range d k Hk) as Hr. change REC_SZ with 128%nat in *.
  assert (Hj : forall j, (j < 128)%nat -> ~ (28 <= j < 34)%nat -> nth_error (rec_at d' k) j = nth_error (rec_at d k) j).
  { intros j Hj Hn. unfold rec_at. change REC_SZ with 128%nat. rewrite !slice_nth by lia. apply Hfr; lia. }
  split.
  - unfold rec_name. apply nth_error_ext. intros j. destruct (Nat.lt_ge_cases j 28) as [H|H].
    + rewrite !nth_firstn by lia. apply Hj; lia.
    + assert (L : forall x : list Z, length x = 128%nat -> nth_error (firstn 28 x) j = None)
        by (intros x Hx; apply nth_error_None; rewrite firstn_length; lia).
      rewrite !L; [reflexivity| |]; unfold rec_at; change REC_SZ with 128%nat; apply slice_length; lia.
  - unfold rec_filemode, OFF_FILEMODE. pose proof (Hj 124%nat ltac:(lia) ltac:(lia)) as H.
    destruct (nth_error (rec_at d k) 124) as [v|] eqn:Ev.
    + rewrite (nth_of_nth_error _ _ _ H), (nth_of_nth_error _ _ _ Ev). reflexivity.
    + apply nth_error_None in Ev. unfold rec_at in Ev. change REC_SZ with 128%nat in Ev. rewrite slice_length in Ev; lia.
Qed.

Lemma find_entry_ext (d d' name : list Z) n :
  (forall k, (k < n)%nat -> rec_name (rec_at d' k) = rec_name (rec_at d k)) ->
  find_entry d' name n = find_entry d name n.
Proof.
  induction n as [|n IH]; intros H; [reflexivity|]. cbn [find_entry]. rewrite (H n) by lia. rewrite IH; [reflexivity|].
  intros k Hk. apply H. lia.
Qed.

(* along EVERY sequence of comments on an article that accepts comments, from every start score in range:
   the score after the sequence is the fold of clamp(. + delta), and it is in range after every prefix *)
Lemma score_seq c name : forall (steps : list step_in) s i,
  find_entry (s_dir s) name (length (s_dir s) / REC_SZ) = Some i ->
  c_norec c = false -> nth 0 name 0 <> 76 -> locked (rec_filemode (rec_at (s_dir s) i)) = false ->
  Forall (fun st : step_in => 0 < snd st) steps ->
  -100 <= rec_score (rec_at (s_dir s) i) <= 100 ->
  let s' := run_seq c name steps s in
  rec_score (rec_at (s_dir s') i) = score_after (rec_score (rec_at (s_dir s) i)) steps /\
  -100 <= rec_score (rec_at (s_dir s') i) <= 100.
Proof.
  induction steps as [|[[[ct content] clock] mt] r IH]; intros s i Hf Hn Hl Hk Hm Hs; cbv zeta.
  - cbn. split; [reflexivity|exact Hs].
  - inversion Hm as [|? ? Hm1 Hm2]; subst. cbn [snd] in Hm1. cbn [run_seq].
    pose proof (find_entry_lt _ _ _ _ Hf) as Hi.
    assert (Hacc : exists line s1, recommend c name ct content clock mt s = COk line s1).
    { unfold recommend. rewrite Hf. destruct (length (s_dir s) / REC_SZ =? 0)%nat eqn:E0; [apply Nat.eqb_eq in E0; lia|].
      rewrite Hn, Hk. assert (E : (nth 0 name 0 =? 76) = false) by lia. rewrite E. cbn [orb]. eexists. eexists. reflexivity. }
    destruct Hacc as (line & s1 & Hacc). rewrite Hacc. cbn [next_state].
    destruct (index_frame _ _ _ _ _ _ _ _ _ Hacc) as (i' & Hf' & Hlen & Hfr). rewrite Hf in Hf'. injection Hf' as <-.
    destruct (score_step _ _ _ _ _ _ _ _ _ _ Hacc Hf Hm1 Hs) as (Hsc & Hrng & _).
    pose proof (frame_names (s_dir s) (s_dir s1) i Hlen Hfr) as Hnm.
    assert (Hf1 : find_entry (s_dir s1) name (length (s_dir s1) / REC_SZ) = Some i).
    { rewrite Hlen. rewrite (find_entry_ext (s_dir s) (s_dir s1) name); [exact Hf|]. intros k Hk'. apply Hnm. exact Hk'. }
    assert (Hk1 : locked (rec_filemode (rec_at (s_dir s1) i)) = false) by (rewrite (proj2 (Hnm i Hi)); exact Hk).
    specialize (IH s1 i Hf1 Hn Hl Hk1 Hm2 Hrng). cbv zeta in IH. destruct IH as [IH1 IH2].
    split; [|exact IH2]. rewrite IH1. unfold score_after. cbn [fold_left fst]. rewrite Hsc. reflexivity.
Qed.

(* ---------------------------------------------------------------- non-vacuity: a one-entry index at score 99, a push, then another *)
Definition ex_name : list Z := fixlen 28 [77; 46; 49; 54; 48; 55; 50; 48; 48; 48; 48; 48; 46; 65; 46; 48; 48; 68].
Definition ex_dir : list Z := patch (fixlen 128 ex_name) 33 [99].
Definition ex_cfg : cfg := Cfg false false false (fixlen 13 [65; 49]) (fixlen 16 []).
Definition ex_state : st := St [120; 10] ex_dir.
Definition ex_clock : list Z := [48; 57; 47; 51; 48; 32; 49; 50; 58; 51; 52].

Example ex_accepts : find_entry (s_dir ex_state) ex_name (length (s_dir ex_state) / REC_SZ) = Some 0%nat /\
  rec_score (rec_at (s_dir ex_state) 0) = 99 /\
  exists line s', recommend ex_cfg ex_name 1 [104; 105] ex_clock 1700000000 ex_state = COk line s' /\
    rec_score (rec_at (s_dir s') 0) = 100 /\ length line = 103%nat.
Proof. split; [vm_compute; reflexivity|]. split; [vm_compute; reflexivity|]. eexists. eexists. split; [vm_compute; reflexivity|]. split; vm_compute; reflexivity. Qed.

Example ex_saturates :
  rec_score (rec_at (s_dir (run_seq ex_cfg ex_name [(1, [104], ex_clock, 1700000000); (1, [], ex_clock, 1700000001); (2, [], ex_clock, 1700000002)] ex_state)) 0) = 99.
Proof. vm_compute. reflexivity. Qed.

(* non-vacuity of clock_behind_stamp: the entry carries a stamp of 2033, the clock (and the file's mtime) reads 2023 *)
Definition ex_ahead : st := St [120; 10] (stamp_named ex_dir ex_name 2000000000).
Example ex_clock_behind :
  find_entry (s_dir ex_ahead) ex_name (length (s_dir ex_ahead) / REC_SZ) = Some 0%nat /\
  rec_modified (rec_at (s_dir ex_ahead) 0) = le32 2000000000 /\
  exists line s', recommend ex_cfg ex_name 1 [104; 105] ex_clock 1700000000 ex_ahead = COk line s' /\
    rec_score (rec_at (s_dir s') 0) = 100 /\ rec_modified (rec_at (s_dir s') 0) = le32 1700000000.
Proof. split; [vm_compute; reflexivity|]. split; [vm_compute; reflexivity|]. eexists. eexists. split; [vm_compute; reflexivity|]. split; vm_compute; reflexivity. Qed.

(* ================================================================ board sessions: several articles, several commenters,
   every comment-related board attribute; histories of comments *)
Lemma set_nth_length k : forall l v, length (set_nth k l v) = length l.
Proof. induction k as [|k IH]; intros [|a l] v; cbn [set_nth length]; try reflexivity. rewrite IH. reflexivity. Qed.

Lemma set_nth_same k : forall l v, (k < length l)%nat -> nth k (set_nth k l v) [] = v.
Proof.
  induction k as [|k IH]; intros [|a l] v H; cbn [length] in H; try lia; cbn [set_nth nth]; [reflexivity|].
  apply IH. lia.
Qed.

Lemma set_nth_other k : forall j l v, j <> k -> nth j (set_nth k l v) [] = nth j l [].
Proof.
  induction k as [|k IH]; intros j [|a l] v H; cbn [set_nth]; try reflexivity.
  - destruct j as [|j]; [lia|reflexivity].
  - destruct j as [|j]; [reflexivity|]. cbn [nth]. apply IH. lia.
Qed.

(* every OTHER entry of the index is byte for byte what it was *)
Lemma frame_other (d d' : list Z) i : length d' = length d ->
  (forall k, ~ (i * REC_SZ + 28 <= k < i * REC_SZ + 32)%nat -> k <> (i * REC_SZ + 33)%nat -> nth_error d' k = nth_error d k) ->
  forall j, (j < length d / REC_SZ)%nat -> j <> i -> rec_at d' j = rec_at d j.
Proof.
  intros Hlen Hfr j Hj Hne. pose proof (entry_in_range d j Hj) as Hr. change REC_SZ with 128%nat in *.
  apply nth_error_ext. intros k. unfold rec_at. change REC_SZ with 128%nat.
  destruct (Nat.lt_ge_cases k 128) as [Hk|Hk].
  - rewrite !slice_nth by lia. apply Hfr; lia.
  - rewrite (proj2 (nth_error_None (slice d' (j * 128) 128) k)) by (rewrite slice_length; lia).
    symmetry. apply nth_error_None. rewrite slice_length; lia.
Qed.

Definition scores_ok (d : list Z) : Prop :=
  forall j, (j < length d / REC_SZ)%nat -> -100 <= rec_score (rec_at d j) <= 100.

(* same length, and every entry has the name and the file mode it had in d0 *)
Definition same_index (d0 d : list Z) : Prop :=
  length d = length d0 /\
  forall k, (k < length d0 / REC_SZ)%nat ->
    rec_name (rec_at d k) = rec_name (rec_at d0 k) /\ rec_filemode (rec_at d k) = rec_filemode (rec_at d0 k).

Lemma same_index_refl d : same_index d d.
Proof. split; [reflexivity|]. intros k _. split; reflexivity. Qed.

Lemma same_index_find d0 d name : same_index d0 d ->
  find_entry d name (length d / REC_SZ) = find_entry d0 name (length d0 / REC_SZ).
Proof. intros [Hl Hn]. rewrite Hl. apply find_entry_ext. intros k Hk. apply Hn. exact Hk. Qed.

(* one step of a board session, accepted or refused, keeps: all scores in range, the shape of the index *)
Lemma board_step_inv b names x s d0 :
  0 < h_mtime x -> scores_ok (bs_dir s) -> same_index d0 (bs_dir s) ->
  scores_ok (bs_dir (board_next x s (board_step b names x s))) /\
  same_index d0 (bs_dir (board_next x s (board_step b names x s))).
Proof.
  intros Hm Hs Hsame. destruct (board_step b names x s) as [line s1|e] eqn:E; cbn [board_next]; [|split; assumption].
  cbn [bs_dir]. unfold board_step in E.
  destruct (index_frame _ _ _ _ _ _ _ _ _ E) as (i & Hf & Hlen & Hfr). cbn [s_dir] in Hf, Hlen, Hfr.
  pose proof (find_entry_lt _ _ _ _ Hf) as Hi.
  destruct (score_step _ _ _ _ _ _ _ _ _ _ E Hf Hm (Hs i Hi)) as (_ & Hrng & _). cbn [s_dir] in Hrng.
  split.
  - intros j Hj. rewrite Hlen in Hj. destruct (Nat.eq_dec j i) as [->|Hne]; [exact Hrng|].
    rewrite (frame_other _ _ i Hlen Hfr j Hj Hne). apply Hs. exact Hj.
  - destruct Hsame as [Hl0 Hn0]. split; [rewrite Hlen; exact Hl0|].
    intros k Hk. assert (Hk' : (k < length (bs_dir s) / REC_SZ)%nat) by (rewrite Hl0; exact Hk).
    destruct (frame_names _ _ i Hlen Hfr k Hk') as [H1 H2]. destruct (Hn0 k Hk) as [H3 H4].
    split; [rewrite H1; exact H3|rewrite H2; exact H4].
Qed.

Lemma run_hist_inv b names d0 : forall (hist : list hstep) s,
  Forall (fun y : hstep => 0 < h_mtime y) hist -> scores_ok (bs_dir s) -> same_index d0 (bs_dir s) ->
  scores_ok (bs_dir (run_hist b names hist s)) /\ same_index d0 (bs_dir (run_hist b names hist s)).
Proof.
  induction hist as [|y r IH]; intros s Hm Hs Hsame; cbn [run_hist]; [split; assumption|].
  inversion Hm as [|? ? Hy Hr]; subst.
  destruct (board_step_inv b names y s d0 Hy Hs Hsame) as [H1 H2]. apply IH; assumption.
Qed.

(* after EVERY history of comments — by any commenters, of any types, on any articles of the board, whatever the board's
   attributes and pause — an accepted comment has the outcome that its own type and the addressed entry determine *)
Lemma board_history b names (hist : list hstep) s0 x line s1 :
  scores_ok (bs_dir s0) -> Forall (fun y : hstep => 0 < h_mtime y) hist -> 0 < h_mtime x ->
  board_step b names x (run_hist b names hist s0) = COk line s1 ->
  let s := run_hist b names hist s0 in
  let s' := board_next x s (COk line s1) in
  line = comment_line (b_align b) (b_iplog b) (h_uid13 x) (h_ip16 x) (h_ct x) (h_content x) (h_clock x) /\
  ((h_art x < length (bs_arts s))%nat -> nth (h_art x) (bs_arts s') [] = nth (h_art x) (bs_arts s) [] ++ line) /\
  (forall j, j <> h_art x -> nth j (bs_arts s') [] = nth j (bs_arts s) []) /\
  length (bs_arts s') = length (bs_arts s) /\
  exists i, find_entry (bs_dir s0) (nth (h_art x) names []) (length (bs_dir s0) / REC_SZ) = Some i /\
    rec_score (rec_at (bs_dir s') i) = clamp (rec_score (rec_at (bs_dir s) i) + delta (h_ct x)) /\
    (forall j, (j < length (bs_dir s0) / REC_SZ)%nat -> j <> i -> rec_at (bs_dir s') j = rec_at (bs_dir s) j) /\
    scores_ok (bs_dir s') /\ same_index (bs_dir s0) (bs_dir s').
Proof.
  intros Hs0 Hm Hx E. cbv zeta.
  destruct (run_hist_inv b names (bs_dir s0) hist s0 Hm Hs0 (same_index_refl _)) as [Hs Hsame].
  set (s := run_hist b names hist s0) in *.
  pose proof (board_step_inv b names x s (bs_dir s0) Hx Hs Hsame) as Hinv. rewrite E in Hinv. destruct Hinv as [Hs' Hsame'].
  cbn [board_next bs_arts bs_dir] in *. unfold board_step in E.
  destruct (accepted_inv _ _ _ _ _ _ _ _ _ E) as (i & Hf & _ & _ & _ & Hl & _). cbn [s_dir cfg_of c_align c_iplog c_uid13 c_ip16] in Hf, Hl.
  destruct (append_only _ _ _ _ _ _ _ _ _ E) as (Happ & _ & _). cbn [s_art] in Happ.
  destruct (index_frame _ _ _ _ _ _ _ _ _ E) as (i' & Hf' & Hlen & Hfr). cbn [s_dir] in Hf', Hlen, Hfr.
  rewrite Hf in Hf'. injection Hf' as <-. pose proof (find_entry_lt _ _ _ _ Hf) as Hi.
  destruct (score_step _ _ _ _ _ _ _ _ _ _ E Hf Hx (Hs i Hi)) as (Hsc & _ & _). cbn [s_dir] in Hsc.
  split; [exact Hl|]. split; [intros Hk; rewrite set_nth_same by exact Hk; exact Happ|].
  split; [intros j Hj; apply set_nth_other; exact Hj|]. split; [apply set_nth_length|].
  exists i. split; [rewrite <- (same_index_find _ _ _ Hsame); exact Hf|]. split; [exact Hsc|].
  split; [|split; assumption].
  intros j Hj Hne. apply (frame_other _ _ i Hlen Hfr); [|exact Hne]. destruct Hsame as [Hl0 _]. rewrite Hl0. exact Hj.
Qed.

(* ... in particular a push: the line starts with the push mark and the score goes up by exactly one below +100 *)
Lemma push_after_any_history b names (hist : list hstep) s0 x line s1 :
  scores_ok (bs_dir s0) -> Forall (fun y : hstep => 0 < h_mtime y) hist -> 0 < h_mtime x ->
  h_ct x = CT_RECOMMEND ->
  board_step b names x (run_hist b names hist s0) = COk line s1 ->
  let s := run_hist b names hist s0 in
  (exists rest, line = [27; 91; 49; 59; 51; 55; 109; 177; 192; 32] ++ rest) /\
  exists i, find_entry (bs_dir s0) (nth (h_art x) names []) (length (bs_dir s0) / REC_SZ) = Some i /\
    rec_score (rec_at (s_dir s1) i) = (if rec_score (rec_at (bs_dir s) i) <? 100 then rec_score (rec_at (bs_dir s) i) + 1 else 100).
Proof.
  intros Hs0 Hm Hx Hct E. cbv zeta.
  destruct (board_history b names hist s0 x line s1 Hs0 Hm Hx E) as (Hl & _ & _ & _ & i & Hf & Hsc & _ & _ & _).
  cbn [board_next bs_dir] in Hsc.
  destruct (run_hist_inv b names (bs_dir s0) hist s0 Hm Hs0 (same_index_refl _)) as [Hs Hsame].
  split.
  - rewrite Hl, Hct. unfold comment_line. eexists. reflexivity.
  - exists i. split; [exact Hf|]. rewrite Hsc, Hct. change (delta CT_RECOMMEND) with 1.
    assert (Hi : (i < length (bs_dir (run_hist b names hist s0)) / REC_SZ)%nat).
    { destruct Hsame as [Hl0 _]. rewrite Hl0. apply (find_entry_lt _ _ _ _ Hf). }
    pose proof (Hs i Hi) as Hr. rewrite clamp_eq.
    destruct (rec_score (rec_at (bs_dir (run_hist b names hist s0)) i) <? 100) eqn:E1;
      destruct (100 <? rec_score (rec_at (bs_dir (run_hist b names hist s0)) i) + 1) eqn:E2; try lia;
      destruct (rec_score (rec_at (bs_dir (run_hist b names hist s0)) i) + 1 <? -100) eqn:E3; lia.
Qed.

(* non-vacuity: a no-fast-recommend board with pause 60, two articles at scores 99 and -5; A1 pushes the first, B2 pushes the
   second right afterwards, A1 pushes the second: every push is accepted with the push mark and counts *)
Definition ex_name2 : list Z := fixlen 28 [77; 46; 49; 54; 48; 55; 50; 48; 48; 49; 48; 48; 46; 65; 46; 49; 51; 48].
Definition ex_bdir : list Z := patch (fixlen 128 ex_name) 33 [99] ++ patch (fixlen 128 ex_name2) 33 [251].
Definition ex_board : board := Board false true false true true 60.
Definition ex_bst : bst := BSt [[120; 10]; [121; 10]] ex_bdir.
Definition ex_push (who : list Z) (a : nat) (mt : Z) : hstep := HStep (fixlen 13 who) (fixlen 16 [49; 46; 50]) a 1 [104; 105] ex_clock mt.
Definition ex_hist : list hstep := [ex_push [65; 49] 0 1700000000; ex_push [66; 50] 1 1700000000].

Example ex_board_pushes :
  scores_ok (bs_dir ex_bst) /\
  (let s := run_hist ex_board [ex_name; ex_name2] ex_hist ex_bst in
   rec_score (rec_at (bs_dir s) 0) = 100 /\ rec_score (rec_at (bs_dir s) 1) = -4 /\
   exists line s1, board_step ex_board [ex_name; ex_name2] (ex_push [65; 49] 1 1700000000) s = COk line s1 /\
     firstn 10 line = [27; 91; 49; 59; 51; 55; 109; 177; 192; 32] /\ rec_score (rec_at (s_dir s1) 1) = -3 /\
     length (nth 1 (bs_arts s) []) = 93%nat).
Proof.
  split.
  - intros j Hj. change (length (bs_dir ex_bst) / REC_SZ)%nat with 2%nat in Hj.
    destruct j as [|[|j]]; [vm_compute; split; discriminate|vm_compute; split; discriminate|lia].
  - cbv zeta. split; [vm_compute; reflexivity|]. split; [vm_compute; reflexivity|].
    eexists. eexists. split; [vm_compute; reflexivity|]. split; [vm_compute; reflexivity|]. split; vm_compute; reflexivity.
Qed.
