(* C02 — symbolic evaluation of the word-level permutation networks (PermOp / HPermOp / shifts / masks).
   A 32-bit word that is a GF(2)-linear function of a 64-bit input X = x0 | x1 << 32 is represented by 32 masks:
   bit j of the word = parity (mask_j & X). Every operation of the networks has a symbolic counterpart and a
   soundness lemma; a whole network is then evaluated once by vm_compute and compared with the FIPS permutation. *)
From Verif Require Import Base.Common Base.Sweep Model.C02.

Fixpoint parity_upto (n : nat) (x : Z) : bool :=
  match n with O => false | S k => xorb (Z.testbit x (Z.of_nat k)) (parity_upto k x) end.
Definition sbit (m X : Z) : bool := parity_upto 64 (Z.land m X).

Definition sword := list Z.
Definition sget (w : sword) (j : Z) : Z := nth (Z.to_nat j) w 0.

(* v is the 32-bit word described by w at input X *)
Definition repr (w : sword) (v X : Z) : Prop :=
  forall j, 0 <= j -> Z.testbit v j = if j <? 32 then sbit (sget w j) X else false.

Definition idx32 : list Z := zrange 32.
Definition sxor (a b : sword) : sword := map (fun j => Z.lxor (sget a j) (sget b j)) idx32.
Definition sand (a : sword) (m : Z) : sword := map (fun j => if Z.testbit m j then sget a j else 0) idx32.
Definition sshr (a : sword) (n : Z) : sword := map (fun j => if j + n <? 32 then sget a (j + n) else 0) idx32.
Definition sshl (a : sword) (n : Z) : sword := map (fun j => if j <? n then 0 else sget a (j - n)) idx32.
Definition slor (a b : sword) : sword := map (fun j => if sget a j =? 0 then sget b j else sget a j) idx32.
Definition sdisjoint (a b : sword) : bool := forallb (fun j => (sget a j =? 0) || (sget b j =? 0)) idx32.
Definition svar (k : Z) : sword := map (fun j => 2 ^ (32 * k + j)) idx32.   (* k = 0: x0, k = 1: x1 *)

(* ---------------------------------------------------------------- parity *)

Lemma parity_xor n a b : parity_upto n (Z.lxor a b) = xorb (parity_upto n a) (parity_upto n b).
Proof.
  induction n as [|n IH]; [reflexivity|]. cbn [parity_upto]. rewrite IH, Z.lxor_spec.
  destruct (Z.testbit a (Z.of_nat n)), (Z.testbit b (Z.of_nat n)), (parity_upto n a), (parity_upto n b); reflexivity.
Qed.
Lemma parity_0 n : parity_upto n 0 = false.
Proof. induction n as [|n IH]; [reflexivity|]. cbn [parity_upto]. rewrite IH, Z.bits_0. reflexivity. Qed.

Lemma land_lxor_distr a b x : Z.land (Z.lxor a b) x = Z.lxor (Z.land a x) (Z.land b x).
Proof.
  apply Z.bits_inj'. intros n Hn. rewrite Z.land_spec, !Z.lxor_spec, !Z.land_spec.
  destruct (Z.testbit a n), (Z.testbit b n), (Z.testbit x n); reflexivity.
Qed.
Lemma sbit_xor m1 m2 X : sbit (Z.lxor m1 m2) X = xorb (sbit m1 X) (sbit m2 X).
Proof. unfold sbit. rewrite land_lxor_distr. apply parity_xor. Qed.
Lemma sbit_0 X : sbit 0 X = false.
Proof. unfold sbit. rewrite Z.land_0_l. apply parity_0. Qed.

Lemma parity_single n : forall p X, 0 <= p ->
  parity_upto n (Z.land (2 ^ p) X) = if p <? Z.of_nat n then Z.testbit X p else false.
Proof.
  induction n as [|n IH]; intros p X Hp.
  - cbn [parity_upto]. destruct (Z.ltb_spec p (Z.of_nat 0)); [lia|reflexivity].
  - cbn [parity_upto]. rewrite IH by exact Hp. rewrite Z.land_spec, Z.pow2_bits_eqb by lia.
    destruct (Z.eqb_spec p (Z.of_nat n)) as [->|Hne].
    + destruct (Z.ltb_spec (Z.of_nat n) (Z.of_nat n)); [lia|]. destruct (Z.ltb_spec (Z.of_nat n) (Z.of_nat (S n))); [|lia].
      cbn [andb]. destruct (Z.testbit X (Z.of_nat n)); reflexivity.
    + cbn [andb]. destruct (Z.ltb_spec p (Z.of_nat n)), (Z.ltb_spec p (Z.of_nat (S n))); try lia; try reflexivity.
      destruct (Z.testbit X p); reflexivity.
Qed.
Lemma sbit_single p X : 0 <= p < 64 -> sbit (2 ^ p) X = Z.testbit X p.
Proof. intros Hp. unfold sbit. rewrite parity_single by lia. destruct (Z.ltb_spec p (Z.of_nat 64)); [reflexivity|lia]. Qed.

(* ---------------------------------------------------------------- access to the masks *)

Lemma sget_map f j : 0 <= j < 32 -> sget (map f idx32) j = f j.
Proof.
  intros Hj. unfold sget, idx32, zrange. rewrite map_map.
  rewrite nth_indep with (d' := f (Z.of_nat 0)) by (rewrite map_length, seq_length; lia).
  rewrite map_nth with (f := fun x => f (Z.of_nat x)). rewrite seq_nth by lia. f_equal. lia.
Qed.

Ltac repr_bit j Hj :=
  destruct (Z.ltb_spec j 32) as [Hlt|Hge]; [rewrite sget_map by lia|].

(* ---------------------------------------------------------------- soundness of the operations *)

Lemma repr_xor a b va vb X : repr a va X -> repr b vb X -> repr (sxor a b) (Z.lxor va vb) X.
Proof.
  intros Ha Hb j Hj. rewrite Z.lxor_spec, Ha, Hb by exact Hj. unfold sxor.
  repr_bit j Hj; [|reflexivity]. rewrite sbit_xor. reflexivity.
Qed.

Lemma repr_and a va m X : repr a va X -> repr (sand a m) (Z.land va m) X.
Proof.
  intros Ha j Hj. rewrite Z.land_spec, Ha by exact Hj. unfold sand.
  repr_bit j Hj; [|reflexivity]. destruct (Z.testbit m j); [apply andb_true_r|rewrite andb_false_r, sbit_0; reflexivity].
Qed.

Lemma repr_shr a va n X : 0 <= n -> repr a va X -> repr (sshr a n) (shr va n) X.
Proof.
  intros Hn Ha j Hj. unfold shr. rewrite Z.shiftr_spec, Ha by lia. unfold sshr.
  repr_bit j Hj.
  - destruct (Z.ltb_spec (j + n) 32); [reflexivity|rewrite sbit_0; reflexivity].
  - destruct (Z.ltb_spec (j + n) 32); [lia|reflexivity].
Qed.

Lemma repr_shl a va n X : 0 <= n -> repr a va X -> repr (sshl a n) (shl32 va n) X.
Proof.
  intros Hn Ha j Hj. unfold shl32, u32. change 4294967295 with (Z.ones 32).
  rewrite Z.land_spec, Z.shiftl_spec by exact Hj. unfold sshl.
  repr_bit j Hj.
  - rewrite Z.ones_spec_low, andb_true_r by lia. destruct (Z.ltb_spec j n).
    + rewrite Z.testbit_neg_r by lia. rewrite sbit_0. reflexivity.
    + rewrite Ha by lia. destruct (Z.ltb_spec (j - n) 32); [reflexivity|lia].
  - rewrite Z.ones_spec_high by lia. apply andb_false_r.
Qed.

Lemma repr_lor a b va vb X : sdisjoint a b = true -> repr a va X -> repr b vb X -> repr (slor a b) (Z.lor va vb) X.
Proof.
  intros Hd Ha Hb j Hj. rewrite Z.lor_spec, Ha, Hb by exact Hj. unfold slor.
  repr_bit j Hj; [|reflexivity].
  unfold sdisjoint in Hd. rewrite forallb_forall in Hd. specialize (Hd j (zrange_in 32 j ltac:(lia))).
  destruct (Z.eqb_spec (sget a j) 0) as [E|E].
  - rewrite E, sbit_0. reflexivity.
  - destruct (Z.eqb_spec (sget b j) 0) as [E'|E']; [|discriminate]. rewrite E', sbit_0. apply orb_false_r.
Qed.

Definition X64 (x0 x1 : Z) : Z := Z.lor x0 (Z.shiftl x1 32).

Lemma repr_var0 x0 x1 : 0 <= x0 < 2 ^ 32 -> repr (svar 0) x0 (X64 x0 x1).
Proof.
  intros Hx j Hj. unfold svar. repr_bit j Hj.
  - rewrite sbit_single by lia. unfold X64. rewrite Z.lor_spec, Z.shiftl_spec by lia.
    rewrite (Z.testbit_neg_r x1) by lia. rewrite orb_false_r. f_equal; lia.
  - destruct (Z.eq_dec x0 0) as [->|Hz]; [apply Z.bits_0|]. apply Z.bits_above_log2; [lia|].
    apply Z.lt_le_trans with 32; [apply Z.log2_lt_pow2; lia|lia].
Qed.

Lemma repr_var1 x0 x1 : 0 <= x0 < 2 ^ 32 -> 0 <= x1 < 2 ^ 32 -> repr (svar 1) x1 (X64 x0 x1).
Proof.
  intros Hx0 Hx j Hj. unfold svar. repr_bit j Hj.
  - rewrite sbit_single by lia. unfold X64. rewrite Z.lor_spec, Z.shiftl_spec by lia.
    assert (Z.testbit x0 (32 * 1 + j) = false) as ->.
    { destruct (Z.eq_dec x0 0) as [->|Hz]; [apply Z.bits_0|]. apply Z.bits_above_log2; [lia|].
      apply Z.lt_le_trans with 32; [apply Z.log2_lt_pow2; lia|lia]. }
    cbn [orb]. f_equal; lia.
  - destruct (Z.eq_dec x1 0) as [->|Hz]; [apply Z.bits_0|]. apply Z.bits_above_log2; [lia|].
    apply Z.lt_le_trans with 32; [apply Z.log2_lt_pow2; lia|lia].
Qed.

(* ---------------------------------------------------------------- PermOp / HPermOp *)

Definition sPermOp (a b : sword) (n m : Z) : sword * sword :=
  let t := sand (sxor (sshr a n) b) m in (sxor a (sshl t n), sxor b t).
Definition sHPermOp (a : sword) (n m : Z) : sword :=
  let t := sand (sxor (sshl a (16 - n)) a) m in sxor (sxor a t) (sshr t (16 - n)).

Lemma repr_PermOp a b va vb n m X : 0 <= n -> repr a va X -> repr b vb X ->
  repr (fst (sPermOp a b n m)) (fst (PermOp va vb n m)) X /\ repr (snd (sPermOp a b n m)) (snd (PermOp va vb n m)) X.
Proof.
  intros Hn Ha Hb. unfold sPermOp, PermOp. cbn [fst snd].
  assert (Ht : repr (sand (sxor (sshr a n) b) m) (Z.land (Z.lxor (shr va n) vb) m) X)
    by (apply repr_and, repr_xor; [apply repr_shr; assumption|assumption]).
  split; apply repr_xor; try assumption. apply repr_shl; assumption.
Qed.

Lemma repr_HPermOp a va n m X : n <= 16 -> repr a va X -> repr (sHPermOp a n m) (HPermOp va n m) X.
Proof.
  intros Hn Ha. unfold sHPermOp, HPermOp.
  assert (Ht : repr (sand (sxor (sshl a (16 - n)) a) m) (Z.land (Z.lxor (shl32 va (16 - n)) va) m) X)
    by (apply repr_and, repr_xor; [apply repr_shl; [lia|assumption]|assumption]).
  apply repr_xor; [apply repr_xor; assumption|apply repr_shr; [lia|assumption]].
Qed.

(* a word all of whose masks are single input bits: bit j of the word is input bit (nth j ps) *)
Definition single_bits (w : sword) (ps : list Z) : bool :=
  (length w =? 32)%nat && (length ps =? 32)%nat &&
  forallb (fun j => let p := sget ps j in if p <? 0 then sget w j =? 0 else (p <? 64) && (sget w j =? 2 ^ p)) idx32.

Lemma repr_single w v X ps : repr w v X -> single_bits w ps = true ->
  forall j, 0 <= j < 32 -> Z.testbit v j = if sget ps j <? 0 then false else Z.testbit X (sget ps j).
Proof.
  intros Hr Hs j Hj. rewrite Hr by lia. destruct (Z.ltb_spec j 32); [|lia].
  unfold single_bits in Hs. apply andb_prop in Hs. destruct Hs as [_ Hs].
  rewrite forallb_forall in Hs. specialize (Hs j (zrange_in 32 j ltac:(lia))). cbv zeta in Hs.
  destruct (Z.ltb_spec (sget ps j) 0).
  - apply Z.eqb_eq in Hs. rewrite Hs. apply sbit_0.
  - apply andb_prop in Hs. destruct Hs as [Hp Hs]. apply Z.eqb_eq in Hs. rewrite Hs. apply sbit_single. lia.
Qed.
