(* C03 — refinement of the account-table model (Model/C03.v: slots, index lookup) to the abstract account map of
   the property text: a finite map from the case-folded user id to the account (id as registered, password key
   block, e-mail, slot, plus the two facts expiry looks at).  [abs] reads the map off the concrete table; every
   operation of the model returns the answer of the specification and commutes with [abs]; by induction the same
   holds over every history. *)
From Verif Require Import Base.Common Gen.Consts_default Model.C03 Proofs.C03_ops.
From Verif Require Model.C15 Proofs.C15.
From Coq Require Import Arith PeanoNat.

(* ================================================================== the specification *)

Record sacct : Type := mkSA {
  s_id : list Z;                 (* the spelling that was registered *)
  s_pw : option (list Z);        (* key block of the current password; None: nothing verifies *)
  s_email : list Z;
  s_slot : nat;                  (* uid - 1 *)
  s_old : bool;
  s_xempt : bool
}.
(* accounts by case-folded id *)
Definition amap := list Z -> option sacct.
Record sst : Type := mkS { s_map : amap; s_size : nat; s_resv : list (list Z); s_thr : bool }.

(* specification states are maps: two states with the same accounts are the same state *)
Definition seq (s t : sst) : Prop :=
  (forall i, s_map s i = s_map t i) /\ s_size s = s_size t /\ s_resv s = s_resv t /\ s_thr s = s_thr t.

Definition upd (m : amap) (i : list Z) (v : option sacct) : amap := fun j => if eqbl j i then v else m j.
Definition with_map (s : sst) (m : amap) : sst := mkS m (s_size s) (s_resv s) (s_thr s).
(* the key a request names: the id field as the server reads it (13 bytes, up to NUL), case-folded *)
Definition fold_id (name : list Z) : list Z := key (cid name).
Definition shown (id : list Z) : list Z := if id_valid id then id else [].

(* well-formed (2..IDLEN alphanumerics, leading letter) and not new / guest / reserved, in any letter case *)
Definition id_acceptable (resv : list (list Z)) (name : list Z) : bool :=
  id_valid name && negb (ci_eqb (cid name) ptttype.STR_REGNEW) && negb (ci_eqb (cid name) ptttype.STR_GUEST)
  && negb (existsb (fun r => ci_eqb (cid name) r) resv).

Definition used (s : sst) (k : nat) : Prop := exists i a, s_map s i = Some a /\ s_slot a = k.
Definition full (s : sst) : Prop := forall k, (k < s_size s)%nat -> used s k.
Definition least_free (s : sst) (k : nat) : Prop :=
  (k < s_size s)%nat /\ ~ used s k /\ forall j, (j < k)%nat -> used s j.

(* an account the hourly clean-up removes: not uid 1, not PERM_XEMPT, not guest, last login too long ago *)
Definition expired (a : sacct) : bool :=
  negb (Nat.eqb (s_slot a) 0) && negb (s_xempt a) && negb (eqbl (s_id a) ptttype.STR_GUEST) && s_old a.
Definition sweep (m : amap) : amap :=
  fun i => match m i with Some a => if expired a then None else Some a | None => None end.

(* the accounts a registration looks for a free slot among: the clean-up runs only on a full table, once an hour *)
Inductive cleaned (s : sst) : sst -> Prop :=
| cl_room : ~ full s -> cleaned s s
| cl_throttled : full s -> s_thr s = true -> cleaned s s
| cl_sweep : full s -> s_thr s = false -> cleaned s (mkS (sweep (s_map s)) (s_size s) (s_resv s) true).

Inductive s_register (s : sst) (name pw email : list Z) : result -> sst -> Prop :=
| SR_bad : id_acceptable (s_resv s) name = false -> s_register s name pw email (RErr E_USERID) s
| SR_taken a : id_acceptable (s_resv s) name = true -> s_map s (fold_id name) = Some a ->
    s_register s name pw email (RErr E_EXISTS) s
| SR_full s1 : id_acceptable (s_resv s) name = true -> s_map s (fold_id name) = None -> cleaned s s1 -> full s1 ->
    s_register s name pw email (RErr E_NOSLOT) s1
| SR_ok s1 k : id_acceptable (s_resv s) name = true -> s_map s (fold_id name) = None -> cleaned s s1 -> least_free s1 k ->
    s_register s name pw email (ROk (cid name))
      (with_map s1 (upd (s_map s1) (fold_id name)
         (Some (mkSA (cid name) (gen pw) (cstr_field (Z.to_nat ptttype.EMAILSZ) email) k false false)))).

Definition s_login (s : sst) (name pw : list Z) : result * sst :=
  match (if id_valid name then s_map s (fold_id name) else None) with
  | Some a =>
      if eqbl (s_id a) ptttype.STR_GUEST || verify (s_pw a) pw
      then (ROk (shown (s_id a)),
            with_map s (upd (s_map s) (fold_id name) (Some (mkSA (s_id a) (s_pw a) (s_email a) (s_slot a) false (s_xempt a)))))
      else (RErr E_USERID, s)
  | None => (RErr E_USERID, s)
  end.

Definition s_check_pw (s : sst) (name pw : list Z) : result * sst :=
  if negb (id_valid name) then (RErr E_PARAMS, s)
  else match s_map s (fold_id name) with
       | Some a => if verify (s_pw a) pw then (ROk [], s) else (RErr E_USERID, s)
       | None => (RErr E_USERID, s)
       end.

Definition s_change_pw (s : sst) (name old new : list Z) : result * sst :=
  if negb (id_valid name) then (RErr E_UUSERID, s)
  else match s_map s (fold_id name) with
       | Some a =>
           if verify (s_pw a) old
           then (ROk [], with_map s (upd (s_map s) (fold_id name)
                                      (Some (mkSA (s_id a) (gen new) (s_email a) (s_slot a) (s_old a) (s_xempt a)))))
           else (RErr E_USERID, s)
       | None => (RErr E_USERID, s)
       end.

Definition s_change_email (s : sst) (name email : list Z) : result * sst :=
  if negb (id_valid name) then (RErr E_UUSERID, s)
  else match s_map s (fold_id name) with
       | Some a =>
           (ROk [], with_map s (upd (s_map s) (fold_id name)
              (Some (mkSA (s_id a) (s_pw a) (cstr_field (Z.to_nat ptttype.EMAILSZ) email) (s_slot a) (s_old a) (s_xempt a)))))
       | None => (RErr E_NOSLOT, s)
       end.

Definition s_exists (s : sst) (name : list Z) : result * sst :=
  if negb (id_valid name) then (RErr E_PARAMS, s)
  else match s_map s (fold_id name) with
       | Some _ => (ROk name, s)
       | None => (ROk [], s)
       end.

Definition s_get_user (s : sst) (name : list Z) : result * sst :=
  if negb (id_valid name) then (RErr E_PARAMS, s)
  else match s_map s (fold_id name) with
       | Some a => (ROk (enc_str (shown (s_id a)) ++ enc_str (s_email a)), s)
       | None => (RErr E_USERID, s)
       end.

(* one request: the answer and the accounts afterwards *)
Definition sstep (s : sst) (o : op) (r : result) (s' : sst) : Prop :=
  match o with
  | ORegister n p e => s_register s n p e r s'
  | OLogin n p => (r, s') = s_login s n p
  | OCheckPw n p => (r, s') = s_check_pw s n p
  | OChangePw n o' p => (r, s') = s_change_pw s n o' p
  | OChangeEmail n e => (r, s') = s_change_email s n e
  | OExists n => (r, s') = s_exists s n
  | OGetUser n => (r, s') = s_get_user s n
  | OHour => (r, s') = (ROk [], mkS (s_map s) (s_size s) (s_resv s) false)
  end.

(* a history of requests *)
Inductive srun : sst -> list op -> list result -> sst -> Prop :=
| srun_nil s s' : seq s s' -> srun s [] [] s'
| srun_cons s o r s1 s1' ops rs s2 : sstep s o r s1 -> seq s1 s1' -> srun s1' ops rs s2 -> srun s (o :: ops) (r :: rs) s2.

(* what makes the map a finite map of accounts: an account is stored under its own case-folded id, has a slot of the
   table, and no two accounts share a slot (so there are at most s_size accounts) *)
Definition sinv (s : sst) : Prop :=
  (forall i a, s_map s i = Some a -> s_id a <> [] /\ key (s_id a) = i /\ (s_slot a < s_size s)%nat) /\
  (forall i j a b, s_map s i = Some a -> s_map s j = Some b -> s_slot a = s_slot b -> i = j).

(* ================================================================== the abstraction function *)

Definition acct_of (k : nat) (a : acct) : sacct := mkSA (a_id a) (a_pw a) (a_email a) k (a_old a) (a_xempt a).
Definition holds (i : list Z) (a : acct) : bool := negb (is_empty (a_id a)) && eqbl (key (a_id a)) i.
Definition abs_map (sl : list acct) : amap :=
  fun i => match find_idx (holds i) sl with
           | Some k => Some (acct_of k (nth k sl no_acct))
           | None => None
           end.
Definition abs (c : cst) : sst := mkS (abs_map (slots c)) (length (slots c)) (reserved c) (throttle c).

(* ================================================================== basic facts *)

Lemma seq_refl s : seq s s.
Proof. repeat split. Qed.

Lemma eqbl_refl a : eqbl a a = true.
Proof. apply Proofs.C15.eqbl_spec. reflexivity. Qed.

Lemma eqbl_false a b : a <> b -> eqbl a b = false.
Proof. intros H. destruct (eqbl a b) eqn:E; [|reflexivity]. apply Proofs.C15.eqbl_spec in E. contradiction. Qed.

Lemma upd_same m i v : upd m i v i = v.
Proof. unfold upd. rewrite eqbl_refl. reflexivity. Qed.

Lemma upd_other m i v j : j <> i -> upd m i v j = m j.
Proof. intros H. unfold upd. rewrite (eqbl_false _ _ H). reflexivity. Qed.

Lemma upd_ext m m' i v : (forall j, m j = m' j) -> forall j, upd m i v j = upd m' i v j.
Proof. intros H j. unfold upd. destruct (eqbl j i); [reflexivity|apply H]. Qed.

Lemma find_idx_ext {A} (f g : A -> bool) (l : list A) : (forall a, f a = g a) -> find_idx f l = find_idx g l.
Proof. intros H. induction l as [|a l IH]; [reflexivity|]. cbn. rewrite H, IH. reflexivity. Qed.

Lemma holds_spec i a : holds i a = true <-> a_id a <> [] /\ key (a_id a) = i.
Proof.
  unfold holds. rewrite andb_true_iff, negb_true_iff, Proofs.C15.eqbl_spec. split; intros [H1 H2]; split; try exact H2.
  - intros E. rewrite E in H1. discriminate.
  - destruct (a_id a); [contradiction|reflexivity].
Qed.

Lemma holds_ci id a : id <> [] -> holds (key id) a = ci_eqb (a_id a) id.
Proof.
  intros Hne. unfold holds, ci_eqb, C15.ci_eqb. destruct (a_id a) as [|x r] eqn:E; [|reflexivity].
  cbn. destruct id; [contradiction|reflexivity].
Qed.

(* the map answers what the index answers *)
Lemma abs_lookup sl id : id <> [] ->
  abs_map sl (key id) = match lookup sl id with Some k => Some (acct_of k (nth k sl no_acct)) | None => None end.
Proof.
  intros Hne. unfold abs_map, lookup. destruct (is_empty id) eqn:E; [apply empty_spec in E; contradiction|].
  rewrite (find_idx_ext (holds (key id)) (fun a => ci_eqb (a_id a) id)); [reflexivity|]. intros a. apply holds_ci. exact Hne.
Qed.

Definition WFl (sl : list acct) : Prop :=
  forall i j a b, nth_error sl i = Some a -> nth_error sl j = Some b -> a_id a <> [] -> key (a_id a) = key (a_id b) -> i = j.

Lemma WF_WFl c : WF c <-> WFl (slots c).
Proof. split; intros H; exact H. Qed.

Lemma abs_map_some sl i s : abs_map sl i = Some s ->
  exists k a, nth_error sl k = Some a /\ a_id a <> [] /\ key (a_id a) = i /\ s = acct_of k a.
Proof.
  unfold abs_map. destruct (find_idx (holds i) sl) as [k|] eqn:E; [|discriminate]. intros H. inversion H; subst s.
  apply find_idx_some in E. destruct E as (a & Ha & Hf & _). apply holds_spec in Hf. destruct Hf as [H1 H2].
  exists k, a. rewrite (nth_nth_error _ _ _ _ Ha). repeat split; assumption.
Qed.

Lemma abs_map_intro sl k a : WFl sl -> nth_error sl k = Some a -> a_id a <> [] ->
  abs_map sl (key (a_id a)) = Some (acct_of k a).
Proof.
  intros W Hk Hne. unfold abs_map.
  destruct (find_idx (holds (key (a_id a))) sl) as [k'|] eqn:E.
  - apply find_idx_some in E. destruct E as (a' & Ha' & Hf & _). apply holds_spec in Hf. destruct Hf as [H1 H2].
    assert (k' = k) by (apply (W k' k a' a Ha' Hk H1 H2)). subst k'. rewrite (nth_nth_error _ _ _ _ Hk). reflexivity.
  - exfalso. apply find_idx_none in E.
    assert (existsb (holds (key (a_id a))) sl = true); [|congruence].
    apply existsb_nth. exists k, a. split; [exact Hk|]. apply holds_spec. split; [exact Hne|reflexivity].
Qed.

Lemma abs_map_none sl i : abs_map sl i = None <-> forall k a, nth_error sl k = Some a -> a_id a <> [] -> key (a_id a) <> i.
Proof.
  unfold abs_map. split.
  - destruct (find_idx (holds i) sl) as [k|] eqn:E; [discriminate|]. intros _ k a Hk Hne Hkey.
    apply find_idx_none in E. assert (existsb (holds i) sl = true); [|congruence].
    apply existsb_nth. exists k, a. split; [exact Hk|]. apply holds_spec. split; assumption.
  - intros H. destruct (find_idx (holds i) sl) as [k|] eqn:E; [|reflexivity]. exfalso.
    apply find_idx_some in E. destruct E as (a & Ha & Hf & _). apply holds_spec in Hf. destruct Hf as [H1 H2].
    exact (H k a Ha H1 H2).
Qed.

(* ------------------------------------------------------------------ list-level invariants *)

Lemma WFl_set_same sl k a a' : WFl sl -> nth_error sl k = Some a -> a_id a' = a_id a -> WFl (set_nth k a' sl).
Proof.
  intros W Hk Hid. exact (WF_set_same_id (mkC sl [] false) k a a' W Hk Hid).
Qed.

Lemma WFl_set_new sl k a' : WFl sl -> (k < length sl)%nat ->
  (forall j b, nth_error sl j = Some b -> a_id b <> [] -> key (a_id b) <> key (a_id a')) -> a_id a' <> [] ->
  WFl (set_nth k a' sl).
Proof.
  intros W Hlt Hfresh Hne' i j x y Hi Hj Hnx Hkey.
  destruct (Nat.eq_dec i k) as [->|Ni]; destruct (Nat.eq_dec j k) as [->|Nj]; try reflexivity.
  - rewrite set_nth_same in Hi by exact Hlt. inversion Hi; subst x. rewrite set_nth_other in Hj by exact Nj.
    exfalso. assert (Hny : a_id y <> []).
    { intros E. rewrite E in Hkey. cbn in Hkey. apply Proofs.C15.key_nil in Hkey. contradiction. }
    apply (Hfresh j y Hj Hny). symmetry. exact Hkey.
  - rewrite set_nth_same in Hj by exact Hlt. inversion Hj; subst y. rewrite set_nth_other in Hi by exact Ni.
    exfalso. apply (Hfresh i x Hi Hnx). exact Hkey.
  - rewrite set_nth_other in Hi, Hj by assumption. apply (W i j x y Hi Hj Hnx Hkey).
Qed.

Lemma WFl_clean sl : WFl sl -> WFl (clean sl).
Proof. intros W. exact (WF_clean (mkC sl [] false) W). Qed.

(* ------------------------------------------------------------------ abs commutes with the three ways the table changes *)

(* rewriting fields other than the id of the account in slot k *)
Lemma abs_set_same sl k a a' : WFl sl -> nth_error sl k = Some a -> a_id a <> [] -> a_id a' = a_id a ->
  forall i, abs_map (set_nth k a' sl) i = upd (abs_map sl) (key (a_id a)) (Some (acct_of k a')) i.
Proof.
  intros W Hk Hne Hid i.
  assert (Hlt : (k < length sl)%nat) by (apply nth_error_Some; congruence).
  pose proof (WFl_set_same sl k a a' W Hk Hid) as W'.
  destruct (list_eq_dec Z.eq_dec i (key (a_id a))) as [->|Ni].
  - rewrite upd_same. rewrite <- Hid. apply abs_map_intro; [exact W'|apply set_nth_same; exact Hlt|congruence].
  - rewrite (upd_other _ _ _ _ Ni). destruct (abs_map sl i) as [s|] eqn:E.
    + apply abs_map_some in E. destruct E as (k0 & a0 & Hk0 & Hne0 & Hkey0 & ->).
      assert (k0 <> k) by (intros ->; rewrite Hk in Hk0; inversion Hk0; subst a0; congruence).
      rewrite <- Hkey0. apply abs_map_intro; [exact W'| |exact Hne0]. rewrite set_nth_other by assumption. exact Hk0.
    + apply abs_map_none. intros k1 a1 Hk1 Hne1 Hkey1.
      destruct (Nat.eq_dec k1 k) as [->|Nk].
      * rewrite set_nth_same in Hk1 by exact Hlt. inversion Hk1; subst a1. apply Ni. rewrite <- Hkey1, Hid. reflexivity.
      * rewrite set_nth_other in Hk1 by exact Nk. rewrite abs_map_none in E. exact (E k1 a1 Hk1 Hne1 Hkey1).
Qed.

(* a new account into an empty slot *)
Lemma abs_set_new sl k a0 a' : WFl sl -> nth_error sl k = Some a0 -> a_id a0 = [] -> a_id a' <> [] ->
  abs_map sl (key (a_id a')) = None ->
  WFl (set_nth k a' sl) /\
  forall i, abs_map (set_nth k a' sl) i = upd (abs_map sl) (key (a_id a')) (Some (acct_of k a')) i.
Proof.
  intros W Hk He Hne' Hnone.
  assert (Hlt : (k < length sl)%nat) by (apply nth_error_Some; congruence).
  assert (W' : WFl (set_nth k a' sl)).
  { apply WFl_set_new; [exact W|exact Hlt| |exact Hne']. rewrite abs_map_none in Hnone. exact Hnone. }
  split; [exact W'|]. intros i.
  destruct (list_eq_dec Z.eq_dec i (key (a_id a'))) as [->|Ni].
  - rewrite upd_same. apply abs_map_intro; [exact W'|apply set_nth_same; exact Hlt|exact Hne'].
  - rewrite (upd_other _ _ _ _ Ni). destruct (abs_map sl i) as [s|] eqn:E.
    + apply abs_map_some in E. destruct E as (k0 & a1 & Hk0 & Hne0 & Hkey0 & ->).
      assert (k0 <> k) by (intros ->; rewrite Hk in Hk0; inversion Hk0; subst a1; congruence).
      rewrite <- Hkey0. apply abs_map_intro; [exact W'| |exact Hne0]. rewrite set_nth_other by assumption. exact Hk0.
    + apply abs_map_none. intros k1 a1 Hk1 Hne1 Hkey1.
      destruct (Nat.eq_dec k1 k) as [->|Nk].
      * rewrite set_nth_same in Hk1 by exact Hlt. inversion Hk1; subst a1. apply Ni. symmetry. exact Hkey1.
      * rewrite set_nth_other in Hk1 by exact Nk. rewrite abs_map_none in E. exact (E k1 a1 Hk1 Hne1 Hkey1).
Qed.

(* the hourly clean-up *)
Lemma clean_nth_exact sl k :
  nth_error (clean sl) k = option_map (fun a => if negb (Nat.eqb k 0) && cleanable a then no_acct else a) (nth_error sl k).
Proof.
  destruct sl as [|s0 r]; [destruct k; reflexivity|]. destruct k as [|k]; [reflexivity|]. cbn.
  rewrite nth_error_map. reflexivity.
Qed.

Lemma expired_cleanable k a : a_id a <> [] -> expired (acct_of k a) = negb (Nat.eqb k 0) && cleanable a.
Proof.
  intros Hne. unfold expired, cleanable, acct_of. cbn [s_slot s_xempt s_id s_old].
  destruct (a_id a) eqn:E; [contradiction|]. unfold is_empty, C15.is_empty. cbn [negb andb]. rewrite !andb_assoc. reflexivity.
Qed.

Lemma abs_clean sl : WFl sl -> forall i, abs_map (clean sl) i = sweep (abs_map sl) i.
Proof.
  intros W i. pose proof (WFl_clean sl W) as W'. unfold sweep.
  destruct (abs_map sl i) as [s|] eqn:E.
  - apply abs_map_some in E. destruct E as (k & a & Hk & Hne & Hkey & ->).
    rewrite (expired_cleanable k a Hne). destruct (negb (Nat.eqb k 0) && cleanable a) eqn:Ec.
    + apply abs_map_none. intros k1 a1 Hk1 Hne1 Hkey1. rewrite clean_nth_exact in Hk1.
      destruct (nth_error sl k1) as [b|] eqn:Eb; [|discriminate]. cbn in Hk1.
      destruct (negb (Nat.eqb k1 0) && cleanable b) eqn:Ec1; inversion Hk1; subst a1; [apply Hne1; reflexivity|].
      assert (k1 = k) by (apply (W k1 k b a Eb Hk Hne1); congruence). subst k1.
      rewrite Hk in Eb. inversion Eb; subst b. congruence.
    + rewrite <- Hkey. apply abs_map_intro; [exact W'| |exact Hne]. rewrite clean_nth_exact, Hk. cbn. rewrite Ec. reflexivity.
  - apply abs_map_none. intros k1 a1 Hk1 Hne1 Hkey1. rewrite clean_nth_exact in Hk1.
    destruct (nth_error sl k1) as [b|] eqn:Eb; [|discriminate]. cbn in Hk1.
    destruct (negb (Nat.eqb k1 0) && cleanable b); inversion Hk1; subst a1; [apply Hne1; reflexivity|].
    rewrite abs_map_none in E. exact (E k1 b Eb Hne1 Hkey1).
Qed.

(* ------------------------------------------------------------------ free slots *)

Lemma used_abs c k : WF c -> (used (abs c) k <-> exists a, nth_error (slots c) k = Some a /\ a_id a <> []).
Proof.
  intros W. unfold used, abs. cbn [s_map]. split.
  - intros (i & s & Hs & Hk). apply abs_map_some in Hs. destruct Hs as (k0 & a & Hk0 & Hne & _ & ->).
    cbn in Hk. subst k0. eauto.
  - intros (a & Hk & Hne). exists (key (a_id a)), (acct_of k a). split; [|reflexivity].
    apply abs_map_intro; [exact W|exact Hk|exact Hne].
Qed.

Lemma find_empty_least c k : WF c -> find_empty (slots c) = Some k -> least_free (abs c) k.
Proof.
  intros W H. unfold find_empty in H. apply find_idx_some in H. destruct H as (a & Ha & He & Hlt).
  apply empty_spec in He.
  assert (Hk : (k < length (slots c))%nat) by (apply nth_error_Some; congruence).
  split; [exact Hk|]. split.
  - intros U. apply (used_abs c k W) in U. destruct U as (a' & Ha' & Hne). congruence.
  - intros j Hj. apply (used_abs c j W).
    destruct (nth_error (slots c) j) as [b|] eqn:Eb; [|apply nth_error_None in Eb; lia].
    exists b. split; [reflexivity|]. intros E. specialize (Hlt j b Hj Eb). rewrite E in Hlt. discriminate.
Qed.

Lemma find_empty_full c : WF c -> find_empty (slots c) = None -> full (abs c).
Proof.
  intros W H k Hk. cbn [abs s_size] in Hk. apply (used_abs c k W).
  destruct (nth_error (slots c) k) as [b|] eqn:Eb; [|apply nth_error_None in Eb; lia].
  exists b. split; [reflexivity|]. intros E. unfold find_empty in H. apply find_idx_none in H.
  assert (existsb (fun a => is_empty (a_id a)) (slots c) = true); [|congruence].
  apply existsb_nth. exists k, b. split; [exact Eb|]. rewrite E. reflexivity.
Qed.

Lemma least_free_not_full s k : least_free s k -> ~ full s.
Proof. intros (Hk & Hn & _) F. exact (Hn (F k Hk)). Qed.

Lemma used_seq s t k : seq s t -> used s k -> used t k.
Proof. intros (Hm & _) (i & a & Ha & Hk). exists i, a. rewrite <- Hm. split; assumption. Qed.

Lemma seq_sym s t : seq s t -> seq t s.
Proof. intros (H1 & H2 & H3 & H4). split; [intros i; symmetry; apply H1|]. repeat split; congruence. Qed.

Lemma seq_trans s t u : seq s t -> seq t u -> seq s u.
Proof. intros (H1 & H2 & H3 & H4) (G1 & G2 & G3 & G4). split; [intros i; rewrite H1; apply G1|]. repeat split; congruence. Qed.

Lemma full_seq s t : seq s t -> full s -> full t.
Proof. intros E F k Hk. apply (used_seq s t k E). apply F. destruct E as (_ & E & _). lia. Qed.

Lemma least_free_seq s t k : seq s t -> least_free s k -> least_free t k.
Proof.
  intros E (Hk & Hn & Hl). split; [destruct E as (_ & E & _); lia|]. split.
  - intros U. apply Hn. apply (used_seq t s k (seq_sym _ _ E) U).
  - intros j Hj. apply (used_seq s t j E). apply Hl. exact Hj.
Qed.

(* the clean-up of the model is the clean-up of the specification *)
Lemma cleaned_abs c : WF c -> exists s1, cleaned (abs c) s1 /\ seq s1 (abs (after_clean c)).
Proof.
  intros W. unfold after_clean. destruct (find_empty (slots c)) as [k|] eqn:Ef.
  - exists (abs c). split; [|apply seq_refl]. apply cl_room. eapply least_free_not_full. apply find_empty_least; eassumption.
  - pose proof (find_empty_full c W Ef) as F. destruct (throttle c) eqn:Et.
    + exists (abs c). split; [|apply seq_refl]. apply cl_throttled; [exact F|exact Et].
    + eexists. split; [apply cl_sweep; [exact F|exact Et]|]. unfold abs. cbn [s_map s_size s_resv s_thr slots reserved throttle].
      repeat split; cbn [s_map s_size s_resv s_thr].
      * intros i. symmetry. apply abs_clean. exact W.
      * symmetry. apply clean_length.
Qed.

(* ================================================================== one step *)

Lemma acceptable_abs c n : id_acceptable (s_resv (abs c)) n = acceptable c n.
Proof. reflexivity. Qed.

Lemma shown_id_shown a : shown_id a = shown (a_id a).
Proof. reflexivity. Qed.

Lemma abs_at c n : id_valid n = true ->
  s_map (abs c) (fold_id n) =
  match lookup (slots c) (cid n) with Some k => Some (acct_of k (nth k (slots c) no_acct)) | None => None end.
Proof. intros Hv. apply abs_lookup. apply valid_nonempty. exact Hv. Qed.

(* rewriting non-id fields of the account found under a name *)
Lemma abs_rewrite c n k a' : WF c -> id_valid n = true -> lookup (slots c) (cid n) = Some k ->
  a_id a' = a_id (nth k (slots c) no_acct) ->
  seq (with_map (abs c) (upd (s_map (abs c)) (fold_id n) (Some (acct_of k a'))))
      (abs (with_slots c (set_nth k a' (slots c)))).
Proof.
  intros W Hv El Hid. destruct (lookup_some _ _ _ El) as (a & Ha & Hne & Hkey).
  rewrite (nth_nth_error _ _ _ _ Ha) in Hid.
  unfold abs, with_map, with_slots. cbn [s_map s_size s_resv s_thr slots reserved throttle].
  repeat split; cbn [s_map s_size s_resv s_thr].
  - intros i. unfold fold_id. rewrite <- Hkey. symmetry. apply abs_set_same; assumption.
  - symmetry. apply set_nth_length.
Qed.

Lemma register_refines c n p e : WF c ->
  exists s', s_register (abs c) n p e (fst (register c n p e)) s' /\ seq s' (abs (snd (register c n p e))).
Proof.
  intros W. unfold register.
  destruct (negb (id_valid n) || ci_eqb (cid n) ptttype.STR_REGNEW || ci_eqb (cid n) ptttype.STR_GUEST) eqn:E1.
  { exists (abs c). split; [|apply seq_refl]. apply SR_bad. unfold id_acceptable.
    destruct (id_valid n); [|reflexivity]. cbn [negb orb] in E1. apply orb_true_iff in E1.
    destruct E1 as [E1|E1]; rewrite E1; cbn [negb andb]; [reflexivity|]. rewrite andb_false_r. reflexivity. }
  apply orb_false_iff in E1. destruct E1 as [E1 E1g]. apply orb_false_iff in E1. destruct E1 as [E1v E1n].
  apply negb_false_iff in E1v.
  destruct (existsb (fun r => ci_eqb (cid n) r) (reserved c)) eqn:E2.
  { exists (abs c). split; [|apply seq_refl]. apply SR_bad. unfold id_acceptable. cbn [abs s_resv]. rewrite E2. apply andb_false_r. }
  assert (Hacc : id_acceptable (s_resv (abs c)) n = true).
  { unfold id_acceptable. cbn [abs s_resv]. rewrite E1v, E1n, E1g, E2. reflexivity. }
  pose proof (abs_at c n E1v) as Hat. pose proof (valid_nonempty _ E1v) as Hne.
  destruct (lookup (slots c) (cid n)) as [k0|] eqn:El.
  { exists (abs c). split; [|apply seq_refl]. eapply SR_taken; [exact Hacc|exact Hat]. }
  destruct (cleaned_abs c W) as (s1 & Hcl & Hs1).
  pose proof (WF_after_clean c W) as W1.
  destruct (find_empty (slots (after_clean c))) as [k|] eqn:Ef; cbn [fst snd].
  - set (c1 := after_clean c) in *.
    set (a' := mkAcct (cid n) (gen p) (cstr_field (Z.to_nat ptttype.EMAILSZ) e) false false).
    eexists. split.
    + apply (SR_ok (abs c) n p e s1 k Hacc Hat Hcl). apply (least_free_seq (abs c1) s1); [apply seq_sym; exact Hs1|].
      apply find_empty_least; assumption.
    + pose proof Ef as Ef'. unfold find_empty in Ef'. apply find_idx_some in Ef'. destruct Ef' as (a0 & Hk & He & _).
      apply empty_spec in He.
      assert (Hnone : abs_map (slots c1) (key (a_id a')) = None).
      { cbn [a' a_id]. rewrite (abs_lookup _ _ Hne). unfold c1. rewrite (lookup_after_clean_none c _ Hne El). reflexivity. }
      destruct (abs_set_new (slots c1) k a0 a' W1 Hk He Hne Hnone) as [_ Hupd].
      destruct Hs1 as (Hm & Hsz & Hrv & Hth).
      unfold abs, with_map, with_slots. cbn [s_map s_size s_resv s_thr slots reserved throttle].
      repeat split; cbn [s_map s_size s_resv s_thr]; try assumption.
      * intros i. rewrite Hupd. cbn [a' a_id]. unfold fold_id. apply upd_ext. exact Hm.
      * rewrite set_nth_length. exact Hsz.
  - exists s1. split; [|exact Hs1]. apply (SR_full (abs c) n p e s1 Hacc Hat Hcl).
    apply (full_seq (abs (after_clean c)) s1); [apply seq_sym; exact Hs1|]. apply find_empty_full; assumption.
Qed.

Theorem step_refines c o : WF c ->
  exists s', sstep (abs c) o (fst (step c o)) s' /\ seq s' (abs (snd (step c o))).
Proof.
  intros W. destruct o as [n p e|n p|n p|n p q|n e|n|n|]; cbn [step sstep].
  - apply register_refines. exact W.
  - unfold login, s_login. destruct (id_valid n) eqn:Ev; cbn [negb]; [|eexists; split; [reflexivity|apply seq_refl]].
    rewrite (abs_at c n Ev). destruct (lookup (slots c) (cid n)) as [k|] eqn:El; [|eexists; split; [reflexivity|apply seq_refl]].
    cbn [acct_of s_id s_pw s_email s_slot s_old s_xempt].
    destruct (eqbl _ _ || verify _ _); [|eexists; split; [reflexivity|apply seq_refl]].
    eexists. split; [reflexivity|]. cbn [fst snd].
    apply (abs_rewrite c n k (mkAcct _ _ _ false _) W Ev El). reflexivity.
  - unfold check_pw, s_check_pw. destruct (id_valid n) eqn:Ev; cbn [negb]; [|eexists; split; [reflexivity|apply seq_refl]].
    rewrite (abs_at c n Ev). destruct (lookup (slots c) (cid n)) as [k|] eqn:El; [|eexists; split; [reflexivity|apply seq_refl]].
    cbn [acct_of s_pw]. destruct (verify _ _); eexists; (split; [reflexivity|apply seq_refl]).
  - unfold change_pw, s_change_pw. destruct (id_valid n) eqn:Ev; cbn [negb]; [|eexists; split; [reflexivity|apply seq_refl]].
    rewrite (abs_at c n Ev). destruct (lookup (slots c) (cid n)) as [k|] eqn:El; [|eexists; split; [reflexivity|apply seq_refl]].
    cbn [acct_of s_id s_pw s_email s_slot s_old s_xempt].
    destruct (verify _ _); [|eexists; split; [reflexivity|apply seq_refl]].
    eexists. split; [reflexivity|]. cbn [fst snd].
    apply (abs_rewrite c n k (mkAcct _ _ _ _ _) W Ev El). reflexivity.
  - unfold change_email, s_change_email. destruct (id_valid n) eqn:Ev; cbn [negb]; [|eexists; split; [reflexivity|apply seq_refl]].
    rewrite (abs_at c n Ev). destruct (lookup (slots c) (cid n)) as [k|] eqn:El; [|eexists; split; [reflexivity|apply seq_refl]].
    cbn [acct_of s_id s_pw s_email s_slot s_old s_xempt].
    eexists. split; [reflexivity|]. cbn [fst snd].
    apply (abs_rewrite c n k (mkAcct _ _ _ _ _) W Ev El). reflexivity.
  - unfold exists_user, s_exists. destruct (id_valid n) eqn:Ev; cbn [negb]; [|eexists; split; [reflexivity|apply seq_refl]].
    rewrite (abs_at c n Ev). destruct (lookup (slots c) (cid n)) as [k|]; eexists; (split; [reflexivity|apply seq_refl]).
  - unfold get_user, s_get_user. destruct (id_valid n) eqn:Ev; cbn [negb]; [|eexists; split; [reflexivity|apply seq_refl]].
    rewrite (abs_at c n Ev). destruct (lookup (slots c) (cid n)) as [k|]; eexists; (split; [reflexivity|apply seq_refl]).
  - eexists. split; [reflexivity|apply seq_refl].
Qed.

(* ================================================================== histories *)

Theorem run_refines ops : forall c, WF c -> srun (abs c) ops (fst (run c ops)) (abs (snd (run c ops))).
Proof.
  induction ops as [|o r IH]; intros c W; [apply srun_nil; apply seq_refl|]. cbn [run].
  destruct (step_refines c o W) as (s1 & Hstep & Hseq). pose proof (step_WF c o W) as W1.
  destruct (step c o) as [x c1]. cbn [fst snd] in *. specialize (IH c1 W1).
  destruct (run c1 r) as [xs c2]. cbn [fst snd] in *. eapply srun_cons; eassumption.
Qed.

(* the abstraction of a table with distinct ids is a finite map of accounts *)
Theorem abs_inv c : WF c -> sinv (abs c).
Proof.
  intros W. split.
  - intros i s Hs. cbn [abs s_map s_size] in *. apply abs_map_some in Hs. destruct Hs as (k & a & Hk & Hne & Hkey & ->).
    cbn. repeat split; [exact Hne|exact Hkey|apply nth_error_Some; congruence].
  - intros i j s t Hs Ht Hslot. cbn [abs s_map] in *. apply abs_map_some in Hs, Ht.
    destruct Hs as (k & a & Hk & _ & Hkey & ->). destruct Ht as (k' & b & Hk' & _ & Hkey' & ->).
    cbn in Hslot. subst k'. congruence.
Qed.

(* ================================================================== what the property text names, on the account map *)

(* a free slot for a registration: the table is not full, or the hourly clean-up may run and some account is expired *)
Definition room_spec (s : sst) : Prop :=
  ~ full s \/ (s_thr s = false /\ exists i a, s_map s i = Some a /\ expired a = true).

Lemma room_abs c : WF c -> (room c = true <-> room_spec (abs c)).
Proof.
  intros W. unfold room, room_spec.
  assert (H1 : existsb (fun a => is_empty (a_id a)) (slots c) = true <-> ~ full (abs c)).
  { split.
    - intros H. apply find_idx_is_some in H. destruct H as [k Hk]. eapply least_free_not_full. apply find_empty_least; eassumption.
    - intros NF. destruct (existsb _ (slots c)) eqn:E; [reflexivity|]. exfalso. apply NF. apply find_empty_full; [exact W|].
      apply find_idx_none. exact E. }
  assert (H2 : existsb cleanable (tl (slots c)) = true <-> exists i a, s_map (abs c) i = Some a /\ expired a = true).
  { rewrite existsb_nth. cbn [abs s_map]. split.
    - intros (k & a & Hk & Hc). assert (Hk' : nth_error (slots c) (S k) = Some a) by (destruct (slots c); [destruct k; discriminate|exact Hk]).
      assert (Hne : a_id a <> []).
      { intros E. unfold cleanable in Hc. rewrite E in Hc. discriminate. }
      exists (key (a_id a)), (acct_of (S k) a). split; [apply abs_map_intro; assumption|].
      rewrite (expired_cleanable _ _ Hne). rewrite Hc. reflexivity.
    - intros (i & s & Hs & He). apply abs_map_some in Hs. destruct Hs as (k & a & Hk & Hne & _ & ->).
      rewrite (expired_cleanable _ _ Hne) in He. apply andb_true_iff in He. destruct He as [Hk0 Hc].
      destruct k as [|k]; [discriminate|]. exists k, a. split; [|exact Hc]. destruct (slots c); [discriminate|exact Hk]. }
  rewrite orb_true_iff, andb_true_iff, negb_true_iff, H1, H2. cbn [abs s_thr]. reflexivity.
Qed.

Lemma taken_abs c n : id_valid n = true -> (taken c n = false <-> s_map (abs c) (fold_id n) = None).
Proof.
  intros Hv. rewrite <- (lookup_taken c n (valid_nonempty _ Hv)). rewrite (abs_at c n Hv).
  destruct (lookup (slots c) (cid n)); split; intros H; try discriminate; reflexivity.
Qed.

(* registration exactness *)
Theorem register_exact_accounts c n p e : WF c ->
  let s := abs c in let rc := register c n p e in let s' := abs (snd rc) in
  (fst rc = ROk (cid n) \/ exists err, fst rc = RErr err) /\
  (fst rc = ROk (cid n) <-> id_acceptable (s_resv s) n = true /\ s_map s (fold_id n) = None /\ room_spec s) /\
  (fst rc = ROk (cid n) -> exists s1 k, cleaned s s1 /\ least_free s1 k /\
     forall i, s_map s' i = upd (s_map s1) (fold_id n)
                 (Some (mkSA (cid n) (gen p) (cstr_field (Z.to_nat ptttype.EMAILSZ) e) k false false)) i) /\
  ((exists err, fst rc = RErr err) -> forall i, s_map s' i = s_map s i).
Proof.
  intros W. cbv zeta. pose proof (register_exact c n p e) as R. cbv zeta in R.
  destruct (register_refines c n p e W) as (s'' & Hreg & Hseq).
  assert (Hcond : acceptable c n && negb (taken c n) && room c = true <->
                  id_acceptable (s_resv (abs c)) n = true /\ s_map (abs c) (fold_id n) = None /\ room_spec (abs c)).
  { rewrite !andb_true_iff, negb_true_iff, (room_abs c W), acceptable_abs. split.
    - intros [[Ha Ht] Hr]. repeat split; [exact Ha| |exact Hr]. apply taken_abs; [|exact Ht].
      unfold acceptable in Ha. destruct (id_valid n); [reflexivity|discriminate].
    - intros (Ha & Ht & Hr). repeat split; [exact Ha| |exact Hr]. apply taken_abs; [|exact Ht].
      unfold acceptable in Ha. destruct (id_valid n); [reflexivity|discriminate]. }
  destruct (acceptable c n && negb (taken c n) && room c) eqn:Ec.
  - destruct R as (k0 & _ & Hok & _). split; [|split; [|split]].
    + left. exact Hok.
    + split; [intros _; apply Hcond; reflexivity|intros _; exact Hok].
    + intros _. rewrite Hok in Hreg. inversion Hreg as [| | |s1 k Hacc Hnone Hcl Hlf Hr Hs]. subst s''.
      exists s1, k. split; [exact Hcl|]. split; [exact Hlf|]. intros i. destruct Hseq as (Hm & _). symmetry. apply Hm.
    + intros [err He]. rewrite Hok in He. discriminate.
  - destruct R as ([err He] & Hsl). split; [|split; [|split]].
    + right. eauto.
    + split; [intros H; rewrite He in H; discriminate|intros H; apply Hcond in H; discriminate].
    + intros H. rewrite He in H. discriminate.
    + intros _ i. cbn [abs s_map]. rewrite Hsl. reflexivity.
Qed.

(* the other operations answer what the functional specification answers *)
Lemma fn_refines c o (f : sst -> result * sst) : WF c -> (forall r s', sstep (abs c) o r s' <-> (r, s') = f (abs c)) ->
  fst (step c o) = fst (f (abs c)) /\ forall i, s_map (abs (snd (step c o))) i = s_map (snd (f (abs c))) i.
Proof.
  intros W Hf. destruct (step_refines c o W) as (s'' & Hs & Hseq). apply Hf in Hs.
  destruct (f (abs c)) as [r1 s1]. inversion Hs; subst. cbn [fst snd]. split; [reflexivity|].
  intros i. destruct Hseq as (Hm & _). symmetry. apply Hm.
Qed.

Lemma login_refines c n p : WF c ->
  fst (login c n p) = fst (s_login (abs c) n p) /\
  forall i, s_map (abs (snd (login c n p))) i = s_map (snd (s_login (abs c) n p)) i.
Proof. intros W. apply (fn_refines c (OLogin n p) (fun s => s_login s n p) W). intros r s'. reflexivity. Qed.

Lemma check_pw_refines c n p : WF c ->
  fst (check_pw c n p) = fst (s_check_pw (abs c) n p) /\
  forall i, s_map (abs (snd (check_pw c n p))) i = s_map (snd (s_check_pw (abs c) n p)) i.
Proof. intros W. apply (fn_refines c (OCheckPw n p) (fun s => s_check_pw s n p) W). intros r s'. reflexivity. Qed.

Lemma change_pw_refines c n old new : WF c ->
  fst (change_pw c n old new) = fst (s_change_pw (abs c) n old new) /\
  forall i, s_map (abs (snd (change_pw c n old new))) i = s_map (snd (s_change_pw (abs c) n old new)) i.
Proof. intros W. apply (fn_refines c (OChangePw n old new) (fun s => s_change_pw s n old new) W). intros r s'. reflexivity. Qed.

(* login exactness: accepted exactly for a well-formed id of an account whose current password is presented (or whose
   registered id is literally guest); the answer is the registered spelling; accounts other than the named one are
   untouched and the named one keeps id, password, e-mail and slot *)
Theorem login_exact_accounts c n p : WF c ->
  let s := abs c in let rc := login c n p in let s' := abs (snd rc) in
  (forall x, fst rc = ROk x <->
     id_valid n = true /\ exists a, s_map s (fold_id n) = Some a /\
       (eqbl (s_id a) ptttype.STR_GUEST = true \/ verify (s_pw a) p = true) /\ x = shown (s_id a)) /\
  ((exists x, fst rc = ROk x) \/ (fst rc = RErr E_USERID /\ forall i, s_map s' i = s_map s i)) /\
  (forall i, i <> fold_id n -> s_map s' i = s_map s i) /\
  (forall a, s_map s (fold_id n) = Some a -> exists a', s_map s' (fold_id n) = Some a' /\
     s_id a' = s_id a /\ s_pw a' = s_pw a /\ s_email a' = s_email a /\ s_slot a' = s_slot a).
Proof.
  intros W. cbv zeta. destruct (login_refines c n p W) as [Hr Hm]. rewrite Hr. clear Hr.
  set (s := abs c) in *. unfold s_login in *.
  destruct (id_valid n) eqn:Ev.
  2:{ cbn [fst snd] in *. split; [|split; [|split]].
      - intros x. split; [intros H; discriminate|intros [H _]; discriminate].
      - right. split; [reflexivity|exact Hm].
      - intros i _. apply Hm.
      - intros a Ha. exists a. rewrite Hm. repeat split. exact Ha. }
  destruct (s_map s (fold_id n)) as [a|] eqn:Ea.
  2:{ cbn [fst snd] in *. split; [|split; [|split]].
      - intros x. split; [intros H; discriminate|intros (_ & a & Ha & _); discriminate].
      - right. split; [reflexivity|exact Hm].
      - intros i _. apply Hm.
      - intros a Ha. discriminate. }
  destruct (eqbl (s_id a) ptttype.STR_GUEST || verify (s_pw a) p) eqn:Eg; cbn [fst snd] in *.
  - split; [|split; [|split]].
    + intros x. split.
      * intros H. inversion H; subst x. clear H. split; [reflexivity|]. exists a. split; [reflexivity|]. split; [|reflexivity].
        apply orb_true_iff. exact Eg.
      * intros (_ & a' & Ha' & _ & ->). inversion Ha'; subst a'. reflexivity.
    + left. eauto.
    + intros i Hi. rewrite Hm. cbn [with_map s_map]. apply upd_other. exact Hi.
    + intros a' Ha'. inversion Ha'; subst a'. eexists. rewrite Hm. cbn [with_map s_map]. rewrite upd_same.
      split; [reflexivity|]. cbn. repeat split.
  - split; [|split; [|split]].
    + intros x. split; [intros H; discriminate|].
      intros (_ & a' & Ha' & Hor & _). inversion Ha'; subst a'. apply orb_true_iff in Hor. congruence.
    + right. split; [reflexivity|exact Hm].
    + intros i _. apply Hm.
    + intros a' Ha'. exists a'. rewrite Hm, Ea. repeat split. exact Ha'.
Qed.

(* the password check: accepted exactly with the current password of a known account; never changes an account *)
Theorem check_pw_exact_accounts c n p : WF c ->
  let s := abs c in let rc := check_pw c n p in
  (fst rc = ROk [] <-> id_valid n = true /\ exists a, s_map s (fold_id n) = Some a /\ verify (s_pw a) p = true) /\
  (fst rc = ROk [] \/ exists err, fst rc = RErr err) /\
  forall i, s_map (abs (snd rc)) i = s_map s i.
Proof.
  intros W. cbv zeta. destruct (check_pw_refines c n p W) as [Hr Hm]. rewrite Hr. clear Hr.
  destruct (check_pw_exact c n p) as [Hsame _]. rewrite Hsame. clear Hm Hsame.
  unfold s_check_pw. destruct (id_valid n); cbn [negb].
  2:{ cbn [fst]. split; [|split].
      - split; [intros H; discriminate|intros [H _]; discriminate].
      - right; eauto.
      - intros i; reflexivity. }
  destruct (s_map (abs c) (fold_id n)) as [a|].
  2:{ cbn [fst]. split; [|split].
      - split; [intros H; discriminate|intros (_ & a & H & _); discriminate].
      - right; eauto.
      - intros i; reflexivity. }
  destruct (verify (s_pw a) p) eqn:Ev; cbn [fst]; (split; [|split]); try (intros i; reflexivity).
  - split; [intros _|reflexivity]. split; [reflexivity|]. exists a. split; [reflexivity|exact Ev].
  - left. reflexivity.
  - split; [intros H; discriminate|]. intros (_ & a' & H & Hv). inversion H; subst a'. congruence.
  - right. eauto.
Qed.

(* a password change needs the old password and replaces it: accepted exactly for a known account whose current
   password is presented as the old one; then only the password of that account changes (to the hash of the new
   one); refused otherwise, and then no account changes *)
Theorem change_needs_old_accounts c n old new : WF c ->
  let s := abs c in let rc := change_pw c n old new in let s' := abs (snd rc) in
  (fst rc = ROk [] <-> id_valid n = true /\ exists a, s_map s (fold_id n) = Some a /\ verify (s_pw a) old = true) /\
  (fst rc = ROk [] \/ exists err, fst rc = RErr err) /\
  (forall a, fst rc = ROk [] -> s_map s (fold_id n) = Some a ->
     s_map s' (fold_id n) = Some (mkSA (s_id a) (gen new) (s_email a) (s_slot a) (s_old a) (s_xempt a)) /\
     forall i, i <> fold_id n -> s_map s' i = s_map s i) /\
  ((exists err, fst rc = RErr err) -> forall i, s_map s' i = s_map s i).
Proof.
  intros W. cbv zeta. destruct (change_pw_refines c n old new W) as [Hr Hm]. rewrite Hr. clear Hr.
  set (s := abs c) in *. unfold s_change_pw in *. destruct (id_valid n); cbn [negb] in *.
  2:{ cbn [fst snd] in *. split; [|split; [|split]].
      - split; [intros H; discriminate|intros [H _]; discriminate].
      - right; eauto.
      - intros a H; discriminate.
      - intros _; exact Hm. }
  destruct (s_map s (fold_id n)) as [a|] eqn:Ea.
  2:{ cbn [fst snd] in *. split; [|split; [|split]].
      - split; [intros H; discriminate|intros (_ & a & H & _); discriminate].
      - right; eauto.
      - intros a H; discriminate.
      - intros _; exact Hm. }
  destruct (verify (s_pw a) old) eqn:Ev; cbn [fst snd] in *; (split; [|split; [|split]]).
  - split; [intros _|reflexivity]. split; [reflexivity|]. exists a. split; [reflexivity|exact Ev].
  - left. reflexivity.
  - intros a' _ Ha'. inversion Ha'; subst a'. split.
    + rewrite Hm. cbn [with_map s_map]. apply upd_same.
    + intros i Hi. rewrite Hm. cbn [with_map s_map]. apply upd_other. exact Hi.
  - intros [err H]. discriminate.
  - split; [intros H; discriminate|]. intros (_ & a' & H & Hv). inversion H; subst a'. congruence.
  - right. eauto.
  - intros a' H; discriminate.
  - intros _. exact Hm.
Qed.

(* ------------------------------------------------------------------ only the account named changes *)

(* [s'] differs from [s] at most in the account stored under [i], which keeps its id and its slot *)
Definition same_but (i : list Z) (s s' : sst) : Prop :=
  (forall j, j <> i -> s_map s' j = s_map s j) /\
  match s_map s i with
  | Some a => exists a', s_map s' i = Some a' /\ s_id a' = s_id a /\ s_slot a' = s_slot a
  | None => s_map s' i = None
  end.

Lemma same_but_refl i s : same_but i s s.
Proof. split; [reflexivity|]. destruct (s_map s i) as [a|]; [exists a; repeat split|reflexivity]. Qed.

Lemma same_but_upd i s a a' : s_map s i = Some a -> s_id a' = s_id a -> s_slot a' = s_slot a ->
  same_but i s (with_map s (upd (s_map s) i (Some a'))).
Proof.
  intros Ha H1 H2. split; [intros j Hj; cbn [with_map s_map]; apply upd_other; exact Hj|]. rewrite Ha.
  exists a'. cbn [with_map s_map]. rewrite upd_same. repeat split; assumption.
Qed.

Lemma same_but_ext i s s' t : same_but i s s' -> (forall j, s_map t j = s_map s' j) -> same_but i s t.
Proof.
  intros [H1 H2] E. split; [intros j Hj; rewrite E; apply H1; exact Hj|]. destruct (s_map s i) as [a|]; rewrite E; exact H2.
Qed.

Theorem accounts_frame c o : WF c -> (forall n p e, o <> ORegister n p e) ->
  exists i, same_but i (abs c) (abs (snd (step c o))).
Proof.
  intros W Hnr. destruct (step_refines c o W) as (s'' & Hs & Hseq).
  assert (Hm : forall j, s_map (abs (snd (step c o))) j = s_map s'' j) by (intros j; destruct Hseq as (Hm & _); symmetry; apply Hm).
  clear Hseq. set (s := abs c) in *.
  assert (Hfn : forall n (r : result) (f : sst -> result * sst),
    (r, s'') = f s ->
    (f s = (fst (f s), s) \/ exists a a', s_map s (fold_id n) = Some a /\ s_id a' = s_id a /\ s_slot a' = s_slot a /\
                            snd (f s) = with_map s (upd (s_map s) (fold_id n) (Some a'))) ->
    exists i, same_but i s (abs (snd (step c o)))).
  { intros n r f Hf [Hsame|(a & a' & Ha & H1 & H2 & Hupd)]; exists (fold_id n).
    - rewrite Hsame in Hf. inversion Hf; subst s''. eapply same_but_ext; [apply same_but_refl|exact Hm].
    - assert (s'' = snd (f s)) by (rewrite <- Hf; reflexivity). subst s''. rewrite Hupd in Hm.
      eapply same_but_ext; [apply (same_but_upd _ s a a' Ha H1 H2)|exact Hm]. }
  destruct o as [n p e|n p|n p|n p q|n e|n|n|]; cbn [sstep] in Hs.
  - exfalso. eapply Hnr. reflexivity.
  - apply (Hfn n _ (fun s => s_login s n p) Hs). unfold s_login. destruct (id_valid n); [|left; reflexivity].
    destruct (s_map s (fold_id n)) as [a|] eqn:Ea; [|left; reflexivity].
    destruct (_ || _); [|left; reflexivity]. right. exists a. eexists. split; [reflexivity|]. (split; [|split; [|cbn [snd]; reflexivity]]); reflexivity.
  - apply (Hfn n _ (fun s => s_check_pw s n p) Hs). unfold s_check_pw. destruct (id_valid n); cbn [negb]; [|left; reflexivity].
    destruct (s_map s (fold_id n)) as [a|]; [|left; reflexivity]. destruct (verify _ _); left; reflexivity.
  - apply (Hfn n _ (fun s => s_change_pw s n p q) Hs). unfold s_change_pw. destruct (id_valid n); cbn [negb]; [|left; reflexivity].
    destruct (s_map s (fold_id n)) as [a|] eqn:Ea; [|left; reflexivity].
    destruct (verify _ _); [|left; reflexivity]. right. exists a. eexists. split; [reflexivity|]. (split; [|split; [|cbn [snd]; reflexivity]]); reflexivity.
  - apply (Hfn n _ (fun s => s_change_email s n e) Hs). unfold s_change_email. destruct (id_valid n); cbn [negb]; [|left; reflexivity].
    destruct (s_map s (fold_id n)) as [a|] eqn:Ea; [|left; reflexivity].
    right. exists a. eexists. split; [reflexivity|]. (split; [|split; [|cbn [snd]; reflexivity]]); reflexivity.
  - apply (Hfn n _ (fun s => s_exists s n) Hs). unfold s_exists. destruct (id_valid n); cbn [negb]; [|left; reflexivity].
    destruct (s_map s (fold_id n)); left; reflexivity.
  - apply (Hfn n _ (fun s => s_get_user s n) Hs). unfold s_get_user. destruct (id_valid n); cbn [negb]; [|left; reflexivity].
    destruct (s_map s (fold_id n)); left; reflexivity.
  - exists []. inversion Hs; subst s''. eapply same_but_ext; [apply same_but_refl|]. intros j. rewrite Hm. reflexivity.
Qed.

(* a registration adds the new account under its own key; every other account stays as it is, except that the
   clean-up of a full table (at most once an hour) removes the expired ones *)
Theorem register_frame_accounts c n p e : WF c ->
  let s := abs c in let s' := abs (snd (register c n p e)) in
  forall i, i <> fold_id n ->
    s_map s' i = s_map s i \/
    (full s /\ s_thr s = false /\ exists a, s_map s i = Some a /\ expired a = true /\ s_map s' i = None).
Proof.
  intros W. cbv zeta. intros i Hi. destruct (register_refines c n p e W) as (s'' & Hreg & Hseq).
  assert (Hm : forall j, s_map (abs (snd (register c n p e))) j = s_map s'' j) by (intros j; destruct Hseq as (Hm & _); symmetry; apply Hm).
  assert (Hcl : forall s1, cleaned (abs c) s1 ->
    s_map s1 i = s_map (abs c) i \/
    (full (abs c) /\ s_thr (abs c) = false /\ exists a, s_map (abs c) i = Some a /\ expired a = true /\ s_map s1 i = None)).
  { intros s1 H. inversion H as [NF|F T|F T]; subst; try (left; reflexivity). cbn [s_map]. unfold sweep.
    destruct (s_map (abs c) i) as [a|] eqn:Ea; [|left; reflexivity].
    destruct (expired a) eqn:Ee; [|left; reflexivity]. right. split; [exact F|]. split; [exact T|]. exists a. repeat split. exact Ee. }
  rewrite Hm. inversion Hreg as [Hb Hr Hs|a Hacc Ht Hr Hs|s1 Hacc Hn Hc Hf Hr Hs|s1 k Hacc Hn Hc Hlf Hr Hs]; subst s''.
  - left. reflexivity.
  - left. reflexivity.
  - apply Hcl. exact Hc.
  - cbn [with_map s_map]. rewrite (upd_other _ _ _ _ Hi). apply Hcl. exact Hc.
Qed.

(* ================================================================== the specification answers one thing *)

Lemma cleaned_det s s1 s2 : cleaned s s1 -> cleaned s s2 -> s1 = s2.
Proof.
  intros H1 H2. inversion H1 as [N1|F1 T1|F1 T1]; inversion H2 as [N2|F2 T2|F2 T2]; subst; try reflexivity;
    try contradiction; congruence.
Qed.

Lemma least_free_det s k k' : least_free s k -> least_free s k' -> k = k'.
Proof.
  intros (_ & N & L) (_ & N' & L'). destruct (Nat.lt_trichotomy k k') as [H|[H|H]]; [|exact H|].
  - exfalso. exact (N (L' k H)).
  - exfalso. exact (N' (L k' H)).
Qed.

(* for every state and request the specification allows exactly one answer and one successor *)
Theorem sstep_det s o r1 s1 r2 s2 : sstep s o r1 s1 -> sstep s o r2 s2 -> r1 = r2 /\ s1 = s2.
Proof.
  destruct o as [n p e| | | | | | |]; cbn [sstep]; try (intros H1 H2; rewrite <- H2 in H1; inversion H1; split; reflexivity).
  intros H1 H2.
  destruct H1 as [B1|a1 A1 T1|t1 A1 N1 C1 F1|t1 k1 A1 N1 C1 L1]; destruct H2 as [B2|a2 A2 T2|t2 A2 N2 C2 F2|t2 k2 A2 N2 C2 L2];
    try (exfalso; congruence); try (split; reflexivity).
  - pose proof (cleaned_det _ _ _ C1 C2). subst t2. split; reflexivity.
  - pose proof (cleaned_det _ _ _ C1 C2). subst t2. exfalso. exact (least_free_not_full _ _ L2 F1).
  - pose proof (cleaned_det _ _ _ C1 C2). subst t2. exfalso. exact (least_free_not_full _ _ L1 F2).
  - pose proof (cleaned_det _ _ _ C1 C2). subst t2. pose proof (least_free_det _ _ _ L1 L2). subst k2. split; reflexivity.
Qed.

(* ================================================================== non-vacuity *)

Definition n_alice : list Z := [97;108;105;99;101].
Definition n_Alice : list Z := [65;108;105;99;101].
Definition n_ALICE : list Z := [65;76;73;67;69].
Definition n_sysop : list Z := [115;121;115;111;112].
Definition n_old1 : list Z := [111;108;100;49].

(* the abstraction of the example table (full: SYSOP, the expired old1, guest) is a map with three accounts *)
Example ex_abs :
  s_map (abs ex_c) n_sysop = Some (mkSA [83;89;83;79;80] (Some (kb [49;50;51])) [] 0 true false) /\
  s_map (abs ex_c) n_old1 = Some (mkSA n_old1 (Some (kb [112])) [] 1 true false) /\
  s_map (abs ex_c) n_alice = None /\ s_map (abs ex_c) [83;89;83;79;80] = None /\ s_size (abs ex_c) = 3%nat.
Proof. vm_compute. repeat split. Qed.

Example ex_abs_inv : sinv (abs ex_c).
Proof. apply abs_inv. exact ex_wf. Qed.

Definition ex_ops : list op :=
  [ORegister n_Alice [112;119] [97]; ORegister n_ALICE [120] []; OLogin n_alice [112;119]; OLogin n_alice [112;120];
   OLogin [71;85;69;83;84] []; OChangePw n_alice [120] [121]; OChangePw n_alice [112;119] [121]; OCheckPw n_Alice [121];
   OChangeEmail n_ALICE [98]; OGetUser n_alice; OExists n_old1; OHour].
Definition ex_results : list result :=
  [ROk n_Alice; RErr E_EXISTS; ROk n_Alice; RErr E_USERID; ROk [103;117;101;115;116]; RErr E_USERID; ROk []; ROk [];
   ROk []; ROk (enc_str n_Alice ++ enc_str [98]); ROk []; ROk []].

(* the specification runs this history (a registration on a full table that reclaims an expired account, a case twin,
   right and wrong passwords, guest) to these answers ... *)
Example ex_refines : exists s', srun (abs ex_c) ex_ops ex_results s'.
Proof.
  exists (abs (snd (run ex_c ex_ops))).
  assert (E : fst (run ex_c ex_ops) = ex_results) by (vm_compute; reflexivity).
  rewrite <- E. apply run_refines. exact ex_wf.
Qed.

(* ... and allows no other answer: a login with the wrong password cannot be accepted, whatever the successor state *)
Example ex_spec_refuses : forall x s', ~ sstep (abs ex_c) (OLogin n_sysop [120]) (ROk x) s'.
Proof.
  intros x s' H. assert (S : sstep (abs ex_c) (OLogin n_sysop [120]) (RErr E_USERID) (abs ex_c)) by (vm_compute; reflexivity).
  destruct (sstep_det _ _ _ _ _ _ H S) as [E _]. discriminate.
Qed.

(* one step: the registration on the full example table is the specification's SR_ok after a sweep *)
Example ex_step_refines : exists s', sstep (abs ex_c) (ORegister n_Alice [112;119] [97]) (ROk n_Alice) s' /\
  s_map s' n_alice = Some (mkSA n_Alice (Some (kb [112;119])) [97] 1 false false) /\ s_map s' n_old1 = None.
Proof.
  destruct (step_refines ex_c (ORegister n_Alice [112;119] [97]) ex_wf) as (s' & Hs & (Hm & _)).
  exists s'. split; [exact Hs|]. rewrite !Hm. vm_compute. split; reflexivity.
Qed.

Example ex_register_accounts :
  id_acceptable (s_resv (abs ex_c)) n_Alice = true /\ s_map (abs ex_c) (fold_id n_Alice) = None /\ room_spec (abs ex_c).
Proof.
  apply (proj1 (proj2 (register_exact_accounts ex_c n_Alice [112;119] [97] ex_wf))). vm_compute. reflexivity.
Qed.

(* after an hour-old clean-up attempt (throttle set) the same full table has no room *)
Example ex_register_no_room :
  let c := mkC (slots ex_c) (reserved ex_c) true in
  fst (register c n_Alice [112;119] [97]) = RErr E_NOSLOT /\ ~ room_spec (abs c).
Proof.
  cbv zeta. split; [vm_compute; reflexivity|]. intros R.
  assert (W : WF (mkC (slots ex_c) (reserved ex_c) true)) by exact ex_wf.
  apply (room_abs _ W) in R. vm_compute in R. discriminate.
Qed.

(* (the password 123 and its bit-7 twin have one key block) *)
Example ex_login_accounts :
  (exists x, fst (login ex_c n_sysop [177;50;51]) = ROk x) /\ fst (login ex_c n_sysop [49;50;52]) = RErr E_USERID.
Proof. split; [eexists|]; vm_compute; reflexivity. Qed.

Example ex_login_accounts_rhs :
  id_valid n_sysop = true /\ exists a, s_map (abs ex_c) (fold_id n_sysop) = Some a /\
    (eqbl (s_id a) ptttype.STR_GUEST = true \/ verify (s_pw a) [49;50;51] = true) /\ [83;89;83;79;80] = shown (s_id a).
Proof.
  apply (proj1 (login_exact_accounts ex_c n_sysop [49;50;51] ex_wf) [83;89;83;79;80]). vm_compute. reflexivity.
Qed.

Example ex_change_accounts :
  fst (change_pw ex_c n_sysop [49;50;51] [122]) = ROk [] /\
  s_map (abs (snd (change_pw ex_c n_sysop [49;50;51] [122]))) n_sysop = Some (mkSA [83;89;83;79;80] (Some (kb [122])) [] 0 true false) /\
  fst (change_pw ex_c n_sysop [122] [122]) = RErr E_USERID.
Proof. vm_compute. repeat split. Qed.

Example ex_accounts_frame : exists i, same_but i (abs ex_c) (abs (snd (step ex_c (OChangeEmail n_sysop [98])))) /\
  s_map (abs (snd (step ex_c (OChangeEmail n_sysop [98])))) n_sysop <> s_map (abs ex_c) n_sysop.
Proof.
  destruct (accounts_frame ex_c (OChangeEmail n_sysop [98]) ex_wf) as [i Hi]; [discriminate|].
  exists i. split; [exact Hi|]. vm_compute. discriminate.
Qed.

(* the second branch of register_frame_accounts is real: old1 is removed by the registration of Alice *)
Example ex_register_frame :
  let s' := abs (snd (register ex_c n_Alice [112;119] [97])) in
  full (abs ex_c) /\ s_thr (abs ex_c) = false /\
  exists a, s_map (abs ex_c) n_old1 = Some a /\ expired a = true /\ s_map s' n_old1 = None.
Proof.
  cbv zeta. destruct (register_frame_accounts ex_c n_Alice [112;119] [97] ex_wf n_old1) as [H|H]; [discriminate| |exact H].
  vm_compute in H. discriminate.
Qed.

(* the empty password: the registration is accepted, the id is taken, and no password — the empty one included —
   logs in, passes the check or changes the password afterwards *)
Example ex_empty_password :
  fst (run ex_c [ORegister n_Alice [] [97]; OLogin n_alice []; OCheckPw n_alice []; OChangePw n_alice [] [120];
                 OExists n_alice; ORegister n_ALICE [120] []])
  = [ROk n_Alice; RErr E_USERID; RErr E_USERID; RErr E_USERID; ROk n_alice; RErr E_EXISTS].
Proof. vm_compute. reflexivity. Qed.

Example ex_empty_locks : forall pw', verify (gen []) pw' = false /\ verify (gen [0;97]) pw' = false.
Proof. intros pw'. split; apply gen_empty_locks; reflexivity. Qed.

Example ex_check_accounts :
  fst (check_pw ex_c n_sysop [49;50;51]) = ROk [] /\ fst (check_pw ex_c [103;117;101;115;116] []) = RErr E_USERID /\
  (id_valid n_sysop = true /\ exists a, s_map (abs ex_c) (fold_id n_sysop) = Some a /\ verify (s_pw a) [49;50;51] = true).
Proof.
  split; [vm_compute; reflexivity|]. split; [vm_compute; reflexivity|].
  apply (proj1 (check_pw_exact_accounts ex_c n_sysop [49;50;51] ex_wf)). vm_compute. reflexivity.
Qed.

(* ================================================================== the gin handlers *)

(* the handlers over the specification: changing the password or e-mail of the literal id guest is refused before
   the accounts are asked; every refusal is one status *)
Definition api_guarded (o : op) : bool :=
  match o with
  | OChangePw n _ _ | OChangeEmail n _ => eqbl n ptttype.STR_GUEST
  | _ => false
  end.
Definition api_answer (r : result) : result := match r with RErr _ => RErr E_API | _ => r end.
Definition sapi_step (s : sst) (o : op) (r : result) (s' : sst) : Prop :=
  if api_guarded o then r = RErr E_API /\ s' = s
  else exists r0, sstep s o r0 s' /\ r = api_answer r0.

Theorem api_step_refines c o : WF c ->
  exists s', sapi_step (abs c) o (fst (api_step c o)) s' /\ seq s' (abs (snd (api_step c o))).
Proof.
  intros W. unfold api_step, sapi_step. fold (api_guarded o). destruct (api_guarded o).
  - exists (abs c). split; [split; reflexivity|apply seq_refl].
  - destruct (step_refines c o W) as (s' & Hs & Hseq). exists s'. destruct (step c o) as [[x|e] c1]; cbn [fst snd] in *.
    + split; [exists (ROk x); split; [exact Hs|reflexivity]|exact Hseq].
    + split; [exists (RErr e); split; [exact Hs|reflexivity]|exact Hseq].
Qed.

Example ex_api_guard :
  fst (api_step ex_c (OChangeEmail [103;117;101;115;116] [98])) = RErr E_API /\
  fst (step ex_c (OChangeEmail [103;117;101;115;116] [98])) = ROk [] /\
  fst (api_step ex_c (OLogin n_sysop [120])) = RErr E_API /\ fst (api_step ex_c (OLogin n_sysop [49;50;51])) = ROk [83;89;83;79;80].
Proof. vm_compute. repeat split. Qed.
