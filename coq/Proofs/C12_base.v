(* C12 — list, slot and comparison lemmas; correctness of the by-name search on a sorted permutation. *)
From Verif Require Import Base.Common Base.ListX Gen.Consts_default Model.C12.
Import ptttype.

(* ------------------------------------------------------------------ lists *)
Lemma firstn_app_exact {A} (a b : list A) n : length a = n -> firstn n (a ++ b) = a.
Proof. intros <-. rewrite firstn_app, Nat.sub_diag, firstn_all. cbn. apply app_nil_r. Qed.
Lemma skipn_app_exact {A} (a b : list A) n : length a = n -> skipn n (a ++ b) = b.
Proof. intros <-. rewrite skipn_app, Nat.sub_diag, skipn_all. reflexivity. Qed.
Lemma firstn_app_le {A} (a b : list A) n : (n <= length a)%nat -> firstn n (a ++ b) = firstn n a.
Proof. intros H. rewrite firstn_app. replace (n - length a)%nat with O by lia. cbn. apply app_nil_r. Qed.

Lemma skipn_skipn' {A} (l : list A) : forall m n, skipn n (skipn m l) = skipn (m + n) l.
Proof.
  induction l as [|x l IH]; intros m n; [rewrite !skipn_nil; reflexivity|].
  destruct m as [|m]; [reflexivity|]. cbn. apply IH.
Qed.

Lemma setn_length_in {A} (d : A) l : forall i v, (i < length l)%nat -> length (setn d l i v) = length l.
Proof.
  induction l as [|x l IH]; intros i v H; [cbn in H; lia|].
  destruct i as [|i]; cbn; [reflexivity|]. rewrite IH; [reflexivity|cbn in H; lia].
Qed.
Lemma setn_at_end {A} (d : A) l v : setn d l (length l) v = l ++ [v].
Proof. induction l as [|x l IH]; cbn; [reflexivity|]. rewrite IH. reflexivity. Qed.
Lemma nth_setn_same {A} (d : A) l : forall i v, nth i (setn d l i v) d = v.
Proof.
  induction l as [|x l IH]; intros i v.
  - induction i as [|i IHi]; cbn; [reflexivity|exact IHi].
  - destruct i as [|i]; cbn; [reflexivity|apply IH].
Qed.
Lemma nth_setn_other {A} (d : A) l : forall i j v, i <> j -> nth j (setn d l i v) d = nth j l d.
Proof.
  induction l as [|x l IH]; intros i j v H.
  - revert j H. induction i as [|i IHi]; intros j H; cbn.
    + destruct j as [|j]; [congruence|]. destruct j; reflexivity.
    + destruct j as [|j]; [reflexivity|]. rewrite IHi by congruence. destruct j; reflexivity.
  - destruct i as [|i], j as [|j]; cbn; try reflexivity; try congruence. apply IH. congruence.
Qed.
Lemma Forall_setn_in {A} (P : A -> Prop) (d : A) l : forall i v, (i < length l)%nat -> Forall P l -> P v -> Forall P (setn d l i v).
Proof.
  induction l as [|x l IH]; intros i v H HF Hv; [cbn in H; lia|].
  inversion HF as [|? ? Hx Hl]; subst. destruct i as [|i]; cbn; constructor; auto. apply IH; auto. cbn in H. lia.
Qed.

Lemma gets_setn_same c i v : 0 <= i -> gets (setn zero_slot c (Z.to_nat i) v) i = v.
Proof. intros H. unfold gets, getn. destruct (i <? 0) eqn:E; [lia|]. apply nth_setn_same. Qed.
Lemma gets_setn_other c i j v : 0 <= i -> i <> j -> gets (setn zero_slot c (Z.to_nat i) v) j = gets c j.
Proof.
  intros H Hn. unfold gets, getn. destruct (j <? 0) eqn:E; [reflexivity|]. apply nth_setn_other. lia.
Qed.

Lemma map_firstn_all {A} (f : A -> A) l : forall n, (length l <= n)%nat -> map_firstn f n l = map f l.
Proof.
  induction l as [|x l IH]; intros n H; destruct n; cbn in *; try reflexivity; try lia. rewrite IH by lia. reflexivity.
Qed.

(* ------------------------------------------------------------------ slots as five parts: [0,104) attr [108,144) FirstChild [152,256) *)
Lemma splice_mid (p w q v : list Z) off : length p = off -> length v = length w -> splice (p ++ w ++ q) off v = p ++ v ++ q.
Proof.
  intros Hp Hv. unfold splice. rewrite firstn_app_exact by exact Hp.
  replace (p ++ w ++ q) with ((p ++ w) ++ q) by (rewrite <- app_assoc; reflexivity).
  rewrite skipn_app_exact by (rewrite app_length; lia). reflexivity.
Qed.

Lemma slot_parts (s : slot) : length s = 256%nat ->
  exists a b c d e, s = a ++ b ++ c ++ d ++ e /\ length a = 104%nat /\ length b = 4%nat /\ length c = 36%nat /\ length d = 8%nat /\ length e = 104%nat.
Proof.
  intros H. exists (firstn 104 s), (firstn 4 (skipn 104 s)), (firstn 36 (skipn 108 s)), (firstn 8 (skipn 144 s)), (skipn 152 s).
  repeat split; try (rewrite ?firstn_length, ?skipn_length; lia).
  rewrite <- (firstn_skipn 104 s) at 1. f_equal.
  rewrite <- (firstn_skipn 4 (skipn 104 s)) at 1. f_equal. rewrite skipn_skipn'. cbn [Nat.add].
  rewrite <- (firstn_skipn 36 (skipn 108 s)) at 1. f_equal. rewrite skipn_skipn'. cbn [Nat.add].
  rewrite <- (firstn_skipn 8 (skipn 144 s)) at 1. f_equal. rewrite skipn_skipn'. reflexivity.
Qed.

Lemma clear_fc_parts a b c d e : length a = 104%nat -> length b = 4%nat -> length c = 36%nat -> length d = 8%nat ->
  clear_fc (a ++ b ++ c ++ d ++ e) = a ++ b ++ c ++ repeat 0 8 ++ e.
Proof.
  intros Ha Hb Hc Hd. unfold clear_fc.
  replace (a ++ b ++ c ++ d ++ e) with ((a ++ b ++ c) ++ d ++ e) by (rewrite <- !app_assoc; reflexivity).
  rewrite splice_mid.
  - rewrite <- !app_assoc. reflexivity.
  - unfold O_FC. rewrite !app_length. lia.
  - rewrite repeat_length. lia.
Qed.
Lemma le32_length v : length (le32 v) = 4%nat. Proof. reflexivity. Qed.
Lemma set_attr_parts a b c d e v : length a = 104%nat -> length b = 4%nat ->
  set_attr (a ++ b ++ c ++ d ++ e) v = a ++ le32 v ++ c ++ d ++ e.
Proof. intros Ha Hb. unfold set_attr. apply splice_mid; [exact Ha|rewrite le32_length; lia]. Qed.

Lemma clear_fc_length s : length s = 256%nat -> length (clear_fc s) = 256%nat.
Proof.
  intros H. destruct (slot_parts s H) as (a & b & c & d & e & -> & Ha & Hb & Hc & Hd & He).
  rewrite clear_fc_parts by assumption. rewrite !app_length, repeat_length. lia.
Qed.
Lemma set_attr_length s v : length s = 256%nat -> length (set_attr s v) = 256%nat.
Proof.
  intros H. destruct (slot_parts s H) as (a & b & c & d & e & -> & Ha & Hb & Hc & Hd & He).
  rewrite set_attr_parts by assumption. rewrite !app_length, le32_length. lia.
Qed.
Lemma clear_fc_idem s : length s = 256%nat -> clear_fc (clear_fc s) = clear_fc s.
Proof.
  intros H. destruct (slot_parts s H) as (a & b & c & d & e & -> & Ha & Hb & Hc & Hd & He).
  rewrite clear_fc_parts by assumption. rewrite clear_fc_parts; auto.
Qed.
Lemma clear_fc_set_attr s v : length s = 256%nat -> clear_fc s = s -> clear_fc (set_attr s v) = set_attr s v.
Proof.
  intros H. destruct (slot_parts s H) as (a & b & c & d & e & -> & Ha & Hb & Hc & Hd & He).
  rewrite clear_fc_parts by assumption. intros Hfix. rewrite set_attr_parts by assumption.
  rewrite clear_fc_parts; auto using le32_length.
  apply app_inv_head in Hfix. apply app_inv_head in Hfix. apply app_inv_head in Hfix.
  rewrite Hfix. reflexivity.
Qed.
Lemma name_of_clear_fc s : length s = 256%nat -> name_of (clear_fc s) = name_of s.
Proof.
  intros H. destruct (slot_parts s H) as (a & b & c & d & e & -> & Ha & Hb & Hc & Hd & He).
  rewrite clear_fc_parts by assumption. unfold name_of, sub, O_NAME, L_NAME. cbn [skipn].
  rewrite !firstn_app_le by lia. reflexivity.
Qed.
Lemma name_of_set_attr s v : length s = 256%nat -> name_of (set_attr s v) = name_of s.
Proof.
  intros H. destruct (slot_parts s H) as (a & b & c & d & e & -> & Ha & Hb & Hc & Hd & He).
  rewrite set_attr_parts by assumption. unfold name_of, sub, O_NAME, L_NAME. cbn [skipn].
  rewrite !firstn_app_le by lia. reflexivity.
Qed.

(* ------------------------------------------------------------------ comparison *)
Lemma cstrcmp_antisym : forall a b, cstrcmp a b = - cstrcmp b a.
Proof.
  induction a as [|x xs IH]; intros [|y ys]; cbn; try lia.
  destruct (x =? 0) eqn:Ex, (y =? 0) eqn:Ey; try lia.
  - destruct (y =? x) eqn:Eyx; lia.
  - destruct (x =? y) eqn:Exy; lia.
  - destruct (x =? y) eqn:Exy, (y =? x) eqn:Eyx; try lia. apply IH.
Qed.

Lemma cstrcmp_cprefix : forall a b, cstrcmp a b = cstrcmp (cprefix a) (cprefix b).
Proof.
  induction a as [|x xs IH]; intros [|y ys]; cbn.
  - reflexivity.
  - destruct (y =? 0) eqn:Ey; cbn; lia.
  - destruct (x =? 0) eqn:Ex; cbn; lia.
  - destruct (x =? 0) eqn:Ex, (y =? 0) eqn:Ey; cbn; rewrite ?Ex, ?Ey; try lia.
    + destruct (x =? y) eqn:Exy; lia.
    + destruct (x =? y) eqn:Exy; [apply IH|reflexivity].
Qed.

Definition nulfree (l : list Z) : Prop := Forall (fun c => c <> 0) l.
Lemma cprefix_nulfree l : nulfree (cprefix l).
Proof. induction l as [|c l IH]; cbn; [constructor|]. destruct (c =? 0) eqn:E; [constructor|constructor; [lia|exact IH]]. Qed.
Lemma cstrcmp_zero_eq : forall a b, nulfree a -> nulfree b -> cstrcmp a b = 0 -> a = b.
Proof.
  induction a as [|x xs IH]; intros [|y ys] Ha Hb H; cbn in H.
  - reflexivity.
  - inversion Hb; subst. lia.
  - inversion Ha; subst. lia.
  - inversion Ha; subst. inversion Hb; subst.
    destruct (x =? 0) eqn:Ex; [lia|]. destruct (x =? y) eqn:Exy; [|lia].
    f_equal; [lia|]. apply IH; assumption.
Qed.

Definition ckey (a : list Z) : list Z := cprefix (map tolower a).
Lemma casecmp_key a b : casecmp a b = cstrcmp (ckey a) (ckey b).
Proof. unfold casecmp, ckey. apply cstrcmp_cprefix. Qed.
Lemma casecmp_zero_key a b : casecmp a b = 0 -> ckey a = ckey b.
Proof. rewrite casecmp_key. apply cstrcmp_zero_eq; apply cprefix_nulfree. Qed.
Lemma casecmp_antisym a b : casecmp a b = - casecmp b a.
Proof. unfold casecmp. apply cstrcmp_antisym. Qed.
Lemma casecmp_refl a : casecmp a a = 0.
Proof. pose proof (casecmp_antisym a a). lia. Qed.
Lemma casecmp_congr_l k c b : casecmp k c = 0 -> casecmp k b = casecmp c b.
Proof. intros H. rewrite !casecmp_key, (casecmp_zero_key _ _ H). reflexivity. Qed.
Lemma casecmp_congr_r k c b : casecmp k c = 0 -> casecmp b k = casecmp b c.
Proof. intros H. rewrite !casecmp_key, (casecmp_zero_key _ _ H). reflexivity. Qed.

(* ------------------------------------------------------------------ sorted arrays *)
Lemma sorted_by_nth less : forall p i j, sorted_by less p = true -> (i < j)%nat -> (j < length p)%nat ->
  less (nth j p 0) (nth i p 0) = false.
Proof.
  induction p as [|x r IH]; intros i j Hs Hij Hj; [cbn in Hj; lia|].
  cbn in Hs. apply andb_true_iff in Hs. destruct Hs as [Hx Hr].
  destruct j as [|j]; [lia|]. destruct i as [|i].
  - cbn. rewrite forallb_forall in Hx. specialize (Hx (nth j r 0)).
    apply negb_true_iff. apply Hx. apply nth_In. cbn in Hj. lia.
  - cbn. apply IH; [exact Hr|lia|cbn in Hj; lia].
Qed.
Lemma forallb_ext' {A} (f g : A -> bool) l : (forall x, f x = g x) -> forallb f l = forallb g l.
Proof. intros H. induction l as [|x l IH]; cbn; [reflexivity|]. rewrite H, IH. reflexivity. Qed.
Lemma sorted_by_ext less less' p : (forall a b, less a b = less' a b) -> sorted_by less p = sorted_by less' p.
Proof.
  intros H. induction p as [|x r IH]; cbn; [reflexivity|]. rewrite IH. f_equal.
  apply forallb_ext'. intros y. rewrite H. reflexivity.
Qed.

Lemma covers_spec n p : covers n p = true -> forall k, (k < n)%nat -> exists i, (i < length p)%nat /\ nth i p 0 = Z.of_nat k.
Proof.
  unfold covers. rewrite forallb_forall. intros H k Hk.
  specialize (H k). rewrite in_seq in H. specialize (H ltac:(lia)).
  apply existsb_exists in H. destruct H as (x & Hin & Hx). apply Z.eqb_eq in Hx. subst x.
  destruct (In_nth _ _ 0 Hin) as (i & Hi & Hn). exists i. split; assumption.
Qed.
Lemma in_range_nth n p i : in_range n p = true -> (i < length p)%nat -> 0 <= nth i p 0 < n.
Proof.
  unfold in_range. rewrite forallb_forall. intros H Hi. specialize (H (nth i p 0) (nth_In _ _ Hi)). lia.
Qed.

(* ------------------------------------------------------------------ the search (getBidByNameCore) *)
Section Search.
  Variable c : list slot.
  Variable sn : list Z.
  Variable key : list Z.
  Hypothesis Hsorted : sorted_by (less_name c) sn = true.

  Let nm (i : Z) : list Z := name_of (gets c (getn 0 sn i)).

  Lemma getn_nth i : 0 <= i -> getn 0 sn i = nth (Z.to_nat i) sn 0.
  Proof. intros H. unfold getn. destruct (i <? 0) eqn:E; [lia|reflexivity]. Qed.

  Lemma sorted_pos i j : 0 <= i -> i < j -> j < lenZ sn -> 0 <= casecmp (nm j) (nm i).
  Proof.
    intros Hi Hij Hj. unfold nm. rewrite !getn_nth by lia.
    pose proof (sorted_by_nth _ sn (Z.to_nat i) (Z.to_nat j) Hsorted ltac:(lia) ltac:(unfold lenZ in Hj; lia)) as H.
    unfold less_name in H. lia.
  Qed.

  (* a match cannot sit at or below a position the key is greater than, nor at or above one it is smaller than *)
  Lemma no_match_below idx i : 0 <= i -> i <= idx -> idx < lenZ sn -> 0 < casecmp key (nm idx) -> casecmp key (nm i) <> 0.
  Proof.
    intros Hi Hle Hidx Hgt Heq. destruct (Z.eq_dec i idx) as [->|Hne]; [lia|].
    pose proof (sorted_pos i idx Hi ltac:(lia) Hidx) as Hs.
    rewrite <- (casecmp_congr_r _ _ (nm idx) Heq) in Hs. rewrite casecmp_antisym in Hs. lia.
  Qed.
  Lemma no_match_above idx i : 0 <= idx -> idx <= i -> i < lenZ sn -> casecmp key (nm idx) < 0 -> casecmp key (nm i) <> 0.
  Proof.
    intros Hidx Hle Hi Hlt Heq. destruct (Z.eq_dec i idx) as [->|Hne]; [lia|].
    pose proof (sorted_pos idx i Hidx ltac:(lia) Hi) as Hs.
    rewrite casecmp_antisym in Hs. rewrite <- (casecmp_congr_r _ _ (nm idx) Heq) in Hs.
    rewrite casecmp_antisym in Hs. lia.
  Qed.

  Lemma search_loop_spec : forall fuel start end_,
    0 <= start -> start <= end_ -> end_ < lenZ sn -> end_ - start < Z.of_nat fuel ->
    (forall i, 0 <= i < lenZ sn -> casecmp key (nm i) = 0 -> start <= i <= end_) ->
    (search_loop fuel c sn key start end_ = Ok 0 /\ forall i, 0 <= i < lenZ sn -> casecmp key (nm i) <> 0)
    \/ (exists idx, start <= idx <= end_ /\ search_loop fuel c sn key start end_ = Ok (getn 0 sn idx + 1) /\ casecmp key (nm idx) = 0).
  Proof.
    induction fuel as [|f IH]; intros start end_ H0 Hse He Hf Hinv; [lia|].
    cbn [search_loop].
    assert (Hdiv : start <= (start + end_) / 2 <= end_) by (split; [apply Z.div_le_lower_bound|apply Z.div_le_upper_bound]; lia).
    assert (Hdiv2 : start < end_ -> (start + end_) / 2 < end_) by (intros; apply Z.div_lt_upper_bound; lia).
    set (idx := (start + end_) / 2) in *.
    fold (nm idx).
    destruct (casecmp key (nm idx) =? 0) eqn:Ej.
    { right. exists idx. split; [lia|]. split; [reflexivity|lia]. }
    destruct (end_ =? start) eqn:Ees.
    { left. split; [reflexivity|]. intros i Hi Heq. specialize (Hinv i Hi Heq). assert (i = idx) by lia. subst i. lia. }
    assert (Hlt : start < end_) by lia.
    destruct (idx =? start) eqn:Eis.
    { (* end = start + 1 *)
      assert (Hidx : idx = start) by lia.
      assert (Hend : end_ = start + 1).
      { subst idx. assert ((start + end_) / 2 * 2 <= start + end_ < (start + end_) / 2 * 2 + 2).
        { pose proof (Z.div_mod (start + end_) 2 ltac:(lia)). pose proof (Z.mod_pos_bound (start + end_) 2 ltac:(lia)). lia. }
        lia. }
      destruct (IH end_ end_ ltac:(lia) ltac:(lia) He ltac:(lia)) as [[Hr Hno]|(i & Hi & Hr & Hm)].
      - intros i Hi Heq. specialize (Hinv i Hi Heq). assert (i = start \/ i = end_) as [->| ->] by lia; [|lia].
        rewrite <- Hidx in Heq. lia.
      - left. split; assumption.
      - right. exists i. split; [lia|]. split; assumption. }
    destruct (0 <? casecmp key (nm idx)) eqn:Egt.
    - destruct (IH idx end_ ltac:(lia) ltac:(lia) He ltac:(lia)) as [[Hr Hno]|(i & Hi & Hr & Hm)].
      + intros i Hi Heq. specialize (Hinv i Hi Heq). split; [|lia].
        destruct (Z_lt_le_dec i idx) as [Hl|Hl]; [|lia].
        exfalso. apply (no_match_below idx i); try lia.
      + left. split; assumption.
      + right. exists i. split; [lia|]. split; assumption.
    - destruct (IH start idx ltac:(lia) ltac:(lia) ltac:(lia) ltac:(lia)) as [[Hr Hno]|(i & Hi & Hr & Hm)].
      + intros i Hi Heq. specialize (Hinv i Hi Heq). split; [lia|].
        destruct (Z_lt_le_dec idx i) as [Hl|Hl]; [|lia].
        exfalso. apply (no_match_above idx i); try lia.
      + left. split; assumption.
      + right. exists i. split; [lia|]. split; assumption.
  Qed.
End Search.
