(* C02 — the hand-ported tables of crypt/const.go derived from the FIPS 46-3 tables of Model/C02_DesSpec.v.
   Every statement is a sweep over all entries of the tables regenerated from the Go source (vm_compute).

   Conventions of Eric Young's fcrypt (found by search in DESIGN.md Appendix A, proved here):
   - a 6-bit S-box index x carries FIPS input bit b_(j+1) of the box in bit j of x (least significant first);
   - a 32-bit FIPS block (bits numbered 1..32) is kept in a word with FIPS bit j at word bit (j mod 32);
   - the 28-bit halves C and D of the key schedule are kept with FIPS bit j+1 at word bit j;
   - the 48 bits of a round key K (FIPS numbering 1..48, six per S-box) sit, for S-boxes 1..4, in word s and,
     for S-boxes 5..8, in word t, the six bits of box q (1-based) at bits o..o+5 with o = 0, 16, 8, 24 for
     q mod 4 = 1, 2, 3, 0 — which is how desSetKey then assembles k[2i] (boxes 1,3,5,7) and k[2i+1] rotated
     (boxes 2,4,6,8). *)
From Verif Require Import Base.Common Base.Sweep Gen.CryptTab Model.C02 Model.C02_DesSpec Proofs.C02_Core.

(* ---------------------------------------------------------------- SPtrans = P after S *)

(* the word holding FIPS bits j, j+1, ... of a 32-bit block *)
Fixpoint word_of (j : nat) (bits : list bool) : Z :=
  match bits with
  | [] => 0
  | b :: r => (if b then 2 ^ (Z.of_nat j mod 32) else 0) + word_of (S j) r
  end.

Definition sbox_input (x : Z) : list bool := map (Z.testbit x) [0; 1; 2; 3; 4; 5].

(* P applied to the 32-bit S-box layer output in which only box i+1 (0-based i) contributes *)
Definition sp_spec (i : nat) (x : Z) : Z :=
  let o := repeat false (4 * i) ++ sbox_layer [nth i SBOXES []] (sbox_input x) ++ repeat false (28 - 4 * i) in
  word_of 1 (perm P o).

Definition sp_ok (n : Z) : bool :=
  let i := Z.to_nat (n / 64) in let x := n mod 64 in tab SPtrans i x =? sp_spec i x.
Lemma sp_sweep : forallb sp_ok (zrange 512) = true.
Proof. vm_compute. reflexivity. Qed.

Lemma sptrans_is_P_after_S i x : (i < 8)%nat -> 0 <= x < 64 -> tab SPtrans i x = sp_spec i x.
Proof.
  intros Hi Hx. pose proof (sweep sp_ok 512 sp_sweep (64 * Z.of_nat i + x) ltac:(lia)) as H.
  unfold sp_ok in H. cbv zeta in H.
  replace ((64 * Z.of_nat i + x) / 64) with (Z.of_nat i) in H by (apply Z.div_unique with x; lia).
  replace ((64 * Z.of_nat i + x) mod 64) with x in H by (apply Z.mod_unique with (Z.of_nat i); lia).
  rewrite Nat2Z.id in H. apply Z.eqb_eq. exact H.
Qed.

(* ---------------------------------------------------------------- skb = PC2 on the pieces of C and D *)

(* which bits of the 56-bit block C ++ D (FIPS numbering 1..56, D bit n = 28 + n) index table k, low bit first:
   the comments of crypt/const.go — C bits 1-6 / 7 8 10-13 / 14-17 19 20 / 21 23 24 26-28, D likewise *)
Definition SKB_SRC : list (list nat) :=
  [[1; 2; 3; 4; 5; 6]; [7; 8; 10; 11; 12; 13]; [14; 15; 16; 17; 19; 20]; [21; 23; 24; 26; 27; 28];
   [29; 30; 31; 32; 33; 34]; [36; 37; 39; 40; 41; 42]; [44; 45; 46; 47; 48; 49]; [50; 51; 52; 53; 55; 56]]%nat.

Fixpoint pos_in (n : nat) (l : list nat) (j : nat) : option nat :=
  match l with [] => None | a :: r => if (a =? n)%nat then Some j else pos_in n r (S j) end.

(* the 56-bit block with the bits of x at the places table k covers and zero elsewhere *)
Definition cd_block (k : nat) (x : Z) : list bool :=
  map (fun n => match pos_in n (nth k SKB_SRC []) O with Some j => Z.testbit x (Z.of_nat j) | None => false end) (seq 1 56).

(* where bit p (0-based) of a 24-bit half of the round key sits in its word *)
Definition kpos (p : nat) : Z :=
  let q := (p / 6)%nat in Z.of_nat (p mod 6 + 8 * (q / 2) + 16 * (q mod 2)).
Fixpoint kword (p : nat) (bits : list bool) : Z :=
  match bits with [] => 0 | b :: r => (if b then 2 ^ kpos p else 0) + kword (S p) r end.

Definition skb_spec (k : nat) (x : Z) : Z * Z :=
  let K := perm PC2 (cd_block k x) in (kword 0 (firstn 24 K), kword 0 (skipn 24 K)).

Definition skb_ok (n : Z) : bool :=
  let k := Z.to_nat (n / 64) in let x := n mod 64 in
  let '(s, t) := skb_spec k x in
  if (k <? 4)%nat then (tab skb k x =? s) && (t =? 0) else (tab skb k x =? t) && (s =? 0).
Lemma skb_sweep : forallb skb_ok (zrange 512) = true.
Proof. vm_compute. reflexivity. Qed.

Lemma skb_is_PC2 k x : (k < 8)%nat -> 0 <= x < 64 ->
  skb_spec k x = if (k <? 4)%nat then (tab skb k x, 0) else (0, tab skb k x).
Proof.
  intros Hk Hx. pose proof (sweep skb_ok 512 skb_sweep (64 * Z.of_nat k + x) ltac:(lia)) as H.
  unfold skb_ok in H. cbv zeta in H.
  replace ((64 * Z.of_nat k + x) / 64) with (Z.of_nat k) in H by (apply Z.div_unique with x; lia).
  replace ((64 * Z.of_nat k + x) mod 64) with x in H by (apply Z.mod_unique with (Z.of_nat k); lia).
  rewrite Nat2Z.id in H. destruct (skb_spec k x) as [s t]. destruct (k <? 4)%nat.
  - apply andb_prop in H. destruct H as [H1 H2]. f_equal; lia.
  - apply andb_prop in H. destruct H as [H1 H2]. f_equal; lia.
Qed.

(* ---------------------------------------------------------------- rotation schedule, salt table *)

(* desSetKey rotates by 2 where shifts2[i] is true and by 1 otherwise: the FIPS schedule *)
Lemma shifts2_is_schedule : map (fun b => Z.to_nat (1 + b)) shifts2 = SHIFTS.
Proof. vm_compute. reflexivity. Qed.

(* con_salt inverts the alphabet: the character with index i maps to i (and is not 0, so norm_byte keeps it) *)
Definition salt_idx_ok (j : Z) : bool :=
  let ch := nth (Z.to_nat j) ALPHABET 0 in
  negb (ch =? 0) && match nthZ con_salt ch with Some v => v =? j | None => false end &&
  match index_of ch ALPHABET O with Some i => (i =? Z.to_nat j)%nat | None => false end.
Lemma salt_idx_sweep : forallb salt_idx_ok (zrange 64) = true.
Proof. vm_compute. reflexivity. Qed.

Lemma index_of_some c l : forall k i, index_of c l k = Some i -> exists j, i = (k + j)%nat /\ nth_error l j = Some c.
Proof.
  induction l as [|a l IH]; intros k i H; [discriminate|]. cbn [index_of] in H.
  destruct (Z.eqb_spec a c) as [->|Hne].
  - injection H as <-. exists O. split; [lia|reflexivity].
  - destruct (IH _ _ H) as (j & -> & Hj). exists (S j). split; [lia|exact Hj].
Qed.

Lemma con_salt_inverts_alphabet c i : index_of c ALPHABET O = Some i ->
  (i < 64)%nat /\ norm_byte c = c /\ nthZ con_salt c = Some (Z.of_nat i).
Proof.
  intros H. destruct (index_of_some _ _ _ _ H) as (j & -> & Hj). cbn [Nat.add] in *.
  assert (Hlt : (j < length ALPHABET)%nat) by (apply nth_error_Some; rewrite Hj; discriminate).
  change (length ALPHABET) with 64%nat in Hlt.
  pose proof (sweep salt_idx_ok 64 salt_idx_sweep (Z.of_nat j) ltac:(lia)) as S. unfold salt_idx_ok in S. cbv zeta in S.
  rewrite Nat2Z.id in S. rewrite (nth_error_nth _ _ 0 Hj) in S.
  apply andb_prop in S. destruct S as [S S3]. apply andb_prop in S. destruct S as [S1 S2].
  destruct (nthZ con_salt c) as [v|]; [|discriminate].
  split; [exact Hlt|]. split.
  - unfold norm_byte. destruct (Z.eqb_spec c 0); [discriminate|reflexivity].
  - f_equal. lia.
Qed.

Lemma alphabet_tables :
  cov_2char = ALPHABET /\
  (forall c i, index_of c ALPHABET O = Some i -> (i < 64)%nat /\ norm_byte c = c /\ nthZ con_salt c = Some (Z.of_nat i)) /\
  (forall v, 0 <= v < 64 -> exists ch, nthZ cov_2char v = Some ch /\ crypt_char ch = true /\ nthZ con_salt ch = Some v) /\
  (forall x, 0 <= x < 128 -> exists e, nthZ con_salt x = Some e /\ 0 <= e < 64) /\
  (forall x, 128 <= x -> nthZ con_salt x = None).
Proof. exact (conj cov_2char_is_alphabet (conj con_salt_inverts_alphabet (conj cov_char (conj con_salt_total con_salt_crash)))). Qed.

Example index_ex : index_of 65 ALPHABET O = Some 12%nat /\ index_of 64 ALPHABET O = None.
Proof. split; reflexivity. Qed.
Example sp_ex : tab SPtrans 0 0 = 8520192 /\ sp_spec 0 0 = 8520192 /\ fst (skb_spec 1 63) = tab skb 1 63.
Proof. repeat split; vm_compute; reflexivity. Qed.
