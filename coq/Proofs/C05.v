(* C05 — record files: frame conditions of the operations of Model/C05.v, torn tails, histories. *)
From Coq Require Import String.
From Verif Require Import Base.Common Base.ListX Base.RecFile Model.C05.
From Verif Require Export Proofs.C05_sparse.
From Verif Require Model.C01.
From Coq Require Import ZifyBool.
Ltac Zify.zify_post_hook ::= Z.div_mod_to_equations.
Local Open Scope Z_scope.

(* ---------------------------------------------------------------- counting *)
Lemma count_spec sz f : (0 < sz)%nat -> (count sz f * sz <= length f < (count sz f + 1) * sz)%nat.
Proof.
  intros Hsz. unfold count. pose proof (Nat.div_mod (length f) sz ltac:(lia)) as Hdm.
  pose proof (Nat.mod_upper_bound (length f) sz ltac:(lia)) as Hm. nia.
Qed.

Lemma count_unique sz c l : (0 < sz)%nat -> (c * sz <= l < (c + 1) * sz)%nat -> (l / sz = c)%nat.
Proof.
  intros Hsz H. symmetry. apply (Nat.div_unique l sz c (l - c * sz)); lia.
Qed.

Lemma count_mono sz f g : (0 < sz)%nat -> (length f <= length g)%nat -> (count sz f <= count sz g)%nat.
Proof. intros Hsz H. unfold count. apply Nat.div_le_mono; lia. Qed.

Lemma record_in_range sz j f : (0 < sz)%nat -> (j < count sz f)%nat -> ((j + 1) * sz <= length f)%nat.
Proof. intros Hsz Hj. pose proof (count_spec sz f Hsz). nia. Qed.

(* ---------------------------------------------------------------- the one frame lemma everything rests on *)
Lemma rec_frame sz a bs f j : (length bs <= sz)%nat -> j <> a -> (j < a -> (j + 1) * sz <= length f)%nat ->
  record sz j (write_at (a * sz) bs f) = record sz j f.
Proof.
  intros Hb Hne Hlen. unfold record. destruct (Nat.lt_ge_cases j a) as [Hlt|Hge].
  - apply read_at_write_at_before; [nia|specialize (Hlen Hlt); nia].
  - apply read_at_write_at_after. nia.
Qed.

Lemma record_written sz a bs f : length bs = sz -> record sz a (write_at (a * sz) bs f) = bs.
Proof. intros H. unfold record. rewrite <- H at 2. apply read_at_write_at. Qed.

(* ---------------------------------------------------------------- append *)
Lemma append_spec sz rec f : (0 < sz)%nat -> length rec = sz ->
  let c := count sz f in
  let r := append_record sz rec f in
  fst r = num_records sz f + 1 /\
  length (snd r) = ((c + 1) * sz)%nat /\
  firstn (c * sz) (snd r) = firstn (c * sz) f /\
  record sz c (snd r) = rec /\
  count sz (snd r) = (c + 1)%nat /\
  (forall j, (j < c)%nat -> record sz j (snd r) = record sz j f).
Proof.
  intros Hsz Hrec. cbv zeta. unfold append_record, num_records. cbn [fst snd].
  pose proof (count_spec sz f Hsz) as Hc. set (c := count sz f) in *.
  assert (Hlen : length (write_at (c * sz) rec f) = ((c + 1) * sz)%nat) by (rewrite write_at_length; lia).
  repeat split.
  - exact Hlen.
  - apply firstn_write_at; lia.
  - apply record_written. exact Hrec.
  - unfold count at 1. rewrite Hlen. apply Nat.div_mul. lia.
  - intros j Hj. apply rec_frame; [lia|lia|]. intros _. nia.
Qed.

(* the defect class of .post before the repair: a record image shorter than the stride is overwritten by the next append *)
Lemma append_short_record_refuted :
  exists sz rec rec' f, (length rec < sz)%nat /\
    fst (append_record sz rec' (snd (append_record sz rec f))) = fst (append_record sz rec f) /\
    count sz (snd (append_record sz rec' (snd (append_record sz rec f)))) = 0%nat.
Proof. exists 100%nat, (repeat 1 99), (repeat 2 99), []. vm_compute. repeat split; lia. Qed.

(* ---------------------------------------------------------------- torn tail *)
Lemma torn_tail sz rec rec' k f : (0 < sz)%nat -> (k < sz)%nat -> length rec' = sz ->
  let c := count sz f in
  let t := crash_append sz rec k f in
  let r := append_record sz rec' t in
  count sz t = c /\
  (forall j, (j < c)%nat -> record sz j t = record sz j f) /\
  fst r = Z.of_nat c + 1 /\
  record sz c (snd r) = rec' /\
  length (snd r) = ((c + 1) * sz)%nat /\
  (forall j, (j < c)%nat -> record sz j (snd r) = record sz j f).
Proof.
  intros Hsz Hk Hrec. cbv zeta. unfold crash_append.
  pose proof (count_spec sz f Hsz) as Hc. set (c := count sz f) in *.
  set (t := write_at (c * sz) (firstn k rec) f).
  assert (Hfl : (length (firstn k rec) <= k)%nat) by (rewrite firstn_length; lia).
  assert (Hct : count sz t = c).
  { unfold count, t. rewrite write_at_length. apply count_unique; lia. }
  assert (Ht : forall j, (j < c)%nat -> record sz j t = record sz j f).
  { intros j Hj. unfold t. apply rec_frame; [lia|lia|]. intros _. nia. }
  destruct (append_spec sz rec' t Hsz Hrec) as (H1 & H2 & _ & H4 & _ & H6). rewrite Hct in *.
  repeat split; try assumption.
  - unfold num_records in H1. rewrite Hct in H1. exact H1.
  - intros j Hj. rewrite H6 by exact Hj. apply Ht. exact Hj.
Qed.

(* ---------------------------------------------------------------- substitute / delete *)
Lemma write_in_range_frame sz idx bs f : (0 < sz)%nat -> (length bs <= sz)%nat -> 0 <= idx < Z.of_nat (count sz f) ->
  let a := Z.to_nat idx in
  let f' := write_at (a * sz) bs f in
  length f' = length f /\
  firstn (a * sz) f' = firstn (a * sz) f /\
  skipn (a * sz + length bs) f' = skipn (a * sz + length bs) f /\
  read_at (a * sz) (length bs) f' = bs /\
  (forall j, j <> a -> record sz j f' = record sz j f).
Proof.
  intros Hsz Hb Hidx. cbv zeta. set (a := Z.to_nat idx).
  assert (Ha : (a < count sz f)%nat) by lia. pose proof (record_in_range sz a f Hsz Ha) as Hr.
  repeat split.
  - apply write_at_length_inside. nia.
  - apply firstn_write_at; nia.
  - apply skipn_write_at. lia.
  - apply read_at_write_at.
  - intros j Hj. apply rec_frame; [exact Hb|exact Hj|]. intros Hlt.
    apply record_in_range; [exact Hsz|lia].
Qed.

Lemma substitute_frame sz idx rec f : (0 < sz)%nat -> length rec = sz -> 0 <= idx < num_records sz f ->
  exists f', substitute_record sz idx rec f = ROk f' /\
    length f' = length f /\
    firstn (Z.to_nat idx * sz) f' = firstn (Z.to_nat idx * sz) f /\
    skipn (Z.to_nat idx * sz + sz) f' = skipn (Z.to_nat idx * sz + sz) f /\
    record sz (Z.to_nat idx) f' = rec /\
    (forall j, j <> Z.to_nat idx -> record sz j f' = record sz j f).
Proof.
  intros Hsz Hrec Hidx. unfold substitute_record, num_records in *.
  destruct (Z.ltb_spec idx 0) as [Hneg|_]; [lia|]. eexists. split; [reflexivity|].
  destruct (write_in_range_frame sz idx rec f Hsz ltac:(lia) Hidx) as (H1 & H2 & H3 & H4 & H5).
  rewrite Hrec in *. repeat split; try assumption; try (apply record_written; exact Hrec).
Qed.

Lemma delete_frame sz idx tag f : (0 < sz)%nat -> (length tag <= sz)%nat -> 0 <= idx < num_records sz f ->
  exists f', delete_record sz idx tag f = ROk f' /\
    length f' = length f /\
    firstn (Z.to_nat idx * sz) f' = firstn (Z.to_nat idx * sz) f /\
    skipn (Z.to_nat idx * sz + length tag) f' = skipn (Z.to_nat idx * sz + length tag) f /\
    read_at (Z.to_nat idx * sz) (length tag) f' = tag /\
    (forall j, j <> Z.to_nat idx -> record sz j f' = record sz j f).
Proof.
  intros Hsz Htag Hidx. unfold delete_record, num_records in *.
  destruct (Z.ltb_spec idx 0) as [Hneg|_]; [lia|]. eexists. split; [reflexivity|].
  exact (write_in_range_frame sz idx tag f Hsz Htag Hidx).
Qed.

(* beyond the last complete record the unchecked operations extend the file; what was there stays *)
Lemma out_of_range_behaviour sz idx bs f : (0 < sz)%nat -> length bs = sz -> num_records sz f <= idx ->
  exists f', substitute_record sz idx bs f = ROk f' /\
    length f' = ((Z.to_nat idx + 1) * sz)%nat /\
    count sz f' = (Z.to_nat idx + 1)%nat /\
    firstn (Nat.min (length f) (Z.to_nat idx * sz)) f' = firstn (Nat.min (length f) (Z.to_nat idx * sz)) f /\
    record sz (Z.to_nat idx) f' = bs /\
    (forall j, (j < count sz f)%nat -> record sz j f' = record sz j f).
Proof.
  intros Hsz Hb Hidx. unfold substitute_record, num_records in *.
  destruct (Z.ltb_spec idx 0) as [Hneg|_]; [lia|]. eexists. split; [reflexivity|].
  pose proof (count_spec sz f Hsz) as Hc. set (a := Z.to_nat idx). assert (Ha : (count sz f <= a)%nat) by lia.
  assert (Hlen : length (write_at (a * sz) bs f) = ((a + 1) * sz)%nat) by (rewrite write_at_length; nia).
  repeat split.
  - exact Hlen.
  - unfold count at 1. rewrite Hlen. apply Nat.div_mul. lia.
  - apply firstn_write_at; lia.
  - apply record_written. exact Hb.
  - intros j Hj. apply rec_frame; [lia|lia|]. intros _. apply record_in_range; assumption.
Qed.

Lemma negative_index_refused sz idx bs f : idx < 0 ->
  substitute_record sz idx bs f = RErr ERR_SEEK /\ delete_record sz idx bs f = RErr ERR_SEEK.
Proof. intros H. unfold substitute_record, delete_record. destruct (Z.ltb_spec idx 0); [split; reflexivity|lia]. Qed.

(* ---------------------------------------------------------------- ModifyDirLite *)
Lemma fixlen_len n l : length (fixlen n l) = n.
Proof. apply fixlen_length. Qed.

Lemma set_if_props o off len r : (off + len <= length r)%nat -> (LEN_FILENAME <= off)%nat ->
  length (set_if o off len r) = length r /\ read_at 0 LEN_FILENAME (set_if o off len r) = read_at 0 LEN_FILENAME r.
Proof.
  intros H1 H2. unfold set_if. destruct o as [[|c rest]|]; try (split; reflexivity).
  destruct (c =? 0); [split; reflexivity|]. split.
  - apply write_at_length_inside. rewrite fixlen_len. exact H1.
  - apply read_at_write_at_before; unfold LEN_FILENAME in *; lia.
Qed.

Lemma apply_modify_props a r : length r = FH_SZ ->
  length (apply_modify a r) = FH_SZ /\
  read_at 0 LEN_FILENAME (apply_modify a r) = read_at 0 LEN_FILENAME r.
Proof.
  intros Hr. unfold apply_modify, FH_SZ in *.
  set (r1 := if 0 <? m_mtime a then _ else r).
  assert (H1 : length r1 = 128%nat /\ read_at 0 LEN_FILENAME r1 = read_at 0 LEN_FILENAME r).
  { unfold r1. destruct (0 <? m_mtime a); [|split; [exact Hr|reflexivity]]. split.
    - rewrite write_at_length_inside; [exact Hr|]. cbn [le_bytes length]. unfold OFF_MODIFIED. lia.
    - apply read_at_write_at_before; unfold OFF_MODIFIED, LEN_FILENAME; lia. }
  destruct H1 as [L1 N1].
  set (mode := if m_disable a =? 0 then _ else _).
  set (r2 := write_at OFF_FILEMODE [mode] r1).
  assert (H2 : length r2 = 128%nat /\ read_at 0 LEN_FILENAME r2 = read_at 0 LEN_FILENAME r).
  { unfold r2. split.
    - rewrite write_at_length_inside; [exact L1|]. cbn [length]. unfold OFF_FILEMODE. lia.
    - rewrite <- N1. apply read_at_write_at_before; unfold OFF_FILEMODE, LEN_FILENAME; lia. }
  destruct H2 as [L2 N2].
  set (r3 := set_if (m_title a) OFF_TITLE LEN_TITLE r2).
  destruct (set_if_props (m_title a) OFF_TITLE LEN_TITLE r2 ltac:(unfold OFF_TITLE, LEN_TITLE; lia) ltac:(unfold OFF_TITLE, LEN_FILENAME; lia)) as [L3 N3].
  fold r3 in L3, N3. rewrite L2 in L3. rewrite N2 in N3.
  set (r4 := set_if (m_owner a) OFF_OWNER LEN_OWNER r3).
  destruct (set_if_props (m_owner a) OFF_OWNER LEN_OWNER r3 ltac:(unfold OFF_OWNER, LEN_OWNER; lia) ltac:(unfold OFF_OWNER, LEN_FILENAME; lia)) as [L4 N4].
  fold r4 in L4, N4. rewrite L3 in L4. rewrite N3 in N4.
  set (r5 := set_if (m_date a) OFF_DATE LEN_DATE r4).
  destruct (set_if_props (m_date a) OFF_DATE LEN_DATE r4 ltac:(unfold OFF_DATE, LEN_DATE; lia) ltac:(unfold OFF_DATE, LEN_FILENAME; lia)) as [L5 N5].
  fold r5 in L5, N5. rewrite L4 in L5. rewrite N4 in N5.
  set (r6 := match m_multi a with Some m => write_at OFF_MULTI (firstn LEN_MULTI m) r5 | None => r5 end).
  assert (H6 : length r6 = 128%nat /\ read_at 0 LEN_FILENAME r6 = read_at 0 LEN_FILENAME r).
  { unfold r6. destruct (m_multi a) as [m|]; [|split; assumption].
    assert (Hm : (length (firstn LEN_MULTI m) <= 4)%nat) by (rewrite firstn_length; unfold LEN_MULTI; lia). split.
    - rewrite write_at_length_inside; [exact L5|]. unfold OFF_MULTI. lia.
    - rewrite <- N5. apply read_at_write_at_before; unfold OFF_MULTI, LEN_FILENAME; lia. }
  destruct H6 as [L6 N6].
  destruct (m_recommend a =? 0); [split; assumption|]. split.
  - rewrite write_at_length_inside; [exact L6|]. cbn [length]. unfold OFF_RECOMMEND. lia.
  - rewrite <- N6. apply read_at_write_at_before; unfold OFF_RECOMMEND, LEN_FILENAME; lia.
Qed.

Lemma modify_frame idx name a f f' : modify_dir_lite idx name a f = ROk f' ->
  1 <= idx <= num_records FH_SZ f /\
  cstrcmp (read_at 0 LEN_FILENAME (record FH_SZ (Z.to_nat (idx - 1)) f)) name = 0 /\
  length f' = length f /\
  read_at 0 LEN_FILENAME (record FH_SZ (Z.to_nat (idx - 1)) f') = read_at 0 LEN_FILENAME (record FH_SZ (Z.to_nat (idx - 1)) f) /\
  (forall j, j <> Z.to_nat (idx - 1) -> record FH_SZ j f' = record FH_SZ j f).
Proof.
  unfold modify_dir_lite, num_records. intros H.
  destruct (Z.ltb_spec (lenZ f) (Z.of_nat FH_SZ * idx)) as [|Hlen]; [discriminate|].
  destruct (Z.ltb_spec (idx - 1) 0) as [|Hidx]; [discriminate|].
  set (k := Z.to_nat (idx - 1)) in *. set (r := record FH_SZ k f) in *.
  unfold OFF_FILENAME in H.
  destruct (cstrcmp (read_at 0 LEN_FILENAME r) name =? 0) eqn:Hcmp; [|discriminate]. cbn [negb] in H.
  inversion H as [Hf]. clear H.
  assert (Hsz : (0 < FH_SZ)%nat) by (unfold FH_SZ; lia).
  pose proof (count_spec FH_SZ f Hsz) as Hc. unfold lenZ in Hlen.
  assert (Hk : ((k + 1) * FH_SZ <= length f)%nat) by (unfold k; nia).
  assert (Hkc : (k < count FH_SZ f)%nat) by nia.
  assert (Hrl : length r = FH_SZ) by (unfold r, record; apply read_at_length; lia).
  destruct (apply_modify_props a r Hrl) as [Lm Nm].
  split; [unfold k in Hkc; lia|]. split; [lia|]. split; [apply write_at_length_inside; rewrite Lm; lia|].
  split; [rewrite record_written by exact Lm; exact Nm|].
  intros j Hj. apply rec_frame; [rewrite Lm; lia|exact Hj|]. intros Hlt. nia.
Qed.

Lemma modify_refuses idx name a f :
  (num_records FH_SZ f < idx \/ idx < 1 \/
   cstrcmp (read_at 0 LEN_FILENAME (record FH_SZ (Z.to_nat (idx - 1)) f)) name <> 0) ->
  exists e, modify_dir_lite idx name a f = RErr e.
Proof.
  intros H. destruct (modify_dir_lite idx name a f) as [f'|e|] eqn:E; [|eexists; reflexivity|].
  - exfalso. destruct (modify_frame _ _ _ _ _ E) as (H1 & H2 & _). lia.
  - unfold modify_dir_lite in E. repeat match type of E with (if ?b then _ else _) = _ => destruct b end; discriminate.
Qed.

(* the offsets used by apply_modify are those of the regenerated FileHeaderRaw layout, in both configurations *)
Lemma modify_offsets_match_layout : forall c,
  C01.go_layout_of c "FileHeaderRaw"%string =
  Some (Z.of_nat FH_SZ,
        [("Filename"%string, Z.of_nat OFF_FILENAME, Z.of_nat LEN_FILENAME); ("Modified"%string, Z.of_nat OFF_MODIFIED, 4);
         ("Pad"%string, 32, 1); ("Recommend"%string, Z.of_nat OFF_RECOMMEND, 1); ("Owner"%string, Z.of_nat OFF_OWNER, Z.of_nat LEN_OWNER);
         ("Date"%string, Z.of_nat OFF_DATE, Z.of_nat LEN_DATE); ("Title"%string, Z.of_nat OFF_TITLE, Z.of_nat LEN_TITLE);
         ("Pad2"%string, 119, 1); ("Multi"%string, Z.of_nat OFF_MULTI, Z.of_nat LEN_MULTI); ("Filemode"%string, Z.of_nat OFF_FILEMODE, 1);
         ("Pad3"%string, 125, 3)]).
Proof. intros []; vm_compute; reflexivity. Qed.

(* ---------------------------------------------------------------- GetRecords *)
Definition window (start n : Z) (desc : bool) (cnt : Z) : list Z :=
  if cnt <? start then []
  else if desc then map (fun i => start - Z.of_nat i) (seq 0 (Z.to_nat (Z.min n start)))
  else map (fun i => start + Z.of_nat i) (seq 0 (Z.to_nat (Z.min n (cnt - start + 1)))).

Lemma loop_asc sz f mx : forall fuel idx, 1 <= idx ->
  get_records_loop sz f fuel idx mx false =
  map (fun i => (i, record sz (Z.to_nat (i - 1)) f))
      (map (fun i => idx + Z.of_nat i) (seq 0 (Z.to_nat (Z.min (Z.of_nat fuel) (Z.max 0 (mx - idx + 1)))))).
Proof.
  induction fuel as [|fuel IH]; intros idx Hidx.
  - cbn [get_records_loop]. replace (Z.to_nat _) with 0%nat by lia. reflexivity.
  - cbn [get_records_loop]. destruct (Z.eqb_spec idx 0) as [|_]; [lia|]. cbn [orb].
    destruct (Z.ltb_spec mx idx) as [Hgt|Hle].
    + replace (Z.to_nat _) with 0%nat by lia. reflexivity.
    + replace (Z.to_nat (Z.min (Z.of_nat (S fuel)) (Z.max 0 (mx - idx + 1))))
        with (S (Z.to_nat (Z.min (Z.of_nat fuel) (Z.max 0 (mx - (idx + 1) + 1))))) by lia.
      cbn [seq map]. rewrite Z.add_0_r. f_equal. rewrite IH by lia.
      f_equal. rewrite <- seq_shift, map_map. apply map_ext. intros i. lia.
Qed.

Lemma loop_desc sz f mx : forall fuel idx, 0 <= idx <= mx ->
  get_records_loop sz f fuel idx mx true =
  map (fun i => (i, record sz (Z.to_nat (i - 1)) f))
      (map (fun i => idx - Z.of_nat i) (seq 0 (Z.to_nat (Z.min (Z.of_nat fuel) idx)))).
Proof.
  induction fuel as [|fuel IH]; intros idx Hidx.
  - cbn [get_records_loop]. replace (Z.to_nat _) with 0%nat by lia. reflexivity.
  - cbn [get_records_loop]. destruct (Z.eqb_spec idx 0) as [->|Hnz].
    + cbn [orb]. replace (Z.to_nat _) with 0%nat by lia. reflexivity.
    + cbn [orb]. destruct (Z.ltb_spec mx idx) as [Hgt|Hle]; [lia|].
      replace (Z.to_nat (Z.min (Z.of_nat (S fuel)) idx)) with (S (Z.to_nat (Z.min (Z.of_nat fuel) (idx - 1)))) by lia.
      cbn [seq map]. rewrite Z.sub_0_r. f_equal. rewrite IH by lia.
      f_equal. rewrite <- seq_shift, map_map. apply map_ext. intros i. lia.
Qed.

Lemma get_records_spec sz start n desc f : 1 <= start -> 0 <= n ->
  get_records sz start n desc f =
  ROk (map (fun i => (i, record sz (Z.to_nat (i - 1)) f)) (window start n desc (num_records sz f))).
Proof.
  intros Hs Hn. unfold get_records, window.
  destruct (Z.ltb_spec start 1); [lia|]. destruct (Z.ltb_spec n 0); [lia|]. f_equal.
  set (mx := num_records sz f). destruct (Z.ltb_spec mx start) as [Hgt|Hle].
  - destruct (Z.to_nat n) as [|fuel]; [reflexivity|]. cbn [get_records_loop].
    destruct (Z.eqb_spec start 0); [lia|]. destruct (Z.ltb_spec mx start); [reflexivity|lia].
  - destruct desc.
    + rewrite loop_desc by lia. rewrite Z2Nat.id by lia. reflexivity.
    + rewrite loop_asc by lia. rewrite Z2Nat.id by lia. do 3 f_equal. lia.
Qed.

Lemma get_records_invalid sz start n desc f : start < 1 -> get_records sz start n desc f = RErr ERR_INVALID_IDX.
Proof. intros H. unfold get_records. destruct (Z.ltb_spec start 1); [reflexivity|lia]. Qed.

(* ---------------------------------------------------------------- histories *)
Definition op_wf (sz : nat) (o : op) : Prop :=
  match o with
  | OAppend rec => (length rec <= sz)%nat
  | OSubst _ rec => (length rec <= sz)%nat
  | ODelete _ tag => (length tag <= sz)%nat
  | OModify _ _ _ => sz = FH_SZ
  | ORead _ _ _ => True
  end.

Fixpoint untouched (sz : nat) (j : nat) (ops : list op) (f : list Z) : Prop :=
  match ops with
  | [] => True
  | o :: r => addressed sz o f <> Some j /\ untouched sz j r (step sz o f)
  end.

Lemma step_frame sz o f j : (0 < sz)%nat -> op_wf sz o -> (j < count sz f)%nat -> addressed sz o f <> Some j ->
  record sz j (step sz o f) = record sz j f /\ (j < count sz (step sz o f))%nat.
Proof.
  intros Hsz Hwf Hj Haddr.
  assert (Hw : forall a bs, (length bs <= sz)%nat -> a <> j ->
               record sz j (write_at (a * sz) bs f) = record sz j f /\ (j < count sz (write_at (a * sz) bs f))%nat).
  { intros a bs Hb Ha. split.
    - apply rec_frame; [exact Hb|lia|]. intros _. apply record_in_range; assumption.
    - apply Nat.lt_le_trans with (count sz f); [exact Hj|]. apply count_mono; [exact Hsz|]. rewrite write_at_length. lia. }
  destruct o as [rec|idx rec|idx tag|idx name a|s n d]; cbn [step addressed op_wf] in *.
  - unfold append_record. cbn [snd]. apply Hw; [exact Hwf|congruence].
  - unfold substitute_record. destruct (idx <? 0); [split; [reflexivity|exact Hj]|]. apply Hw; [exact Hwf|congruence].
  - unfold delete_record. destruct (idx <? 0); [split; [reflexivity|exact Hj]|]. apply Hw; [exact Hwf|congruence].
  - subst sz. destruct (modify_dir_lite idx name a f) as [f'|e|] eqn:E; try (split; [reflexivity|exact Hj]).
    destruct (modify_frame _ _ _ _ _ E) as (Hr & _ & Hl & _ & Hfr).
    destruct (Z.ltb_spec (idx - 1) 0); [lia|].
    split; [apply Hfr; congruence|]. unfold count in *. rewrite Hl. exact Hj.
  - split; [reflexivity|exact Hj].
Qed.

Lemma history sz : (0 < sz)%nat -> forall ops f j, Forall (op_wf sz) ops -> (j < count sz f)%nat ->
  untouched sz j ops f -> record sz j (run sz ops f) = record sz j f /\ (j < count sz (run sz ops f))%nat.
Proof.
  intros Hsz. induction ops as [|o r IH]; intros f j Hwf Hj Hun; [split; [reflexivity|exact Hj]|].
  inversion Hwf as [|? ? Ho Hr]; subst. cbn [untouched] in Hun. destruct Hun as [Ha Hrest]. cbn [run].
  destruct (step_frame sz o f j Hsz Ho Hj Ha) as [Hs Hc].
  destruct (IH (step sz o f) j Hr Hc Hrest) as [H1 H2]. split; [rewrite H1; exact Hs|exact H2].
Qed.

(* non-vacuity: a history that appends, substitutes, marks and reads around record 1 *)
Example history_nonvacuous :
  let f := repeat 1 4 ++ repeat 2 4 ++ repeat 3 4 in
  let ops := [OAppend [9; 9; 9; 9]; OSubst 0 [8; 8; 8; 8]; ODelete 2 [46; 100]; ORead 1 5 false; OSubst 7 [5; 5; 5; 5]] in
  untouched 4 1 ops f /\ Forall (op_wf 4) ops /\ record 4 1 (run 4 ops f) = [2; 2; 2; 2] /\ count 4 (run 4 ops f) = 8%nat.
Proof. cbv zeta. split; [cbn; repeat split; discriminate|]. split; [repeat constructor; cbn; lia|]. vm_compute. split; reflexivity. Qed.

Example torn_tail_nonvacuous :
  crash_append 4 [7; 7; 7; 7] 3 (repeat 1 8) = repeat 1 8 ++ [7; 7; 7] /\
  append_record 4 [6; 6; 6; 6] (repeat 1 8 ++ [7; 7; 7]) = (3, repeat 1 8 ++ [6; 6; 6; 6]).
Proof. vm_compute. split; reflexivity. Qed.

(* ---------------------------------------------------------------- windows of any length (files of any size) *)
(* the index-level loop the harness runs on large files is the byte-level loop with the records dropped *)
Lemma loop_by_index sz f mx desc : forall fuel idx,
  get_records_loop sz f fuel idx mx desc =
  map (fun i => (i, record sz (Z.to_nat (i - 1)) f)) (get_records_idx_loop fuel idx mx desc).
Proof.
  induction fuel as [|fuel IH]; intros idx; [reflexivity|].
  cbn [get_records_loop get_records_idx_loop].
  destruct ((idx =? 0) || (mx <? idx)); [reflexivity|]. cbn [map]. f_equal. apply IH.
Qed.

Definition rmap {A B} (g : A -> B) (r : rres A) : rres B :=
  match r with ROk a => ROk (g a) | RErr e => RErr e | RCrash => RCrash end.

Lemma get_records_by_index sz start n desc f :
  get_records sz start n desc f =
  rmap (map (fun i => (i, record sz (Z.to_nat (i - 1)) f))) (get_records_idx start n desc (num_records sz f)).
Proof.
  unfold get_records, get_records_idx. destruct (start <? 1); [reflexivity|]. destruct (n <? 0); [reflexivity|].
  cbn [rmap]. f_equal. apply loop_by_index.
Qed.

Lemma window_length start n desc cnt : 1 <= start -> 0 <= n ->
  lenZ (window start n desc cnt) =
  if cnt <? start then 0 else if desc then Z.min n start else Z.min n (cnt - start + 1).
Proof.
  intros Hs Hn. unfold window, lenZ. destruct (Z.ltb_spec cnt start); [reflexivity|].
  destruct desc; rewrite map_length, seq_length; lia.
Qed.

(* the index-level model in closed form, and the number of records a window returns: never capped by anything
   but n and the end of the run *)
Lemma get_records_idx_spec start n desc cnt : 1 <= start -> 0 <= n -> 0 <= cnt ->
  get_records_idx start n desc cnt = ROk (window start n desc cnt) /\
  lenZ (window start n desc cnt) = if cnt <? start then 0 else if desc then Z.min n start else Z.min n (cnt - start + 1).
Proof.
  intros Hs Hn Hc. split; [|apply window_length; assumption].
  (* instantiate the byte-level specification with a file of cnt one-byte records and project the indices *)
  pose (f := repeat 0 (Z.to_nat cnt)).
  assert (Hnum : num_records 1 f = cnt).
  { unfold num_records, count, f. rewrite repeat_length, Nat.div_1_r. lia. }
  pose proof (get_records_spec 1 start n desc f Hs Hn) as Hspec.
  rewrite get_records_by_index, Hnum in Hspec.
  destruct (get_records_idx start n desc cnt) as [l| |]; cbn [rmap] in Hspec; try discriminate.
  injection Hspec as Hspec. f_equal.
  apply (f_equal (map fst)) in Hspec. rewrite !map_map in Hspec. cbn [fst] in Hspec.
  rewrite !map_id in Hspec. exact Hspec.
Qed.

Lemma get_records_any_length sz start n desc f : 1 <= start -> 0 <= n ->
  exists l, get_records sz start n desc f = ROk l /\
    get_records_idx start n desc (num_records sz f) = ROk (map fst l) /\
    lenZ l = (let cnt := num_records sz f in
              if cnt <? start then 0 else if desc then Z.min n start else Z.min n (cnt - start + 1)) /\
    (forall i r, In (i, r) l -> r = record sz (Z.to_nat (i - 1)) f).
Proof.
  intros Hs Hn. eexists. split; [apply get_records_spec; assumption|]. split; [|split].
  - rewrite map_map. cbn [fst]. rewrite map_id. apply get_records_idx_spec; [assumption|assumption|unfold num_records; lia].
  - unfold lenZ. rewrite map_length. apply (window_length start n desc (num_records sz f) Hs Hn).
  - intros i r Hin. apply in_map_iff in Hin. destruct Hin as (i' & Heq & _). injection Heq as <- <-. reflexivity.
Qed.

(* non-vacuity, beyond any small enumeration: 70 000 records, a window of 70 001 from either end is the whole file *)
Example window_large :
  lenZ (window 1 70001 false 70000) = 70000 /\ lenZ (window 70000 70001 true 70000) = 70000 /\
  lenZ (window 905 4097 false 5000) = 4096 /\ lenZ (window 904 4097 false 5000) = 4097.
Proof. rewrite !window_length by lia. vm_compute. repeat split; reflexivity. Qed.

(* ---------------------------------------------------------------- histories with refused writes *)
Lemma hfinal_completed sz : forall hs f, hfinal sz hs f = run sz (completed hs) f.
Proof.
  induction hs as [|h r IH]; intros f; [reflexivity|]. destruct h as [o|o]; cbn [hfinal completed run hstep snd]; apply IH.
Qed.

Lemma htrace_completed sz : forall hs f, do_entries hs (htrace sz hs f) = trace sz (completed hs) f.
Proof.
  induction hs as [|h r IH]; intros f; [reflexivity|].
  destruct h as [o|o]; cbn [htrace do_entries completed trace hstep snd]; [f_equal|]; apply IH.
Qed.

Lemma htrace_length sz : forall hs f, length (htrace sz hs f) = length hs.
Proof. induction hs as [|h r IH]; intros f; [reflexivity|]. cbn [htrace length]. f_equal. apply IH. Qed.

(* a refused operation leaves the file it found and never reports success for something it had to write *)
Lemma refused_step sz o f :
  snd (hstep sz (HRefused o) f) = f /\
  (match o with ORead _ _ _ => True | _ => fst (fst (hstep sz (HRefused o) f)) <> ST_OK end).
Proof.
  split; [reflexivity|]. destruct o; cbn [hstep fst refused_result]; try exact I;
    match goal with |- context [fst ?r =? ST_OK] => destruct (Z.eqb_spec (fst r) ST_OK) as [E|E]; [cbn; discriminate|exact E] end.
Qed.

Lemma refused_no_trace sz hs f :
  hfinal sz hs f = run sz (completed hs) f /\
  do_entries hs (htrace sz hs f) = trace sz (completed hs) f /\
  (forall o g, snd (hstep sz (HRefused o) g) = g /\
     (match o with ORead _ _ _ => True | _ => fst (fst (hstep sz (HRefused o) g)) <> ST_OK end)).
Proof. split; [apply hfinal_completed|]. split; [apply htrace_completed|]. intros o g. apply refused_step. Qed.

Lemma history_with_refused sz : (0 < sz)%nat -> forall hs f j, Forall (op_wf sz) (completed hs) -> (j < count sz f)%nat ->
  untouched sz j (completed hs) f ->
  record sz j (hfinal sz hs f) = record sz j f /\ (j < count sz (hfinal sz hs f))%nat.
Proof. intros Hsz hs f j Hwf Hj Hun. rewrite hfinal_completed. apply history; assumption. Qed.

(* non-vacuity: append, a refused append (another record), append, a refused substitute, substitute *)
Example refused_nonvacuous :
  let f := repeat 1 4 in
  let hs := [HDo (OAppend [2; 2; 2; 2]); HRefused (OAppend [9; 9; 9; 9]); HDo (OAppend [3; 3; 3; 3]);
             HRefused (OSubst 0 [8; 8; 8; 8]); HDo (OSubst 1 [5; 5; 5; 5])] in
  htrace 4 hs f =
    [((0, 2), repeat 1 4 ++ repeat 2 4); ((3, 4), repeat 1 4 ++ repeat 2 4);
     ((0, 3), repeat 1 4 ++ repeat 2 4 ++ repeat 3 4); ((3, 4), repeat 1 4 ++ repeat 2 4 ++ repeat 3 4);
     ((0, 0), repeat 1 4 ++ repeat 5 4 ++ repeat 3 4)] /\
  hfinal 4 hs f = repeat 1 4 ++ repeat 5 4 ++ repeat 3 4.
Proof. vm_compute. split; reflexivity. Qed.

(* ------------------------------------------------------------------ sparse files: the read side *)
Lemma idx_loop_range mx desc i : forall fuel idx, 0 <= idx ->
  In i (get_records_idx_loop fuel idx mx desc) -> 1 <= i <= mx.
Proof.
  induction fuel as [|fuel IH]; intros idx Hidx Hin; [destruct Hin|].
  cbn [get_records_idx_loop] in Hin.
  destruct ((idx =? 0) || (mx <? idx)) eqn:Hc; [destruct Hin|].
  apply orb_false_iff in Hc. destruct Hc as [H0 Hm]. apply Z.eqb_neq in H0. apply Z.ltb_ge in Hm.
  destruct Hin as [He|Hin]; [lia|].
  apply IH in Hin; [exact Hin|]. destruct desc; lia.
Qed.

Lemma sp_get_records_represents f s start n desc : represents FH_SZ f s ->
  sp_get_records start n desc s = get_records FH_SZ start n desc f.
Proof.
  intros HR. rewrite get_records_by_index. unfold sp_get_records.
  rewrite (sp_count_represents _ _ _ HR).
  destruct (get_records_idx start n desc (num_records FH_SZ f)) as [l|e|] eqn:E; cbn [rmap]; try reflexivity.
  f_equal. apply map_ext_in. intros i Hi. f_equal.
  unfold get_records_idx in E. destruct (start <? 1) eqn:Hs; [discriminate|]. destruct (n <? 0); [discriminate|].
  injection E as E. subst l. apply idx_loop_range in Hi; [|lia].
  replace (i - 1) with (Z.of_nat (Z.to_nat (i - 1))) at 1 by lia.
  apply sp_record_represents; [unfold FH_SZ; lia|exact HR|].
  apply record_in_range; [unfold FH_SZ; lia|]. unfold num_records in Hi. lia.
Qed.

Lemma sp_modify_represents f s idx name a : represents FH_SZ f s ->
  match modify_dir_lite idx name a f, sp_modify idx name a s with
  | ROk f', ROk s' => represents FH_SZ f' s'
  | RErr e, RErr e' => e = e'
  | _, _ => False
  end.
Proof.
  intros HR. pose proof HR as [HL _]. unfold modify_dir_lite, sp_modify. rewrite <- HL.
  destruct (lenZ f <? Z.of_nat FH_SZ * idx) eqn:H1; [reflexivity|].
  destruct (idx - 1 <? 0) eqn:H2; [reflexivity|].
  apply Z.ltb_ge in H1. apply Z.ltb_ge in H2.
  assert (Hin : ((Z.to_nat (idx - 1) + 1) * FH_SZ <= length f)%nat) by (unfold lenZ in H1; nia).
  replace (sp_record FH_SZ (idx - 1) s) with (record FH_SZ (Z.to_nat (idx - 1)) f).
  2:{ symmetry. replace (idx - 1) with (Z.of_nat (Z.to_nat (idx - 1))) at 1 by lia.
      apply sp_record_represents; [unfold FH_SZ; lia|exact HR|exact Hin]. }
  set (r := record FH_SZ (Z.to_nat (idx - 1)) f).
  destruct (negb (cstrcmp (read_at OFF_FILENAME LEN_FILENAME r) name =? 0)); [reflexivity|].
  assert (Hr : length r = FH_SZ) by (unfold r, record; apply read_at_length; lia).
  destruct (apply_modify_props a r Hr) as [Hlen _].
  apply write_represents; [unfold FH_SZ; lia|lia|lia|exact HR].
Qed.
