(* C17 — sweep over all 65 536 UCS-2 values: the hand-written encoder of initToUtf8 agrees with the
   standard bit layout above ASCII, its lead byte selects the arm of Utf8ToBig5 that consumes the whole
   sequence, it is well-formed UTF-8 on scalar values, and it is injective (decoder). *)
From Verif Require Import Base.Common Model.C17 Proofs.C17_spec.

(* which arm of Utf8ToBig5 a sequence takes, as the code tests it *)
Definition lead_shape (c : list Z) : bool :=
  match c with
  | [b0; b1] => negb (b0 <? 128) && (Z.land b0 224 =? 192)
  | [b0; b1; b2] => negb (b0 <? 128) && negb (Z.land b0 224 =? 192) && (Z.land b0 240 =? 224)
  | _ => false
  end.

Definition utf8_dec (c : list Z) : Z :=
  match c with
  | [b0; b1] => (b0 - 192) * 64 + (b1 - 128)
  | [b0; b1; b2] => (b0 - 224) * 4096 + (b1 - 128) * 64 + (b2 - 128)
  | _ => -1
  end.

Definition enc_ok1 (u : Z) : bool :=
  if u <? 128 then zlist_eqb (utf8_enc u) [0]
  else let s := utf8_std u in
       zlist_eqb (utf8_enc u) s && lead_shape s && bytes_ok s && (utf8_dec s =? u) && (if scalar u then wf1 s else true).

Lemma enc_sweep : forallb enc_ok1 (zseq 0 (Z.to_nat 65536)) = true.
Proof. vm_compute. reflexivity. Qed.

Lemma enc_ok u : 128 <= u < 65536 ->
  utf8_enc u = utf8_std u /\ lead_shape (utf8_std u) = true /\ bytes_ok (utf8_std u) = true /\
  utf8_dec (utf8_std u) = u /\ (scalar u = true -> wf1 (utf8_std u) = true).
Proof.
  intros Hu. assert (H : enc_ok1 u = true).
  { apply (zsweep enc_ok1 0 (Z.to_nat 65536) enc_sweep). rewrite Z2Nat.id by lia. lia. }
  unfold enc_ok1 in H. destruct (u <? 128) eqn:E; [apply Z.ltb_lt in E; lia|]. cbv zeta in H.
  repeat (apply andb_true_iff in H; destruct H as [H ?]).
  split; [apply zlist_eqb_eq; exact H|]. split; [assumption|]. split; [assumption|].
  split; [apply Z.eqb_eq; assumption|]. intros Hs. rewrite Hs in *. assumption.
Qed.

Lemma scalar_range u : scalar u = true -> 128 <= u < 65536.
Proof.
  unfold scalar. intros H. apply orb_true_iff in H. destruct H as [H|H]; apply andb_true_iff in H; destruct H as [H1 H2];
  apply Z.leb_le in H1; apply Z.ltb_lt in H2; lia.
Qed.

Lemma utf8_std_inj u u' : 128 <= u < 65536 -> 128 <= u' < 65536 -> utf8_std u = utf8_std u' -> u = u'.
Proof.
  intros Hu Hu' E. destruct (enc_ok u Hu) as [_ [_ [_ [D _]]]]. destruct (enc_ok u' Hu') as [_ [_ [_ [D' _]]]].
  rewrite <- D, <- D', E. reflexivity.
Qed.
