(* C11 — what the linear scan returns, and the functional half of FindBoardAutoCompleteStartIdx: on a sorted table
   whose boards have names distinct up to case the start index is the first (ascending) / last (descending) board
   carrying the prefix, -1 iff there is none. Descending the code searches for the prefix with its last byte
   incremented; that is the successor of the prefix in the (case-folded) order only when the increment commutes
   with tolower and does not wrap: last byte not '@' (64: '@'+1 = 'A' folds to 'a', skipping '[' .. '`'),
   not 'Z' (90: 'Z'+1 = '[' sorts below 'z'), not 0xFF (wraps to NUL, which ends the string). *)
From Verif Require Import Base.Common Base.Cstr Base.ListX Base.OddSearch Model.C11 Proofs.C11_order.

(* ---------------------------------------------------------------- the scan, declaratively *)
Section Scan.
  Variable c : Z -> Z.
  Variable n : Z.
  Hypothesis Hn : 0 <= n.

  (* ascending: the first entry not below the key; descending: the last entry not above it; 1-based, -1 = none *)
  Definition first_not_below (r : Z) : Prop :=
    (r = -1 /\ forall i, 0 <= i < n -> 0 < c i) \/ (1 <= r <= n /\ c (r - 1) <= 0 /\ forall i, 0 <= i < r - 1 -> 0 < c i).
  Definition last_not_above (r : Z) : Prop :=
    (r = -1 /\ forall i, 0 <= i < n -> c i < 0) \/ (1 <= r <= n /\ 0 <= c (r - 1) /\ forall i, r - 1 < i < n -> c i < 0).

  Lemma scan_asc_spec : exists r, scan c n true = Ok r /\ first_not_below r.
  Proof.
    unfold scan.
    destruct (up_spec c n (sfuel n) 0 ltac:(lia) ltac:(rewrite (sfuel_val c); lia)) as (r & E & Hr & Hall & Hstop).
    rewrite E. eexists. split; [reflexivity|]. unfold first_not_below.
    destruct (Z.eqb_spec r n) as [->|Hne].
    - left. split; [reflexivity|]. intros i Hi. apply Hall. lia.
    - right. replace (r + 1 - 1) with r by lia. split; [lia|]. split; [destruct Hstop; [lia|assumption]|].
      intros i Hi. apply Hall. lia.
  Qed.

  Lemma scan_desc_spec : exists r, scan c n false = Ok r /\ last_not_above r.
  Proof.
    unfold scan.
    destruct (down_spec c (sfuel n) (n - 1) ltac:(lia) ltac:(rewrite (sfuel_val c); lia)) as (r & E & Hr & Hall & Hstop).
    rewrite E. eexists. split; [reflexivity|]. unfold last_not_above.
    destruct (Z.eqb_spec r (-1)) as [->|Hne].
    - left. split; [reflexivity|]. intros i Hi. apply Hall. lia.
    - right. replace (r + 1 - 1) with r by lia. split; [lia|]. split; [destruct Hstop; [lia|assumption]|].
      intros i Hi. apply Hall. lia.
  Qed.

  Definition scan_result (asc : bool) (r : Z) : Prop := if asc then first_not_below r else last_not_above r.

  Lemma scan_spec asc : exists r, scan c n asc = Ok r /\ scan_result asc r.
  Proof. destruct asc; [apply scan_asc_spec|apply scan_desc_spec]. Qed.

  Lemma find_decl asc : mono c n ->
    exists r, find c n asc = Ok r /\ ((1 <= r <= n /\ c (r - 1) = 0) \/ scan_result asc r).
  Proof.
    intros Hm. destruct (find_eq_scan c n asc Hm Hn) as (r & E & [Hex|Hs]).
    - exists r. split; [exact E|]. left. exact Hex.
    - exists r. split; [exact E|]. right. destruct (scan_spec asc) as (r' & E' & Hr'). rewrite E' in Hs.
      injection Hs as <-. exact Hr'.
  Qed.
End Scan.

(* ---------------------------------------------------------------- the three probes, over abstract comparisons *)
Section Probe.
  Variables (c d : Z -> Z) (n : Z).
  Hypothesis Hn : 0 <= n.
  Hypothesis Hm : mono c n.

  Fixpoint up_g (k : nat) (idx : Z) : Z :=
    match k with
    | O => -1
    | S k' => if idx <? n then
                let j := d idx in if j =? 0 then idx + 1 else if j <? 0 then -1 else up_g k' (idx + 1)
              else -1
    end.
  Fixpoint down_g (k : nat) (idx : Z) : Z :=
    match k with
    | O => -1
    | S k' => if 0 <=? idx then
                let j := d idx in if j =? 0 then idx + 1 else if 0 <? j then -1 else down_g k' (idx - 1)
              else -1
    end.

  Definition first_zero (r : Z) : Prop :=
    (r = -1 /\ forall i, 0 <= i < n -> d i <> 0) \/ (1 <= r <= n /\ d (r - 1) = 0 /\ forall i, 0 <= i < r - 1 -> d i <> 0).
  Definition last_zero (r : Z) : Prop :=
    (r = -1 /\ forall i, 0 <= i < n -> d i <> 0) \/ (1 <= r <= n /\ d (r - 1) = 0 /\ forall i, r - 1 < i < n -> d i <> 0).

  (* uniqueness of an entry equal to the key *)
  Hypothesis Huniq : forall i, 0 <= i < n -> c i = 0 -> forall j, 0 <= j < i -> 0 < c j.

  Section Asc.
    Hypothesis A1p : forall i, 0 <= i < n -> 0 < c i -> 0 < d i.
    Hypothesis A1n : forall i, 0 <= i < n -> c i <= 0 -> d i <= 0.
    Hypothesis A2 : forall i j, 0 <= i -> i <= j -> j < n -> d i < 0 -> d j < 0.
    Hypothesis A3 : forall i, 0 <= i < n -> c i = 0 -> d i = 0.

    Lemma probe_asc : exists r0, find c n false = Ok r0 /\ first_zero (up_g 3 ((if r0 =? -1 then 1 else r0) - 1)).
    Proof.
      destruct (find_decl c n Hn false Hm) as (r & E & H). exists r. split; [exact E|].
      assert (Hexact : 1 <= r <= n -> c (r - 1) = 0 -> first_zero (up_g 3 ((if r =? -1 then 1 else r) - 1))).
      { intros Hr Hc. destruct (Z.eqb_spec r (-1)); [lia|]. cbn [up_g].
        destruct (Z.ltb_spec (r - 1) n); [|lia]. rewrite (A3 (r - 1) ltac:(lia) Hc). cbn.
        right. replace (r - 1 + 1) with r by lia. split; [lia|]. split; [apply A3; [lia|exact Hc]|].
        intros i Hi. pose proof (A1p i ltac:(lia) (Huniq (r - 1) ltac:(lia) Hc i ltac:(lia))). lia. }
      destruct H as [[Hr Hc]|[[-> Hall]|(Hr & Hc & Hall)]].
      - apply Hexact; assumption.
      - rewrite Z.eqb_refl. change (1 - 1) with 0. cbn [up_g]. destruct (Z.ltb_spec 0 n) as [Hlt|Hge].
        + pose proof (A1n 0 ltac:(lia) ltac:(specialize (Hall 0 ltac:(lia)); lia)) as Hd0.
          destruct (Z.eqb_spec (d 0) 0) as [Hz|Hz].
          * right. cbn. split; [lia|]. split; [exact Hz|]. intros; lia.
          * destruct (Z.ltb_spec (d 0) 0); [|lia]. left. split; [reflexivity|].
            intros i Hi. pose proof (A2 0 i ltac:(lia) ltac:(lia) ltac:(lia) ltac:(lia)). lia.
        + left. split; [reflexivity|]. intros; lia.
      - destruct (Z.eq_dec (c (r - 1)) 0) as [Hz|Hz]; [apply Hexact; assumption|].
        destruct (Z.eqb_spec r (-1)); [lia|]. cbn [up_g].
        destruct (Z.ltb_spec (r - 1) n); [|lia].
        assert (Hlow : forall i, 0 <= i <= r - 1 -> 0 < d i).
        { intros i Hi. apply A1p; [lia|]. destruct (Hm i (r - 1) ltac:(lia) ltac:(lia) ltac:(lia)) as [M _]. apply M. lia. }
        pose proof (Hlow (r - 1) ltac:(lia)) as Hd1.
        destruct (Z.eqb_spec (d (r - 1)) 0); [lia|]. destruct (Z.ltb_spec (d (r - 1)) 0); [lia|].
        replace (r - 1 + 1) with r by lia.
        destruct (Z.ltb_spec r n) as [Hlt|Hge].
        + pose proof (A1n r ltac:(lia) ltac:(specialize (Hall r ltac:(lia)); lia)) as Hdr.
          destruct (Z.eqb_spec (d r) 0) as [Hz'|Hz'].
          * right. replace (r + 1 - 1) with r by lia. split; [lia|]. split; [exact Hz'|].
            intros i Hi. specialize (Hlow i ltac:(lia)). lia.
          * destruct (Z.ltb_spec (d r) 0); [|lia]. left. split; [reflexivity|]. intros i Hi.
            destruct (Z_lt_le_dec i r); [specialize (Hlow i ltac:(lia)); lia|].
            pose proof (A2 r i ltac:(lia) ltac:(lia) ltac:(lia) ltac:(lia)). lia.
        + left. split; [reflexivity|]. intros i Hi. specialize (Hlow i ltac:(lia)). lia.
    Qed.
  End Asc.

  Section Desc.
    Hypothesis B1 : forall i, 0 <= i < n -> c i <= 0 -> d i < 0.
    Hypothesis B2 : forall i, 0 <= i < n -> 0 < c i -> 0 <= d i.
    Hypothesis B3 : forall i j, 0 <= i -> i <= j -> j < n -> 0 < d j -> 0 < d i.

    Lemma probe_desc : exists r0, find c n true = Ok r0 /\ last_zero (down_g 3 ((if r0 =? -1 then n else r0) - 1)).
    Proof.
      destruct (find_decl c n Hn true Hm) as (r & E & H). exists r. split; [exact E|].
      assert (Hfound : 1 <= r <= n -> c (r - 1) <= 0 -> (forall i, 0 <= i < r - 1 -> 0 < c i) ->
                       last_zero (down_g 3 ((if r =? -1 then n else r) - 1))).
      { intros Hr Hc Hall. destruct (Z.eqb_spec r (-1)); [lia|].
        assert (Hhigh : forall i, r - 1 <= i < n -> d i < 0).
        { intros i Hi. apply B1; [lia|]. destruct (Hm (r - 1) i ltac:(lia) ltac:(lia) ltac:(lia)) as [M _].
          destruct (Z_lt_le_dec 0 (c i)) as [Hp|]; [specialize (M Hp); lia|assumption]. }
        cbn [down_g]. destruct (Z.leb_spec 0 (r - 1)); [|lia].
        pose proof (Hhigh (r - 1) ltac:(lia)) as Hd1.
        destruct (Z.eqb_spec (d (r - 1)) 0); [lia|]. destruct (Z.ltb_spec 0 (d (r - 1))); [lia|].
        destruct (Z.leb_spec 0 (r - 1 - 1)) as [Hge|Hlt].
        - pose proof (B2 (r - 1 - 1) ltac:(lia) (Hall (r - 1 - 1) ltac:(lia))) as Hd2.
          destruct (Z.eqb_spec (d (r - 1 - 1)) 0) as [Hz|Hz].
          + right. replace (r - 1 - 1 + 1 - 1) with (r - 1 - 1) by lia. split; [lia|]. split; [exact Hz|].
            intros i Hi. specialize (Hhigh i ltac:(lia)). lia.
          + destruct (Z.ltb_spec 0 (d (r - 1 - 1))); [|lia]. left. split; [reflexivity|]. intros i Hi.
            destruct (Z_lt_le_dec i (r - 1)); [|specialize (Hhigh i ltac:(lia)); lia].
            pose proof (B3 i (r - 1 - 1) ltac:(lia) ltac:(lia) ltac:(lia) ltac:(lia)). lia.
        - left. split; [reflexivity|]. intros i Hi. specialize (Hhigh i ltac:(lia)). lia. }
      destruct H as [[Hr Hc]|[[-> Hall]|(Hr & Hc & Hall)]].
      - apply Hfound; [assumption|lia|]. intros i Hi. apply (Huniq (r - 1) ltac:(lia) Hc). lia.
      - rewrite Z.eqb_refl. cbn [down_g]. destruct (Z.leb_spec 0 (n - 1)) as [Hge|Hlt].
        + pose proof (B2 (n - 1) ltac:(lia) (Hall (n - 1) ltac:(lia))) as Hd.
          destruct (Z.eqb_spec (d (n - 1)) 0) as [Hz|Hz].
          * right. replace (n - 1 + 1) with n by lia. split; [lia|]. split; [exact Hz|]. intros; lia.
          * destruct (Z.ltb_spec 0 (d (n - 1))); [|lia]. left. split; [reflexivity|]. intros i Hi.
            pose proof (B3 i (n - 1) ltac:(lia) ltac:(lia) ltac:(lia) ltac:(lia)). lia.
        + left. split; [reflexivity|]. intros; lia.
      - apply Hfound; assumption.
    Qed.
  End Desc.
End Probe.

(* ---------------------------------------------------------------- lexicographic facts about truncation and the bumped key *)
Lemma pos_firstn k l : pos l -> pos (firstn k l).
Proof. unfold pos. rewrite !Forall_forall. intros H x Hx. apply H. apply In_firstn in Hx. exact Hx. Qed.

(* an entry below the prefix has its truncation below the prefix; an entry not below it has its truncation not below it *)
Lemma trunc_below : forall p x, pos x -> 0 < strcmp_spec p x -> 0 < strcmp_spec p (firstn (length p) x).
Proof.
  induction p as [|a p IH]; intros x Hx H.
  - destruct x as [|y x]; cbn in H; [lia|]. inversion Hx; subst. lia.
  - destruct x as [|y x]; [exact H|]. inversion Hx; subst. cbn [length firstn strcmp_spec] in *.
    destruct (a =? y); [apply IH; assumption|exact H].
Qed.

Lemma trunc_not_below : forall p x, strcmp_spec p x <= 0 -> strcmp_spec p (firstn (length p) x) <= 0.
Proof.
  induction p as [|a p IH]; intros x H; [cbn; lia|].
  destruct x as [|y x]; [exact H|]. cbn [length firstn strcmp_spec] in *.
  destruct (a =? y); [apply IH; assumption|exact H].
Qed.

Lemma trunc_mono : forall k x y, pos x -> pos y -> strcmp_spec x y <= 0 -> strcmp_spec (firstn k x) (firstn k y) <= 0.
Proof.
  induction k as [|k IH]; intros x y Hx Hy H; [cbn; lia|].
  destruct x as [|a x], y as [|b y]; cbn [firstn strcmp_spec] in *; try (inversion Hx; subst); try (inversion Hy; subst); try lia.
  destruct (a =? b); [apply IH; assumption|exact H].
Qed.

(* p0 ++ [b + 1] is the successor of "carries the prefix p0 ++ [b]" *)
Lemma bump_not_below : forall p0 b x, pos p0 -> 0 < b -> pos x ->
  strcmp_spec (p0 ++ [b + 1]) x <= 0 -> strcmp_spec (p0 ++ [b]) (firstn (S (length p0)) x) < 0.
Proof.
  induction p0 as [|a p0 IH]; intros b x Hp Hb Hx H.
  - destruct x as [|y x]; cbn [app length firstn strcmp_spec] in *; [lia|].
    destruct (Z.eqb_spec (b + 1) y), (Z.eqb_spec b y); cbn; lia.
  - inversion Hp; subst. destruct x as [|y x]; cbn [app length firstn strcmp_spec] in *; [lia|].
    inversion Hx; subst. destruct (Z.eqb_spec a y); [apply IH; assumption|lia].
Qed.

Lemma bump_below : forall p0 b x, pos p0 -> 0 < b -> pos x ->
  0 < strcmp_spec (p0 ++ [b + 1]) x -> 0 <= strcmp_spec (p0 ++ [b]) (firstn (S (length p0)) x).
Proof.
  induction p0 as [|a p0 IH]; intros b x Hp Hb Hx H.
  - destruct x as [|y x]; cbn [app length firstn strcmp_spec] in *; [lia|]. inversion Hx; subst.
    revert H. destruct (Z.eqb_spec (b + 1) y), (Z.eqb_spec b y); cbn; intros H; try lia.
    destruct x as [|z x]; [lia|]. match goal with HF : Forall _ (z :: x) |- _ => inversion HF; subst end. lia.
  - inversion Hp; subst. destruct x as [|y x]; cbn [app length firstn strcmp_spec] in *; [lia|].
    inversion Hx; subst. destruct (Z.eqb_spec a y); [apply IH; assumption|lia].
Qed.

(* ---------------------------------------------------------------- the model's comparisons in key form *)
Definition kbyte (b : Z) : Prop := 0 < b < 256.

Lemma kbytes_nonul kw : Forall kbyte kw -> ~ In 0 kw.
Proof. intros H Hin. rewrite Forall_forall in H. specialize (H 0 Hin). unfold kbyte in H. lia. Qed.

Lemma kbytes_pos kw : Forall kbyte kw -> pos kw.
Proof. unfold pos. apply Forall_impl. unfold kbyte. intros; lia. Qed.

Lemma key_name_kw kw : ~ In 0 kw -> (length kw <= 12)%nat -> key_name kw = map tolower kw.
Proof.
  intros Hnz Hlen. unfold key_name, boardid, fixlen. rewrite firstn_all2 by lia.
  destruct (13 - length kw)%nat as [|m] eqn:E; [lia|]. cbn [repeat]. rewrite cprefix_app_nul by exact Hnz. reflexivity.
Qed.

Lemma cmp_prefix_key names kw i : ~ In 0 kw ->
  cmp_prefix names kw i = strcmp_spec (map tolower kw) (firstn (length kw) (nth (Z.to_nat i) (map key_name names) [])).
Proof.
  intros Hnz. unfold cmp_prefix, name_at. rewrite cstrcasecmp_spec, cprefix_firstn, <- firstn_map, (cprefix_nonul kw Hnz).
  f_equal. f_equal. rewrite <- key_name_nil at 2. rewrite map_nth. reflexivity.
Qed.

Lemma ac_up_g names kw (n : Z) : forall k idx, ac_up k names kw idx n = up_g (cmp_prefix names kw) n k idx.
Proof. induction k as [|k IH]; intros idx; [reflexivity|]. cbn [ac_up up_g]. rewrite IH. reflexivity. Qed.
Lemma ac_down_g names kw : forall k idx, ac_down k names kw idx = down_g (cmp_prefix names kw) k idx.
Proof. induction k as [|k IH]; intros idx; [reflexivity|]. cbn [ac_down down_g]. rewrite IH. reflexivity. Qed.

(* ---------------------------------------------------------------- names distinct up to case (vacated slots excepted) *)
Definition is_nil (s : list Z) : bool := match s with [] => true | _ => false end.
(* two different slots compare equal only when both are vacated (empty name) *)
Fixpoint distinct_names (l : list (list Z)) : bool :=
  match l with
  | [] => true
  | a :: r => forallb (fun b => negb (cstrcasecmp (boardid a) (boardid b) =? 0) || (is_nil a && is_nil b)) r && distinct_names r
  end.

Lemma distinct_names_spec : forall l, distinct_names l = true -> forall i j, (i < j < length l)%nat ->
  cstrcasecmp (boardid (nth i l [])) (boardid (nth j l [])) = 0 -> nth i l [] = [] /\ nth j l [] = [].
Proof.
  induction l as [|a l IH]; intros H i j Hij Hc; [cbn in Hij; lia|].
  cbn [distinct_names] in H. apply andb_prop in H. destruct H as [H1 H2].
  destruct j as [|j]; [lia|]. destruct i as [|i].
  - cbn [nth] in *. rewrite forallb_forall in H1. specialize (H1 (nth j l []) ltac:(apply nth_In; cbn in Hij; lia)).
    rewrite Hc in H1. cbn in H1. apply andb_prop in H1. destruct H1 as [Ha Hb].
    destruct a; [|discriminate]. destruct (nth j l []); [|discriminate]. split; reflexivity.
  - cbn [nth] in *. apply IH; [exact H2|cbn in Hij; lia|exact Hc].
Qed.

Lemma key_name_nonnil_raw s : key_name s <> [] -> s <> [].
Proof. intros H ->. apply H. reflexivity. Qed.

(* on a sorted table with distinct names an entry equal to a non-empty key is preceded by strictly smaller ones *)
Lemma unique_below names k : forallb bytes_ok names = true -> sorted_by less_name names = true -> distinct_names names = true ->
  pos k -> k <> [] ->
  forall i, 0 <= i < lenZ names -> strcmp_spec k (nth (Z.to_nat i) (map key_name names) []) = 0 ->
  forall j, 0 <= j < i -> 0 < strcmp_spec k (nth (Z.to_nat j) (map key_name names) []).
Proof.
  intros Hb Hs Hd Hk Hne i Hi Hc j Hj. unfold lenZ in Hi.
  rewrite <- key_name_nil in Hc |- *. rewrite map_nth in Hc |- *.
  assert (Pi : pos (key_name (nth (Z.to_nat i) names []))) by (apply key_name_pos, bytes_ok_nonneg, all_bytes_ok_nth, Hb).
  assert (Pj : pos (key_name (nth (Z.to_nat j) names []))) by (apply key_name_pos, bytes_ok_nonneg, all_bytes_ok_nth, Hb).
  apply ss_eq in Hc; [|assumption|assumption].
  pose proof (sorted_name_all names Hb Hs (Z.to_nat j) (Z.to_nat i) ltac:(lia)) as Hle.
  rewrite (ss_antisym (key_name (nth (Z.to_nat j) names [])) k). rewrite <- Hc in Hle.
  destruct (Z.eq_dec (strcmp_spec (key_name (nth (Z.to_nat j) names [])) k) 0) as [Hz|Hz]; [exfalso|lia].
  rewrite Hc in Hz. rewrite <- casecmp_key in Hz.
  destruct (distinct_names_spec names Hd (Z.to_nat j) (Z.to_nat i) ltac:(lia) Hz) as [_ Hnil].
  apply Hne. rewrite Hc, Hnil. reflexivity.
Qed.

(* ---------------------------------------------------------------- the theorem *)
Definition carries (names : list (list Z)) (kw : list Z) (i : Z) : Prop := cmp_prefix names kw i = 0.
Definition first_carrier (names : list (list Z)) (kw : list Z) (r : Z) : Prop :=
  (r = -1 /\ forall i, 0 <= i < lenZ names -> ~ carries names kw i) \/
  (1 <= r <= lenZ names /\ carries names kw (r - 1) /\ forall i, 0 <= i < r - 1 -> ~ carries names kw i).
Definition last_carrier (names : list (list Z)) (kw : list Z) (r : Z) : Prop :=
  (r = -1 /\ forall i, 0 <= i < lenZ names -> ~ carries names kw i) \/
  (1 <= r <= lenZ names /\ carries names kw (r - 1) /\ forall i, r - 1 < i < lenZ names -> ~ carries names kw i).

(* the last byte of a descending prefix must have tolower (b + 1) = tolower b + 1 without wrapping *)
Definition bumpable (b : Z) : Prop := b <> 64 /\ b <> 90 /\ b <> 255.
Definition prefix_ok (kw : list Z) (asc : bool) : Prop :=
  (1 <= length kw <= 12)%nat /\ Forall kbyte kw /\ (asc = false -> bumpable (last kw 0)).

(* "carries the prefix": the first len(kw) bytes of the name (as a C string) equal the prefix up to case *)
Lemma carries_meaning names kw i : forallb bytes_ok names = true -> Forall kbyte kw ->
  carries names kw i <->
  map tolower (firstn (length kw) (cprefix (boardid (nth (Z.to_nat i) names [])))) = map tolower kw.
Proof.
  intros Hb Hk. unfold carries. rewrite (cmp_prefix_key names kw i (kbytes_nonul kw Hk)).
  rewrite nth_keys. unfold key_name. rewrite firstn_map.
  assert (P1 : pos (map tolower kw)) by (apply map_tolower_pos, kbytes_pos, Hk).
  assert (P2 : pos (map tolower (firstn (length kw) (cprefix (boardid (nth (Z.to_nat i) names [])))))).
  { apply map_tolower_pos, pos_firstn, cprefix_pos, boardid_nonneg, bytes_ok_nonneg, all_bytes_ok_nth, Hb. }
  split.
  - intros H. symmetry. apply ss_eq; assumption.
  - intros ->. apply ss_refl.
Qed.

Lemma tolower_bump b : b <> 64 -> b <> 90 -> tolower (b + 1) = tolower b + 1.
Proof.
  intros H1 H2. unfold tolower.
  destruct (Z.leb_spec 65 (b + 1)), (Z.leb_spec (b + 1) 90), (Z.leb_spec 65 b), (Z.leb_spec b 90); cbn; lia.
Qed.

Lemma bump_last_snoc k0 b : 0 < b < 255 -> bump_last (k0 ++ [b]) = k0 ++ [b + 1].
Proof.
  intros Hb. unfold bump_last. rewrite app_length. cbn [length]. replace (length k0 + 1 - 1)%nat with (length k0) by lia.
  rewrite firstn_app, firstn_all, Nat.sub_diag. cbn [firstn]. rewrite app_nil_r, nth_middle.
  unfold wrapu8. rewrite Z.mod_small by lia. reflexivity.
Qed.

Theorem autocomplete_spec names kw asc :
  forallb bytes_ok names = true -> sorted_by less_name names = true -> distinct_names names = true ->
  prefix_ok kw asc ->
  exists r, autocomplete names kw asc = Ok r /\ (if asc then first_carrier names kw r else last_carrier names kw r).
Proof.
  intros Hb Hs Hd (Hlen & Hk & Hbump).
  pose proof (kbytes_nonul kw Hk) as Hnz.
  set (n := lenZ names). set (L := length kw).
  set (K := fun i : Z => nth (Z.to_nat i) (map key_name names) []).
  assert (PK : forall i, pos (K i)).
  { intros i. unfold K. rewrite <- key_name_nil, map_nth. apply key_name_pos, bytes_ok_nonneg, all_bytes_ok_nth, Hb. }
  assert (HK : forall i j, 0 <= i -> i <= j -> j < n -> strcmp_spec (K i) (K j) <= 0).
  { intros i j Hi Hij Hj. unfold K. rewrite <- key_name_nil, !map_nth. unfold n, lenZ in Hj.
    apply (sorted_name_all names Hb Hs). lia. }
  set (p := map tolower kw).
  assert (Pp : pos p) by (apply map_tolower_pos, kbytes_pos, Hk).
  assert (Lp : length p = L) by (unfold p; apply map_length).
  assert (Hd_eq : forall i, cmp_prefix names kw i = strcmp_spec p (firstn L (K i))).
  { intros i. apply cmp_prefix_key. exact Hnz. }
  assert (Hn : 0 <= n) by (unfold n, lenZ; lia).
  assert (PF : forall i, pos (firstn L (K i))) by (intros i; apply pos_firstn, PK).
  unfold autocomplete. fold n.
  assert (HL : ((lenZ kw =? 0) || (12 <? lenZ kw)) = false).
  { unfold lenZ. fold L. destruct (Z.eqb_spec (Z.of_nat L) 0), (Z.ltb_spec 12 (Z.of_nat L)); cbn; try reflexivity; lia. }
  rewrite HL. destruct asc.
  - (* ascending: key = the prefix, searched descending *)
    cbn [negb].
    assert (Hc_eq : forall i, cmp_name names kw i = strcmp_spec p (K i)).
    { intros i. rewrite cmp_name_key, key_name_kw by (try exact Hnz; lia). reflexivity. }
    assert (Hm : mono (cmp_name names kw) n).
    { apply sorted_implies_monotone_name; [exact Hb| |exact Hs].
      unfold bytes_ok. apply forallb_forall. intros x Hx. rewrite Forall_forall in Hk. specialize (Hk x Hx).
      unfold kbyte in Hk. unfold is_byte. destruct (Z.leb_spec 0 x), (Z.ltb_spec x 256); cbn; try reflexivity; lia. }
    assert (Pne : p <> []). { intros E. apply (f_equal (@length Z)) in E. rewrite Lp in E. cbn in E. lia. }
    destruct (probe_asc (cmp_name names kw) (cmp_prefix names kw) n Hn Hm) as (r0 & E & Hfz).
    + intros i Hi Hc j Hj. rewrite Hc_eq in *. exact (unique_below names p Hb Hs Hd Pp Pne i Hi Hc j Hj).
    + intros i Hi Hc. rewrite Hc_eq in Hc. rewrite Hd_eq, <- Lp. apply trunc_below; [apply PK|exact Hc].
    + intros i Hi Hc. rewrite Hc_eq in Hc. rewrite Hd_eq, <- Lp. apply trunc_not_below. exact Hc.
    + intros i j Hi Hij Hj Hdi. rewrite Hd_eq in *.
      pose proof (trunc_mono L (K i) (K j) (PK i) (PK j) (HK i j Hi Hij Hj)) as Hle.
      destruct (ss_trans p (firstn L (K i)) (firstn L (K j)) Pp (PF i) (PF j) ltac:(lia) Hle) as [_ T]. apply T. left. exact Hdi.
    + intros i Hi Hc. rewrite Hc_eq in Hc. apply ss_eq in Hc; [|exact Pp|apply PK].
      rewrite Hd_eq, <- Hc, <- Lp, firstn_all. apply ss_refl.
    + rewrite E. eexists. split; [reflexivity|]. rewrite ac_up_g. exact Hfz.
  - (* descending: key = the prefix with its last byte incremented, searched ascending *)
    cbn [negb]. specialize (Hbump eq_refl).
    destruct (exists_last (l := kw)) as (k0 & b & Ekw). { intros ->. cbn in Hlen. lia. }
    rewrite Ekw in Hbump. rewrite last_last in Hbump. destruct Hbump as (Hb64 & Hb90 & Hb255).
    assert (Hkb : kbyte b). { rewrite Forall_forall in Hk. apply Hk. rewrite Ekw. apply in_or_app. right. left. reflexivity. }
    unfold kbyte in Hkb.
    assert (Hk0 : Forall kbyte k0). { rewrite Ekw in Hk. apply Forall_app in Hk. tauto. }
    set (p0 := map tolower k0).
    assert (Ep : p = p0 ++ [tolower b]). { unfold p, p0. rewrite Ekw, map_app. reflexivity. }
    assert (EL : L = S (length p0)). { unfold L, p0. rewrite Ekw, app_length, map_length. cbn. lia. }
    assert (Hbl : bump_last kw = k0 ++ [b + 1]). { rewrite Ekw. apply bump_last_snoc. lia. }
    assert (Hk1 : Forall kbyte (k0 ++ [b + 1])).
    { apply Forall_app. split; [exact Hk0|]. constructor; [unfold kbyte; lia|constructor]. }
    assert (Hkey : key_name (bump_last kw) = p0 ++ [tolower b + 1]).
    { rewrite Hbl, key_name_kw.
      - rewrite map_app. cbn [map]. rewrite tolower_bump by assumption. reflexivity.
      - apply kbytes_nonul. exact Hk1.
      - rewrite app_length. cbn. unfold L in *. rewrite Ekw, app_length in Hlen. cbn in Hlen. lia. }
    assert (Hc_eq : forall i, cmp_name names (bump_last kw) i = strcmp_spec (p0 ++ [tolower b + 1]) (K i)).
    { intros i. rewrite cmp_name_key, Hkey. reflexivity. }
    assert (Pp0 : pos p0) by (apply map_tolower_pos, kbytes_pos, Hk0).
    assert (Plb : 0 < tolower b) by (apply tolower_pos; lia).
    assert (Pk1 : pos (p0 ++ [tolower b + 1])).
    { apply Forall_app. split; [exact Pp0|]. constructor; [lia|constructor]. }
    assert (Hm : mono (cmp_name names (bump_last kw)) n).
    { apply sorted_implies_monotone_name; [exact Hb| |exact Hs]. rewrite Hbl.
      unfold bytes_ok. apply forallb_forall. intros x Hx. rewrite Forall_forall in Hk1. specialize (Hk1 x Hx).
      unfold kbyte in Hk1. unfold is_byte. destruct (Z.leb_spec 0 x), (Z.ltb_spec x 256); cbn; try reflexivity; lia. }
    assert (Pne : p0 ++ [tolower b + 1] <> []). { intros E. apply app_eq_nil in E. destruct E; discriminate. }
    destruct (probe_desc (cmp_name names (bump_last kw)) (cmp_prefix names kw) n Hn Hm) as (r0 & E & Hlz).
    + intros i Hi Hc j Hj. rewrite Hc_eq in *. exact (unique_below names _ Hb Hs Hd Pk1 Pne i Hi Hc j Hj).
    + intros i Hi Hc. rewrite Hc_eq in Hc. rewrite Hd_eq, Ep, EL. apply bump_not_below; [exact Pp0|exact Plb|apply PK|exact Hc].
    + intros i Hi Hc. rewrite Hc_eq in Hc. rewrite Hd_eq, Ep, EL. apply bump_below; [exact Pp0|exact Plb|apply PK|exact Hc].
    + intros i j Hi Hij Hj Hdj. rewrite Hd_eq in *.
      pose proof (trunc_mono L (K i) (K j) (PK i) (PK j) (HK i j Hi Hij Hj)) as Hle.
      pose proof (ss_antisym p (firstn L (K i))) as An1. pose proof (ss_antisym p (firstn L (K j))) as An2.
      destruct (ss_trans (firstn L (K i)) (firstn L (K j)) p (PF i) (PF j) Pp Hle ltac:(lia)) as [_ T].
      specialize (T ltac:(lia)). lia.
    + rewrite E. eexists. split; [reflexivity|]. rewrite ac_down_g. exact Hlz.
Qed.
