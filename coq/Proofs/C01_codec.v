(* C01 — the codec: encode/decode of a value of any type description (induction on the description). *)
From Coq Require Import String.
From Verif Require Import Base.Common Base.ListX Base.RecFile Model.C01.
From Coq Require Import ZifyBool.
Ltac Zify.zify_post_hook ::= Z.div_mod_to_equations.
Local Open Scope Z_scope.

(* ---------------------------------------------------------------- induction principle for nested descriptions *)
Section rty_induction.
  Variable P : rty -> Prop.
  Hypothesis HInt : forall k, P (RInt k).
  Hypothesis HBool : P RBool.
  Hypothesis HArr : forall n t, P t -> P (RArr n t).
  Hypothesis HStruct : forall fs, Forall (fun f => P (snd f)) fs -> P (RStruct fs).
  Fixpoint rty_ind2 (t : rty) : P t :=
    match t with
    | RInt k => HInt k
    | RBool => HBool
    | RArr n t' => HArr n t' (rty_ind2 t')
    | RStruct fs =>
        HStruct fs ((fix go (fs : list (string * rty)) : Forall (fun f => P (snd f)) fs :=
                       match fs with
                       | [] => Forall_nil _
                       | f :: r => Forall_cons f (rty_ind2 (snd f)) (go r)
                       end) fs)
    end.
End rty_induction.

(* ---------------------------------------------------------------- the nested loops, named *)
Fixpoint packed_size_fields (fs : list (string * rty)) : Z :=
  match fs with [] => 0 | f :: r => packed_size (snd f) + packed_size_fields r end.
Lemma packed_size_struct fs : packed_size (RStruct fs) = packed_size_fields fs.
Proof. reflexivity. Qed.

Fixpoint wt_fields (fs : list (string * rty)) (vs : list value) : bool :=
  match fs, vs with
  | [], [] => true
  | f :: fr, v :: vr => wt (snd f) v && wt_fields fr vr
  | _, _ => false
  end.
Lemma wt_struct fs vs : wt (RStruct fs) (VList vs) = wt_fields fs vs.
Proof. reflexivity. Qed.

Fixpoint rty_wf_fields (fs : list (string * rty)) : bool :=
  match fs with [] => true | f :: r => rty_wf (snd f) && rty_wf_fields r end.
Lemma rty_wf_struct fs : rty_wf (RStruct fs) = rty_wf_fields fs.
Proof. reflexivity. Qed.

Fixpoint encode_fields (fs : list (string * rty)) (vs : list value) : list Z :=
  match fs, vs with
  | f :: fr, v :: vr => encode (snd f) v ++ encode_fields fr vr
  | _, _ => []
  end.
Lemma encode_struct fs vs : encode (RStruct fs) (VList vs) = encode_fields fs vs.
Proof. reflexivity. Qed.

Fixpoint decode_fields (fs : list (string * rty)) (bs : list Z) : option (list value * list Z) :=
  match fs with
  | [] => Some ([], bs)
  | f :: fr => match decode (snd f) bs with
               | Some (v, r) => match decode_fields fr r with Some (vs, r') => Some (v :: vs, r') | None => None end
               | None => None
               end
  end.
Lemma decode_struct fs bs :
  decode (RStruct fs) bs = match decode_fields fs bs with Some (vs, r) => Some (VList vs, r) | None => None end.
Proof. reflexivity. Qed.

Fixpoint decode_n (t : rty) (k : nat) (bs : list Z) : option (list value * list Z) :=
  match k with
  | O => Some ([], bs)
  | S k' => match decode t bs with
            | Some (v, r) => match decode_n t k' r with Some (vs, r') => Some (v :: vs, r') | None => None end
            | None => None
            end
  end.
Lemma decode_arr n t bs :
  decode (RArr n t) bs = match decode_n t (Z.to_nat n) bs with Some (vs, r) => Some (VList vs, r) | None => None end.
Proof.
  cbn [decode]. generalize (Z.to_nat n) as k. intros k.
  match goal with |- match ?a with _ => _ end = match ?b with _ => _ end => assert (H : a = b); [|rewrite H; reflexivity] end.
  revert bs. induction k as [|k IH]; intros bs; [reflexivity|].
  cbn [decode_n]. destruct (decode t bs) as [[v r1]|]; [|reflexivity]. rewrite IH. reflexivity.
Qed.

(* ---------------------------------------------------------------- integers *)
Lemma le_bytes_length n : forall z, length (le_bytes n z) = n.
Proof. induction n as [|n IH]; intros z; [reflexivity|]. cbn [le_bytes length]. rewrite IH. reflexivity. Qed.

Lemma le_val_le_bytes n : forall z, le_val (le_bytes n z) = z mod 256 ^ Z.of_nat n.
Proof.
  induction n as [|n IH]; intros z.
  - cbn. rewrite Z.mod_1_r. reflexivity.
  - cbn [le_bytes le_val]. rewrite IH. rewrite Nat2Z.inj_succ, Z.pow_succ_r by lia.
    rewrite Z.rem_mul_r by lia. reflexivity.
Qed.

Lemma le_bytes_ok n : forall z, bytes_ok (le_bytes n z) = true.
Proof.
  induction n as [|n IH]; intros z; [reflexivity|]. cbn [le_bytes bytes_ok forallb].
  fold (bytes_ok (le_bytes n (z / 256))). rewrite IH. unfold is_byte.
  pose proof (Z.mod_pos_bound z 256). lia.
Qed.

Lemma int_roundtrip k z : int_in_range k z = true ->
  int_of_raw k (z mod 256 ^ Z.of_nat (ik_bytes k)) = z.
Proof.
  destruct k; unfold int_in_range, int_of_raw; cbn [ik_signed];
    set (m := ik_mod _) in *; vm_compute in m; subst m;
    set (p := 256 ^ _); vm_compute in p; subst p; intros H;
    try match goal with |- context [if ?c then _ else _] => destruct c eqn:E end; lia.
Qed.

Lemma int_of_raw_range k u : 0 <= u < ik_mod k -> int_in_range k (int_of_raw k u) = true.
Proof.
  destruct k; unfold int_in_range, int_of_raw; cbn [ik_signed];
    set (m := ik_mod _) in *; vm_compute in m; subst m; intros H;
    try match goal with |- context [if ?c then _ else _] => destruct c eqn:E end; lia.
Qed.

(* ---------------------------------------------------------------- length of the image *)
Lemma flat_map_length_const {A} (f : A -> list Z) (n : nat) (l : list A) :
  (forall a, In a l -> length (f a) = n) -> length (flat_map f l) = (length l * n)%nat.
Proof.
  induction l as [|a l IH]; intros H; [reflexivity|]. cbn [flat_map length]. rewrite app_length.
  rewrite H by (left; reflexivity). rewrite IH by (intros b Hb; apply H; right; exact Hb). lia.
Qed.

Lemma packed_size_nonneg t : rty_wf t = true -> 0 <= packed_size t.
Proof.
  induction t as [k| |n t IH|fs IH] using rty_ind2; intros Hwf.
  - destruct k; cbn; lia.
  - cbn; lia.
  - cbn [rty_wf] in Hwf. apply andb_prop in Hwf. destruct Hwf as [Hn Ht]. cbn [packed_size].
    specialize (IH Ht). apply Z.mul_nonneg_nonneg; lia.
  - rewrite packed_size_struct. rewrite rty_wf_struct in Hwf.
    induction IH as [|f r Hf _ IHr]; [cbn; lia|]. cbn [packed_size_fields rty_wf_fields] in *.
    apply andb_prop in Hwf. destruct Hwf as [H1 H2]. specialize (Hf H1). specialize (IHr H2). lia.
Qed.

Lemma encode_length t : rty_wf t = true -> forall v, wt t v = true -> lenZ (encode t v) = packed_size t.
Proof.
  unfold lenZ. induction t as [k| |n t IH|fs IH] using rty_ind2; intros Hwf v Hv.
  - destruct v as [z| |]; try discriminate. cbn [encode packed_size]. rewrite le_bytes_length. reflexivity.
  - destruct v as [|b|]; try discriminate. reflexivity.
  - destruct v as [| |vs]; try discriminate. cbn [wt] in Hv. apply andb_prop in Hv. destruct Hv as [Hn Hall].
    cbn [rty_wf] in Hwf. apply andb_prop in Hwf. destruct Hwf as [Hn0 Ht].
    cbn [encode packed_size]. rewrite (flat_map_length_const _ (Z.to_nat (packed_size t))).
    + pose proof (packed_size_nonneg t Ht). nia.
    + intros a Ha. rewrite forallb_forall in Hall. specialize (IH Ht a (Hall a Ha)). lia.
  - destruct v as [| |vs]; try discriminate. rewrite wt_struct in Hv. rewrite rty_wf_struct in Hwf.
    rewrite encode_struct, packed_size_struct. revert vs Hv.
    induction IH as [|f r Hf _ IHr]; intros [|v vs] Hv; try discriminate; [reflexivity|].
    cbn [wt_fields rty_wf_fields encode_fields packed_size_fields] in *.
    apply andb_prop in Hv. destruct Hv as [Hv1 Hv2]. apply andb_prop in Hwf. destruct Hwf as [H1 H2].
    rewrite app_length, Nat2Z.inj_add. rewrite (Hf H1 v Hv1). rewrite (IHr H2 vs Hv2). reflexivity.
Qed.

(* ---------------------------------------------------------------- round trip *)
Lemma decode_n_roundtrip t (IH : forall v rest, wt t v = true -> decode t (encode t v ++ rest) = Some (v, rest)) :
  forall vs rest, forallb (wt t) vs = true ->
  decode_n t (length vs) (flat_map (encode t) vs ++ rest) = Some (vs, rest).
Proof.
  induction vs as [|v vs IHvs]; intros rest Hall; [reflexivity|].
  cbn [forallb] in Hall. apply andb_prop in Hall. destruct Hall as [Hv Hvs].
  cbn [length flat_map decode_n]. rewrite <- app_assoc. rewrite (IH v _ Hv). rewrite (IHvs rest Hvs). reflexivity.
Qed.

Lemma codec_roundtrip_rest t : forall v rest, wt t v = true -> decode t (encode t v ++ rest) = Some (v, rest).
Proof.
  induction t as [k| |n t IH|fs IH] using rty_ind2; intros v rest Hv.
  - destruct v as [z| |]; try discriminate. cbn [wt] in Hv. cbn [encode decode].
    rewrite app_length, le_bytes_length.
    destruct (Nat.ltb_spec (ik_bytes k + length rest) (ik_bytes k)) as [Hlt|_]; [lia|].
    rewrite firstn_app, le_bytes_length, Nat.sub_diag. cbn [firstn]. rewrite app_nil_r.
    rewrite (firstn_all2 (n:=ik_bytes k)) by (rewrite le_bytes_length; lia).
    rewrite skipn_app, le_bytes_length, Nat.sub_diag. cbn [skipn].
    rewrite (skipn_all2 (n:=ik_bytes k)) by (rewrite le_bytes_length; lia). cbn [app].
    rewrite le_val_le_bytes, (int_roundtrip k z Hv). reflexivity.
  - destruct v as [|b|]; try discriminate. destruct b; reflexivity.
  - destruct v as [| |vs]; try discriminate. cbn [wt] in Hv. apply andb_prop in Hv. destruct Hv as [Hn Hall].
    rewrite decode_arr. cbn [encode]. replace (Z.to_nat n) with (length vs) by lia.
    rewrite (decode_n_roundtrip t IH vs rest Hall). reflexivity.
  - destruct v as [| |vs]; try discriminate. rewrite wt_struct in Hv. rewrite decode_struct, encode_struct.
    assert (H : decode_fields fs (encode_fields fs vs ++ rest) = Some (vs, rest)); [|rewrite H; reflexivity].
    revert vs Hv. induction IH as [|f r Hf _ IHr]; intros [|v vs] Hv; try discriminate; [reflexivity|].
    cbn [wt_fields encode_fields decode_fields] in *. apply andb_prop in Hv. destruct Hv as [Hv1 Hv2].
    rewrite <- app_assoc. rewrite (Hf v _ Hv1). rewrite (IHr vs Hv2). reflexivity.
Qed.

Theorem codec_roundtrip : forall t v, wt t v = true ->
  decode t (encode t v) = Some (v, []) /\ (rty_wf t = true -> lenZ (encode t v) = packed_size t).
Proof.
  intros t v Hv. split.
  - rewrite <- (app_nil_r (encode t v)) at 1. apply codec_roundtrip_rest. exact Hv.
  - intros Hwf. apply encode_length; assumption.
Qed.

(* ---------------------------------------------------------------- decode reads exactly packed_size bytes *)

Lemma firstn_add {A} (a b : nat) (l : list A) : firstn (a + b) l = firstn a l ++ firstn b (skipn a l).
Proof.
  revert l. induction a as [|a IH]; intros l; [reflexivity|]. destruct l as [|x l].
  - cbn [Nat.add firstn skipn]. rewrite firstn_nil. reflexivity.
  - cbn [Nat.add firstn skipn app]. f_equal. apply IH.
Qed.

Lemma decode_n_prefix t
  (IH : forall bs, (psz t <= length bs)%nat -> exists v, forall r, decode t (firstn (psz t) bs ++ r) = Some (v, r)) :
  forall k bs, (k * psz t <= length bs)%nat ->
  exists vs, forall r, decode_n t k (firstn (k * psz t) bs ++ r) = Some (vs, r).
Proof.
  induction k as [|k IHk]; intros bs Hlen.
  - exists []. intros r. reflexivity.
  - cbn [Nat.mul] in *. destruct (IH bs ltac:(lia)) as (v & Hd).
    destruct (IHk (skipn (psz t) bs) ltac:(rewrite skipn_length; lia)) as (vs & Hds).
    exists (v :: vs). intros r. cbn [decode_n]. rewrite firstn_add, <- app_assoc. rewrite Hd, Hds. reflexivity.
Qed.

Lemma decode_fields_prefix fs
  (IH : Forall (fun f => forall bs, (psz (snd f) <= length bs)%nat ->
                         exists v, forall r, decode (snd f) (firstn (psz (snd f)) bs ++ r) = Some (v, r)) fs) :
  rty_wf_fields fs = true ->
  forall bs, (Z.to_nat (packed_size_fields fs) <= length bs)%nat ->
  exists vs, forall r, decode_fields fs (firstn (Z.to_nat (packed_size_fields fs)) bs ++ r) = Some (vs, r).
Proof.
  induction IH as [|f fr Hf _ IHr]; intros Hwf bs Hlen.
  - exists []. intros r. reflexivity.
  - cbn [rty_wf_fields packed_size_fields] in *. apply andb_prop in Hwf. destruct Hwf as [H1 H2].
    pose proof (packed_size_nonneg (snd f) H1) as Hp1.
    assert (Hp2 : 0 <= packed_size_fields fr).
    { pose proof (packed_size_nonneg (RStruct fr)) as Hx. rewrite packed_size_struct, rty_wf_struct in Hx. exact (Hx H2). }
    rewrite Z2Nat.inj_add in * by lia. fold (psz (snd f)) in *.
    destruct (Hf bs ltac:(lia)) as (v & Hd).
    destruct (IHr H2 (skipn (psz (snd f)) bs) ltac:(rewrite skipn_length; lia)) as (vs & Hds).
    exists (v :: vs). intros r. cbn [decode_fields]. rewrite firstn_add, <- app_assoc. rewrite Hd, Hds. reflexivity.
Qed.

Lemma decode_prefix t : rty_wf t = true -> forall bs, (psz t <= length bs)%nat ->
  exists v, forall r, decode t (firstn (psz t) bs ++ r) = Some (v, r).
Proof.
  induction t as [k| |n t IH|fs IH] using rty_ind2; intros Hwf bs Hlen.
  - unfold psz in *. cbn [packed_size] in *. unfold ik_size in *. rewrite Nat2Z.id in *.
    exists (VInt (int_of_raw k (le_val (firstn (ik_bytes k) bs)))). intros r. cbn [decode].
    rewrite app_length, firstn_length.
    destruct (Nat.ltb_spec (Nat.min (ik_bytes k) (length bs) + length r) (ik_bytes k)) as [Hlt|_]; [lia|].
    rewrite firstn_app, firstn_firstn, firstn_length, Nat.min_id.
    replace (ik_bytes k - Nat.min (ik_bytes k) (length bs))%nat with 0%nat by lia. cbn [firstn]. rewrite app_nil_r.
    rewrite skipn_app, firstn_length.
    replace (ik_bytes k - Nat.min (ik_bytes k) (length bs))%nat with 0%nat by lia. cbn [skipn].
    rewrite (skipn_all2 (n:=ik_bytes k)) by (rewrite firstn_length; lia). reflexivity.
  - unfold psz in *. cbn [packed_size] in *. change (Z.to_nat 1) with 1%nat in *.
    destruct bs as [|b bs]; [cbn in Hlen; lia|]. exists (VBool (negb (b =? 0))). intros r. reflexivity.
  - cbn [rty_wf] in Hwf. apply andb_prop in Hwf. destruct Hwf as [Hn Ht].
    pose proof (packed_size_nonneg t Ht) as Hp.
    assert (Hk : psz (RArr n t) = (Z.to_nat n * psz t)%nat).
    { unfold psz. cbn [packed_size]. rewrite Z2Nat.inj_mul by lia. reflexivity. }
    rewrite Hk in *.
    destruct (decode_n_prefix t (IH Ht) (Z.to_nat n) bs Hlen) as (vs & Hd).
    exists (VList vs). intros r. rewrite decode_arr, Hd. reflexivity.
  - rewrite rty_wf_struct in Hwf. unfold psz in *. rewrite packed_size_struct in *.
    assert (IH' : Forall (fun f => forall bs, (psz (snd f) <= length bs)%nat ->
                         exists v, forall r, decode (snd f) (firstn (psz (snd f)) bs ++ r) = Some (v, r)) fs).
    { clear Hlen bs. induction IH as [|f fr Hf _ IHr]; [constructor|].
      cbn [rty_wf_fields] in Hwf. apply andb_prop in Hwf. destruct Hwf as [H1 H2].
      constructor; [exact (Hf H1)|exact (IHr H2)]. }
    destruct (decode_fields_prefix fs IH' Hwf bs Hlen) as (vs & Hd).
    exists (VList vs). intros r. rewrite decode_struct, Hd. reflexivity.
Qed.
