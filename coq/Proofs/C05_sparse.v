(* C05 — sparse files: the slot-level operations the harness runs on files of gigabytes are the byte-list operations. *)
From Verif Require Import Base.Common Base.RecFile Model.C05.
Open Scope Z_scope.

Lemma sp_get_put_same q v : forall m, sp_get q (sp_put q v m) = v.
Proof.
  induction m as [|[k w] r IH]; cbn [sp_put sp_get].
  - rewrite Z.eqb_refl. reflexivity.
  - destruct (q <? k) eqn:Hlt; cbn [sp_get].
    + rewrite Z.eqb_refl. reflexivity.
    + destruct (k =? q) eqn:He; cbn [sp_get].
      * rewrite Z.eqb_refl. reflexivity.
      * rewrite He. exact IH.
Qed.

Lemma sp_get_put_other q q' v : q' <> q -> forall m, sp_get q' (sp_put q v m) = sp_get q' m.
Proof.
  intros Hne. induction m as [|[k w] r IH]; cbn [sp_put sp_get].
  - destruct (q =? q') eqn:He; [apply Z.eqb_eq in He; congruence|reflexivity].
  - destruct (q <? k) eqn:Hlt; cbn [sp_get].
    + destruct (q =? q') eqn:He; [apply Z.eqb_eq in He; congruence|reflexivity].
    + destruct (k =? q) eqn:He; cbn [sp_get].
      * apply Z.eqb_eq in He. subst k.
        destruct (q =? q') eqn:He'; [apply Z.eqb_eq in He'; congruence|reflexivity].
      * destruct (k =? q'); [reflexivity|exact IH].
Qed.

(* the frame statement at slot level, for every slot index (no bound: 2^24, 2^31, ...) *)
Lemma sparse_frame sz q bs s :
  fst (sp_write sz q bs s) = Z.max (fst s) (q * Z.of_nat sz + lenZ bs) /\
  sp_get q (snd (sp_write sz q bs s)) = trim0 (bs ++ skipn (length bs) (sp_get q (snd s))) /\
  (forall q', q' <> q -> sp_get q' (snd (sp_write sz q bs s)) = sp_get q' (snd s)).
Proof.
  unfold sp_write. cbn [fst snd]. split; [reflexivity|]. split.
  - rewrite sp_get_put_same. unfold write_at. cbn [firstn Nat.sub repeat app Nat.add]. reflexivity.
  - intros q' Hne. apply sp_get_put_other. exact Hne.
Qed.

(* ------------------------------------------------------------------ bytes *)
Lemma nth_trim0 : forall l k, nth k (trim0 l) 0 = nth k l 0.
Proof.
  induction l as [|a r IH]; intros k; [reflexivity|].
  cbn [trim0]. destruct (trim0 r) as [|b r'] eqn:Ht.
  - destruct k as [|k].
    + destruct (a =? 0) eqn:Ha; [apply Z.eqb_eq in Ha; subst a; reflexivity|reflexivity].
    + cbn [nth]. rewrite <- IH.
      destruct (a =? 0); cbn [nth]; destruct k; reflexivity.
  - destruct k as [|k]; [reflexivity|]. cbn [nth]. apply IH.
Qed.

Lemma nth_firstn_lt : forall n p (l : list Z), (p < n)%nat -> nth p (firstn n l) 0 = nth p l 0.
Proof.
  induction n as [|n IH]; intros p l H; [lia|].
  destruct l as [|a l]; [destruct p; reflexivity|].
  destruct p as [|p]; cbn [firstn nth]; [reflexivity|apply IH; lia].
Qed.

Lemma nth_skipn_add : forall n k (l : list Z), nth k (skipn n l) 0 = nth (n + k) l 0.
Proof.
  induction n as [|n IH]; intros k l; [reflexivity|].
  destruct l as [|a l]; [destruct k; reflexivity|]. cbn [skipn Nat.add nth]. apply IH.
Qed.

Lemma nth_repeat0 : forall n k, nth k (repeat 0 n) 0 = 0.
Proof. induction n as [|n IH]; intros [|k]; cbn [repeat nth]; try reflexivity. apply IH. Qed.

Lemma nth_write_at off bs f p :
  nth p (write_at off bs f) 0 =
  if (off <=? p)%nat && (p <? off + length bs)%nat then nth (p - off) bs 0 else nth p f 0.
Proof.
  unfold write_at.
  set (A := firstn off f ++ repeat 0 (off - length f)).
  assert (HA : length A = off).
  { unfold A. rewrite app_length, firstn_length, repeat_length. lia. }
  rewrite app_assoc. fold A.
  destruct (off <=? p)%nat eqn:H1; cbn [andb].
  - apply Nat.leb_le in H1. rewrite app_nth2 by lia. rewrite HA.
    destruct (p <? off + length bs)%nat eqn:H2.
    + apply Nat.ltb_lt in H2. rewrite app_nth1 by lia. reflexivity.
    + apply Nat.ltb_ge in H2. rewrite app_nth2 by lia. rewrite nth_skipn_add. f_equal. lia.
  - apply Nat.leb_gt in H1. rewrite app_nth1 by lia. unfold A.
    destruct (Nat.lt_ge_cases p (length f)) as [Hin|Hout].
    + rewrite app_nth1 by (rewrite firstn_length; lia). apply nth_firstn_lt. lia.
    + rewrite app_nth2 by (rewrite firstn_length; lia). rewrite nth_repeat0.
      symmetry. apply nth_overflow. lia.
Qed.

(* the byte at position p of the file a sparse description stands for *)
Definition sp_byte (sz : nat) (m : slots) (p : nat) : Z :=
  nth (p mod sz) (sp_get (Z.of_nat (p / sz)) m) 0.

Definition represents (sz : nat) (f : list Z) (s : Z * slots) : Prop :=
  lenZ f = fst s /\ forall p, nth p f 0 = sp_byte sz (snd s) p.

Lemma write_represents sz q bs f s : (0 < sz)%nat -> (length bs <= sz)%nat -> 0 <= q ->
  represents sz f s -> represents sz (write_at (Z.to_nat q * sz) bs f) (sp_write sz q bs s).
Proof.
  intros Hsz Hbs Hq [HL HB]. split.
  - unfold sp_write, lenZ in *. cbn [fst]. rewrite write_at_length. rewrite <- HL. lia.
  - intros p. rewrite nth_write_at. unfold sp_byte, sp_write. cbn [snd].
    set (qn := Z.to_nat q).
    pose proof (Nat.div_mod p sz ltac:(lia)) as Hdm.
    pose proof (Nat.mod_upper_bound p sz ltac:(lia)) as Hmod.
    destruct (Nat.eq_dec (p / sz) qn) as [Heq|Hne].
    + replace (Z.of_nat (p / sz)) with q by (rewrite Heq; unfold qn; lia).
      rewrite sp_get_put_same, nth_trim0, nth_write_at.
      assert (Hp : p = (qn * sz + p mod sz)%nat) by (rewrite <- Heq; lia).
      replace (p - qn * sz)%nat with (p mod sz)%nat by lia.
      replace (p mod sz - 0)%nat with (p mod sz)%nat by lia.
      replace ((qn * sz <=? p)%nat) with true by (symmetry; apply Nat.leb_le; lia).
      replace ((0 <=? p mod sz)%nat) with true by (symmetry; apply Nat.leb_le; lia).
      cbn [andb Nat.add].
      destruct (p mod sz <? length bs)%nat eqn:Hin.
      * replace (p <? qn * sz + length bs)%nat with true; [reflexivity|].
        symmetry. apply Nat.ltb_lt. apply Nat.ltb_lt in Hin. lia.
      * replace (p <? qn * sz + length bs)%nat with false.
        2:{ symmetry. apply Nat.ltb_ge. apply Nat.ltb_ge in Hin. lia. }
        rewrite HB. unfold sp_byte. rewrite Heq.
        replace (Z.of_nat qn) with q by (unfold qn; lia). reflexivity.
    + rewrite sp_get_put_other by (unfold qn in Hne; lia).
      replace ((qn * sz <=? p)%nat && (p <? qn * sz + length bs)%nat) with false; [apply HB|].
      symmetry. apply andb_false_iff.
      destruct (Nat.le_gt_cases (qn * sz) p) as [Hle|Hgt]; [|left; apply Nat.leb_gt; lia].
      right. apply Nat.ltb_ge.
      destruct (Nat.le_gt_cases (qn * sz + length bs) p) as [Hok|Hbad]; [exact Hok|].
      exfalso. apply Hne. symmetry. apply (Nat.div_unique p sz qn (p - qn * sz)); lia.
Qed.

Lemma sp_count_represents sz f s : represents sz f s -> sp_count sz s = num_records sz f.
Proof.
  intros [HL _]. unfold sp_count, num_records, count. rewrite <- HL. unfold lenZ.
  symmetry. apply Nat2Z.inj_div.
Qed.

(* every operation of the sparse model is the byte-list operation, for every file and every index *)
Lemma sparse_represents sz f s : (0 < sz)%nat -> represents sz f s ->
  sp_count sz s = num_records sz f /\
  (forall rec, (length rec <= sz)%nat ->
     fst (sp_append sz rec s) = fst (append_record sz rec f) /\
     represents sz (snd (append_record sz rec f)) (snd (sp_append sz rec s))) /\
  (forall idx bs, (length bs <= sz)%nat ->
     match substitute_record sz idx bs f, sp_substitute sz idx bs s with
     | ROk f', ROk s' => 0 <= idx /\ represents sz f' s'
     | RErr e, RErr e' => idx < 0 /\ e = e'
     | _, _ => False
     end) /\
  (forall idx tag, (length tag <= sz)%nat ->
     match delete_record sz idx tag f, sp_delete sz idx tag s with
     | ROk f', ROk s' => 0 <= idx /\ represents sz f' s'
     | RErr e, RErr e' => idx < 0 /\ e = e'
     | _, _ => False
     end).
Proof.
  intros Hsz HR. pose proof (sp_count_represents sz f s HR) as Hc. split; [exact Hc|]. split; [|split].
  - intros rec Hrec. unfold sp_append, append_record. cbn [fst snd]. rewrite Hc. unfold num_records. split; [reflexivity|].
    replace (count sz f * sz)%nat with (Z.to_nat (Z.of_nat (count sz f)) * sz)%nat by (rewrite Nat2Z.id; reflexivity).
    apply write_represents; try assumption. lia.
  - intros idx bs Hbs. unfold substitute_record, sp_substitute.
    destruct (idx <? 0) eqn:Hneg; [split; [lia|reflexivity]|].
    split; [lia|]. apply write_represents; try assumption. lia.
  - intros idx tag Htag. unfold delete_record, sp_delete.
    destruct (idx <? 0) eqn:Hneg; [split; [lia|reflexivity]|].
    split; [lia|]. apply write_represents; try assumption. lia.
Qed.

Lemma nth_fixlen n l k : (k < n)%nat -> nth k (fixlen n l) 0 = nth k l 0.
Proof.
  intros H. unfold fixlen. destruct (Nat.lt_ge_cases k (length l)) as [Hin|Hout].
  - rewrite app_nth1 by (rewrite firstn_length; lia). apply nth_firstn_lt. exact H.
  - rewrite (nth_overflow l) by lia.
    destruct (Nat.lt_ge_cases k (length (firstn n l))) as [H1|H2].
    + rewrite app_nth1 by exact H1. rewrite nth_firstn_lt by exact H. apply nth_overflow. lia.
    + rewrite app_nth2 by exact H2. apply nth_repeat0.
Qed.

(* a complete record read through the sparse description (GetRecords, ModifyDirLite) is the record of the file *)
Lemma sp_record_represents sz f s q : (0 < sz)%nat -> represents sz f s -> ((q + 1) * sz <= length f)%nat ->
  sp_record sz (Z.of_nat q) s = record sz q f.
Proof.
  intros Hsz [_ HB] Hin. apply (nth_ext _ _ 0 0).
  - unfold sp_record, fixlen, record. rewrite app_length, firstn_length, repeat_length, read_at_length by lia. lia.
  - intros k Hk. unfold sp_record in Hk |- *.
    assert (Hk' : (k < sz)%nat).
    { unfold fixlen in Hk. rewrite app_length, firstn_length, repeat_length in Hk. lia. }
    rewrite nth_fixlen by exact Hk'. unfold record, read_at.
    rewrite nth_firstn_lt by exact Hk'. rewrite nth_skipn_add. rewrite HB. unfold sp_byte.
    replace ((q * sz + k) / sz)%nat with q by (apply (Nat.div_unique _ sz q k); lia).
    replace ((q * sz + k) mod sz)%nat with k by (apply (Nat.mod_unique _ sz q k); lia).
    reflexivity.
Qed.

(* non-vacuity: the empty file, and a 3-byte substitute at slot 2^24 of stride 256 (byte offset 2^32) on it: the result is
   represented (the byte list of 2^32+3 bytes is never computed), the size is 2^32+3, slot 2^24 holds the bytes, slot 0 nothing *)
Example represents_empty : forall sz, represents sz [] (0, []).
Proof.
  intros sz. split; [reflexivity|]. intros p. unfold sp_byte. cbn [snd sp_get].
  destruct p; destruct (_ mod _)%nat; reflexivity.
Qed.

Example sparse_large_index :
  let s' := sp_write 256 16777216 [1; 2; 3] (0, []) in
  sp_substitute 256 16777216 [1; 2; 3] (0, []) = ROk s' /\
  represents 256 (write_at (Z.to_nat 16777216 * 256) [1; 2; 3] []) s' /\
  fst s' = 4294967299 /\ sp_get 16777216 (snd s') = [1; 2; 3] /\ sp_get 0 (snd s') = [].
Proof.
  intros s'. split; [reflexivity|]. split.
  - apply write_represents; [lia|cbn [length]; lia|lia|apply represents_empty].
  - split; [reflexivity|split; reflexivity].
Qed.

(* int64(idx) * int64(size) does not wrap for any int32 index and any stride up to 65535 (those in use: 100..512);
   the model's q * sz in Z is that product *)
Lemma offset_fits_int64 idx sz : - 2147483648 <= idx < 2147483648 -> 0 <= sz <= 65535 ->
  - 9223372036854775808 <= idx * sz < 9223372036854775808.
Proof. intros H1 H2. nia. Qed.
