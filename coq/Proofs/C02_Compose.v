(* C02 — composition: the 16-round loop and the 25 iterations of body are 25 textbook DES encryptions (with the salted
   E) chained from the zero block, in fcrypt's representation: the Go state (l, r) is (hw L, hw R); IP and FP between
   consecutive encryptions cancel, so only the last FP remains (Proofs/C02_Perm.v: the tail of body). *)
From Verif Require Import Base.Common Base.Sweep Gen.CryptTab Model.C02 Model.C02_DesSpec Proofs.C02_Core Proofs.C02_Tables Proofs.C02_Sym Proofs.C02_Perm Proofs.C02_KeySched Proofs.C02_Bits Proofs.C02_Round.

(* ---------------------------------------------------------------- the schedule words are the placed round keys *)

Definition placed (ks : list (list bool)) : list Z := flat_map (fun K => [place 0 K; place 1 K]) ks.

Lemma placed_length ks : length (placed ks) = (2 * length ks)%nat.
Proof. induction ks as [|K ks IH]; [reflexivity|]. cbn [placed flat_map app length] in *. unfold placed in IH. rewrite IH. lia. Qed.

Lemma placed_nth ks : forall r h, (h < 2)%nat -> (r < length ks)%nat -> nth (2 * r + h) (placed ks) 0 = place h (nth r ks []).
Proof.
  induction ks as [|K ks IH]; intros r h Hh Hr; [cbn [length] in Hr; lia|].
  destruct r as [|r].
  - destruct h as [|[|h]]; [reflexivity|reflexivity|lia].
  - replace (2 * S r + h)%nat with (S (S (2 * r + h))) by lia. cbn [placed flat_map app nth].
    apply IH; [exact Hh|cbn [length] in Hr; lia].
Qed.

Lemma key_schedule_shape bits : length bits = 64%nat ->
  length (key_schedule bits) = 16%nat /\ Forall (fun K => length K = 48%nat) (key_schedule bits).
Proof.
  intros Hl. rewrite (key_schedule_positions bits Hl). destruct ks_idx_shape as [L16 L48]. split.
  - rewrite map_length. exact L16.
  - apply Forall_forall. intros K HK. apply in_map_iff in HK. destruct HK as (row & <- & Hrow).
    rewrite map_length. rewrite forallb_forall in L48. apply Nat.eqb_eq. apply L48. exact Hrow.
Qed.

Lemma key_bits_length key : length key = 8%nat -> length (flat_map byte_bits key) = 64%nat.
Proof. intros Hl. do 9 (destruct key as [|? key]; cbn [length] in Hl; try lia). reflexivity. Qed.

Theorem set_key_is_placed_schedule key : length key = 8%nat -> bytes_ok key = true ->
  set_key key = placed (key_schedule (flat_map byte_bits key)).
Proof.
  intros Hl Hb. destruct (key_schedule_shape _ (key_bits_length key Hl)) as [L16 _].
  apply nth_ext with (d := 0) (d' := 0).
  - rewrite set_key_length, placed_length, L16. reflexivity.
  - intros i Hi. rewrite set_key_length in Hi.
    assert (Ei : i = (2 * (i / 2) + i mod 2)%nat) by (apply Nat.div_mod; lia).
    assert (Hh : (i mod 2 < 2)%nat) by (apply Nat.mod_upper_bound; lia).
    assert (Hr : (i / 2 < 16)%nat) by (apply Nat.div_lt_upper_bound; lia).
    rewrite Ei. rewrite placed_nth by (try exact Hh; rewrite L16; exact Hr).
    apply round_keys; assumption.
Qed.

(* ---------------------------------------------------------------- 16 rounds *)

Lemma xorl_length32 a b : length a = 32%nat -> length b = 32%nat -> length (xorl a b) = 32%nat.
Proof. intros Ha Hb. unfold xorl. rewrite map_length, combine_length. lia. Qed.

Lemma des_rounds_length sb ks : forall L R, length L = 32%nat -> length R = 32%nat ->
  length (fst (des_rounds sb ks L R)) = 32%nat /\ length (snd (des_rounds sb ks L R)) = 32%nat.
Proof.
  induction ks as [|K ks IH]; intros L R HL HR; [split; assumption|]. cbn [des_rounds].
  apply IH; [exact HR|]. apply xorl_length32; [exact HL|apply feistel_length].
Qed.

Lemma placed_cons2 K1 K2 ks : placed (K1 :: K2 :: ks) = place 0 K1 :: place 1 K1 :: place 0 K2 :: place 1 K2 :: placed ks.
Proof. reflexivity. Qed.
Lemma rounds_cons4 k0 k1 k2 k3 rest E0 E1 l r :
  rounds (k0 :: k1 :: k2 :: k3 :: rest) E0 E1 l r =
  let l' := d_encrypt l r E0 E1 k0 k1 in let r' := d_encrypt r l' E0 E1 k2 k3 in rounds rest E0 E1 l' r'.
Proof. reflexivity. Qed.
Lemma des_rounds_cons sb K ks L R : des_rounds sb (K :: ks) L R = des_rounds sb ks R (xorl L (feistel sb R K)).
Proof. reflexivity. Qed.

(* two dEncrypt steps per pass of the inner loop; a trailing odd key would be dropped, so pair the keys *)
Lemma rounds_are_des_rounds sb n : forall ks Lb Rb, length ks = (2 * n)%nat -> Forall (fun K => length K = 48%nat) ks ->
  length sb = 12%nat -> length Lb = 32%nat -> length Rb = 32%nat ->
  rounds (placed ks) (E0_of sb) (E1_of sb) (hw Lb) (hw Rb) =
  (hw (fst (des_rounds sb ks Lb Rb)), hw (snd (des_rounds sb ks Lb Rb))).
Proof.
  induction n as [|n IH]; intros ks Lb Rb Hn HK Hs HL HR.
  - destruct ks; [reflexivity|discriminate].
  - destruct ks as [|K1 [|K2 ks]]; cbn [length] in Hn; try lia.
    inversion HK as [|? ? HK1 HK']; subst. inversion HK' as [|? ? HK2 HK'']; subst.
    rewrite placed_cons2, rounds_cons4, !des_rounds_cons. cbv zeta.
    rewrite (d_encrypt_is_feistel sb Lb Rb K1 Hs HL HR HK1).
    set (L1 := xorl Lb (feistel sb Rb K1)).
    assert (HL1 : length L1 = 32%nat) by (apply xorl_length32; [exact HL|apply feistel_length]).
    rewrite (d_encrypt_is_feistel sb Rb L1 K2 Hs HR HL1 HK2).
    apply IH; try assumption; [lia|]. apply xorl_length32; [exact HR|apply feistel_length].
Qed.

(* ---------------------------------------------------------------- 25 iterations *)

Definition des_iter (sb : list bool) (ks : list (list bool)) (s : list bool * list bool) : list bool * list bool :=
  let '(L16, R16) := des_rounds sb ks (fst s) (snd s) in (R16, L16).

Fixpoint iter_l {A} (n : nat) (f : A -> A) (x : A) : A := match n with O => x | S n' => iter_l n' f (f x) end.
Lemma iter_l_nat {A} n (f : A -> A) : forall x, iter_l n f x = Nat.iter n f x.
Proof.
  induction n as [|n IH]; intros x; [reflexivity|]. cbn [iter_l]. rewrite IH.
  clear IH. induction n as [|n IH]; [reflexivity|].
  change (f (Nat.iter n f (f x)) = f (Nat.iter (S n) f x)). rewrite IH. reflexivity.
Qed.

Lemma des_iter_length sb ks s : length (fst s) = 32%nat -> length (snd s) = 32%nat ->
  length (fst (des_iter sb ks s)) = 32%nat /\ length (snd (des_iter sb ks s)) = 32%nat.
Proof.
  intros H1 H2. unfold des_iter. pose proof (des_rounds_length sb ks _ _ H1 H2) as [A B].
  destruct (des_rounds sb ks (fst s) (snd s)) as [L16 R16]. cbn [fst snd] in *. split; assumption.
Qed.

Lemma iterate_is_des_iter sb ks m : length ks = (2 * m)%nat -> Forall (fun K => length K = 48%nat) ks -> length sb = 12%nat ->
  forall n Lb Rb, length Lb = 32%nat -> length Rb = 32%nat ->
  iterate n (placed ks) (E0_of sb) (E1_of sb) (hw Lb) (hw Rb) =
  (hw (fst (iter_l n (des_iter sb ks) (Lb, Rb))), hw (snd (iter_l n (des_iter sb ks) (Lb, Rb)))).
Proof.
  intros Hm HK Hs. induction n as [|n IH]; intros Lb Rb HL HR; [reflexivity|].
  cbn [iterate iter_l]. rewrite (rounds_are_des_rounds sb m ks Lb Rb Hm HK Hs HL HR).
  pose proof (des_rounds_length sb ks Lb Rb HL HR) as [A B].
  unfold des_iter at 2 4. cbn [fst snd]. destruct (des_rounds sb ks Lb Rb) as [L16 R16]. cbn [fst snd] in *.
  apply IH; assumption.
Qed.

(* ---------------------------------------------------------------- chained des_block: IP after FP cancels *)

Lemma IP_after_FP x : length x = 64%nat -> perm IP (perm FP x) = x.
Proof. intros Hl. destruct_list x 64. reflexivity. Qed.

Lemma FP_zero : perm FP (repeat false 32 ++ repeat false 32) = repeat false 64.
Proof. reflexivity. Qed.

Lemma des_block_chain sb ks n :
  let s := Nat.iter n (des_iter sb ks) (repeat false 32, repeat false 32) in
  Nat.iter n (des_block sb ks) (repeat false 64) = perm FP (fst s ++ snd s) /\
  length (fst s) = 32%nat /\ length (snd s) = 32%nat.
Proof.
  induction n as [|n IH]; [repeat split|]. cbv zeta in *. cbn [Nat.iter nat_rect].
  destruct IH as (E & H1 & H2). fold (Nat.iter n (des_block sb ks) (repeat false 64)). rewrite E.
  fold (Nat.iter n (des_iter sb ks) (repeat false 32, repeat false 32)).
  set (s := Nat.iter n (des_iter sb ks) (repeat false 32, repeat false 32)) in *.
  pose proof (des_iter_length sb ks s H1 H2) as [A B]. split; [|split; assumption].
  unfold des_block. rewrite IP_after_FP by (rewrite app_length; lia).
  rewrite firstn_app, firstn_all2 by lia. replace (32 - length (fst s))%nat with O by lia. cbn [firstn]. rewrite app_nil_r.
  rewrite skipn_app, skipn_all2 by lia. replace (32 - length (fst s))%nat with O by lia. cbn [skipn app].
  unfold des_iter. destruct (des_rounds sb ks (fst s) (snd s)) as [L16 R16]. reflexivity.
Qed.

Lemma hw_zero : hw (repeat false 32) = 0.
Proof. reflexivity. Qed.

(* the 25 iterations of body: the Go state is the pre-output block of the 25th encryption *)
Theorem iterate25_is_crypt_core sb ks m : length ks = (2 * m)%nat -> Forall (fun K => length K = 48%nat) ks -> length sb = 12%nat ->
  exists Lf Rf, length Lf = 32%nat /\ length Rf = 32%nat /\
    iterate 25 (placed ks) (E0_of sb) (E1_of sb) 0 0 = (hw Lf, hw Rf) /\
    Nat.iter 25 (des_block sb ks) (repeat false 64) = perm FP (Lf ++ Rf).
Proof.
  intros Hm HK Hs. pose proof (des_block_chain sb ks 25) as H. cbv zeta in H. destruct H as (E & H1 & H2).
  exists (fst (Nat.iter 25 (des_iter sb ks) (repeat false 32, repeat false 32))),
         (snd (Nat.iter 25 (des_iter sb ks) (repeat false 32, repeat false 32))).
  split; [exact H1|]. split; [exact H2|]. split; [|exact E].
  rewrite <- hw_zero. rewrite (iterate_is_des_iter sb ks m Hm HK Hs 25) by (apply repeat_length).
  rewrite iter_l_nat. reflexivity.
Qed.
