(* C17 — lemmas that hold for every table: the scanner loop, totality and output bounds, ASCII
   transparency, soundness of the table loader. No sweep in this file. *)
From Coq Require Import FMapPositive.
From Verif Require Import Base.Common Gen.Big5Tab Model.C17 Proofs.C17_spec.

(* conversions between [b2u_map] and its definition must unfold the constant, never evaluate the loader *)
Local Strategy expand [b2u_map u2b_map].

(* ------------------------------------------------------------------ the loop *)

(* every iteration consumes input, and a out + b rest <= b p bounds the output linearly *)
Definition progress (a b : nat) (body : list Z -> step) : Prop :=
  forall p, match body p with
            | Stop => True
            | Adv out rest => (length rest < length p)%nat /\ (a * length out + b * length rest <= b * length p)%nat
            end.

Lemma scan_total a b body : progress a b body ->
  forall fuel p, (length p < fuel)%nat -> exists out, scan body fuel p = Ok out /\ (a * length out <= b * length p)%nat.
Proof.
  intros Hp. induction fuel as [|fuel IH]; intros p Hf; [lia|].
  destruct p as [|x p]; [exists []; split; [reflexivity | cbn [length]; lia]|].
  cbn [scan]. specialize (Hp (x :: p)). destruct (body (x :: p)) as [|out rest].
  - exists []. split; [reflexivity | cbn [length]; lia].
  - destruct Hp as [Hlt Hb]. apply Nat.ltb_lt in Hlt as Hlt'. rewrite Hlt'.
    destruct (IH rest) as [o [Ho Hbo]]; [lia|]. rewrite Ho. cbn [res_map].
    exists (out ++ o). split; [reflexivity|]. rewrite app_length. lia.
Qed.

(* an invariant G of the cursor and a property P of the output that every iteration preserves *)
Lemma scan_inv body (G P : list Z -> Prop) :
  P [] ->
  (forall p out rest, G p -> body p = Adv out rest -> G rest /\ forall tail, P tail -> P (out ++ tail)) ->
  forall fuel p o, G p -> scan body fuel p = Ok o -> P o.
Proof.
  intros HP0 Hstep. induction fuel as [|fuel IH]; intros p o HG H.
  - destruct p; cbn [scan] in H; [inversion H; exact HP0 | discriminate].
  - destruct p as [|x p]; cbn [scan] in H; [inversion H; exact HP0|].
    destruct (body (x :: p)) as [|out rest] eqn:Eb; [inversion H; exact HP0|].
    destruct (length rest <? length (x :: p))%nat; [|discriminate].
    destruct (scan body fuel rest) as [o'| |] eqn:Es; cbn [res_map] in H; try discriminate.
    inversion H; subst o. destruct (Hstep _ _ _ HG Eb) as [HG' HP]. apply HP. eapply IH; eauto.
Qed.

(* ------------------------------------------------------------------ the table loader *)

Lemma fold_left_inv {A} (f : tab -> A -> tab) (Q : tab -> Prop) (l : list A) :
  (forall m a, In a l -> Q m -> Q (f m a)) -> forall m, Q m -> Q (fold_left f l m).
Proof.
  induction l as [|a l IH]; intros Hf m Hm; cbn [fold_left]; [exact Hm|].
  apply IH; [intros m' a' Hin; apply Hf; right; exact Hin|]. apply Hf; [left; reflexivity | exact Hm].
Qed.

(* whatever a lookup returns was put there by some row *)
Lemma load_tab_sound kv rows k v :
  PositiveMap.find k (load_tab kv rows) = Some v -> exists r, In r rows /\ k = bkey (fst (kv r)) /\ v = snd (kv r).
Proof.
  unfold load_tab.
  set (Q := fun m : tab => forall k v, PositiveMap.find k m = Some v -> exists r, In r rows /\ k = bkey (fst (kv r)) /\ v = snd (kv r)).
  intros H. revert k v H. change (Q (fold_left (fun m r => PositiveMap.add (bkey (fst (kv r))) (snd (kv r)) m) rows (PositiveMap.empty (list Z)))).
  apply fold_left_inv.
  - intros m r Hin HQ k v H. destruct (Pos.eq_dec k (bkey (fst (kv r)))) as [E|NE].
    + subst k. rewrite PositiveMap.gss in H. inversion H. exists r. auto.
    + rewrite PositiveMap.gso in H by exact NE. apply HQ; exact H.
  - intros k v H. rewrite PositiveMap.gempty in H. discriminate.
Qed.

Lemma utf8_enc_len u : (length (utf8_enc u) <= 3)%nat.
Proof. unfold utf8_enc. destruct (Z.land u (-128) =? 0); [cbn [length]; lia|]. destruct (Z.land u 63488 =? 0); cbn [length]; lia. Qed.

Lemma utf8_enc_bytes u : bytes_ok (utf8_enc u) = true.
Proof.
  assert (W : forall x, is_byte (wrapu8 x) = true).
  { intros x. unfold is_byte, wrapu8. pose proof (Z.mod_pos_bound x 256 ltac:(lia)). apply andb_true_iff. split; [apply Z.leb_le | apply Z.ltb_lt]; lia. }
  unfold utf8_enc. destruct (Z.land u (-128) =? 0); [reflexivity|].
  destruct (Z.land u 63488 =? 0); cbn [bytes_ok forallb]; rewrite ?W; reflexivity.
Qed.

Lemma b2u_lookup_sound k v : lookup b2u_map k = Some v -> exists c u, In (c, u) b2u_rows /\ bkey k = bkey (big5_bytes c) /\ v = utf8_enc u.
Proof.
  unfold lookup, b2u_map.
  intros H. apply load_tab_sound in H. destruct H as [[c u] [Hin [Hk Hv]]]. exists c, u. auto.
Qed.

Lemma u2b_lookup_sound k v : lookup u2b_map k = Some v -> exists c u, In (c, u) u2b_rows /\ bkey k = bkey (utf8_enc u) /\ v = big5_bytes c.
Proof.
  unfold lookup, u2b_map.
  intros H. apply load_tab_sound in H. destruct H as [[c u] [Hin [Hk Hv]]]. exists c, u. auto.
Qed.

Lemma u2b_get_len k : length (u2b_get k) = 2%nat.
Proof.
  unfold u2b_get. destruct (lookup u2b_map k) as [v|] eqn:E; [|reflexivity].
  apply u2b_lookup_sound in E. destruct E as [c [u [_ [_ Hv]]]]. subst v. reflexivity.
Qed.

Lemma u2b_get_bytes k : (forall c u, In (c, u) u2b_rows -> 0 <= c < 65536) -> bytes_ok (u2b_get k) = true.
Proof.
  intros Hr. unfold u2b_get. destruct (lookup u2b_map k) as [v|] eqn:E; [|reflexivity].
  apply u2b_lookup_sound in E. destruct E as [c [u [Hin [_ Hv]]]]. subst v. specialize (Hr _ _ Hin).
  unfold big5_bytes, bytes_ok, is_byte. cbn [forallb].
  assert (0 <= c / 256 < 256) by (split; [apply Z.div_pos; lia | apply Z.div_lt_upper_bound; lia]).
  pose proof (Z.mod_pos_bound c 256 ltac:(lia)).
  repeat (apply andb_true_iff; split); try apply Z.leb_le; try apply Z.ltb_lt; try lia.
Qed.

(* ------------------------------------------------------------------ totality *)

Lemma b2u_progress : progress 2 3 b2u_body.
Proof.
  intros p. unfold b2u_body. destruct p as [|b0 r]; [exact I|].
  destruct (b0 <? 128); [cbn [length]; lia|].
  destruct r as [|b1 r1]; [exact I|].
  destruct (lookup b2u_map [b0; b1]) as [v|] eqn:E.
  - apply b2u_lookup_sound in E. destruct E as [c [u [_ [_ Hv]]]]. subst v.
    pose proof (utf8_enc_len u). cbn [length]. lia.
  - cbn [length]. lia.
Qed.

Lemma u2b_progress : progress 1 2 u2b_body.
Proof.
  intros p. unfold u2b_body, u2b_else. destruct p as [|b0 r]; [exact I|].
  destruct (b0 <? 128); [cbn [length]; lia|].
  destruct r as [|b1 r1]; [cbn [length replacement]; lia|].
  destruct (Z.land b0 224 =? 192); [rewrite u2b_get_len; cbn [length]; lia|].
  destruct r1 as [|b2 r2]; [cbn [length replacement]; lia|].
  destruct (Z.land b0 240 =? 224); [rewrite u2b_get_len; cbn [length]; lia | cbn [length replacement]; lia].
Qed.

Lemma b2u_total s : exists out, big5_to_utf8 s = Ok out /\ (2 * length out <= 3 * length s)%nat.
Proof. unfold big5_to_utf8. apply (scan_total 2 3 _ b2u_progress). lia. Qed.

Lemma u2b_total s : exists out, utf8_to_big5 s = Ok out /\ (length out <= 2 * length s)%nat.
Proof.
  unfold utf8_to_big5. destruct (scan_total 1 2 _ u2b_progress (S (length s)) s) as [o [H1 H2]]; [lia|].
  exists o. split; [exact H1 | lia].
Qed.

(* bytes in, bytes out *)
Lemma b2u_out_bytes s o : bytes_ok s = true -> big5_to_utf8 s = Ok o -> bytes_ok o = true.
Proof.
  unfold big5_to_utf8.
  apply (scan_inv b2u_body (fun p => bytes_ok p = true) (fun o => bytes_ok o = true)); [reflexivity|].
  intros p out rest HG Hb. unfold b2u_body in Hb. destruct p as [|b0 r]; [discriminate|].
  cbn [bytes_ok forallb] in HG. apply andb_true_iff in HG. destruct HG as [Hb0 Hr].
  assert (App : forall x y, bytes_ok x = true -> bytes_ok y = true -> bytes_ok (x ++ y) = true).
  { intros x y Hx Hy. unfold bytes_ok in *. rewrite forallb_app, Hx, Hy. reflexivity. }
  destruct (b0 <? 128).
  - inversion Hb; subst. split; [exact Hr|]. intros tail Ht. apply App; [cbn [bytes_ok forallb]; rewrite Hb0; reflexivity | exact Ht].
  - destruct r as [|b1 r1]; [discriminate|]. cbn [forallb] in Hr. apply andb_true_iff in Hr. destruct Hr as [Hb1 Hr1].
    inversion Hb; subst. split; [exact Hr1|]. intros tail Ht. apply App; [|exact Ht].
    destruct (lookup b2u_map [b0; b1]) as [v|] eqn:E; [|reflexivity].
    apply b2u_lookup_sound in E. destruct E as [c [u [_ [_ Hv]]]]. subst v. apply utf8_enc_bytes.
Qed.

(* ------------------------------------------------------------------ ASCII transparency *)

Definition all_ascii (s : list Z) : Prop := Forall (fun b => b < 128) s.

Lemma scan_ascii body : (forall b r, b < 128 -> body (b :: r) = Adv [b] r) ->
  forall s fuel, all_ascii s -> (length s < fuel)%nat -> scan body fuel s = Ok s.
Proof.
  intros Hb. induction s as [|b s IH]; intros fuel Ha Hf.
  - destruct fuel; reflexivity.
  - destruct fuel as [|fuel]; [lia|]. inversion Ha as [|? ? Hlt Ha']; subst.
    cbn [scan]. rewrite (Hb b s Hlt).
    assert (E : (length s <? length (b :: s))%nat = true) by (apply Nat.ltb_lt; cbn [length]; lia).
    rewrite E. rewrite IH; [reflexivity | exact Ha' | cbn [length] in Hf; lia].
Qed.

Lemma b2u_ascii s : all_ascii s -> big5_to_utf8 s = Ok s.
Proof.
  intros Ha. unfold big5_to_utf8. apply scan_ascii; [|exact Ha|lia].
  intros b r Hlt. unfold b2u_body. apply Z.ltb_lt in Hlt. rewrite Hlt. reflexivity.
Qed.

Lemma u2b_ascii s : all_ascii s -> utf8_to_big5 s = Ok s.
Proof.
  intros Ha. unfold utf8_to_big5. apply scan_ascii; [|exact Ha|lia].
  intros b r Hlt. unfold u2b_body. apply Z.ltb_lt in Hlt. rewrite Hlt. reflexivity.
Qed.

Lemma scan_S body fuel x p :
  scan body (S fuel) (x :: p) =
  match body (x :: p) with
  | Stop => Ok []
  | Adv out rest => if (length rest <? length (x :: p))%nat then res_map (app out) (scan body fuel rest) else Hang
  end.
Proof. reflexivity. Qed.

(* an ASCII prefix is copied and the rest is converted as if it stood alone *)
Lemma scan_ascii_prefix body : (forall b r, b < 128 -> body (b :: r) = Adv [b] r) ->
  forall a s, all_ascii a -> forall o, scan body (S (length s)) s = Ok o -> scan body (S (length (a ++ s))) (a ++ s) = Ok (a ++ o).
Proof.
  intros Hb. induction a as [|b a IH]; intros s Ha o Ho; [exact Ho|].
  inversion Ha as [|? ? Hlt Ha']; subst. cbn [app length]. rewrite scan_S. rewrite (Hb b (a ++ s) Hlt).
  assert (E : (length (a ++ s) <? length (b :: a ++ s))%nat = true) by (apply Nat.ltb_lt; cbn [length]; lia).
  rewrite E. rewrite (IH s Ha' o Ho). reflexivity.
Qed.
