(* C11 — filtered listings (ptt.LoadGeneralBoards with a title filter or a keyword filter, keywordsNotInBoard): the
   model's filtered walks are the generic walks of Proofs/C11_walk.v / C11_walkclass.v with the visibility predicate
   [vis_filter]; what types.Cstrcasestr decides (byte-wise, only 'A'..'Z' folded, bytes >= 0x80 as they are). *)
From Coq Require Import Sorted.
From Verif Require Import Base.Common Base.Cstr Base.ListX Base.OddSearch Model.C11 Proofs.C11_order Proofs.C11_auto Proofs.C11_walk
  Proofs.C11_walkclass.

Lemma load_page_v_is_g vis n start k asc : load_page_v vis n start k asc = load_page_g vis n start k asc.
Proof. reflexivity. Qed.

Lemma walk_v_is_g : forall vis fuel names k asc start pages acc,
  walk_v vis fuel names k asc start pages acc = walk_g vis fuel names k asc start pages acc.
Proof. reflexivity. Qed.

Lemma walk_class_v_is_r : forall vis fuel titles names k asc start pages acc,
  walk_class_v vis fuel titles names k asc start pages acc =
  walk_r (resolve_class titles names asc) vis fuel (lenZ names) k asc start pages acc.
Proof.
  induction fuel as [|f IH]; intros; [reflexivity|]. cbn [walk_class_v walk_r].
  change (load_page_v vis (lenZ names) start k asc) with (load_page_g vis (lenZ names) start k asc).
  destruct (load_page_g vis (lenZ names) start k asc) as [items next].
  destruct next as [i|]; [|reflexivity]. unfold resolve_class.
  destruct (find_by_class titles names (cursor_class (nth (Z.to_nat i) titles [])) (nth (Z.to_nat i) names []) asc) as [s| |]; try reflexivity.
  destruct (s <? 0); [reflexivity|apply IH].
Qed.

Lemma page_walk_filtered_is_g ftitles names tf kw k asc :
  page_walk_filtered ftitles names tf kw k asc = page_walk_g (vis_filter ftitles names tf kw) names k asc.
Proof. apply walk_v_is_g. Qed.

Lemma page_walk_class_filtered_is_g ftitles names tf kw k asc :
  page_walk_class_filtered ftitles names tf kw k asc =
  page_walk_class_g (vis_filter ftitles names tf kw) (map title5 ftitles) names k asc.
Proof. apply walk_class_v_is_r. Qed.

Lemma vis_filter_visible ftitles names tf kw i : vis_filter ftitles names tf kw i = true -> visible names i = true.
Proof. unfold vis_filter. intros H. apply andb_prop in H. exact (proj1 H). Qed.

(* a filtered by-name listing paged through its next-cursor returns exactly the boards that are not vacated and not
   filtered out, each once, in order *)
Theorem page_walk_filtered_spec ftitles names tf kw k asc :
  forallb bytes_ok names = true -> sorted_by less_name names = true -> distinct_names names = true -> (1 <= k)%nat ->
  page_walk_filtered ftitles names tf kw k asc =
  let V := filter (vis_filter ftitles names tf kw) (if asc then zseq 0 (length names) else rev (zseq 0 (length names))) in
  Ok (pages_of (length V) k, map (fun i => i + 1) V).
Proof.
  intros Hb Hs Hd Hk. rewrite page_walk_filtered_is_g.
  apply page_walk_any_visibility; auto. intros i. apply vis_filter_visible.
Qed.

Theorem page_walk_class_filtered_spec ftitles names tf kw k asc :
  length ftitles = length names -> Forall title_ok (map title5 ftitles) ->
  forallb bytes_ok (map title5 ftitles) = true -> forallb bytes_ok names = true ->
  sorted_by less_class (combine (map title5 ftitles) names) = true -> distinct_class (combine (map title5 ftitles) names) = true ->
  (1 <= k)%nat ->
  page_walk_class_filtered ftitles names tf kw k asc =
  let V := filter (vis_filter ftitles names tf kw) (if asc then zseq 0 (length names) else rev (zseq 0 (length names))) in
  Ok (pages_of (length V) k, map (fun i => i + 1) V).
Proof.
  intros Hl Hok Hbt Hbn Hs Hd Hk. rewrite page_walk_class_filtered_is_g.
  apply page_walk_class_any_visibility; auto.
  - rewrite map_length. exact Hl.
  - intros i. apply vis_filter_visible.
Qed.

(* non-vacuity: a Big5 title filter on a table with Big5 titles and a high-byte name lists exactly the one board whose
   title contains the four bytes — not the board whose title holds four OTHER high bytes *)
Example ex_filtered_big5 :
  page_walk_filtered [[65;65;65;65;32;180;250;184;213]; [65;65;65;65;32;164;223;177;111]; [66;66;66;66;32;116]]
                     [[97]; [97;98]; [180;250;120]] [180;250;184;213] [] 1 true = Ok (1, [1]).
Proof. vm_compute. reflexivity. Qed.
Example ex_filtered_class_kw :
  page_walk_class_filtered [[65;65;65;65;32;180;250;184;213]; [65;65;65;65;32;164;223;177;111]; [66;66;66;66;32;116]]
                     [[97]; [97;98]; [180;250;120]] [] [180;250] 1 false = Ok (2, [3; 1]).
Proof. vm_compute. reflexivity. Qed.

(* ---------------------------------------------------------------- what the filter decides *)
Lemma prefix_eqb_spec : forall p s, prefix_eqb p s = true <-> exists post, s = p ++ post.
Proof.
  induction p as [|x p IH]; intros s; cbn [prefix_eqb].
  - split; [intros _; exists s; reflexivity | intros _; reflexivity].
  - destruct s as [|y s].
    + split; [discriminate | intros [post H]; discriminate].
    + rewrite Bool.andb_true_iff, Z.eqb_eq, IH. split.
      * intros [E [post H]]. subst. exists post. reflexivity.
      * intros [post H]. cbn [app] in H. injection H as H1 H2. subst. split; [reflexivity | exists post; reflexivity].
Qed.

(* bytes.Index: -1 exactly when p does not occur in s, else the FIRST position where it occurs *)
Lemma index_of_spec : forall p s i,
  (index_of p s i = -1 /\ forall pre post, s <> pre ++ p ++ post) \/
  (exists pre post, s = pre ++ p ++ post /\ index_of p s i = i + lenZ pre /\
     forall pre' post', s = pre' ++ p ++ post' -> (length pre <= length pre')%nat).
Proof.
  intros p. induction s as [|y s IH]; intros i; cbn [index_of].
  - destruct (prefix_eqb p []) eqn:E.
    + right. apply prefix_eqb_spec in E. destruct E as [post E]. exists [], post. cbn [app]. split; [exact E|].
      split; [unfold lenZ; cbn; lia | intros; cbn; lia].
    + left. split; [reflexivity|]. intros pre post H. destruct pre; [|discriminate]. cbn [app] in H.
      assert (prefix_eqb p [] = true) by (apply prefix_eqb_spec; exists post; exact H). congruence.
  - destruct (prefix_eqb p (y :: s)) eqn:E.
    + right. apply prefix_eqb_spec in E. destruct E as [post E]. exists [], post. cbn [app]. split; [exact E|].
      split; [unfold lenZ; cbn; lia | intros; cbn; lia].
    + destruct (IH (i + 1)) as [[H1 H2] | (pre & post & H1 & H2 & H3)].
      * left. split; [exact H1|]. intros pre post H. destruct pre as [|z pre].
        -- cbn [app] in H. assert (prefix_eqb p (y :: s) = true) by (apply prefix_eqb_spec; exists post; exact H). congruence.
        -- cbn [app] in H. injection H as _ H. exact (H2 pre post H).
      * right. exists (y :: pre), post. split; [cbn [app]; rewrite H1; reflexivity|]. split.
        -- rewrite H2. unfold lenZ. cbn [length]. lia.
        -- intros pre' post' H. destruct pre' as [|z pre'].
           ++ cbn [app] in H. assert (prefix_eqb p (y :: s) = true) by (apply prefix_eqb_spec; exists post'; exact H). congruence.
           ++ cbn [app] in H. injection H as _ H. specialize (H3 pre' post' H). cbn [length]. lia.
Qed.

Lemma cprefix_app_nz : forall a r, Forall (fun b => b <> 0) a -> cprefix (a ++ r) = a ++ cprefix r.
Proof.
  induction a as [|x a IH]; intros r H; [reflexivity|]. inversion H as [|? ? Hx Ha]; subst.
  cbn [app cprefix]. destruct (x =? 0) eqn:E; [apply Z.eqb_eq in E; contradiction|]. rewrite IH; auto.
Qed.

Lemma cprefix_split : forall s, exists rest, s = cprefix s ++ rest.
Proof.
  induction s as [|x s [rest IH]]; [exists []; reflexivity|]. cbn [cprefix].
  destruct (x =? 0); [exists (x :: s); reflexivity|]. exists rest. cbn [app]. rewrite <- IH. reflexivity.
Qed.

Lemma cprefix_past : forall pre r, (length pre < length (cprefix (pre ++ r)))%nat -> cprefix (pre ++ r) = pre ++ cprefix r.
Proof.
  induction pre as [|x pre IH]; intros r H; [reflexivity|]. cbn [app cprefix] in *.
  destruct (x =? 0); [cbn [length] in H; lia|]. cbn [length] in H. rewrite IH; [reflexivity|lia].
Qed.

(* types.Cstrstr for a non-empty needle without NUL: found exactly when the needle occurs in the C string *)
Lemma cstrstr_meaning s p : p <> [] -> Forall (fun b => b <> 0) p ->
  (0 <= cstrstr s p <-> exists pre post, cprefix s = pre ++ p ++ post).
Proof.
  intros Hne Hnz. unfold cstrstr. cbv zeta. split.
  - intros H. destruct (index_of_spec p s 0) as [[H1 _] | (pre & post & H1 & H2 & _)].
    + rewrite H1 in H. cbn in H. lia.
    + revert H. rewrite H2.
      destruct ((0 + lenZ pre <? 0) || (lenZ (cprefix s) <=? 0 + lenZ pre)) eqn:E; intros H; [lia|].
      apply Bool.orb_false_iff in E. destruct E as [_ E]. apply Z.leb_gt in E. unfold lenZ in E.
      exists pre, (cprefix post). rewrite H1. rewrite cprefix_past; [|rewrite <- H1; lia].
      rewrite cprefix_app_nz; [reflexivity|exact Hnz].
  - intros (pre & post & H). destruct (cprefix_split s) as [rest Hs]. rewrite H in Hs.
    assert (Hs' : s = pre ++ p ++ (post ++ rest)) by (rewrite Hs; rewrite <- !app_assoc; reflexivity).
    destruct (index_of_spec p s 0) as [[_ H2] | (pre0 & post0 & H1 & H2 & H3)].
    + exfalso. exact (H2 _ _ Hs').
    + specialize (H3 _ _ Hs'). rewrite H2.
      assert (Hl : (length pre < length (cprefix s))%nat).
      { rewrite H. rewrite !app_length. destruct p; [contradiction|]. cbn [length]. lia. }
      assert (E : (0 + lenZ pre0 <? 0) || (lenZ (cprefix s) <=? 0 + lenZ pre0) = false).
      { apply Bool.orb_false_iff. unfold lenZ. split; [apply Z.ltb_ge; lia | apply Z.leb_gt; lia]. }
      rewrite E. unfold lenZ. lia.
Qed.

Lemma tolower_nz b : b <> 0 -> tolower b <> 0.
Proof. unfold tolower. intros H. destruct ((65 <=? b) && (b <=? 90)) eqn:E; [|exact H]. apply andb_prop in E. destruct E as [E _]. apply Z.leb_le in E. lia. Qed.

(* only 'A'..'Z' are folded: a byte >= 0x80 (Big5) is compared as it is *)
Lemma tolower_high b : 91 <= b -> tolower b = b.
Proof. unfold tolower. intros H. destruct (b <=? 90) eqn:E; [apply Z.leb_le in E; lia|]. rewrite Bool.andb_false_r. reflexivity. Qed.

(* types.Cstrcasestr with a non-empty filter without NUL: >= 0 exactly when the byte-wise folded filter occurs in the
   byte-wise folded C string *)
Theorem filter_meaning s p : p <> [] -> Forall (fun b => b <> 0) p ->
  (0 <= cstrcasestr s p <-> exists pre post, cprefix (map tolower s) = pre ++ map tolower p ++ post).
Proof.
  intros Hne Hnz. unfold cstrcasestr. apply cstrstr_meaning.
  - destruct p; [contradiction|discriminate].
  - apply Forall_forall. intros b Hb. apply in_map_iff in Hb. destruct Hb as (a & <- & Ha).
    apply tolower_nz. rewrite Forall_forall in Hnz. exact (Hnz a Ha).
Qed.
