(* C01 — restart on a left-over shared-memory segment (cache.NewSHM): a segment that already exists is verified,
   never written; only a segment whose stamps are this configuration's is accepted. *)
From Verif Require Import Base.Common Model.C01.
From Verif Require Gen.Consts_default Gen.Consts_docker.
Local Open Scope list_scope.
Local Open Scope Z_scope.

Lemma newshm_keeps_leftover c al b g : snd (newshm c al b (Some g)) = Some g.
Proof. cbn [newshm]. destruct (sg_alloc g <? shm_size c al); reflexivity. Qed.

Lemma shm_verify_ok c g : shm_verify c g = (ST_OK, 0) <-> sg_ver g = shm_version c /\ sg_size g = shm_raw_sz c.
Proof.
  unfold shm_verify. destruct (sg_ver g =? shm_version c) eqn:Hv; [destruct (sg_size g =? shm_raw_sz c) eqn:Hs|].
  - split; [intros _; split; lia | reflexivity].
  - split; [intros H; discriminate H | intros [_ H]; lia].
  - split; [intros H; discriminate H | intros [H _]; lia].
Qed.

Lemma newshm_accepts_iff c al b g :
  fst (newshm c al b (Some g)) = (ST_OK, 0) <->
  sg_ver g = shm_version c /\ sg_size g = shm_raw_sz c /\ shm_size c al <= sg_alloc g.
Proof.
  cbn [newshm]. destruct (sg_alloc g <? shm_size c al) eqn:Ha; cbn [fst].
  - split; [intros H; discriminate H | intros (_ & _ & H); lia].
  - rewrite shm_verify_ok. split; [intros [H1 H2]; repeat split; try assumption; lia | intros (H1 & H2 & _); split; assumption].
Qed.

Lemma newshm_refusal_codes c al b g :
  fst (newshm c al b (Some g)) =
    if sg_alloc g <? shm_size c al then (ST_ERR, ERR_SHMGET)
    else if negb (sg_ver g =? shm_version c) then (ST_ERR, ERR_SHM_VERSION)
    else if negb (sg_size g =? shm_raw_sz c) then (ST_ERR, ERR_SHM_SIZE) else (ST_OK, 0).
Proof.
  cbn [newshm]. destruct (sg_alloc g <? shm_size c al); cbn [fst]; [reflexivity|].
  unfold shm_verify. destruct (sg_ver g =? shm_version c); cbn [negb]; [|reflexivity].
  destruct (sg_size g =? shm_raw_sz c); reflexivity.
Qed.

Lemma shm_raw_sz_distinct : shm_raw_sz Default <> shm_raw_sz Docker.
Proof. vm_compute. intros H; discriminate H. Qed.

Lemma newshm_refuses_other_configuration c c' al b g :
  c <> c' -> sg_size g = shm_raw_sz c' -> fst (newshm c al b (Some g)) <> (ST_OK, 0).
Proof.
  intros Hc Hs Hok. apply newshm_accepts_iff in Hok. destruct Hok as (_ & Hs' & _).
  rewrite Hs in Hs'. destruct c, c'; try (apply Hc; reflexivity).
  - apply shm_raw_sz_distinct. symmetry. exact Hs'.
  - apply shm_raw_sz_distinct. exact Hs'.
Qed.

Lemma newshm_first_start c al :
  newshm c al true None = ((ST_OK, 0), Some (fresh_seg c al)) /\ newshm c al false None = ((ST_ERR, ERR_SHMGET), None).
Proof.
  split; [|reflexivity]. cbn [newshm].
  assert (H : shm_verify c (fresh_seg c al) = (ST_OK, 0)) by (apply shm_verify_ok; split; reflexivity).
  rewrite H. reflexivity.
Qed.

Definition foreign (c : cfg) (al : Z) (g : seg) : Prop :=
  sg_ver g <> shm_version c \/ sg_size g <> shm_raw_sz c \/ sg_alloc g < shm_size c al.

Lemma foreign_refused c al b g : foreign c al g -> shm_accepted (fst (newshm c al b (Some g))) = false.
Proof.
  intros Hf. rewrite newshm_refusal_codes. unfold shm_accepted.
  destruct (sg_alloc g <? shm_size c al) eqn:Ha; [reflexivity|].
  destruct (sg_ver g =? shm_version c) eqn:Hv; cbn [negb]; [|reflexivity].
  destruct (sg_size g =? shm_raw_sz c) eqn:Hs; cbn [negb]; [|reflexivity].
  exfalso. destruct Hf as [H|[H|H]]; lia.
Qed.

(* a segment that is not this configuration's survives ANY number of restarts unchanged, and every run is refused *)
Lemma history_foreign_untouched c al : forall rs g, foreign c al g ->
  snd (shm_history c al rs (Some g)) = Some g /\
  Forall (fun o => shm_accepted (fst o) = false /\ snd o = Some g) (fst (shm_history c al rs (Some g))).
Proof.
  induction rs as [|r rs IH]; intros g Hf; [split; [reflexivity|constructor]|].
  cbn [shm_history]. unfold shm_run.
  pose proof (foreign_refused c al (r_create r) g Hf) as Hr.
  pose proof (newshm_keeps_leftover c al (r_create r) g) as Hk.
  destruct (newshm c al (r_create r) (Some g)) as [o s1]. cbn [fst snd] in Hr, Hk. subst s1. rewrite Hr.
  destruct (IH g Hf) as [H1 H2].
  destruct (shm_history c al rs (Some g)) as [os s2]. cbn [fst snd] in *.
  split; [exact H1|]. constructor; [split; [exact Hr|reflexivity]|exact H2].
Qed.

(* over any history the stamps (allocation, Version, Size) of an existing segment never change, and what a run
   observes right after NewSHM is exactly the segment the previous run left *)
Definition same_stamps (g g' : seg) : Prop := sg_alloc g' = sg_alloc g /\ sg_ver g' = sg_ver g /\ sg_size g' = sg_size g.

Lemma run_stamps c al r g : exists g', snd (shm_run c al r (Some g)) = Some g' /\ same_stamps g g' /\
  snd (fst (shm_run c al r (Some g))) = Some g.
Proof.
  unfold shm_run. pose proof (newshm_keeps_leftover c al (r_create r) g) as Hk.
  destruct (newshm c al (r_create r) (Some g)) as [o s1]. cbn [snd] in Hk. subst s1. cbn [fst snd].
  destruct (shm_accepted o); cbn [option_map].
  - eexists. split; [reflexivity|]. split; [repeat split|reflexivity].
  - exists g. split; [reflexivity|]. split; [repeat split|reflexivity].
Qed.

Lemma history_stamps c al : forall rs g, exists g', snd (shm_history c al rs (Some g)) = Some g' /\ same_stamps g g'.
Proof.
  induction rs as [|r rs IH]; intros g; [exists g; split; [reflexivity|repeat split]|].
  cbn [shm_history]. destruct (run_stamps c al r g) as (g1 & H1 & (Ha & Hv & Hs) & _).
  destruct (shm_run c al r (Some g)) as [o s1]. cbn [snd] in H1. subst s1.
  destruct (IH g1) as (g2 & H2 & (Ha2 & Hv2 & Hs2)).
  destruct (shm_history c al rs (Some g1)) as [os s2]. cbn [snd] in *.
  exists g2. split; [exact H2|]. unfold same_stamps. repeat split; congruence.
Qed.

(* non-vacuity: a first start, work, a restart of the same configuration (accepted, Number/Loaded survive), then a
   restart of the other configuration over a large enough segment (refused, nothing changes) *)
Example restart_example :
  let rs := [{| r_create := true; r_number := 7; r_loaded := 1 |}; {| r_create := true; r_number := 9; r_loaded := 1 |}] in
  map (fun o => (fst o, option_map (fun g => (sg_number g, sg_loaded g)) (snd o))) (fst (shm_history Default 1048576 rs None))
    = [((ST_OK, 0), Some (0, 0)); ((ST_OK, 0), Some (7, 1))] /\
  fst (newshm Default 1048576 true (Some (fresh_seg Docker 1048576))) = (ST_ERR, ERR_SHM_SIZE) /\
  fst (newshm Docker 1048576 true (Some (fresh_seg Default 1048576))) = (ST_ERR, ERR_SHMGET) /\
  foreign Default 1048576 (fresh_seg Docker 1048576).
Proof. vm_compute. repeat split; try reflexivity. right. left. intros H; discriminate H. Qed.

Lemma restart_verifies_never_stamps :
  (forall c al isCreate g, snd (newshm c al isCreate (Some g)) = Some g) /\
  (forall c al isCreate g,
     (fst (newshm c al isCreate (Some g)) = (ST_OK, 0) <->
        sg_ver g = shm_version c /\ sg_size g = shm_raw_sz c /\ shm_size c al <= sg_alloc g) /\
     fst (newshm c al isCreate (Some g)) =
       if sg_alloc g <? shm_size c al then (ST_ERR, ERR_SHMGET)
       else if negb (sg_ver g =? shm_version c) then (ST_ERR, ERR_SHM_VERSION)
       else if negb (sg_size g =? shm_raw_sz c) then (ST_ERR, ERR_SHM_SIZE) else (ST_OK, 0)) /\
  (shm_raw_sz Default <> shm_raw_sz Docker /\
   forall c c' al isCreate g, c <> c' -> sg_size g = shm_raw_sz c' -> fst (newshm c al isCreate (Some g)) <> (ST_OK, 0)) /\
  (forall c al, newshm c al true None = ((ST_OK, 0), Some (fresh_seg c al)) /\
                newshm c al false None = ((ST_ERR, ERR_SHMGET), None)).
Proof.
  exact (conj newshm_keeps_leftover
        (conj (fun c al b g => conj (newshm_accepts_iff c al b g) (newshm_refusal_codes c al b g))
        (conj (conj shm_raw_sz_distinct newshm_refuses_other_configuration) newshm_first_start))).
Qed.

Lemma restart_history_stamps_fixed :
  (forall c al rs g, exists g', snd (shm_history c al rs (Some g)) = Some g' /\
     sg_alloc g' = sg_alloc g /\ sg_ver g' = sg_ver g /\ sg_size g' = sg_size g) /\
  (forall c al rs g,
     sg_ver g <> shm_version c \/ sg_size g <> shm_raw_sz c \/ sg_alloc g < shm_size c al ->
     snd (shm_history c al rs (Some g)) = Some g /\
     Forall (fun o => shm_accepted (fst o) = false /\ snd o = Some g) (fst (shm_history c al rs (Some g)))).
Proof. exact (conj history_stamps history_foreign_untouched). Qed.
