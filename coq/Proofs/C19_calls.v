(* C19: kill points at system-call granularity. The call list of a save as ptrace(2) shows it (Model/C19.v: call,
   cexec) - the theorems about save_syscalls carry over to it call by call; and a save whose last step unlinks the
   target before renaming over it (a "force rename") passes, for EVERY tree and EVERY existing .fav, through a
   directory without .fav. *)
From Verif Require Import Base.Common Base.ListX Base.Fs Gen.Consts_default Model.C19.
From Verif Require Import Proofs.C19_rt Proofs.C19_crash Proofs.C19_api Proofs.C19_clean Proofs.C19_save Proofs.C19_disk.

Lemma cexec_ops (ops : list op) : forall s, cexec s (map COp ops) = exec s ops.
Proof.
  induction ops as [|o r IH]; intros s; [reflexivity|].
  cbn [map]. unfold cexec, exec in *. cbn [fold_left cstep]. apply IH.
Qed.

Lemma cexec_app s a b : cexec s (a ++ b) = cexec (cexec s a) b.
Proof. unfold cexec. apply fold_left_app. Qed.

Lemma firstn_map_call n (ops : list op) : firstn n (map COp ops) = map COp (firstn n ops).
Proof. apply firstn_map. Qed.

(* the save as coded: after ANY number of its calls .fav is as before or the complete new image, nothing else changes *)
Lemma save_calls_any_disk z f rel (disk : fs) : lvl z f ->
  exists f1, cleanup f = Ok f1 /\ wf_fav f1 /\
    (forall n, let disk' := cexec disk (firstn n (save_calls rel (lookup FN_FAV disk) f)) in
       (lookup FN_FAV disk' = lookup FN_FAV disk \/
        (writes rel (lookup FN_FAV disk) = true /\ lookup FN_FAV disk' = Some (spec_file f1) /\
         load (spec_file f1) = ROk (renumber f1))) /\
       (forall m, m <> FN_FAV -> m <> FN_TMP -> lookup m disk' = lookup m disk)).
Proof.
  intros Hl. destruct (save_any_disk z f rel disk Hl) as (f1 & Ec & Hw & Hn & _).
  exists f1. split; [exact Ec|]. split; [exact Hw|].
  intros n. cbv zeta. unfold save_calls. rewrite firstn_map_call, cexec_ops. exact (Hn n).
Qed.

(* hence an existing .fav never disappears and always loads, at the entry of every call *)
Lemma save_calls_keep_fav z f rel (disk : fs) c : lvl z f -> lookup FN_FAV disk = Some c ->
  forall n, lookup FN_FAV (cexec disk (firstn n (save_calls rel (lookup FN_FAV disk) f))) <> None.
Proof.
  intros Hl Hc n. destruct (save_calls_any_disk z f rel disk Hl) as (f1 & _ & _ & Hn).
  destruct (Hn n) as [[H|(_ & H & _)] _]; cbv zeta in H; rewrite H; [rewrite Hc|]; discriminate.
Qed.

(* the force rename: for every tree and every existing .fav that the gate lets the save replace there is a kill point
   (the entry of the final rename) at which the directory holds no .fav - neither the old nor the new version *)
Lemma force_rename_torn z f rel (disk : fs) c : lvl z f -> lookup FN_FAV disk = Some c -> 0 < rel ->
  let cs := force_rename_calls rel (Some c) f in
  exists n, (n < length cs)%nat /\ lookup FN_FAV (cexec disk (firstn n cs)) = None /\
            lookup FN_FAV (cexec disk cs) <> None.
Proof.
  intros Hl Hc Hrel. cbv zeta.
  destruct (cleanup_spec z f Hl) as (f1 & Ec & _ & _ & _ & Hw1 & _).
  destruct (file_chunks_of_image f1 _ (format f1 Hw1)) as (cs & Ecs & _).
  unfold force_rename_calls. rewrite Ec, Ecs.
  assert (Ew : writes rel (Some c) = true) by (unfold writes; apply Z.ltb_lt; exact Hrel).
  rewrite Ew.
  set (pre := COp (Create FN_TMP) :: map (fun b => COp (Write FN_TMP b)) (map snd cs)).
  exists (length pre + 1)%nat. split; [|split].
  - rewrite !app_length. cbn [length]. lia.
  - rewrite firstn_app_2. cbn [firstn app]. rewrite cexec_app. unfold cexec at 1. cbn [fold_left cstep].
    apply lookup_remove_same.
  - rewrite cexec_app, cexec_app. set (s1 := cexec (cexec disk pre) [CUnlink FN_FAV]).
    unfold cexec at 1. cbn [fold_left cstep step].
    assert (Ht : exists t, lookup FN_TMP s1 = Some t).
    { unfold s1. unfold cexec at 1. cbn [fold_left cstep].
      rewrite lookup_remove_other by (exact tmp_ne_fav).
      replace pre with (map COp (Create FN_TMP :: map (Write FN_TMP) (map snd cs))).
      2:{ unfold pre. cbn [map]. rewrite map_map. reflexivity. }
      rewrite cexec_ops. change (Create FN_TMP :: ?l) with ([Create FN_TMP] ++ l). rewrite exec_app.
      destruct (exec_writes FN_TMP (map snd cs) (exec disk [Create FN_TMP]) []) as [H _].
      { unfold exec. cbn [fold_left step]. apply lookup_set_same. }
      eexists. exact H. }
    destruct Ht as (t & Et). rewrite Et. rewrite lookup_set_same. discriminate.
Qed.

(* non-vacuity: the example tree over an older .fav: 25 calls as coded, .fav present after each prefix; 26 calls with the
   force rename, no .fav at the entry of the last one *)
Example ex_force_rename : exists t n,
  run_script ex_script empty_fav 0 = Some (t, n) /\
  let disk := [(FN_FAV, [35; 13; 0; 0; 0; 0])] in
  length (save_calls 1 (lookup FN_FAV disk) t) = 25%nat /\
  length (force_rename_calls 1 (lookup FN_FAV disk) t) = 26%nat /\
  lookup FN_FAV (cexec disk (firstn 24 (save_calls 1 (lookup FN_FAV disk) t))) = Some [35; 13; 0; 0; 0; 0] /\
  lookup FN_FAV (cexec disk (firstn 25 (force_rename_calls 1 (lookup FN_FAV disk) t))) = None.
Proof.
  eexists. eexists. split; [vm_compute; reflexivity|]. cbv zeta. repeat split; vm_compute; reflexivity.
Qed.
