(* C07 — lemmas. The decision rule is settled by evaluating the whole table of the 16 abstract inputs
   inside the kernel (vm_compute over [all_inp]) and lifting the sweep to a universally quantified statement. *)
From Verif Require Import Base.Common Gen.Consts_default Model.C07.

(* ------------------------------------------------------------------ exhaustive sweep over the input record *)
Definition allb (f : bool -> bool) : bool := f true && f false.
Lemma allb_spec f : allb f = true -> forall b, f b = true.
Proof. unfold allb. intros H b. apply andb_prop in H. destruct H as [Ht Hf]. destruct b; assumption. Qed.

Definition all_inp (P : inp -> bool) : bool :=
  allb (fun a1 => allb (fun a2 => allb (fun a3 => allb (fun a4 => allb (fun a5 => allb (fun a6 => allb (fun a7 => allb (fun a8 =>
  allb (fun a9 => allb (fun a10 => allb (fun a11 => allb (fun a12 => allb (fun a13 => allb (fun a14 => allb (fun a15 => allb (fun a16 =>
    P (mk_inp a1 a2 a3 a4 a5 a6 a7 a8 a9 a10 a11 a12 a13 a14 a15 a16))))))))))))))))).

Lemma all_inp_spec P : all_inp P = true -> forall i, P i = true.
Proof.
  intros H i. destruct i as [a1 a2 a3 a4 a5 a6 a7 a8 a9 a10 a11 a12 a13 a14 a15 a16]. unfold all_inp in H.
  pose proof (allb_spec _ H a1) as H1. cbv beta in H1.
  pose proof (allb_spec _ H1 a2) as H2. cbv beta in H2.
  pose proof (allb_spec _ H2 a3) as H3. cbv beta in H3.
  pose proof (allb_spec _ H3 a4) as H4. cbv beta in H4.
  pose proof (allb_spec _ H4 a5) as H5. cbv beta in H5.
  pose proof (allb_spec _ H5 a6) as H6. cbv beta in H6.
  pose proof (allb_spec _ H6 a7) as H7. cbv beta in H7.
  pose proof (allb_spec _ H7 a8) as H8. cbv beta in H8.
  pose proof (allb_spec _ H8 a9) as H9. cbv beta in H9.
  pose proof (allb_spec _ H9 a10) as H10. cbv beta in H10.
  pose proof (allb_spec _ H10 a11) as H11. cbv beta in H11.
  pose proof (allb_spec _ H11 a12) as H12. cbv beta in H12.
  pose proof (allb_spec _ H12 a13) as H13. cbv beta in H13.
  pose proof (allb_spec _ H13 a14) as H14. cbv beta in H14.
  pose proof (allb_spec _ H14 a15) as H15. cbv beta in H15.
  exact (allb_spec _ H15 a16).
Qed.

(* the sweep really visits 2^16 rows *)
Definition count_inp : Z :=
  let c (f : bool -> Z) := f true + f false in
  c (fun _ => c (fun _ => c (fun _ => c (fun _ => c (fun _ => c (fun _ => c (fun _ => c (fun _ =>
  c (fun _ => c (fun _ => c (fun _ => c (fun _ => c (fun _ => c (fun _ => c (fun _ => c (fun _ => 1)))))))))))))))).
Example count_inp_65536 : count_inp = 65536.
Proof. vm_compute. reflexivity. Qed.

(* ------------------------------------------------------------------ the rule *)
Definition allowed (i : inp) : bool := negb (perm_stat i =? NBRD_INVALID).

Lemma rule_sweep : all_inp (fun i => Bool.eqb (allowed i) (may_read i)) = true.
Proof. vm_compute. reflexivity. Qed.

Lemma allowed_may_read i : allowed i = may_read i.
Proof. apply eqb_prop. exact (all_inp_spec _ rule_sweep i). Qed.

Lemma rule : forall i, perm_stat i <> NBRD_INVALID <-> may_read i = true.
Proof.
  intros i. rewrite <- allowed_may_read. unfold allowed.
  destruct (Z.eqb_spec (perm_stat i) NBRD_INVALID) as [E | E]; cbn; split; intros H; congruence.
Qed.

Lemma invalid_iff i : (perm_stat i =? NBRD_INVALID) = negb (may_read i).
Proof. rewrite <- allowed_may_read. unfold allowed. rewrite negb_involutive. reflexivity. Qed.

(* the result is one of the three values the code returns *)
Lemma stat_values_sweep :
  all_inp (fun i => (perm_stat i =? NBRD_INVALID) || (perm_stat i =? NBRD_FAV) || (perm_stat i =? NBRD_BOARD)) = true.
Proof. vm_compute. reflexivity. Qed.

(* non-vacuity: both outcomes occur, on consistent rows *)
Example rule_allows : exists i, consistent i = true /\ i_sysop i = false /\ may_read i = true /\ perm_stat i = NBRD_FAV.
Proof. exists (mk_inp false false false true true false false false false false false false false false true false). vm_compute. auto. Qed.
Example rule_denies : exists i, consistent i = true /\ may_read i = false /\ perm_stat i = NBRD_INVALID.
Proof. exists (mk_inp false false false true true false false false false false false true true false true false). vm_compute. auto. Qed.

(* ------------------------------------------------------------------ the model on numbers factors through the record *)
Lemma perm_stat_bits_abs ulevel o18 inbm fr nbm battr blevel :
  perm_stat_bits ulevel o18 inbm fr battr blevel = perm_stat (abs ulevel o18 inbm fr nbm battr blevel).
Proof.
  unfold perm_stat_bits, perm_stat, perm_stat_normally, is_bm_cache_bits, is_bm_cache, abs, has.
  cbn [i_sysop i_police i_policeman i_basic i_verified i_inbm i_friend i_uover18 i_haslevel i_permboard i_namedbm
       i_hidden i_postmask i_bover18 i_level0 i_levelbm].
  destruct (Z.land ulevel PERM_SYSOP =? 0); cbn [negb]; [| reflexivity].
  destruct (Z.land blevel PERM_BM =? 0), (Z.land ulevel PERM_POLICE =? 0), (Z.land ulevel PERM_POLICE_MAN =? 0),
    (Z.land ulevel PERM_BASIC =? 0), (Z.land ulevel PERM_LOGINOK =? 0), inbm; cbn [negb andb orb]; try reflexivity;
  destruct (Z.land battr BRD_HIDE =? 0), fr, (Z.land battr BRD_POSTMASK =? 0); cbn [negb andb orb]; try reflexivity;
  destruct (Z.land battr BRD_OVER18 =? 0), o18; cbn [negb andb orb]; try reflexivity;
  destruct (blevel =? 0), (Z.land ulevel blevel =? 0); cbn [negb andb orb]; reflexivity.
Qed.

Lemma group_op_bits_abs ulevel o18 inbm fr nbm battr blevel :
  group_op_bits ulevel nbm = group_op (abs ulevel o18 inbm fr nbm battr blevel).
Proof.
  unfold group_op_bits, group_op, abs. cbn [i_permboard i_namedbm].
  destruct (has ulevel PERM_NOCITIZEN), (has ulevel PERM_BOARD), nbm; reflexivity.
Qed.

(* ------------------------------------------------------------------ constants the model relies on *)
(* frozen copy of the bit values (pttbbs perm.h / pttstruct.h); gosync regenerates the left-hand sides *)
Lemma constants :
  PERM_BASIC = 1 /\ PERM_LOGINOK = 16 /\ PERM_BM = 1024 /\ PERM_BOARD = 8192 /\ PERM_SYSOP = 16384 /\
  PERM_NOCITIZEN = 4194304 /\ PERM_POLICE_MAN = 268435456 /\ PERM_POLICE = 2147483648 /\
  BRD_GROUPBOARD = 8 /\ BRD_HIDE = 16 /\ BRD_POSTMASK = 32 /\ BRD_SYMBOLIC = 32768 /\ BRD_OVER18 = 16777216 /\
  NBRD_INVALID = 0 /\ NBRD_FAV = 1 /\ NBRD_BOARD = 2 /\ NBRD_LINE = 4 /\ NBRD_FOLDER = 8 /\ USE_REAL_DESC = 0 /\
  (* ... and in EVERY build configuration gosync translates (default, and -tags docker: the production build): the same
     words in the same order, and the option that lets a refused summary carry the real title is off *)
  (forall c : build, build_words c =
     [1; 16; 1024; 8192; 16384; 4194304; 268435456; 2147483648; 8; 16; 32; 32768; 16777216; 0; 1; 2; 4; 8; 0]) /\
  (forall c : build, use_real_desc c = 0).
Proof. repeat split; try reflexivity; intros c; destruct c; reflexivity. Qed.

(* every consistent row of the table is produced by some user level / board attribute / board level *)
Definition bit (b : bool) (m : Z) : Z := if b then m else 0.
Definition materialise (i : inp) : Z * Z * Z :=
  (bit (i_sysop i) PERM_SYSOP + bit (i_police i) PERM_POLICE + bit (i_policeman i) PERM_POLICE_MAN + bit (i_basic i) PERM_BASIC
   + bit (i_verified i) PERM_LOGINOK + bit (i_permboard i) PERM_BOARD + bit (i_haslevel i) ptttype.PERM_CHAT,
   bit (i_hidden i) BRD_HIDE + bit (i_postmask i) BRD_POSTMASK + bit (i_bover18 i) BRD_OVER18,
   if i_level0 i then 0 else bit (i_levelbm i) PERM_BM + (if i_haslevel i then ptttype.PERM_CHAT else ptttype.PERM_ANGEL)).
Definition abs_mat (i : inp) : inp :=
  let '(ul, ba, bl) := materialise i in abs ul (i_uover18 i) (i_inbm i) (i_friend i) (i_namedbm i) ba bl.

Definition inp_eqb (i j : inp) : bool :=
  Bool.eqb (i_sysop i) (i_sysop j) && Bool.eqb (i_police i) (i_police j) && Bool.eqb (i_policeman i) (i_policeman j)
  && Bool.eqb (i_basic i) (i_basic j) && Bool.eqb (i_verified i) (i_verified j) && Bool.eqb (i_inbm i) (i_inbm j)
  && Bool.eqb (i_friend i) (i_friend j) && Bool.eqb (i_uover18 i) (i_uover18 j) && Bool.eqb (i_haslevel i) (i_haslevel j)
  && Bool.eqb (i_permboard i) (i_permboard j) && Bool.eqb (i_namedbm i) (i_namedbm j) && Bool.eqb (i_hidden i) (i_hidden j)
  && Bool.eqb (i_postmask i) (i_postmask j) && Bool.eqb (i_bover18 i) (i_bover18 j) && Bool.eqb (i_level0 i) (i_level0 j)
  && Bool.eqb (i_levelbm i) (i_levelbm j).
Lemma inp_eqb_eq i j : inp_eqb i j = true -> i = j.
Proof.
  destruct i as [a1 a2 a3 a4 a5 a6 a7 a8 a9 a10 a11 a12 a13 a14 a15 a16], j as [b1 b2 b3 b4 b5 b6 b7 b8 b9 b10 b11 b12 b13 b14 b15 b16].
  unfold inp_eqb. cbn [i_sysop i_police i_policeman i_basic i_verified i_inbm i_friend i_uover18 i_haslevel
    i_permboard i_namedbm i_hidden i_postmask i_bover18 i_level0 i_levelbm]. intros H.
  repeat (apply andb_prop in H; let H' := fresh "E" in destruct H as [H H']; apply eqb_prop in H').
  apply eqb_prop in H. subst. reflexivity.
Qed.

Lemma realisable_sweep : all_inp (fun i => implb (consistent i) (inp_eqb (abs_mat i) i)) = true.
Proof. vm_compute. reflexivity. Qed.

Lemma rows_realisable : forall i, consistent i = true ->
  exists ulevel battr blevel, 0 <= ulevel < 2 ^ 32 /\ 0 <= battr < 2 ^ 32 /\ 0 <= blevel < 2 ^ 32 /\
    abs ulevel (i_uover18 i) (i_inbm i) (i_friend i) (i_namedbm i) battr blevel = i.
Proof.
  intros i Hc. pose proof (all_inp_spec _ realisable_sweep i) as H. cbv beta in H. rewrite Hc in H. cbn [implb] in H.
  apply inp_eqb_eq in H. unfold abs_mat in H. destruct (materialise i) as [[ul ba] bl] eqn:E.
  exists ul, ba, bl. split; [| split; [| split; [| exact H]]];
  unfold materialise in E; inversion E; subst; clear;
  destruct i as [a1 a2 a3 a4 a5 a6 a7 a8 a9 a10 a11 a12 a13 a14 a15 a16];
  cbn [i_sysop i_police i_policeman i_basic i_verified i_inbm i_friend i_uover18 i_haslevel
    i_permboard i_namedbm i_hidden i_postmask i_bover18 i_level0 i_levelbm];
  unfold bit, PERM_SYSOP, PERM_POLICE, PERM_POLICE_MAN, PERM_BASIC, PERM_LOGINOK, PERM_BOARD, PERM_BM, BRD_HIDE, BRD_POSTMASK, BRD_OVER18,
    ptttype.PERM_SYSOP, ptttype.PERM_POLICE, ptttype.PERM_POLICE_MAN, ptttype.PERM_BASIC, ptttype.PERM_LOGINOK, ptttype.PERM_BOARD,
    ptttype.PERM_BM, ptttype.BRD_HIDE, ptttype.BRD_POSTMASK, ptttype.BRD_OVER18, ptttype.PERM_CHAT, ptttype.PERM_ANGEL.
  - destruct a1, a2, a3, a4, a5, a10, a9; lia.
  - destruct a12, a13, a14; lia.
  - destruct a15, a16, a9; lia.
Qed.

(* conversely no user/board pair yields an inconsistent row *)
Lemma abs_consistent ulevel o18 inbm fr nbm battr blevel : consistent (abs ulevel o18 inbm fr nbm battr blevel) = true.
Proof.
  unfold consistent, abs, has. cbn [i_level0 i_levelbm i_haslevel].
  destruct (Z.eqb_spec blevel 0) as [E | E]; [| reflexivity]. subst.
  rewrite !Z.land_0_l, !Z.land_0_r. reflexivity.
Qed.

(* ------------------------------------------------------------------ article entry points *)
Lemma guarded_rule A i (body : outcome A) : guarded i body = if may_read i then body else NotPermitted.
Proof. unfold guarded. rewrite invalid_iff. destruct (may_read i); reflexivity. Qed.

Lemma entry_points : forall i : inp,
  ep_is_board_valid_user i = Data (may_read i) /\
  (forall A total (recs : list A), ep_load_general_articles i total recs =
     if may_read i then (if total =? 0 then Data [] else Data recs) else NotPermitted) /\
  (forall A total (recs : list A), ep_load_bottom_articles i total recs =
     if may_read i then (if total =? 0 then Data [] else Data recs) else NotPermitted) /\
  (forall total idx, ep_find_article_start_idx i total idx =
     if may_read i then (if total =? 0 then OtherErr 2 else Data idx) else NotPermitted) /\
  (forall A fn0 (content : A), ep_read_post i fn0 content =
     if (fn0 =? 76) || (fn0 =? 0) then OtherErr 1 else if may_read i then Data content else NotPermitted) /\
  (forall A (content : A), ep_read_post_template i content = if may_read i then Data content else NotPermitted).
Proof.
  intros i. repeat split; intros.
  - unfold ep_is_board_valid_user. rewrite invalid_iff. destruct (may_read i); reflexivity.
  - unfold ep_load_general_articles. apply guarded_rule.
  - unfold ep_load_bottom_articles. apply guarded_rule.
  - unfold ep_find_article_start_idx. apply guarded_rule.
  - unfold ep_read_post. rewrite guarded_rule. reflexivity.
  - unfold ep_read_post_template. apply guarded_rule.
Qed.

(* data comes out of an entry point only for a permitted caller, whatever the other arguments *)
Lemma entry_points_data_only_if_permitted : forall i : inp,
  (forall A total (recs d : list A), ep_load_general_articles i total recs = Data d -> may_read i = true) /\
  (forall A total (recs d : list A), ep_load_bottom_articles i total recs = Data d -> may_read i = true) /\
  (forall total idx d, ep_find_article_start_idx i total idx = Data d -> may_read i = true) /\
  (forall A fn0 (content d : A), ep_read_post i fn0 content = Data d -> may_read i = true) /\
  (forall A (content d : A), ep_read_post_template i content = Data d -> may_read i = true).
Proof.
  intros i. destruct (entry_points i) as (_ & H1 & H2 & H3 & H4 & H5).
  repeat split; intros.
  - rewrite H1 in H. destruct (may_read i); [reflexivity | discriminate].
  - rewrite H2 in H. destruct (may_read i); [reflexivity | discriminate].
  - rewrite H3 in H. destruct (may_read i); [reflexivity | discriminate].
  - rewrite H4 in H. destruct ((fn0 =? 76) || (fn0 =? 0)); [discriminate |]. destruct (may_read i); [reflexivity | discriminate].
  - rewrite H5 in H. destruct (may_read i); [reflexivity | discriminate].
Qed.

Example entry_point_refuses : exists i, consistent i = true /\ ep_read_post i 77 196 = NotPermitted.
Proof. exists (mk_inp false false false true true false false false false false false true true false true false). vm_compute. auto. Qed.
Example entry_point_serves : exists i, consistent i = true /\ ep_read_post i 77 196 = Data 196.
Proof. exists (mk_inp false false false true true false true false false false false true true false true false). vm_compute. auto. Qed.

(* ------------------------------------------------------------------ article entry points on any board content *)
Lemma refused_guarded A i (body : outcome A) : refused body = false -> refused (guarded i body) = negb (may_read i).
Proof. intros H. rewrite guarded_rule. destruct (may_read i); [exact H | reflexivity]. Qed.

Lemma file_outcome_not_refused f : refused (file_outcome f) = false.
Proof. destruct f; reflexivity. Qed.

(* an entry point refuses exactly when the rule refuses — whatever the board holds (no article at all, no pinned
   article, pinned ones only, both; article file / template there or not; counters loaded or not) *)
Lemma entry_points_any_content : forall (i : inp) (c : content),
  epc_is_board_valid_user i c = Data (may_read i) /\
  refused (epc_load_general_articles i c) = negb (may_read i) /\
  refused (epc_load_bottom_articles i c) = negb (may_read i) /\
  refused (epc_find_article_start_idx i c) = negb (may_read i) /\
  (forall fn0, (fn0 =? 76) || (fn0 =? 0) = false -> refused (epc_read_post i fn0 c) = negb (may_read i)) /\
  refused (epc_read_post_template i c) = negb (may_read i).
Proof.
  intros i c. destruct (entry_points i) as (H0 & _).
  split; [exact H0 |].
  split; [unfold epc_load_general_articles, ep_load_general_articles; apply refused_guarded; destruct (c_total c =? 0); reflexivity |].
  split; [unfold epc_load_bottom_articles, ep_load_bottom_articles; apply refused_guarded; destruct (c_nbottom c =? 0); reflexivity |].
  split; [unfold epc_find_article_start_idx, ep_find_article_start_idx; apply refused_guarded; destruct (c_total c =? 0); reflexivity |].
  split.
  - intros fn0 Hfn. unfold epc_read_post. rewrite Hfn. apply refused_guarded. apply file_outcome_not_refused.
  - unfold epc_read_post_template. apply refused_guarded. apply file_outcome_not_refused.
Qed.

(* the same as one statement about two contents: the verdict of an entry point does not depend on the content *)
Lemma entry_points_content_independent : forall (i : inp) (c c' : content),
  epc_is_board_valid_user i c = epc_is_board_valid_user i c' /\
  refused (epc_load_general_articles i c) = refused (epc_load_general_articles i c') /\
  refused (epc_load_bottom_articles i c) = refused (epc_load_bottom_articles i c') /\
  refused (epc_find_article_start_idx i c) = refused (epc_find_article_start_idx i c') /\
  (forall fn0, refused (epc_read_post i fn0 c) = refused (epc_read_post i fn0 c')) /\
  refused (epc_read_post_template i c) = refused (epc_read_post_template i c').
Proof.
  intros i c c'.
  destruct (entry_points_any_content i c) as (_ & H1 & H2 & H3 & H4 & H5).
  destruct (entry_points_any_content i c') as (_ & H1' & H2' & H3' & H4' & H5').
  split; [reflexivity |].
  split; [rewrite H1, H1'; reflexivity |].
  split; [rewrite H2, H2'; reflexivity |].
  split; [rewrite H3, H3'; reflexivity |].
  split; [| rewrite H5, H5'; reflexivity].
  intros fn0. destruct ((fn0 =? 76) || (fn0 =? 0)) eqn:E.
  - unfold epc_read_post. rewrite E. reflexivity.
  - rewrite (H4 fn0 E), (H4' fn0 E). reflexivity.
Qed.

(* what a permitted caller gets is the content (an empty list where the counter is 0, the error of the missing
   file where there is no file) *)
Lemma entry_points_content_data : forall (i : inp) (c : content), may_read i = true ->
  epc_load_general_articles i c = Data (if c_total c =? 0 then [] else c_recs c) /\
  epc_load_bottom_articles i c = Data (if c_nbottom c =? 0 then [] else c_pinned c) /\
  epc_find_article_start_idx i c = (if c_total c =? 0 then OtherErr 2 else Data (c_idx c)) /\
  (forall fn0, (fn0 =? 76) || (fn0 =? 0) = false -> epc_read_post i fn0 c = file_outcome (c_body c)) /\
  epc_read_post_template i c = file_outcome (c_template c).
Proof.
  intros i c Hm. destruct (entry_points i) as (_ & H1 & H2 & H3 & _ & _).
  split; [unfold epc_load_general_articles; rewrite H1, Hm; destruct (c_total c =? 0); reflexivity |].
  split; [unfold epc_load_bottom_articles; rewrite H2, Hm; destruct (c_nbottom c =? 0); reflexivity |].
  split; [unfold epc_find_article_start_idx; rewrite H3, Hm; reflexivity |].
  split.
  - intros fn0 Hfn. unfold epc_read_post. rewrite Hfn, guarded_rule, Hm. reflexivity.
  - unfold epc_read_post_template. rewrite guarded_rule, Hm. reflexivity.
Qed.

(* non-vacuity: on a board with nothing in it a refused caller is refused (not served an empty list), a permitted
   one is served the empty list; same for "articles but nothing pinned" *)
Definition content_empty : content := mk_content [] 1 [] None None true.
Definition content_no_pinned : content := mk_content [1; 2] 1 [] (Some 196) (Some 196) true.
Example empty_board_refuses : exists i, consistent i = true /\
  epc_load_bottom_articles i content_empty = NotPermitted /\ epc_load_general_articles i content_empty = NotPermitted /\
  epc_find_article_start_idx i content_empty = NotPermitted /\ epc_read_post i 77 content_empty = NotPermitted /\
  epc_load_bottom_articles i content_no_pinned = NotPermitted.
Proof. exists (mk_inp false false false true true false false false false false false true true false true false). vm_compute. repeat split; reflexivity. Qed.
Example empty_board_serves_empty : exists i, consistent i = true /\
  epc_load_bottom_articles i content_empty = Data [] /\ epc_load_general_articles i content_empty = Data [] /\
  epc_find_article_start_idx i content_empty = OtherErr 2 /\ epc_read_post i 77 content_empty = OtherErr 3 /\
  epc_load_bottom_articles i content_no_pinned = Data [].
Proof. exists (mk_inp false false false true true false true false false false false true true false true false). vm_compute. repeat split; reflexivity. Qed.

(* the listings on an empty candidate list show nothing, for every caller *)
Lemma listing_empty u : load_general_boards u [] = [] /\ load_autocomplete_boards u [] = [] /\
  load_boards_by_bids u [] = [] /\ load_hot_boards u [] = [] /\ forall cc, load_class_boards u cc [] = Ok [].
Proof. repeat split; reflexivity. Qed.

(* ------------------------------------------------------------------ listings *)
Definition visible_i (i : inp) : bool := allowed i || group_op i.

Lemma visible_sweep : all_inp (fun i => Bool.eqb (visible_i i) (may_list i)) = true.
Proof. vm_compute. reflexivity. Qed.
Lemma visible_may_list u b : visible u b = may_list (row u b).
Proof. unfold visible. apply eqb_prop. exact (all_inp_spec _ visible_sweep (row u b)). Qed.

Definition title_i (pf : bool) (i : inp) : bool := s_title (parse_summary pf 0 (perm_stat i) 0 (group_op i)).
Lemma title_sweep : all_inp (fun i => Bool.eqb (title_i true i) (may_list i) && Bool.eqb (title_i false i) (may_list i)) = true.
Proof. vm_compute. reflexivity. Qed.

Lemma parse_summary_title pf bid stat attr gop :
  s_title (parse_summary pf bid stat attr gop) = s_title (parse_summary pf 0 stat 0 gop).
Proof.
  unfold parse_summary, parse_summary_with.
  destruct (negb (Z.land stat NBRD_LINE =? 0)); [reflexivity |].
  destruct (negb pf && negb (Z.land stat NBRD_FOLDER =? 0)); [reflexivity |].
  destruct (negb gop && (stat =? NBRD_INVALID)); reflexivity.
Qed.

(* the title (with moderator list and counters) is present exactly when the caller may list the board *)
Lemma summarize_title pf u b : s_title (summarize pf u b) = may_list (row u b).
Proof.
  unfold summarize. rewrite parse_summary_title.
  pose proof (all_inp_spec _ title_sweep (row u b)) as H. cbv beta in H. apply andb_prop in H. destruct H as [Ht Hf].
  apply eqb_prop in Ht. apply eqb_prop in Hf. unfold title_i in Ht, Hf. destruct pf; assumption.
Qed.

Lemma parse_summary_bid pf bid stat attr gop : s_bid (parse_summary pf bid stat attr gop) = bid.
Proof.
  unfold parse_summary, parse_summary_with.
  destruct (negb (Z.land stat NBRD_LINE =? 0)); [reflexivity |].
  destruct (negb pf && negb (Z.land stat NBRD_FOLDER =? 0)); [reflexivity |].
  destruct (negb gop && (stat =? NBRD_INVALID)); reflexivity.
Qed.
Lemma summarize_bid pf u b : s_bid (summarize pf u b) = b_bid b.
Proof. unfold summarize. apply parse_summary_bid. Qed.

Lemma in_listing pf u f bs s :
  In s (map (summarize pf u) (filter f bs)) <-> exists b, In b bs /\ f b = true /\ s = summarize pf u b.
Proof.
  rewrite in_map_iff. split.
  - intros (b & Hs & Hb). apply filter_In in Hb. destruct Hb as [Hb Hf]. exists b. auto.
  - intros (b & Hb & Hf & Hs). exists b. split; [auto |]. apply filter_In. auto.
Qed.

Lemma take_while_incl {A} (f : A -> bool) l x : In x (take_while f l) -> In x l /\ f x = true.
Proof.
  induction l as [| y r IH]; cbn [take_while]; [intros [] |].
  destruct (f y) eqn:E; [| intros []]. intros [H | H].
  - subst. split; [left; reflexivity | exact E].
  - destruct (IH H) as [H1 H2]. split; [right; exact H1 | exact H2].
Qed.

(* (a) whatever a listing shows is a board of the table the caller may list, and every listed entry carries the title *)
Lemma listing_sound : forall u bs s,
  In s (load_general_boards u bs) \/ In s (load_autocomplete_boards u bs) \/ In s (load_boards_by_bids u bs) \/ In s (load_hot_boards u bs) ->
  exists b, In b bs /\ s_bid s = b_bid b /\ may_list (row u b) = true /\ s_title s = may_list (row u b).
Proof.
  intros u bs s H.
  assert (G : exists pf b, In b bs /\ visible u b = true /\ s = summarize pf u b).
  { destruct H as [H | [H | [H | H]]].
    - apply in_listing in H. destruct H as (b & Hb & Hf & Hs). exists false, b.
      repeat (apply andb_prop in Hf; destruct Hf as [Hf ?]). auto.
    - apply in_listing in H. destruct H as (b & Hb & Hf & Hs). exists false, b.
      apply take_while_incl in Hb. destruct Hb as [Hb _].
      repeat (apply andb_prop in Hf; destruct Hf as [Hf ?]). auto.
    - apply in_listing in H. destruct H as (b & Hb & Hf & Hs). exists true, b.
      repeat (apply andb_prop in Hf; destruct Hf as [Hf ?]). auto.
    - apply in_listing in H. destruct H as (b & Hb & Hf & Hs). exists false, b.
      repeat (apply andb_prop in Hf; destruct Hf as [Hf ?]). auto. }
  destruct G as (pf & b & Hb & Hv & Hs). exists b. subst s.
  rewrite visible_may_list in Hv. rewrite summarize_bid, summarize_title. auto.
Qed.

(* (b) a board of the table that passes the listing's own filter and that the caller may list is shown, with its title *)
Lemma listing_complete : forall u bs b, In b bs -> b_named b = true -> may_list (row u b) = true ->
  (is_group b = false -> b_match b = true -> In (summarize false u b) (load_general_boards u bs)) /\
  (is_group b = false -> In b (take_while b_match bs) -> In (summarize false u b) (load_autocomplete_boards u bs)) /\
  In (summarize true u b) (load_boards_by_bids u bs) /\
  (is_group b = false -> In (summarize false u b) (load_hot_boards u bs)) /\
  s_title (summarize false u b) = true /\ s_title (summarize true u b) = true.
Proof.
  intros u bs b Hb Hn Hl. rewrite <- visible_may_list in Hl.
  repeat split.
  - intros Hg Hm. apply in_listing. exists b. rewrite Hn, Hg, Hl, Hm. auto.
  - intros Hg Ht. apply in_listing. exists b. rewrite Hn, Hg, Hl. auto.
  - apply in_listing. exists b. rewrite Hn, Hl. auto.
  - intros Hg. apply in_listing. exists b. rewrite Hn, Hg, Hl. auto.
  - rewrite summarize_title, <- visible_may_list. exact Hl.
  - rewrite summarize_title, <- visible_may_list. exact Hl.
Qed.

(* (c) the single-board summary always answers and carries the title exactly for a caller who may list the board *)
Lemma summary_title u b : s_title (load_board_summary u b) = may_list (row u b) /\ s_bid (load_board_summary u b) = b_bid b.
Proof. unfold load_board_summary. rewrite summarize_title, summarize_bid. auto. Qed.

Example listing_hides : exists u b, consistent (row u b) = true /\ b_named b = true /\ load_general_boards u [b] = [] /\
  s_title (load_board_summary u b) = false.
Proof. exists (mk_user 31 false), (mk_board 10 true 48 0 false false false true). vm_compute. auto. Qed.
Example listing_shows_to_named_moderator : exists u b, may_read (row u b) = false /\
  exists s, load_general_boards u [b] = [s] /\ s_title s = true.
Proof. exists (mk_user 31 false), (mk_board 10 true 48 0 false false true true). vm_compute. eauto. Qed.

(* ------------------------------------------------------------------ class listings *)
(* loadClassBoardStat answers exactly for the children the specification lists *)
Lemma class_stat_listable u b : load_class_board_stat u b = if class_listable u b then Some b else None.
Proof.
  unfold load_class_board_stat, class_listable. rewrite visible_may_list.
  destruct (b_named b), (is_group b), (may_list (row u b)); reflexivity.
Qed.

(* the walk: for every chain and every accumulated prefix within the bound, it returns (never Crash), and what it returns
   is the accumulated prefix followed by the listable children of the rest of the chain, in chain order, cut at the bound *)
Lemma class_walk_spec u cap : forall chain acc, (length acc <= cap)%nat ->
  class_walk true u cap chain acc = Ok (firstn cap (rev acc ++ filter (class_listable u) chain)).
Proof.
  induction chain as [| b rest IH]; intros acc Hlen; cbn [class_walk filter].
  - rewrite app_nil_r. rewrite firstn_all2; [reflexivity | rewrite rev_length; exact Hlen].
  - destruct (Nat.ltb (length acc) cap) eqn:E.
    + apply Nat.ltb_lt in E. rewrite class_stat_listable. destruct (class_listable u b).
      * rewrite IH; [| cbn [length]; lia]. cbn [rev]. rewrite <- app_assoc. reflexivity.
      * apply IH. exact Hlen.
    + apply Nat.ltb_ge in E. assert (Hc : cap = length (rev acc)) by (rewrite rev_length; lia).
      rewrite Hc at 1. rewrite firstn_app, firstn_all, Nat.sub_diag. cbn [firstn]. rewrite app_nil_r. reflexivity.
Qed.

Lemma firstn_map_comm {A B} (f : A -> B) n : forall l, firstn n (map f l) = map f (firstn n l).
Proof. induction n as [| n IH]; intros [| x l]; cbn [firstn map]; [reflexivity .. |]. rewrite IH. reflexivity. Qed.

(* LoadClassBoards: returns for every chain; the listing is the chain filtered by the specification, order kept *)
Lemma class_listing_eq u cc chain :
  load_class_boards u cc chain = Ok (firstn (cc + 5) (map (summarize true u) (filter (class_listable u) chain))).
Proof.
  unfold load_class_boards. rewrite class_walk_spec; [| cbn [length]; lia]. cbn [rev app res_map].
  rewrite firstn_map_comm. reflexivity.
Qed.

Lemma full_class_listing_eq u boards :
  load_full_class_boards u boards = map (summarize true u) (filter (class_listable u) boards).
Proof.
  unfold load_full_class_boards. f_equal.
  induction boards as [| b r IH]; cbn [flat_map filter]; [reflexivity |].
  rewrite class_stat_listable. destruct (class_listable u b); cbn [app]; rewrite IH; reflexivity.
Qed.

Lemma firstn_In {A} n : forall (l : list A) x, In x (firstn n l) -> In x l.
Proof.
  induction n as [| n IH]; intros [| y l] x; cbn [firstn In]; try (intros Hf; exact Hf).
  - intros Hf; destruct Hf.
  - intros [H | H]; [left; exact H | right; apply IH; exact H].
Qed.

Lemma nodup_map_inj {A B} (f : A -> B) : forall l x y, NoDup (map f l) -> In x l -> In y l -> f x = f y -> x = y.
Proof.
  induction l as [| z l IH]; intros x y Hnd Hx Hy Hf; [destruct Hx |].
  cbn [map] in Hnd. inversion Hnd as [| ? ? Hnot Hnd']; subst.
  destruct Hx as [Hx | Hx], Hy as [Hy | Hy].
  - congruence.
  - subst z. exfalso. apply Hnot. rewrite Hf. apply in_map. exact Hy.
  - subst z. exfalso. apply Hnot. rewrite <- Hf. apply in_map. exact Hx.
  - apply IH; assumption.
Qed.

Lemma class_listable_parts u b : class_listable u b = true -> b_named b = true /\ is_group b = true /\ may_list (row u b) = true.
Proof. unfold class_listable. intros H. apply andb_prop in H. destruct H as [H12 H3]. apply andb_prop in H12. destruct H12 as [H1 H2]. auto. Qed.

(* the packaged statement: see Props/C07.v *)
Lemma class_listing : forall u cc chain,
  exists l, load_class_boards u cc chain = Ok l /\
    l = firstn (cc + 5) (map (summarize true u) (filter (class_listable u) chain)) /\
    (forall s, In s l -> exists b, In b chain /\ s = summarize true u b /\ s_bid s = b_bid b /\
       b_named b = true /\ is_group b = true /\ may_list (row u b) = true /\ s_title s = true) /\
    ((length (filter (class_listable u) chain) <= cc + 5)%nat -> NoDup (map b_bid chain) ->
       forall b, In b chain -> (In (b_bid b) (map s_bid l) <-> b_named b && is_group b && may_list (row u b) = true)).
Proof.
  intros u cc chain. eexists. split; [apply class_listing_eq |]. split; [reflexivity |].
  assert (Sound : forall s, In s (firstn (cc + 5) (map (summarize true u) (filter (class_listable u) chain))) ->
            exists b, In b chain /\ s = summarize true u b /\ s_bid s = b_bid b /\
              b_named b = true /\ is_group b = true /\ may_list (row u b) = true /\ s_title s = true).
  { intros s Hs. apply firstn_In in Hs. apply in_listing in Hs. destruct Hs as (b & Hb & Hf & Hs).
    destruct (class_listable_parts u b Hf) as (Hn & Hg & Hl).
    exists b. subst s. rewrite summarize_bid, summarize_title. auto 8. }
  split; [exact Sound |].
  intros Hfit Hnd b Hb. fold (class_listable u b). split.
  - intros Hin. apply in_map_iff in Hin. destruct Hin as (s & Hbid & Hs).
    destruct (Sound s Hs) as (b' & Hb' & _ & Hbid' & Hn & Hg & Hl & _).
    assert (b' = b) by (apply (nodup_map_inj b_bid chain); [exact Hnd | exact Hb' | exact Hb | congruence]).
    subst b'. unfold class_listable. rewrite Hn, Hg, Hl. reflexivity.
  - intros Hl. rewrite firstn_all2; [| rewrite map_length; exact Hfit].
    rewrite map_map. apply in_map_iff. exists b. split; [apply summarize_bid |]. apply filter_In. auto.
Qed.

Lemma full_class_listing : forall u boards,
  load_full_class_boards u boards = map (summarize true u) (filter (class_listable u) boards) /\
  (forall s, In s (load_full_class_boards u boards) -> exists b, In b boards /\ s = summarize true u b /\ s_bid s = b_bid b /\
     b_named b = true /\ is_group b = true /\ may_list (row u b) = true /\ s_title s = true) /\
  (forall b, In b boards -> b_named b && is_group b && may_list (row u b) = true -> In (summarize true u b) (load_full_class_boards u boards)).
Proof.
  intros u boards. split; [apply full_class_listing_eq |]. rewrite full_class_listing_eq. split.
  - intros s Hs. apply in_listing in Hs. destruct Hs as (b & Hb & Hf & Hs).
    destruct (class_listable_parts u b Hf) as (Hn & Hg & Hl).
    exists b. subst s. rewrite summarize_bid, summarize_title. auto 8.
  - intros b Hb Hl. apply in_listing. exists b. auto.
Qed.

(* non-vacuity: a plain user on the chain [hidden class; class requiring SYSOP; unrestricted class; ordinary board;
   vacated slot; link] gets the third and the last entry — the walk goes on past every child it skips ... *)
Example class_listing_goes_on :
  let u := mk_user 31 false in
  let chain := [mk_board 3 true 56 0 false false false true; mk_board 2 true 8 16384 false false false true;
                mk_board 5 true 8 0 false false false true; mk_board 8 true 0 0 false false false true;
                mk_board 9 false 8 0 false false false true; mk_board 11 true 32768 0 false false false true] in
  option_map (map s_bid) (match load_class_boards u 6 chain with Ok l => Some l | _ => None end) = Some [5; 11] /\
  map s_bid (load_full_class_boards u chain) = [5; 11].
Proof. vm_compute. auto. Qed.
(* ... where the loop as it was before the repair (header taken from loadClassBoardStat's nil result) crashed *)
Example class_walk_before_repair_crashed :
  class_walk false (mk_user 31 false) 7 [mk_board 2 true 8 16384 false false false true; mk_board 5 true 8 0 false false false true] [] = Crash.
Proof. vm_compute. reflexivity. Qed.
(* the bound: a sysop on seven unrestricted classes with ChildCount 0 gets the first five *)
Example class_listing_bound :
  load_class_boards (mk_user 16415 false) 0 (map (fun k => mk_board k true 8 0 false false false true) [2; 3; 4; 5; 6; 7; 8]) =
  Ok (map (summarize true (mk_user 16415 false)) (map (fun k => mk_board k true 8 0 false false false true) [2; 3; 4; 5; 6])).
Proof. vm_compute. reflexivity. Qed.

(* ------------------------------------------------------------------ newBoardStat's write to the board header *)
(* a listing may set BRD_POSTMASK on a hidden board; that can only take read access away, never grant it *)
Definition with_postmask (i : inp) : inp :=
  mk_inp (i_sysop i) (i_police i) (i_policeman i) (i_basic i) (i_verified i) (i_inbm i) (i_friend i) (i_uover18 i) (i_haslevel i)
         (i_permboard i) (i_namedbm i) (i_hidden i) true (i_bover18 i) (i_level0 i) (i_levelbm i).
Lemma postmask_sweep : all_inp (fun i => implb (i_hidden i) (implb (may_read (with_postmask i)) (may_read i))) = true.
Proof. vm_compute. reflexivity. Qed.
Lemma forced_postmask_only_restricts : forall i, i_hidden i = true -> may_read (with_postmask i) = true -> may_read i = true.
Proof.
  intros i Hh Hm. pose proof (all_inp_spec _ postmask_sweep i) as H. cbv beta in H. rewrite Hh, Hm in H. exact H.
Qed.
Lemma new_attr_only_hidden attr stat : Z.land attr BRD_HIDE = 0 -> new_attr attr stat = attr.
Proof. intros H. unfold new_attr. rewrite H. reflexivity. Qed.

(* ------------------------------------------------------------------ what the entry-point theorems do not cover *)
(* inconsistent (number, name) pair: the caller may not read the named board, yet gets its article because the
   permission was evaluated on the board with the given number *)
Lemma pair_mismatch_refuted : exists i_bid i_name, consistent i_bid = true /\ consistent i_name = true /\
  may_read i_name = false /\ ep_read_post_pair i_bid 77 196 = Data 196.
Proof.
  exists (abs 31 false false false false BRD_POSTMASK 0), (abs 31 false false false false (BRD_HIDE + BRD_POSTMASK) 0).
  vm_compute. auto.
Qed.
Lemma unguarded_helper_refuted : exists i, consistent i = true /\ may_read i = false /\
  ep_load_same_create_time 2 [1; 2] = Data [1; 2].
Proof. exists (abs 31 false false false false (BRD_HIDE + BRD_POSTMASK) 0). vm_compute. auto. Qed.

(* ------------------------------------------------------------------ build configurations *)
(* The option USE_REAL_DESC_FOR_HIDDEN_BOARD_IN_MYFAV is the only thing of the model a build configuration may set.
   It is read in one branch of parseBoardSummary only: the summary of a board the caller may not list. *)
Lemma summarize_any_option urd pf u b : may_list (row u b) = true -> summarize_with urd pf u b = summarize pf u b.
Proof.
  intros Hl. rewrite <- visible_may_list in Hl. unfold visible in Hl.
  unfold summarize_with, summarize, parse_summary, parse_summary_with.
  destruct (negb (Z.land (perm_stat (row u b)) NBRD_LINE =? 0)); [reflexivity |].
  destruct (negb pf && negb (Z.land (perm_stat (row u b)) NBRD_FOLDER =? 0)); [reflexivity |].
  destruct (group_op (row u b)); [reflexivity |].
  destruct (perm_stat (row u b) =? NBRD_INVALID); [discriminate Hl | reflexivity].
Qed.

Lemma summary_with_off urd u b : urd = 0 -> load_board_summary_with urd u b = load_board_summary u b.
Proof. intros ->. reflexivity. Qed.

(* with the option off the summary masks the title exactly as the property asks ... *)
Lemma summary_title_option_off urd u b : urd = 0 ->
  s_title (load_board_summary_with urd u b) = may_list (row u b) /\ s_bid (load_board_summary_with urd u b) = b_bid b.
Proof. intros H. rewrite (summary_with_off urd u b H). apply summary_title. Qed.

(* ... and ONLY with the option off: a build that switches it on hands the title of a hidden board with restricted
   mask to a plain user who is no friend of it *)
Lemma summary_title_iff_option_off urd :
  (forall u b, s_title (load_board_summary_with urd u b) = may_list (row u b)) <-> urd = 0.
Proof.
  split.
  - intros H. specialize (H (mk_user 31 false) (mk_board 10 true 48 0 false false false true)).
    destruct (urd =? 0) eqn:E; [apply Z.eqb_eq; exact E |].
    exfalso. revert H. unfold load_board_summary_with, summarize_with, parse_summary_with.
    cbn [b_attr b_bid]. change (perm_stat (row (mk_user 31 false) (mk_board 10 true 48 0 false false false true))) with 0.
    change (group_op (row (mk_user 31 false) (mk_board 10 true 48 0 false false false true))) with false.
    change (may_list (row (mk_user 31 false) (mk_board 10 true 48 0 false false false true))) with false.
    change (negb (Z.land 48 BRD_GROUPBOARD =? 0)) with false.
    change (negb (Z.land 0 NBRD_LINE =? 0)) with false. change (negb (Z.land 0 NBRD_FOLDER =? 0)) with false.
    change (0 =? NBRD_INVALID) with true. cbn [negb andb s_title]. rewrite E. discriminate.
  - intros H u b. apply summary_title_option_off. exact H.
Qed.

(* every build gosync translates has it off, so the production build masks as the default one does *)
Lemma summary_title_every_build : forall (c : build) u b,
  s_title (load_board_summary_in c u b) = may_list (row u b) /\ s_bid (load_board_summary_in c u b) = b_bid b.
Proof. intros c u b. apply summary_title_option_off. destruct c; reflexivity. Qed.

Example summary_every_build_hides : exists u b, consistent (row u b) = true /\ may_list (row u b) = false /\
  s_title (load_board_summary_in Docker u b) = false /\ s_title (load_board_summary_in Default u b) = false.
Proof. exists (mk_user 31 false), (mk_board 10 true 48 0 false false false true). vm_compute. auto. Qed.
Example summary_option_on_reveals : exists u b, consistent (row u b) = true /\ may_list (row u b) = false /\
  s_title (load_board_summary_with 1 u b) = true.
Proof. exists (mk_user 31 false), (mk_board 10 true 48 0 false false false true). vm_compute. auto. Qed.

(* ------------------------------------------------------------------ board life cycle: the moderator cache of a slot *)
(* invariant: the moderator cache of every slot that holds a board is ParseBMList of that board's own BM field *)
Definition l_slot_ok (s : lslot) : Prop :=
  match fst s with Some b => snd s = parse_bm_list (lb_bms b) | None => True end.
Definition l_inv (sl : list lslot) : Prop := Forall l_slot_ok sl.

Lemma put_free_inv b : forall sl sl', l_inv sl -> put_free true b sl = Some sl' -> l_inv sl'.
Proof.
  induction sl as [| s r IH]; intros sl' Hinv Hput; cbn [put_free] in Hput; [discriminate |].
  inversion Hinv as [| s0 r0 Hs Hr]; subst.
  destruct (fst s) eqn:Efs.
  - destruct (put_free true b r) as [r' |] eqn:Er; cbn [option_map] in Hput; [| discriminate].
    injection Hput as <-. constructor; [exact Hs | apply IH; [exact Hr | reflexivity]].
  - injection Hput as <-. constructor; [| exact Hr]. unfold l_slot_ok. cbn [fst snd]. reflexivity.
Qed.

Lemma l_create_inv sl n ms attr level : l_inv sl -> l_inv (fst (l_create true sl n ms attr level)).
Proof.
  intros Hinv. unfold l_create. destruct (existsb (l_named n) sl); [exact Hinv |].
  destruct (put_free true (mnewbrd_header n ms attr level) sl) as [sl' |] eqn:Ep; cbn [fst].
  - eapply put_free_inv; eassumption.
  - apply Forall_app. split; [exact Hinv |]. constructor; [| constructor]. unfold l_slot_ok. cbn [fst snd]. reflexivity.
Qed.

Lemma l_remove_inv sl n : l_inv sl -> l_inv (fst (l_remove sl n)).
Proof.
  intros Hinv. unfold l_remove. destruct (existsb (l_named n) sl); cbn [fst]; [| exact Hinv].
  unfold l_inv in *. rewrite Forall_forall in *. intros s Hin. apply in_map_iff in Hin. destruct Hin as (s0 & <- & Hin0).
  destruct (l_named n s0); [unfold l_slot_ok; cbn [fst]; exact I | apply Hinv; exact Hin0].
Qed.

Lemma l_apply_inv sl st : l_inv sl -> l_inv (fst (l_apply true sl st)).
Proof.
  intros Hinv. destruct st as [n attr level ms | n | | n u ulevel o18 |]; cbn [l_apply]; try exact Hinv.
  - pose proof (l_create_inv sl n ms attr level Hinv) as H. destruct (l_create true sl n ms attr level). exact H.
  - pose proof (l_remove_inv sl n Hinv) as H. destruct (l_remove sl n). exact H.
Qed.

Lemma l_run_inv : forall steps sl, l_inv sl -> l_inv (fst (l_run true sl steps)).
Proof.
  induction steps as [| s r IH]; intros sl Hinv; cbn [l_run]; [exact Hinv |].
  pose proof (l_apply_inv sl (l_decode s) Hinv) as H1. unfold l_step.
  destruct (l_apply true sl (l_decode s)) as [sl1 o1]. cbn [fst] in H1.
  pose proof (IH sl1 H1) as H2. destruct (l_run true sl1 r) as [sl2 o2]. exact H2.
Qed.

Lemma l_find_cache sl n b c : l_inv sl -> find (l_named n) sl = Some (Some b, c) -> c = parse_bm_list (lb_bms b).
Proof.
  intros Hinv Hf. apply find_some in Hf. destruct Hf as [Hin _].
  unfold l_inv in Hinv. rewrite Forall_forall in Hinv. exact (Hinv _ Hin).
Qed.

(* what the specification prescribes as the answer to a query: every article entry point says may_read, the listing and
   the summary show the board / its title iff may_list *)
Definition l_spec_answer (i : inp) : list Z :=
  [1; zb (may_read i); zb (may_read i); zb (may_read i); zb (may_read i); zb (may_read i); zb (may_read i);
   zb (may_read i); zb (may_read i); if may_list i then 1 else 0; if may_list i then 1 else 2].

Lemma nr_refused A (o : outcome A) m : refused o = negb m -> nr o = zb m.
Proof. intros H. unfold nr. rewrite H. rewrite Bool.negb_involutive. reflexivity. Qed.

Lemma by_bids_single us bd : b_named bd = true ->
  load_boards_by_bids us [bd] = if may_list (row us bd) then [summarize true us bd] else [].
Proof.
  intros Hn. unfold load_boards_by_bids. cbn [filter]. rewrite Hn. cbn [andb]. rewrite visible_may_list.
  destruct (may_list (row us bd)); reflexivity.
Qed.

Lemma l_answer_spec b c u ulevel o18 : l_answer b c u ulevel o18 = l_spec_answer (l_inp b c u ulevel o18).
Proof.
  unfold l_answer, l_spec_answer.
  set (i := l_inp b c u ulevel o18). set (c0 := content_of_bits 0).
  destruct (entry_points_any_content i c0) as (Hv & Hg & Hb & Hf & Hp & Ht).
  rewrite Hv. rewrite (nr_refused _ _ _ Hg), (nr_refused _ _ _ Hb), (nr_refused _ _ _ Hf), (nr_refused _ _ _ (Hp 77 eq_refl)), (nr_refused _ _ _ Ht).
  set (us := mk_user ulevel o18).
  set (bd := mk_board 0 true (lb_attr b) (lb_level b) (existsb (Z.eqb u) c) false (existsb (Z.eqb u) (lb_bms b)) true).
  assert (Hrow : row us bd = i) by reflexivity.
  assert (Hl : hd 0 (code_listing (load_boards_by_bids us [bd])) = if may_list i then 1 else 0).
  { rewrite (by_bids_single us bd eq_refl), Hrow.
    destruct (may_list i) eqn:E; cbn [code_listing hd]; [| reflexivity].
    rewrite summarize_title, Hrow, E. reflexivity. }
  rewrite Hl. unfold load_board_summary. rewrite summarize_title, Hrow.
  unfold code_valid. destruct (may_read i); reflexivity.
Qed.

(* after EVERY history of creations, removals and reloads: the moderator cache of the slot a board is in is that board's
   own moderator list, and a query is answered by the specification applied to the caller and to the header the board
   has now - whichever boards were in the slot before *)
Lemma life_cycle : forall steps n b c u ulevel o18,
  find (l_named n) (fst (l_run true [] steps)) = Some (Some b, c) ->
  c = parse_bm_list (lb_bms b) /\
  l_query (fst (l_run true [] steps)) n u ulevel o18 = l_spec_answer (l_inp b (parse_bm_list (lb_bms b)) u ulevel o18).
Proof.
  intros steps n b c u ulevel o18 Hf.
  assert (Hc : c = parse_bm_list (lb_bms b)).
  { eapply l_find_cache; [| exact Hf]. apply l_run_inv. constructor. }
  split; [exact Hc |]. unfold l_query. rewrite Hf. rewrite l_answer_spec. rewrite Hc. reflexivity.
Qed.

(* non-vacuity: a slot used a second time. Board 0 (level SYSOP, moderator 0) is created and removed, board 1 (level SYSOP,
   moderator 2) takes its slot: the former moderator is refused everywhere and not listed, the new one is allowed *)
Definition l_reuse_history : list (list Z) := [[1; 0; 0; 16384; 0]; [2; 0]; [3]; [1; 1; 0; 16384; 2]].
Example life_cycle_slot_reused :
  find (l_named 1) (fst (l_run true [] l_reuse_history)) = Some (Some (mk_lboard 1 [2] 0 16384), [2]) /\
  length (fst (l_run true [] l_reuse_history)) = 1%nat /\
  l_query (fst (l_run true [] l_reuse_history)) 1 0 31 false = [1; 0; 0; 0; 0; 0; 0; 0; 0; 0; 2] /\
  l_query (fst (l_run true [] l_reuse_history)) 1 2 31 false = [1; 1; 1; 1; 1; 1; 1; 1; 1; 1; 1].
Proof. vm_compute. auto. Qed.

(* what cache.ResetBoard is needed for on the free-slot path: publishing the header alone ([reset] = false) leaves the
   former board's moderators in the slot's cache - they are then allowed on the new board, its own moderator is refused *)
Lemma life_cycle_needs_reset : exists steps n b c old new ulevel,
  find (l_named n) (fst (l_run false [] steps)) = Some (Some b, c) /\
  may_read (l_inp b (parse_bm_list (lb_bms b)) old ulevel false) = false /\
  nth 1 (l_query (fst (l_run false [] steps)) n old ulevel false) 0 = 1 /\
  may_read (l_inp b (parse_bm_list (lb_bms b)) new ulevel false) = true /\
  nth 1 (l_query (fst (l_run false [] steps)) n new ulevel false) 0 = 0.
Proof. exists l_reuse_history, 1, (mk_lboard 1 [2] 0 16384), [0], 0, 2, 31. vm_compute. auto. Qed.

(* ------------------------------------------------------------------ packaged statements for Props/C07.v *)
Lemma every_build : forall (c : build),
  (forall u b, s_title (load_board_summary_in c u b) = may_list (row u b) /\ s_bid (load_board_summary_in c u b) = b_bid b) /\
  (forall pf u b, may_list (row u b) = true -> summarize_with (use_real_desc c) pf u b = summarize pf u b).
Proof. intros c. split; [apply summary_title_every_build | intros; apply summarize_any_option; assumption]. Qed.
Lemma rule_on_bits : forall ulevel o18 inbm fr nbm battr blevel,
  perm_stat_bits ulevel o18 inbm fr battr blevel = perm_stat (abs ulevel o18 inbm fr nbm battr blevel) /\
  group_op_bits ulevel nbm = group_op (abs ulevel o18 inbm fr nbm battr blevel) /\
  consistent (abs ulevel o18 inbm fr nbm battr blevel) = true.
Proof.
  intros. split; [apply perm_stat_bits_abs | split; [apply group_op_bits_abs | apply abs_consistent]].
Qed.

Lemma listing : forall u bs,
  (forall s, In s (load_general_boards u bs) \/ In s (load_autocomplete_boards u bs) \/ In s (load_boards_by_bids u bs) \/ In s (load_hot_boards u bs) ->
     exists b, In b bs /\ s_bid s = b_bid b /\ may_list (row u b) = true /\ s_title s = may_list (row u b)) /\
  (forall b, In b bs -> b_named b = true -> may_list (row u b) = true ->
     (is_group b = false -> b_match b = true -> In (summarize false u b) (load_general_boards u bs)) /\
     (is_group b = false -> In b (take_while b_match bs) -> In (summarize false u b) (load_autocomplete_boards u bs)) /\
     In (summarize true u b) (load_boards_by_bids u bs) /\
     (is_group b = false -> In (summarize false u b) (load_hot_boards u bs)) /\
     s_title (summarize false u b) = true /\ s_title (summarize true u b) = true).
Proof. intros u bs. split; [apply listing_sound | apply listing_complete]. Qed.
