(* C11 — the listing walk: "collect k+1 visible boards, the (k+1)-th is the next cursor, look it up by name, go on
   from there" returns every visible board exactly once, in order, in ceil(V/k) pages, and terminates — for every
   sorted table whose boards have names distinct up to case, every visibility predicate that never shows a vacated
   slot, every page size k >= 1, both directions. *)
From Coq Require Import Sorted.
From Verif Require Import Base.Common Base.Cstr Base.ListX Base.OddSearch Model.C11 Proofs.C11_order Proofs.C11_auto.

(* the walk of Model/C11.v with the visibility predicate as a parameter ([walk] is the instance [visible names]) *)
Definition load_page_g (vis : Z -> bool) (n start : Z) (k : nat) (asc : bool) : list Z * option Z :=
  let start' := if (start =? 0) && negb asc then n else start in
  let got := firstn (S k) (filter vis (candidates n start' asc)) in
  if Nat.eqb (length got) (S k) then (firstn k got, nth_error got k) else (got, None).

Fixpoint walk_g (vis : Z -> bool) (fuel : nat) (names : list (list Z)) (k : nat) (asc : bool) (start pages : Z) (acc : list Z)
  : res (Z * list Z) :=
  match fuel with
  | O => Hang
  | S f =>
      let '(items, next) := load_page_g vis (lenZ names) start k asc in
      let acc' := acc ++ map (fun i => i + 1) items in
      match next with
      | None => Ok (pages + 1, acc')
      | Some i =>
          match find_by_name names (nth (Z.to_nat i) names []) asc with
          | Ok s => if s <? 0 then Ok (pages + 1, acc') else walk_g vis f names k asc s (pages + 1) acc'
          | Crash => Crash
          | Hang => Hang
          end
      end
  end.
Definition page_walk_g (vis : Z -> bool) (names : list (list Z)) (k : nat) (asc : bool) : res (Z * list Z) :=
  walk_g vis (S (S (S (2 * length names)))) names k asc (if asc then 1 else 0) 0 [].

Lemma walk_is_g : forall fuel names k asc start pages acc,
  walk fuel names k asc start pages acc = walk_g (visible names) fuel names k asc start pages acc.
Proof.
  induction fuel as [|f IH]; intros; [reflexivity|]. cbn [walk walk_g].
  change (load_page names start k asc) with (load_page_g (visible names) (lenZ names) start k asc).
  destruct (load_page_g (visible names) (lenZ names) start k asc) as [items next].
  destruct next as [i|]; [|reflexivity].
  destruct (find_by_name names (nth (Z.to_nat i) names []) asc) as [s| |]; try reflexivity.
  destruct (s <? 0); [reflexivity|apply IH].
Qed.

Lemma page_walk_is_g names k asc : page_walk names k asc = page_walk_g (visible names) names k asc.
Proof. apply walk_is_g. Qed.

(* ---------------------------------------------------------------- zseq *)
Lemma zseq_length : forall k a, length (zseq a k) = k.
Proof. induction k as [|k IH]; intros a; [reflexivity|]. cbn [zseq length]. rewrite IH. reflexivity. Qed.

Lemma In_zseq : forall k a x, In x (zseq a k) <-> a <= x < a + Z.of_nat k.
Proof.
  induction k as [|k IH]; intros a x; cbn [zseq In]; [lia|]. rewrite IH. lia.
Qed.

Lemma NoDup_zseq : forall k a, NoDup (zseq a k).
Proof.
  induction k as [|k IH]; intros a; cbn [zseq]; constructor; [|apply IH]. rewrite In_zseq. lia.
Qed.

Lemma zseq_snoc : forall k a, zseq a (S k) = zseq a k ++ [a + Z.of_nat k].
Proof.
  induction k as [|k IH]; intros a; [cbn; f_equal; f_equal; lia|].
  change (zseq a (S (S k))) with (a :: zseq (a + 1) (S k)). rewrite IH. cbn [zseq app]. do 3 f_equal. lia.
Qed.

Lemma zseq_split : forall l1 a m i l2, zseq a m = l1 ++ i :: l2 ->
  i = a + Z.of_nat (length l1) /\ i :: l2 = zseq i (m - length l1) /\ l1 = zseq a (length l1).
Proof.
  induction l1 as [|x l1 IH]; intros a m i l2 H.
  - destruct m as [|m]; [discriminate|]. cbn [zseq app] in H. injection H as -> <-. cbn [length].
    split; [lia|]. split; [rewrite Nat.sub_0_r; reflexivity|reflexivity].
  - destruct m as [|m]; [discriminate|]. cbn [zseq app] in H. injection H as <- H.
    destruct (IH _ _ _ _ H) as (E1 & E2 & E3). cbn [length]. split; [lia|]. split; [exact E2|].
    cbn [zseq]. f_equal. exact E3.
Qed.

(* ---------------------------------------------------------------- lists *)
Lemma filter_length_le' {A} (f : A -> bool) : forall l, (length (filter f l) <= length l)%nat.
Proof. induction l as [|a l IH]; [cbn; lia|]. cbn [filter]. destruct (f a); cbn [length]; lia. Qed.

Lemma nth_error_firstn_lt {A} : forall m k (l : list A), (k < m)%nat -> nth_error (firstn m l) k = nth_error l k.
Proof.
  induction m as [|m IH]; intros k l H; [lia|]. destruct l as [|a l]; [destruct k; reflexivity|].
  destruct k as [|k]; [reflexivity|]. cbn [firstn nth_error]. apply IH. lia.
Qed.

Lemma filter_split_nth {A} (vis : A -> bool) (l1 l2 : list A) (x : A) (k : nat) :
  NoDup (l1 ++ x :: l2) -> nth_error (filter vis (l1 ++ x :: l2)) k = Some x ->
  firstn k (filter vis (l1 ++ x :: l2)) = filter vis l1 /\ skipn k (filter vis (l1 ++ x :: l2)) = filter vis (x :: l2).
Proof.
  intros Hnd Hk.
  assert (Hv : vis x = true). { apply nth_error_In in Hk. apply filter_In in Hk. tauto. }
  pose proof (NoDup_filter vis Hnd) as Hndf.
  rewrite filter_app in *. cbn [filter] in *. rewrite Hv in *.
  set (F1 := filter vis l1) in *. set (F2 := filter vis l2) in *.
  assert (Hk' : nth_error (F1 ++ x :: F2) (length F1) = Some x).
  { rewrite nth_error_app2 by lia. rewrite Nat.sub_diag. reflexivity. }
  assert (E : k = length F1).
  { rewrite NoDup_nth_error in Hndf. apply Hndf; [|congruence].
    apply nth_error_Some. rewrite Hk. discriminate. }
  subst k. split.
  - rewrite firstn_app, Nat.sub_diag, firstn_all. cbn [firstn]. apply app_nil_r.
  - rewrite skipn_app, Nat.sub_diag, skipn_all. reflexivity.
Qed.

(* ---------------------------------------------------------------- number of pages *)
Definition pages_of (m k : nat) : Z := if Nat.eqb m 0 then 1 else (Z.of_nat m - 1) / Z.of_nat k + 1.

Lemma pages_small m k : (1 <= k)%nat -> (m <= k)%nat -> pages_of m k = 1.
Proof.
  intros Hk Hm. unfold pages_of. destruct (Nat.eqb_spec m 0); [reflexivity|]. rewrite Z.div_small; lia.
Qed.

Lemma pages_step m k : (1 <= k)%nat -> (k < m)%nat -> pages_of m k = 1 + pages_of (m - k) k.
Proof.
  intros Hk Hm. unfold pages_of. destruct (Nat.eqb_spec m 0); [lia|]. destruct (Nat.eqb_spec (m - k) 0); [lia|].
  replace (Z.of_nat m - 1) with (Z.of_nat (m - k) - 1 + 1 * Z.of_nat k) by lia. rewrite Z.div_add by lia. lia.
Qed.

(* pages_of is ceil(m / k), at least 1 *)
Lemma pages_of_ceil m k : (1 <= k)%nat ->
  pages_of m k = Z.max 1 ((Z.of_nat m + Z.of_nat k - 1) / Z.of_nat k).
Proof.
  intros Hk. unfold pages_of. destruct (Nat.eqb_spec m 0) as [->|Hm].
  - rewrite Z.div_small by lia. reflexivity.
  - replace (Z.of_nat m + Z.of_nat k - 1) with (Z.of_nat m - 1 + 1 * Z.of_nat k) by lia. rewrite Z.div_add by lia.
    pose proof (Z.div_pos (Z.of_nat m - 1) (Z.of_nat k) ltac:(lia) ltac:(lia)). lia.
Qed.

(* ---------------------------------------------------------------- the candidates after a cursor are a suffix *)
Lemma NoDup_candidates n s asc : NoDup (candidates n s asc).
Proof. unfold candidates. destruct asc; [apply NoDup_zseq|apply NoDup_rev, NoDup_zseq]. Qed.

Lemma cand_suffix n s asc l1 i l2 : 0 <= n -> (asc = true -> 1 <= s) -> candidates n s asc = l1 ++ i :: l2 ->
  0 <= i < n /\ candidates n (i + 1) asc = i :: l2.
Proof.
  intros Hn Hs H. unfold candidates in *. destruct asc.
  - specialize (Hs eq_refl). pose proof (f_equal (@length Z) H) as HL. rewrite zseq_length, app_length in HL. cbn [length] in HL.
    destruct (zseq_split _ _ _ _ _ H) as (E1 & E2 & _). split; [lia|].
    replace (i + 1 - 1) with i by lia. rewrite E2. f_equal. lia.
  - pose proof (f_equal (@length Z) H) as HL. rewrite rev_length, zseq_length, app_length in HL. cbn [length] in HL.
    apply (f_equal (@rev Z)) in H. rewrite rev_involutive, rev_app_distr in H. cbn [rev] in H. rewrite <- app_assoc in H. cbn [app] in H.
    destruct (zseq_split _ _ _ _ _ H) as (E1 & _ & E3). rewrite rev_length in E1, E3. split; [lia|].
    replace (Z.to_nat (Z.min (i + 1) n)) with (S (length l2)) by lia.
    rewrite zseq_snoc, rev_app_distr. cbn [rev app]. f_equal; [lia|].
    rewrite <- E3. apply rev_involutive.
Qed.

(* ---------------------------------------------------------------- the walk *)
Section Walk.
  Variables (names : list (list Z)) (vis : Z -> bool) (k : nat) (asc : bool).
  Let n := lenZ names.
  Hypothesis Hk : (1 <= k)%nat.
  (* the cursor resolves to its own board *)
  Hypothesis Hfind : forall i, 0 <= i < n -> vis i = true ->
    find_by_name names (nth (Z.to_nat i) names []) asc = Ok (i + 1).

  Definition adj (s : Z) : Z := if (s =? 0) && negb asc then n else s.

  Lemma walk_g_spec : forall fuel s pages acc, (asc = true -> 1 <= s) ->
    (length (filter vis (candidates n (adj s) asc)) < fuel)%nat ->
    walk_g vis fuel names k asc s pages acc =
    Ok (pages + pages_of (length (filter vis (candidates n (adj s) asc))) k,
        acc ++ map (fun i => i + 1) (filter vis (candidates n (adj s) asc))).
  Proof.
    assert (Hn : 0 <= n) by (unfold n, lenZ; lia).
    induction fuel as [|f IH]; intros s pages acc Hs Hf; [lia|].
    cbn [walk_g]. unfold load_page_g. fold n. fold (adj s).
    assert (Hadj : asc = true -> 1 <= adj s).
    { intros Ha. unfold adj. rewrite Ha. rewrite andb_false_r. apply Hs. exact Ha. }
    set (R := filter vis (candidates n (adj s) asc)) in *.
    destruct (Nat.le_gt_cases (length R) k) as [Hle|Hgt].
    - rewrite firstn_all2 by lia. destruct (Nat.eqb_spec (length R) (S k)); [lia|].
      rewrite pages_small by assumption. reflexivity.
    - assert (HL : length (firstn (S k) R) = S k) by (rewrite firstn_length; lia).
      rewrite HL, Nat.eqb_refl. rewrite firstn_firstn, Nat.min_l by lia. rewrite nth_error_firstn_lt by lia.
      destruct (nth_error R k) as [i|] eqn:En; [|apply nth_error_None in En; lia].
      assert (Hin : In i (candidates n (adj s) asc)).
      { apply nth_error_In in En. unfold R in En. apply filter_In in En. tauto. }
      assert (Hv : vis i = true). { apply nth_error_In in En. unfold R in En. apply filter_In in En. tauto. }
      destruct (in_split _ _ Hin) as (l1 & l2 & Hsplit).
      destruct (cand_suffix n (adj s) asc l1 i l2 Hn Hadj Hsplit) as [Hi Hnext].
      rewrite (Hfind i Hi Hv). destruct (Z.ltb_spec (i + 1) 0); [lia|].
      assert (Hadj' : adj (i + 1) = i + 1). { unfold adj. destruct (Z.eqb_spec (i + 1) 0); [lia|reflexivity]. }
      pose proof (NoDup_candidates n (adj s) asc) as Hnd. rewrite Hsplit in Hnd.
      assert (En' : nth_error (filter vis (l1 ++ i :: l2)) k = Some i) by (rewrite <- Hsplit; exact En).
      destruct (filter_split_nth vis l1 l2 i k Hnd En') as [_ Hskip]. rewrite <- Hsplit in Hskip. fold R in Hskip.
      rewrite (IH (i + 1) (pages + 1) _ ltac:(intros; lia)); rewrite Hadj', Hnext, <- Hskip.
      + rewrite skipn_length, (pages_step (length R) k Hk Hgt), <- app_assoc, <- map_app, firstn_skipn.
        f_equal. f_equal. lia.
      + rewrite skipn_length. lia.
  Qed.

  Lemma page_walk_g_spec :
    page_walk_g vis names k asc =
    let V := filter vis (if asc then zseq 0 (length names) else rev (zseq 0 (length names))) in
    Ok (pages_of (length V) k, map (fun i => i + 1) V).
  Proof.
    unfold page_walk_g.
    assert (EC : candidates n (adj (if asc then 1 else 0)) asc = if asc then zseq 0 (length names) else rev (zseq 0 (length names))).
    { unfold adj, candidates, n, lenZ. destruct asc; cbn [negb andb Z.eqb].
      - f_equal. lia.
      - rewrite Z.min_id, Nat2Z.id. reflexivity. }
    rewrite walk_g_spec.
    - rewrite EC. reflexivity.
    - destruct asc; intros; [lia|discriminate].
    - rewrite EC. eapply Nat.le_lt_trans; [apply filter_length_le'|].
      destruct asc; [|rewrite rev_length]; rewrite zseq_length; lia.
  Qed.
End Walk.

(* ---------------------------------------------------------------- the cursor resolves to its own board *)
Lemma cursor_resolves names asc : forallb bytes_ok names = true -> sorted_by less_name names = true -> distinct_names names = true ->
  forall i, 0 <= i < lenZ names -> visible names i = true ->
    find_by_name names (nth (Z.to_nat i) names []) asc = Ok (i + 1).
Proof.
  intros Hb Hs Hd i Hi Hv. set (q := nth (Z.to_nat i) names []) in *.
  assert (Hq : bytes_ok q = true) by apply all_bytes_ok_nth, Hb.
  pose proof (sorted_implies_monotone_name names q Hb Hq Hs) as Hm. unfold sorted_for_name in Hm.
  assert (Hci : cmp_name names q i = 0). { rewrite cmp_name_key, nth_keys. apply ss_refl. }
  assert (Hne : q <> []). { unfold visible in Hv. fold q in Hv. destruct q; [discriminate|discriminate]. }
  assert (Hu : forall j, 0 <= j < lenZ names -> cmp_name names q j = 0 -> j = i).
  { intros j Hj Hc. destruct (Z.eq_dec j i) as [|Hji]; [assumption|exfalso]. unfold lenZ in Hi, Hj.
    rewrite cmp_name_key, nth_keys in Hc.
    destruct (Z_lt_le_dec i j).
    - rewrite <- casecmp_key in Hc.
      destruct (distinct_names_spec names Hd (Z.to_nat i) (Z.to_nat j) ltac:(lia) Hc) as [E _]. apply Hne. exact E.
    - rewrite ss_antisym in Hc. assert (Hc' : strcmp_spec (key_name (nth (Z.to_nat j) names [])) (key_name q) = 0) by lia.
      rewrite <- casecmp_key in Hc'.
      destruct (distinct_names_spec names Hd (Z.to_nat j) (Z.to_nat i) ltac:(lia) Hc') as [_ E]. apply Hne. exact E. }
  unfold find_by_name, find.
  destruct (search_exact (cmp_name names q) (lenZ names) Hm ltac:(unfold lenZ; lia)) as (idx & found & E & Ht & Hf).
  rewrite E. destruct found.
  - destruct (Ht eq_refl) as [Hr Hc]. rewrite (Hu idx Hr Hc). reflexivity.
  - exfalso. exact (Hf eq_refl i Hi Hci).
Qed.

(* any visibility predicate that never shows a vacated slot *)
Theorem page_walk_any_visibility names vis k asc :
  forallb bytes_ok names = true -> sorted_by less_name names = true -> distinct_names names = true ->
  (forall i, vis i = true -> visible names i = true) -> (1 <= k)%nat ->
  page_walk_g vis names k asc =
  let V := filter vis (if asc then zseq 0 (length names) else rev (zseq 0 (length names))) in
  Ok (pages_of (length V) k, map (fun i => i + 1) V).
Proof.
  intros Hb Hs Hd Hvis Hk. apply page_walk_g_spec; [exact Hk|].
  intros i Hi Hv. apply cursor_resolves; try assumption. apply Hvis. exact Hv.
Qed.

(* the model's walk (every non-vacated board is visible: what the harness exercises as SYSOP) *)
Theorem page_walk_spec names k asc :
  forallb bytes_ok names = true -> sorted_by less_name names = true -> distinct_names names = true -> (1 <= k)%nat ->
  page_walk names k asc =
  let V := filter (visible names) (if asc then zseq 0 (length names) else rev (zseq 0 (length names))) in
  Ok (pages_of (length V) k, map (fun i => i + 1) V).
Proof.
  intros Hb Hs Hd Hk. rewrite page_walk_is_g. apply page_walk_any_visibility; auto.
Qed.

(* what "every visible board exactly once, in order" means for that list *)
Lemma visible_positions vis m x : In x (filter vis (zseq 0 m)) <-> 0 <= x < Z.of_nat m /\ vis x = true.
Proof. rewrite filter_In, In_zseq. rewrite Z.add_0_l. tauto. Qed.

Lemma visible_positions_once vis m : NoDup (filter vis (zseq 0 m)) /\ NoDup (filter vis (rev (zseq 0 m))).
Proof. split; apply NoDup_filter; [|apply NoDup_rev]; apply NoDup_zseq. Qed.

Lemma filter_rev' {A} (f : A -> bool) : forall l, filter f (rev l) = rev (filter f l).
Proof.
  induction l as [|a l IH]; [reflexivity|]. cbn [rev filter]. rewrite filter_app, IH. cbn [filter].
  destruct (f a); [reflexivity|apply app_nil_r].
Qed.

(* ascending the positions come in increasing order (descending: the reverse list) *)
Lemma visible_positions_sorted vis : forall m a, StronglySorted Z.lt (filter vis (zseq a m)).
Proof.
  induction m as [|m IH]; intros a; cbn [zseq filter]; [constructor|].
  destruct (vis a); [|apply IH]. constructor; [apply IH|].
  apply Forall_forall. intros x Hx. apply filter_In in Hx. destruct Hx as [Hx _]. apply In_zseq in Hx. lia.
Qed.
