(* C19: crash atomicity of the save and totality of the reader. *)
From Verif Require Import Base.Common Base.ListX Base.Fs Gen.Consts_default Model.C19.
From Verif Require Import Proofs.C19_rt.
From Coq Require Import ZifyBool.
Ltac Zify.zify_post_hook ::= Z.div_mod_to_equations.

(* ---------------------------------------------------------------- crash atomicity *)
Lemma crash_atomic (f : fav) (cs : list chunk) (old : fs) (n : nat) :
  file_chunks f = Ok cs ->
  let s' := exec old (firstn n (save_ops FN_TMP FN_FAV (map snd cs))) in
  lookup FN_FAV s' = lookup FN_FAV old \/ (file_image f = Ok (bytes_of cs) /\ lookup FN_FAV s' = Some (bytes_of cs)).
Proof.
  intros Hc. cbv zeta.
  destruct (save_prefix_atomic FN_TMP FN_FAV (map snd cs) old n) as [H|H]; [discriminate|left; exact H|right].
  split; [unfold file_image; rewrite Hc; reflexivity|exact H].
Qed.

(* ---------------------------------------------------------------- the reader is total *)
Definition good {A} (r : rres (A * list Z)) (n : nat) : Prop :=
  match r with ROk (_, rest) => (length rest <= n)%nat | RErr _ => True | RCrash => False | RFuel => False end.

Lemma good_continue n rest it m :
  good (read_entries n rest) (length rest) -> (length rest <= m)%nat ->
  good (match read_entries n rest with
        | ROk (its, r) => ROk (it :: its, r)
        | RErr e => RErr e | RCrash => RCrash | RFuel => RFuel end) m.
Proof.
  intros H Hm. destruct (read_entries n rest) as [[its r]|e| |]; cbn in *; try exact H; lia.
Qed.

Lemma read_entries_good n : forall bs, good (read_entries n bs) (length bs).
Proof.
  induction n as [|n IH]; intros bs; [cbn; lia|].
  cbn [read_entries]. destruct bs as [|t bs1]; [exact I|].
  destruct (negb (valid_type (wrap8 t))); [exact I|].
  destruct bs1 as [|a bs2]; [exact I|]. cbv zeta.
  destruct (wrap8 t =? T_FOLDER).
  - destruct bs2 as [|f bs3]; [exact I|].
    destruct (length bs3 <? TITLE_SZ)%nat; [exact I|].
    apply good_continue; [apply IH|]. rewrite skipn_length. cbn [length]. lia.
  - destruct (wrap8 t =? T_BOARD).
    + do 9 (destruct bs2 as [|? bs2]; [exact I|]).
      apply good_continue; [apply IH|]. rewrite skipn_length. cbn [length]. lia.
    + destruct bs2 as [|l bs3]; [exact I|].
      apply good_continue; [apply IH|]. rewrite skipn_length. cbn [length]. lia.
Qed.

Definition good3 (r : rres (list item * (Z * Z * Z) * list Z)) (n : nat) : Prop :=
  match r with ROk (_, _, rest) => (length rest <= n)%nat | RErr _ => True | RCrash => False | RFuel => False end.

Lemma read_subs_good (rf : list Z -> rres (fav * list Z)) (m : nat) :
  (forall bs, (length bs <= m)%nat -> good (rf bs) (length bs)) ->
  forall its bs lid fid fn, (length bs <= m)%nat -> good3 (read_subs rf its bs lid fid fn) (length bs).
Proof.
  intros Hrf. induction its as [|i r IH]; intros bs lid fid fn Hm; [cbn; lia|].
  destruct i as [a b v ba|a l|a f t h sub]; cbn [read_subs].
  - specialize (IH bs lid fid fn Hm). destruct (read_subs rf r bs lid fid fn) as [[[r' c] bs'']|e| |]; cbn in *; auto.
  - specialize (IH bs (wrap8 (lid + 1)) fid fn Hm).
    destruct (read_subs rf r bs (wrap8 (lid + 1)) fid fn) as [[[r' c] bs'']|e| |]; cbn in *; auto.
  - pose proof (Hrf bs Hm) as H1. destruct (rf bs) as [[[h' sub'] bs']|e| |]; cbn in H1; try exact I; try contradiction.
    assert (Hm' : (length bs' <= m)%nat) by lia.
    specialize (IH bs' lid (wrap8 (fid + 1)) (wrap16 (fn + h_favnum h')) Hm').
    destruct (read_subs rf r bs' lid (wrap8 (fid + 1)) (wrap16 (fn + h_favnum h'))) as [[[r' c] bs'']|e| |]; cbn in *; auto. lia.
Qed.

Lemma read_hdr_length bs nb nl nf r : read_hdr bs = Some (nb, nl, nf, r) -> length bs = (4 + length r)%nat.
Proof.
  unfold read_hdr. do 4 (destruct bs as [|? bs]; [discriminate|]). intros H. injection H as _ _ _ <-. reflexivity.
Qed.

Lemma read_fav_good fuel : forall bs, (length bs < fuel)%nat -> good (read_fav fuel bs) (length bs).
Proof.
  induction fuel as [|fuel IH]; intros bs Hlen; [lia|].
  cbn [read_fav]. destruct (read_hdr bs) as [[[[nb nl] nf] bs1]|] eqn:Eh; [|exact I].
  apply read_hdr_length in Eh.
  destruct (wrap16 (nb + nl + nf) <? 0); [exact I|].
  pose proof (read_entries_good (Z.to_nat (wrap16 (nb + nl + nf))) bs1) as H1.
  destruct (read_entries (Z.to_nat (wrap16 (nb + nl + nf))) bs1) as [[its bs2]|e| |]; cbn in H1; try exact I; try contradiction.
  assert (Hrf : forall b, (length b <= length bs2)%nat -> good (read_fav fuel b) (length b)) by (intros b Hb; apply IH; lia).
  pose proof (read_subs_good (read_fav fuel) (length bs2) Hrf its bs2 0 0 (wrap16 (nb + nl + nf)) (le_n _)) as H2.
  destruct (read_subs (read_fav fuel) its bs2 0 0 (wrap16 (nb + nl + nf))) as [[[its' [[lid fid] fn]] bs3]|e| |]; cbn in *; auto. lia.
Qed.

(* Load on ANY file content returns a tree or an error: it neither panics nor runs out of fuel *)
Lemma read_total (bs : list Z) : (exists f, load bs = ROk f) \/ (exists e, load bs = RErr e).
Proof.
  unfold load. destruct bs as [|b0 [|b1 r]]; [right; eexists; reflexivity..|].
  pose proof (read_fav_good (S (length (b0 :: b1 :: r))) r) as H.
  destruct (read_fav (S (length (b0 :: b1 :: r))) r) as [[f rest]|e| |].
  - left. eexists. reflexivity.
  - right. eexists. reflexivity.
  - exfalso. apply H. cbn [length]. lia.
  - exfalso. apply H. cbn [length]. lia.
Qed.
