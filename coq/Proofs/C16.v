From Verif Require Import Base.Common Model.C16.

(* what "properly made for secret k" means on the abstract description *)
Definition proper (now : Z) (k : key) (t : token) : Prop :=
  is_hmac (t_alg t) = true /\ t_intact t = true /\ t_key t = k /\
  t_nbf_future t = false /\ t_iat_future t = false /\ lib_exp_ok now (t_exp t) = true.

Lemma key_eqb_eq a b : key_eqb a b = true <-> a = b.
Proof. destruct a, b; cbn; split; intros H; try reflexivity; try discriminate. Qed.

Lemma lib_accepts_proper now k t : lib_accepts now k t = true <-> proper now k t.
Proof.
  unfold lib_accepts, proper. rewrite !andb_true_iff, !negb_true_iff, key_eqb_eq. tauto.
Qed.

Lemma lib_rejects_other_key now k t : t_key t <> k -> lib_accepts now k t = false.
Proof.
  intros H. destruct (lib_accepts now k t) eqn:E; [|reflexivity].
  apply lib_accepts_proper in E. destruct E as (_ & _ & E & _). contradiction.
Qed.

(* an expiry accepted by library and code together is a number strictly in the future *)
Lemma exp_future now e v : 0 < now -> lib_exp_ok now e = true -> claim_int e = Some v -> (v <? now) = false ->
  e = CNum v /\ now < v.
Proof.
  intros Hn Hl Hc Hv. destruct e; cbn in *; try discriminate; inversion Hc; subst; try lia.
  split; [reflexivity|lia].
Qed.

(* ------------------------------------------------------------------ access tokens *)

Lemma access_sound now t u e c m : 0 < now -> verify_access now true (Some t) = VOk u e c m ->
  proper now KAccess t /\ claim_str (t_sub t) = Some u /\ t_exp t = CNum e /\ now < e.
Proof.
  intros Hn H. unfold verify_access in H.
  destruct (lib_accepts now KAccess t) eqn:La; cbn [negb] in H; [|discriminate].
  destruct (claim_str (t_cli t)) as [cli|]; [|discriminate].
  destruct (claim_str (t_sub t)) as [sub|] eqn:Es; [|discriminate].
  destruct (claim_int (t_exp t)) as [ex|] eqn:Ee; [|discriminate].
  cbn [andb] in H. destruct (ex <? now) eqn:Elt; [discriminate|]. inversion H; subst.
  apply lib_accepts_proper in La. split; [exact La|]. split; [reflexivity|].
  destruct La as (_ & _ & _ & _ & _ & Hl). apply (exp_future now (t_exp t) e Hn Hl Ee Elt).
Qed.

Lemma access_complete now t u n cli : proper now KAccess t -> t_sub t = CStr u -> t_exp t = CNum n -> now < n ->
  claim_str (t_cli t) = Some cli -> verify_access now true (Some t) = VOk u n cli 0.
Proof.
  intros P Hs He Hn Hc. unfold verify_access. apply lib_accepts_proper in P. rewrite P. cbn [negb].
  rewrite Hc, Hs, He. cbn. replace (n <? now) with false by lia. reflexivity.
Qed.

Lemma access_wrong_key now chk t : t_key t <> KAccess -> verify_access now chk (Some t) = VInvalid.
Proof. intros H. unfold verify_access. rewrite lib_rejects_other_key by exact H. reflexivity. Qed.

Lemma access_altered now chk t : t_intact t = false \/ is_hmac (t_alg t) = false -> verify_access now chk (Some t) = VInvalid.
Proof.
  intros H. unfold verify_access, lib_accepts. destruct H as [-> | ->]; cbn; rewrite ?andb_false_r; reflexivity.
Qed.

Lemma access_expired now t n : t_exp t = CNum n -> n <= now -> forall chk, verify_access now chk (Some t) = VInvalid.
Proof.
  intros He Hn chk. unfold verify_access, lib_accepts. rewrite He. cbn [lib_exp_ok].
  replace (now <? n) with false by lia. rewrite !andb_false_r. reflexivity.
Qed.

(* ------------------------------------------------------------------ refresh tokens *)

Lemma refresh_tok_sound now t u e c m : 0 < now -> verify_refresh now (Some t) = VOk u e c m ->
  proper now KRefresh t /\ claim_str (t_sub t) = Some u /\ t_exp t = CNum e /\ now < e /\ claim_str (t_typ t) = Some TYP_REFRESH.
Proof.
  intros Hn H. unfold verify_refresh in H.
  destruct (lib_accepts now KRefresh t) eqn:La; cbn [negb] in H; [|discriminate].
  destruct (claim_str (t_cli t)) as [cli|]; [|discriminate].
  destruct (claim_str (t_sub t)) as [sub|] eqn:Es; [|discriminate].
  destruct (claim_int (t_exp t)) as [ex|] eqn:Ee; [|discriminate].
  destruct (claim_str (t_typ t)) as [ty|] eqn:Et; [|discriminate].
  destruct (ex <? now) eqn:Elt; [discriminate|].
  destruct (ty =? TYP_REFRESH) eqn:Ety; cbn [negb] in H; [|discriminate]. inversion H; subst.
  apply lib_accepts_proper in La. split; [exact La|]. split; [reflexivity|].
  destruct La as (_ & _ & _ & _ & _ & Hl). destruct (exp_future now (t_exp t) e Hn Hl Ee Elt) as [E1 E2].
  repeat split; try assumption. f_equal. lia.
Qed.

Lemma refresh_wrong_key now t : t_key t <> KRefresh -> verify_refresh now (Some t) = VInvalid.
Proof. intros H. unfold verify_refresh. rewrite lib_rejects_other_key by exact H. reflexivity. Qed.

(* ------------------------------------------------------------------ e-mail tokens *)

Lemma email_tok_sound now ctx t u e c m : 0 < now -> verify_email now ctx (Some t) = VOk u e c m ->
  proper now KEmail t /\ claim_str (t_sub t) = Some u /\ t_exp t = CNum e /\ now < e /\
  claim_str (t_ctx t) = Some ctx /\ claim_str (t_eml t) = Some m.
Proof.
  intros Hn H. unfold verify_email in H.
  destruct (lib_accepts now KEmail t) eqn:La; cbn [negb] in H; [|discriminate].
  destruct (claim_str (t_cli t)) as [cli|]; [|discriminate].
  destruct (claim_str (t_sub t)) as [sub|] eqn:Es; [|discriminate].
  destruct (claim_str (t_eml t)) as [em|] eqn:Em; [|discriminate].
  destruct (claim_int (t_exp t)) as [ex|] eqn:Ee; [|discriminate].
  destruct (claim_str (t_ctx t)) as [cx|] eqn:Ec; [|discriminate].
  destruct (ex <? now) eqn:Elt; [discriminate|].
  destruct (cx =? ctx) eqn:Ecx; cbn [negb] in H; [|discriminate]. inversion H; subst.
  apply lib_accepts_proper in La. split; [exact La|]. split; [reflexivity|].
  destruct La as (_ & _ & _ & _ & _ & Hl). destruct (exp_future now (t_exp t) e Hn Hl Ee Elt) as [E1 E2].
  repeat split; try assumption. f_equal. lia.
Qed.

Lemma email_wrong_key now ctx t : t_key t <> KEmail -> verify_email now ctx (Some t) = VInvalid.
Proof. intros H. unfold verify_email. rewrite lib_rejects_other_key by exact H. reflexivity. Qed.

Lemma email_other_context now ctx t cx : claim_str (t_ctx t) = Some cx -> cx <> ctx -> verify_email now ctx (Some t) = VInvalid.
Proof.
  intros Hc Hne. unfold verify_email. destruct (lib_accepts now KEmail t); cbn [negb]; [|reflexivity].
  destruct (claim_str (t_cli t)); [|reflexivity]. destruct (claim_str (t_sub t)); [|reflexivity].
  destruct (claim_str (t_eml t)); [|reflexivity]. destruct (claim_int (t_exp t)); [|reflexivity].
  rewrite Hc. destruct (z2 <? now); [reflexivity|]. replace (cx =? ctx) with false by lia. reflexivity.
Qed.

(* ------------------------------------------------------------------ requests *)

Lemma guest_downgrade now raw : verify_access now true raw = VInvalid -> login_required now raw = GUEST.
Proof. intros H. unfold login_required. rewrite H. reflexivity. Qed.

Lemma login_required_sound now raw u : 0 < now -> login_required now raw = u -> u <> GUEST ->
  exists t e, raw = Some t /\ proper now KAccess t /\ claim_str (t_sub t) = Some u /\ t_exp t = CNum e /\ now < e.
Proof.
  intros Hn H Hu. unfold login_required in H. destruct raw as [t|].
  - destruct (verify_access now true (Some t)) as [|u' e c m] eqn:E; [congruence|]. subst u'.
    destruct (access_sound now t u e c m Hn E) as (P & S & X & L). exists t, e. split; [reflexivity|]. split; [exact P|]. split; [exact S|]. split; [exact X|exact L].
  - cbn in H. congruence.
Qed.

(* a refresh succeeds only for a valid access/refresh pair of the same user issued together *)
Lemma refresh_sound now a r pcli u : REFRESH_TS - ACCESS_TS + EPSILON < now -> refresh now a r pcli = Some u ->
  exists ta tr ea er, a = Some ta /\ r = Some tr /\
    proper now KAccess ta /\ proper now KRefresh tr /\
    claim_str (t_sub ta) = Some u /\ claim_str (t_sub tr) = Some u /\
    t_exp tr = CNum er /\ now < er /\ claim_int (t_exp ta) = Some ea /\
    claim_str (t_typ tr) = Some TYP_REFRESH /\
    - EPSILON <= (er - ea) - (REFRESH_TS - ACCESS_TS) <= EPSILON.
Proof.
  intros Hn H. unfold refresh in H. unfold REFRESH_TS, ACCESS_TS, EPSILON in *.
  destruct (verify_access now false a) as [|ju jexp jcli jm] eqn:Ea; [discriminate|].
  destruct (verify_refresh now r) as [|ru rexp rcli rm] eqn:Er; [discriminate|].
  destruct ((2 <? rexp - jexp - (604800 - 86400)) || (rexp - jexp - (604800 - 86400) <? - (2))) eqn:Ed; [discriminate|].
  destruct (negb (rcli =? pcli) && negb (rcli =? jcli)); [discriminate|].
  destruct (ru =? ju) eqn:Eu; cbn [negb] in H; [|discriminate]. inversion H; subst u.
  assert (ju = ru) by lia. subst ju.
  apply orb_false_iff in Ed. destruct Ed as [Ed1 Ed2].
  destruct r as [tr|].
  2:{ (* no refresh token: guest with expiry 0 — excluded by the pairing window *)
      cbn in Er. inversion Er; subst. destruct a as [ta|].
      - unfold verify_access in Ea. destruct (lib_accepts now KAccess ta) eqn:La; cbn [negb] in Ea; [|discriminate].
        destruct (claim_str (t_cli ta)); [|discriminate]. destruct (claim_str (t_sub ta)); [|discriminate].
        destruct (claim_int (t_exp ta)) as [x|] eqn:Ex; [|discriminate]. cbn [andb] in Ea. inversion Ea; subst.
        apply lib_accepts_proper in La. destruct La as (_ & _ & _ & _ & _ & Hl).
        destruct (t_exp ta); cbn in *; try discriminate; inversion Ex; subst; lia.
      - cbn in Ea. inversion Ea; subst. lia. }
  destruct (refresh_tok_sound now tr ru rexp rcli rm ltac:(lia) Er) as (Pr & Sr & Xr & Lr & Tr).
  destruct a as [ta|].
  2:{ cbn in Ea. inversion Ea; subst. lia. }
  unfold verify_access in Ea. destruct (lib_accepts now KAccess ta) eqn:La; cbn [negb] in Ea; [|discriminate].
  destruct (claim_str (t_cli ta)); [|discriminate]. destruct (claim_str (t_sub ta)) as [sa|] eqn:Esa; [|discriminate].
  destruct (claim_int (t_exp ta)) as [x|] eqn:Ex; [|discriminate]. cbn [andb] in Ea. inversion Ea; subst.
  apply lib_accepts_proper in La.
  exists ta, tr, jexp, rexp.
  split; [reflexivity|]. split; [reflexivity|]. split; [exact La|]. split; [exact Pr|].
  split; [exact Esa|]. split; [exact Sr|]. split; [exact Xr|]. split; [exact Lr|].
  split; [exact Ex|]. split; [exact Tr|]. unfold REFRESH_TS, ACCESS_TS, EPSILON. lia.
Qed.

Lemma token_info_sound now a b u : 0 < now -> get_token_info now a b = Some u ->
  login_required now a = u /\
  ((exists t e, b = Some t /\ proper now KAccess t /\ claim_str (t_sub t) = Some u /\ t_exp t = CNum e /\ now < e)
   \/ (b = None /\ u = GUEST)).
Proof.
  intros Hn H. unfold get_token_info in H.
  destruct (verify_access now true b) as [|bu be bc bm] eqn:Eb; [discriminate|].
  destruct (bu =? login_required now a) eqn:Eu; [|discriminate]. inversion H; subst bu.
  split; [lia|]. destruct b as [t|].
  - left. destruct (access_sound now t u be bc bm Hn Eb) as (P & S & X & L).
    exists t, be. split; [reflexivity|]. split; [exact P|]. split; [exact S|]. split; [exact X|exact L].
  - right. cbn in Eb. inversion Eb; subst. split; reflexivity.
Qed.

(* an e-mail change / id-e-mail set is applied only with a valid token of exactly that context and user *)
Lemma email_use_sound now caller path_user etok ctx adm allow e : 0 < now ->
  email_use now caller path_user etok ctx adm allow = Some e ->
  path_user <> GUEST /\
  (login_required now caller = path_user \/ (allow = true /\ adm = true)) /\
  exists t x, etok = Some t /\ proper now KEmail t /\ claim_str (t_sub t) = Some path_user /\
              claim_str (t_ctx t) = Some ctx /\ claim_str (t_eml t) = Some e /\ t_exp t = CNum x /\ now < x.
Proof.
  intros Hn H. unfold email_use in H.
  destruct (path_user =? GUEST) eqn:Eg; [discriminate|].
  destruct (negb (allow && adm) && negb (login_required now caller =? path_user)) eqn:Ec; [discriminate|].
  destruct (verify_email now ctx etok) as [|eu ee ec em] eqn:Ev; [discriminate|].
  destruct (path_user =? eu) eqn:Eu; cbn [negb] in H; [|discriminate]. inversion H; subst em.
  assert (eu = path_user) by lia. subst eu.
  split; [lia|]. split.
  - apply andb_false_iff in Ec. destruct Ec as [Ec|Ec].
    + right. apply negb_false_iff, andb_true_iff in Ec. exact Ec.
    + left. apply negb_false_iff in Ec. lia.
  - destruct etok as [t|]; [|discriminate].
    destruct (email_tok_sound now ctx t path_user ee ec e Hn Ev) as (P & S & X & L & C & M).
    exists t, ee. split; [reflexivity|]. split; [exact P|]. split; [exact S|]. split; [exact C|]. split; [exact M|]. split; [exact X|exact L].
Qed.

(* ------------------------------------------------------------------ the secrets in force *)

(* the premise of the wrong-kind theorems: no other purpose (a foreign key included) shares the key of
   one of the server's three purposes *)
Definition secrets_distinct (cfg : config) : Prop := forall k v, v <> KForeign -> k <> v -> cfg k <> cfg v.
Definition cfg_default : config := dec_cfg 0 1 2 3.
Definition cfg_shared : config := dec_cfg 0 0 0 3.       (* EMAIL_/REFRESH_JWT_SECRET defaulting to JWT_SECRET *)

Lemma cfg_default_distinct : secrets_distinct cfg_default.
Proof. intros k v Hv Hkv. destruct k, v; cbn; try congruence; discriminate. Qed.

(* what the library check means under a configuration: made properly for SOME purpose whose secret is the verifier's *)
Lemma lib_accepts_c_proper cfg now v t : lib_accepts_c cfg now v t = true <-> proper now (t_key t) t /\ cfg (t_key t) = cfg v.
Proof.
  unfold lib_accepts_c, proper. rewrite !andb_true_iff, !negb_true_iff, Z.eqb_eq. intuition.
Qed.

Lemma lib_accepts_c_distinct cfg now v t : secrets_distinct cfg -> v <> KForeign -> lib_accepts_c cfg now v t = lib_accepts now v t.
Proof.
  intros D Hv. unfold lib_accepts_c, lib_accepts.
  replace (cfg (t_key t) =? cfg v) with (key_eqb (t_key t) v); [reflexivity|].
  destruct (key_eqb (t_key t) v) eqn:E.
  - apply key_eqb_eq in E. rewrite E. symmetry. apply Z.eqb_refl.
  - symmetry. apply Z.eqb_neq. apply D; [exact Hv|]. intros C. apply key_eqb_eq in C. congruence.
Qed.

Lemma verify_access_c_distinct cfg now chk raw : secrets_distinct cfg -> verify_access_c cfg now chk raw = verify_access now chk raw.
Proof. intros D. unfold verify_access_c, verify_access. destruct raw as [t|]; [|reflexivity]. rewrite (lib_accepts_c_distinct cfg now KAccess t D) by discriminate. reflexivity. Qed.

Lemma verify_refresh_c_distinct cfg now raw : secrets_distinct cfg -> verify_refresh_c cfg now raw = verify_refresh now raw.
Proof. intros D. unfold verify_refresh_c, verify_refresh. destruct raw as [t|]; [|reflexivity]. rewrite (lib_accepts_c_distinct cfg now KRefresh t D) by discriminate. reflexivity. Qed.

Lemma verify_email_c_distinct cfg now ctx raw : secrets_distinct cfg -> verify_email_c cfg now ctx raw = verify_email now ctx raw.
Proof. intros D. unfold verify_email_c, verify_email. destruct raw as [t|]; [|reflexivity]. rewrite (lib_accepts_c_distinct cfg now KEmail t D) by discriminate. reflexivity. Qed.

Lemma login_required_c_distinct cfg now raw : secrets_distinct cfg -> login_required_c cfg now raw = login_required now raw.
Proof. intros D. unfold login_required_c, login_required. rewrite (verify_access_c_distinct cfg now true raw D). reflexivity. Qed.

(* with pairwise distinct secrets the configured server IS the model the theorems above are about *)
Lemma distinct_config_is_model cfg : secrets_distinct cfg ->
  (forall now chk raw, verify_access_c cfg now chk raw = verify_access now chk raw) /\
  (forall now raw, verify_refresh_c cfg now raw = verify_refresh now raw) /\
  (forall now ctx raw, verify_email_c cfg now ctx raw = verify_email now ctx raw) /\
  (forall now raw, login_required_c cfg now raw = login_required now raw) /\
  (forall now a r pcli, refresh_c cfg now a r pcli = refresh now a r pcli) /\
  (forall now a b, get_token_info_c cfg now a b = get_token_info now a b) /\
  (forall now caller pu etok ctx adm allow, email_use_c cfg now caller pu etok ctx adm allow = email_use now caller pu etok ctx adm allow).
Proof.
  intros D. repeat split; intros.
  - apply verify_access_c_distinct; exact D.
  - apply verify_refresh_c_distinct; exact D.
  - apply verify_email_c_distinct; exact D.
  - apply login_required_c_distinct; exact D.
  - unfold refresh_c, refresh. rewrite (verify_access_c_distinct cfg now false a D), (verify_refresh_c_distinct cfg now r D). reflexivity.
  - unfold get_token_info_c, get_token_info. rewrite (login_required_c_distinct cfg now a D), (verify_access_c_distinct cfg now true b D). reflexivity.
  - unfold email_use_c, email_use. rewrite (login_required_c_distinct cfg now caller D), (verify_email_c_distinct cfg now ctx etok D). reflexivity.
Qed.

(* the wrong-kind theorems with their premise explicit *)
Lemma access_wrong_key_c cfg now chk t : secrets_distinct cfg -> t_key t <> KAccess -> verify_access_c cfg now chk (Some t) = VInvalid.
Proof. intros D H. rewrite (verify_access_c_distinct cfg now chk (Some t) D). apply access_wrong_key; exact H. Qed.
Lemma refresh_wrong_key_c cfg now t : secrets_distinct cfg -> t_key t <> KRefresh -> verify_refresh_c cfg now (Some t) = VInvalid.
Proof. intros D H. rewrite (verify_refresh_c_distinct cfg now (Some t) D). apply refresh_wrong_key; exact H. Qed.
Lemma email_wrong_key_c cfg now ctx t : secrets_distinct cfg -> t_key t <> KEmail -> verify_email_c cfg now ctx (Some t) = VInvalid.
Proof. intros D H. rewrite (verify_email_c_distinct cfg now ctx (Some t) D). apply email_wrong_key; exact H. Qed.

(* without the premise: what an accepted access token is under ANY configuration *)
Lemma access_sound_c cfg now t u e c m : 0 < now -> verify_access_c cfg now true (Some t) = VOk u e c m ->
  proper now (t_key t) t /\ cfg (t_key t) = cfg KAccess /\ claim_str (t_sub t) = Some u /\ t_exp t = CNum e /\ now < e.
Proof.
  intros Hn H. unfold verify_access_c in H.
  destruct (lib_accepts_c cfg now KAccess t) eqn:La; cbn [negb] in H; [|discriminate].
  destruct (claim_str (t_cli t)) as [cli|]; [|discriminate].
  destruct (claim_str (t_sub t)) as [sub|] eqn:Es; [|discriminate].
  destruct (claim_int (t_exp t)) as [ex|] eqn:Ee; [|discriminate].
  cbn [andb] in H. destruct (ex <? now) eqn:Elt; [discriminate|]. inversion H; subst.
  apply lib_accepts_c_proper in La. destruct La as [P Hk]. split; [exact P|]. split; [exact Hk|]. split; [reflexivity|].
  destruct P as (_ & _ & _ & _ & _ & Hl). apply (exp_future now (t_exp t) e Hn Hl Ee Elt).
Qed.

(* ... and the converse: a token made properly for a purpose that shares the access secret IS an access token *)
Lemma shared_secret_accepted cfg now k t u n cli : proper now k t -> cfg k = cfg KAccess ->
  t_sub t = CStr u -> t_exp t = CNum n -> now < n -> claim_str (t_cli t) = Some cli ->
  verify_access_c cfg now true (Some t) = VOk u n cli 0.
Proof.
  intros P Hk Hs He Hn Hc. unfold verify_access_c.
  assert (La : lib_accepts_c cfg now KAccess t = true).
  { apply lib_accepts_c_proper. destruct P as (P1 & P2 & P3 & P4). subst k. split; [|exact Hk]. repeat split; tauto. }
  rewrite La. cbn [negb]. rewrite Hc, Hs, He. cbn. replace (n <? now) with false by lia. reflexivity.
Qed.

(* a token carrying every claim any verifier looks at, signed for purpose k *)
Definition wit (k : key) : token := mkTok HS256 k true (CStr 3) (CNum 2000) (CStr 1) (CStr TYP_REFRESH) (CStr 1) (CStr 1) false false.

Definition wrong_kind_rejected (cfg : config) : Prop :=
  (forall now chk t, t_key t <> KAccess -> verify_access_c cfg now chk (Some t) = VInvalid) /\
  (forall now t, t_key t <> KRefresh -> verify_refresh_c cfg now (Some t) = VInvalid) /\
  (forall now ctx t, t_key t <> KEmail -> verify_email_c cfg now ctx (Some t) = VInvalid).

(* the premise is exactly what the wrong-kind clause needs: it holds for all tokens iff the secrets are distinct *)
Lemma wrong_kind_iff_distinct cfg : wrong_kind_rejected cfg <-> secrets_distinct cfg.
Proof.
  split.
  - intros (Ha & Hr & He) k v Hv Hkv Heq. destruct v; [| | |congruence].
    + specialize (Ha 1000 true (wit k) Hkv). unfold verify_access_c, lib_accepts_c in Ha. cbn [wit t_key t_alg t_intact t_exp t_nbf_future t_iat_future t_cli t_sub] in Ha.
      rewrite Heq, Z.eqb_refl in Ha. cbn in Ha. discriminate.
    + specialize (Hr 1000 (wit k) Hkv). unfold verify_refresh_c, lib_accepts_c in Hr. cbn [wit t_key t_alg t_intact t_exp t_nbf_future t_iat_future t_cli t_sub t_typ] in Hr.
      rewrite Heq, Z.eqb_refl in Hr. cbn in Hr. discriminate.
    + specialize (He 1000 1 (wit k) Hkv). unfold verify_email_c, lib_accepts_c in He. cbn [wit t_key t_alg t_intact t_exp t_nbf_future t_iat_future t_cli t_sub t_eml t_ctx] in He.
      rewrite Heq, Z.eqb_refl in He. cbn in He. discriminate.
  - intros D. split; [|split]; intros.
    + apply access_wrong_key_c; assumption.
    + apply refresh_wrong_key_c; assumption.
    + apply email_wrong_key_c; assumption.
Qed.

(* the refutation: drop the premise (refresh and e-mail secrets defaulting to the access secret) and a genuine
   refresh token — accepted by the refresh verifier — authenticates a request as its subject *)
Lemma distinct_secrets_needed :
  exists cfg now t u e c, t_key t = KRefresh /\ verify_refresh_c cfg now (Some t) = VOk u e c 0 /\
    verify_access_c cfg now true (Some t) = VOk u e c 0 /\ login_required_c cfg now (Some t) = u /\ u <> GUEST /\
    get_token_info_c cfg now (Some t) (Some t) = Some u.
Proof.
  exists cfg_shared, 1000, (issue 1000 KRefresh 3 1 0 0), 3, (1000 + REFRESH_TS), 1.
  vm_compute. repeat split; try reflexivity. discriminate.
Qed.

(* every cross-use of what the server itself issues, under any configuration with distinct secrets *)
Lemma issue_key now k u cli eml ctx : t_key (issue now k u cli eml ctx) = k.
Proof. destruct k; reflexivity. Qed.

Lemma issued_cross_use cfg now k u cli eml ctx vctx : secrets_distinct cfg ->
  (verify_access_c cfg now true (Some (issue now k u cli eml ctx)) <> VInvalid <-> k = KAccess) /\
  (verify_refresh_c cfg now (Some (issue now k u cli eml ctx)) <> VInvalid <-> k = KRefresh) /\
  (verify_email_c cfg now vctx (Some (issue now k u cli eml ctx)) <> VInvalid <-> k = KEmail /\ ctx = vctx).
Proof.
  intros D.
  rewrite (verify_access_c_distinct cfg now true _ D), (verify_refresh_c_distinct cfg now _ D), (verify_email_c_distinct cfg now vctx _ D).
  assert (E1 : (now <? now + ACCESS_TS) = true) by (unfold ACCESS_TS; lia).
  assert (E2 : (now <? now + REFRESH_TS) = true) by (unfold REFRESH_TS; lia).
  assert (E3 : (now + ACCESS_TS <? now) = false) by (unfold ACCESS_TS; lia).
  assert (E4 : (now + REFRESH_TS <? now) = false) by (unfold REFRESH_TS; lia).
  split; [|split].
  - split.
    + intros H. destruct k; try reflexivity; exfalso; apply H; apply access_wrong_key; rewrite issue_key; discriminate.
    + intros ->. unfold verify_access, lib_accepts. cbn [issue t_key t_alg t_intact t_exp t_nbf_future t_iat_future t_cli t_sub is_hmac key_eqb lib_exp_ok claim_str claim_int negb andb].
      rewrite E1, E3. cbn. discriminate.
  - split.
    + intros H. destruct k; try reflexivity; exfalso; apply H; apply refresh_wrong_key; rewrite issue_key; discriminate.
    + intros ->. unfold verify_refresh, lib_accepts. cbn [issue t_key t_alg t_intact t_exp t_nbf_future t_iat_future t_cli t_sub t_typ is_hmac key_eqb lib_exp_ok claim_str claim_int negb andb].
      rewrite E2, E4. cbn. discriminate.
  - split.
    + intros H. destruct k; try (exfalso; apply H; apply email_wrong_key; rewrite issue_key; discriminate).
      split; [reflexivity|]. destruct (Z.eq_dec ctx vctx) as [e|n]; [exact e|]. exfalso. apply H.
      apply (email_other_context now vctx _ ctx); [reflexivity|exact n].
    + intros [-> ->]. unfold verify_email, lib_accepts. cbn [issue t_key t_alg t_intact t_exp t_nbf_future t_iat_future t_cli t_sub t_eml t_ctx is_hmac key_eqb lib_exp_ok claim_str claim_int negb andb].
      rewrite E1, E3, Z.eqb_refl. cbn. discriminate.
Qed.

(* ------------------------------------------------------------------ non-vacuity *)
Definition ex_access : token := mkTok HS256 KAccess true (CStr 3) (CNum 2000) (CStr 1) CAbsent CAbsent CAbsent false false.
Definition ex_refresh : token := mkTok HS256 KRefresh true (CStr 3) (CNum (2000 + 518400)) (CStr 1) (CStr 1) CAbsent CAbsent false false.
Example ex_tokens :
  verify_access 1000 true (Some ex_access) = VOk 3 2000 1 0 /\
  verify_refresh 1000 (Some ex_access) = VInvalid /\
  verify_access 1000 true (Some ex_refresh) = VInvalid /\
  refresh 1000 (Some ex_access) (Some ex_refresh) 1 = Some 3 /\
  login_required 1000 (Some ex_refresh) = GUEST.
Proof. vm_compute. repeat split; reflexivity. Qed.

Example ex_cfg :
  secrets_distinct cfg_default /\ ~ secrets_distinct cfg_shared /\
  verify_access_c cfg_default 1000 true (Some ex_refresh) = VInvalid /\
  verify_access_c cfg_shared 1000 true (Some ex_refresh) = VOk 3 (2000 + 518400) 1 0 /\
  present_issued cfg_default 1000 KRefresh 3 1 0 0 1 0 = [0] /\ present_issued cfg_shared 1000 KRefresh 3 1 0 0 1 0 = [1; 3; 1; 0] /\
  present_issued cfg_default 1000 KRefresh 3 1 0 0 51 0 = [1; 3].
Proof.
  split; [exact cfg_default_distinct|]. split.
  - intros D. apply (D KRefresh KAccess); [discriminate|discriminate|reflexivity].
  - vm_compute. repeat split; reflexivity.
Qed.

(* ------------------------------------------------------------------ histories *)
(* the user a presentation authenticated (None: rejected / ran as nobody) *)
Definition authenticated (v : Z) (ans : list Z) : option Z :=
  if v =? 1 then match ans with [1; u; _; _; _] => Some u | _ => None end
  else if (v =? 41) || (v =? 43) || (v =? 42) || (v =? 44) then match ans with [u] => Some u | _ => None end
  else if v =? 6 then match ans with [1; u] => Some u | _ => None end
  else None.
(* ... and what alone justifies it: the token presented IN THAT STEP, at the clock reading OF THAT STEP *)
Definition justified (now : Z) (raw : option token) (u : Z) : Prop :=
  exists t e, raw = Some t /\ proper now KAccess t /\ claim_str (t_sub t) = Some u /\ t_exp t = CNum e /\ now < e.

Lemma present_sound now v raw u : 0 < now -> authenticated v (present now v raw) = Some u -> u <> GUEST -> justified now raw u.
Proof.
  intros Hn H Hu. unfold present, authenticated in H.
  destruct (v =? 1) eqn:E1.
  - destruct (verify_access now true raw) as [|u' e c m] eqn:E; cbn in H; [discriminate|].
    inversion H; subst u'. destruct raw as [t|]; [|cbn in E; inversion E; congruence].
    destruct (access_sound now t u e c m Hn E) as (P & S & X & L). exists t, e. repeat split; try assumption; apply P.
  - destruct (v =? 41), (v =? 43), (v =? 42), (v =? 44); cbn [orb] in H;
      try (injection H as H'; exact (login_required_sound now raw u Hn H' Hu)).
    destruct (v =? 6); [|discriminate].
    destruct (get_token_info now raw raw) as [u'|] eqn:E; cbn in H; [|discriminate].
    inversion H; subst u'. destruct (token_info_sound now raw raw u Hn E) as (L & _).
    exact (login_required_sound now raw u Hn L Hu).
Qed.

Fixpoint history_sound (toks : list (list Z)) (steps : list Z) : Prop :=
  match steps with
  | v :: i :: now :: rest =>
      (0 < now -> forall u, authenticated v (present now v (tok_at toks i)) = Some u -> u <> GUEST -> justified now (tok_at toks i) u)
      /\ history_sound toks rest
  | _ => True
  end.

Lemma history_sound_all toks steps : history_sound toks steps.
Proof.
  assert (A : forall n steps, (length steps <= n)%nat -> history_sound toks steps).
  { induction n as [|n IH]; intros st L.
    - destruct st; [exact I|cbn in L; lia].
    - destruct st as [|v [|i [|now rest]]]; try exact I. cbn [history_sound]. split.
      + intros Hn u H Hu. exact (present_sound now v _ u Hn H Hu).
      + apply IH. cbn in L. lia. }
  exact (A (length steps) steps (le_n _)).
Qed.

(* what was presented before does not change an answer: the answers after any prefix of whole steps are the answers without it *)
Lemma history_prefix toks n : forall pre post, length pre = (3 * n)%nat -> history toks (pre ++ post) = history toks pre ++ history toks post.
Proof.
  induction n as [|n IH]; intros pre post L.
  - destruct pre; [reflexivity|cbn in L; lia].
  - destruct pre as [|v [|i [|now rest]]]; cbn in L; try lia.
    cbn [app history]. f_equal. apply IH. lia.
Qed.

(* an answer given at a later clock reading was also the answer at every earlier one: a token never gains validity by time passing (or by having been used) *)
Lemma access_accepted_earlier now now' raw u e c m : now <= now' ->
  verify_access now' true raw = VOk u e c m -> verify_access now true raw = VOk u e c m.
Proof.
  intros Hle. destruct raw as [t|]; [|cbn; trivial].
  unfold verify_access, lib_accepts, lib_exp_ok.
  destruct (is_hmac (t_alg t)), (t_intact t), (key_eqb (t_key t) KAccess), (t_nbf_future t), (t_iat_future t); cbn; try discriminate;
  destruct (t_exp t) as [|s|n| |]; cbn; try discriminate;
  destruct (claim_str (t_cli t)), (claim_str (t_sub t)); cbn; try discriminate;
  repeat match goal with |- context [?a <? ?b] => destruct (Z.ltb_spec a b) end; cbn; try discriminate; try lia; trivial.
Qed.

Lemma access_rejected_later now now' raw : now <= now' -> verify_access now true raw = VInvalid -> verify_access now' true raw = VInvalid.
Proof.
  intros Hle H. destruct (verify_access now' true raw) as [|u e c m] eqn:E; [reflexivity|].
  rewrite (access_accepted_earlier now now' raw u e c m Hle E) in H. discriminate.
Qed.

Lemma guest_stays_guest now now' raw : now <= now' -> login_required now raw = GUEST -> login_required now' raw = GUEST.
Proof.
  intros Hle H. unfold login_required in *.
  destruct (verify_access now' true raw) as [|u e c m] eqn:E; [reflexivity|].
  rewrite (access_accepted_earlier now now' raw u e c m Hle E) in H. exact H.
Qed.

(* non-vacuity: a history in which a token is used while valid, then presented after its expiry (2000), with another user's token in between *)
Definition ex_wire_access (user exp : Z) : list Z := [1; 0; 0; 1; 1; user; 2; exp; 1; 1; 0; 0; 0; 0; 0; 0; 0; 0].
Example ex_history :
  history [ex_wire_access 3 2000; ex_wire_access 2 9000] [41; 0; 1000; 1; 1; 1500; 41; 0; 1999; 41; 0; 2000; 43; 0; 2001; 42; 1; 2001; 6; 0; 2500]
  = [[3]; [1; 2; 9000; 1; 0]; [3]; [GUEST]; [GUEST]; [2]; [0]].
Proof. vm_compute. reflexivity. Qed.
