From Verif Require Import Base.Common Model.C16.

(* what "properly made for secret k" means on the abstract description *)
Definition proper (now : Z) (k : key) (t : token) : Prop :=
  is_hmac (t_alg t) = true /\ t_intact t = true /\ t_key t = k /\
  t_nbf_future t = false /\ t_iat_future t = false /\ lib_exp_ok now (t_exp t) = true.

Lemma key_eqb_eq a b : key_eqb a b = true <-> a = b.
Proof. destruct a, b; cbn; split; intros H; try reflexivity; try discriminate. Qed.

Lemma lib_accepts_proper now k t : lib_accepts now k t = true <-> proper now k t.
Proof.
  unfold lib_accepts, proper. rewrite !andb_true_iff, !negb_true_iff, key_eqb_eq. tauto.
Qed.

Lemma lib_rejects_other_key now k t : t_key t <> k -> lib_accepts now k t = false.
Proof.
  intros H. destruct (lib_accepts now k t) eqn:E; [|reflexivity].
  apply lib_accepts_proper in E. destruct E as (_ & _ & E & _). contradiction.
Qed.

(* an expiry accepted by library and code together is a number strictly in the future *)
Lemma exp_future now e v : 0 < now -> lib_exp_ok now e = true -> claim_int e = Some v -> (v <? now) = false ->
  e = CNum v /\ now < v.
Proof.
  intros Hn Hl Hc Hv. destruct e; cbn in *; try discriminate; inversion Hc; subst; try lia.
  split; [reflexivity|lia].
Qed.

(* ------------------------------------------------------------------ access tokens *)

Lemma access_sound now t u e c m : 0 < now -> verify_access now true (Some t) = VOk u e c m ->
  proper now KAccess t /\ claim_str (t_sub t) = Some u /\ t_exp t = CNum e /\ now < e.
Proof.
  intros Hn H. unfold verify_access in H.
  destruct (lib_accepts now KAccess t) eqn:La; cbn [negb] in H; [|discriminate].
  destruct (claim_str (t_cli t)) as [cli|]; [|discriminate].
  destruct (claim_str (t_sub t)) as [sub|] eqn:Es; [|discriminate].
  destruct (claim_int (t_exp t)) as [ex|] eqn:Ee; [|discriminate].
  cbn [andb] in H. destruct (ex <? now) eqn:Elt; [discriminate|]. inversion H; subst.
  apply lib_accepts_proper in La. split; [exact La|]. split; [reflexivity|].
  destruct La as (_ & _ & _ & _ & _ & Hl). apply (exp_future now (t_exp t) e Hn Hl Ee Elt).
Qed.

Lemma access_complete now t u n cli : proper now KAccess t -> t_sub t = CStr u -> t_exp t = CNum n -> now < n ->
  claim_str (t_cli t) = Some cli -> verify_access now true (Some t) = VOk u n cli 0.
Proof.
  intros P Hs He Hn Hc. unfold verify_access. apply lib_accepts_proper in P. rewrite P. cbn [negb].
  rewrite Hc, Hs, He. cbn. replace (n <? now) with false by lia. reflexivity.
Qed.

Lemma access_wrong_key now chk t : t_key t <> KAccess -> verify_access now chk (Some t) = VInvalid.
Proof. intros H. unfold verify_access. rewrite lib_rejects_other_key by exact H. reflexivity. Qed.

Lemma access_altered now chk t : t_intact t = false \/ is_hmac (t_alg t) = false -> verify_access now chk (Some t) = VInvalid.
Proof.
  intros H. unfold verify_access, lib_accepts. destruct H as [-> | ->]; cbn; rewrite ?andb_false_r; reflexivity.
Qed.

Lemma access_expired now t n : t_exp t = CNum n -> n <= now -> forall chk, verify_access now chk (Some t) = VInvalid.
Proof.
  intros He Hn chk. unfold verify_access, lib_accepts. rewrite He. cbn [lib_exp_ok].
  replace (now <? n) with false by lia. rewrite !andb_false_r. reflexivity.
Qed.

(* ------------------------------------------------------------------ refresh tokens *)

Lemma refresh_tok_sound now t u e c m : 0 < now -> verify_refresh now (Some t) = VOk u e c m ->
  proper now KRefresh t /\ claim_str (t_sub t) = Some u /\ t_exp t = CNum e /\ now < e /\ claim_str (t_typ t) = Some TYP_REFRESH.
Proof.
  intros Hn H. unfold verify_refresh in H.
  destruct (lib_accepts now KRefresh t) eqn:La; cbn [negb] in H; [|discriminate].
  destruct (claim_str (t_cli t)) as [cli|]; [|discriminate].
  destruct (claim_str (t_sub t)) as [sub|] eqn:Es; [|discriminate].
  destruct (claim_int (t_exp t)) as [ex|] eqn:Ee; [|discriminate].
  destruct (claim_str (t_typ t)) as [ty|] eqn:Et; [|discriminate].
  destruct (ex <? now) eqn:Elt; [discriminate|].
  destruct (ty =? TYP_REFRESH) eqn:Ety; cbn [negb] in H; [|discriminate]. inversion H; subst.
  apply lib_accepts_proper in La. split; [exact La|]. split; [reflexivity|].
  destruct La as (_ & _ & _ & _ & _ & Hl). destruct (exp_future now (t_exp t) e Hn Hl Ee Elt) as [E1 E2].
  repeat split; try assumption. f_equal. lia.
Qed.

Lemma refresh_wrong_key now t : t_key t <> KRefresh -> verify_refresh now (Some t) = VInvalid.
Proof. intros H. unfold verify_refresh. rewrite lib_rejects_other_key by exact H. reflexivity. Qed.

(* ------------------------------------------------------------------ e-mail tokens *)

Lemma email_tok_sound now ctx t u e c m : 0 < now -> verify_email now ctx (Some t) = VOk u e c m ->
  proper now KEmail t /\ claim_str (t_sub t) = Some u /\ t_exp t = CNum e /\ now < e /\
  claim_str (t_ctx t) = Some ctx /\ claim_str (t_eml t) = Some m.
Proof.
  intros Hn H. unfold verify_email in H.
  destruct (lib_accepts now KEmail t) eqn:La; cbn [negb] in H; [|discriminate].
  destruct (claim_str (t_cli t)) as [cli|]; [|discriminate].
  destruct (claim_str (t_sub t)) as [sub|] eqn:Es; [|discriminate].
  destruct (claim_str (t_eml t)) as [em|] eqn:Em; [|discriminate].
  destruct (claim_int (t_exp t)) as [ex|] eqn:Ee; [|discriminate].
  destruct (claim_str (t_ctx t)) as [cx|] eqn:Ec; [|discriminate].
  destruct (ex <? now) eqn:Elt; [discriminate|].
  destruct (cx =? ctx) eqn:Ecx; cbn [negb] in H; [|discriminate]. inversion H; subst.
  apply lib_accepts_proper in La. split; [exact La|]. split; [reflexivity|].
  destruct La as (_ & _ & _ & _ & _ & Hl). destruct (exp_future now (t_exp t) e Hn Hl Ee Elt) as [E1 E2].
  repeat split; try assumption. f_equal. lia.
Qed.

Lemma email_wrong_key now ctx t : t_key t <> KEmail -> verify_email now ctx (Some t) = VInvalid.
Proof. intros H. unfold verify_email. rewrite lib_rejects_other_key by exact H. reflexivity. Qed.

Lemma email_other_context now ctx t cx : claim_str (t_ctx t) = Some cx -> cx <> ctx -> verify_email now ctx (Some t) = VInvalid.
Proof.
  intros Hc Hne. unfold verify_email. destruct (lib_accepts now KEmail t); cbn [negb]; [|reflexivity].
  destruct (claim_str (t_cli t)); [|reflexivity]. destruct (claim_str (t_sub t)); [|reflexivity].
  destruct (claim_str (t_eml t)); [|reflexivity]. destruct (claim_int (t_exp t)); [|reflexivity].
  rewrite Hc. destruct (z2 <? now); [reflexivity|]. replace (cx =? ctx) with false by lia. reflexivity.
Qed.

(* ------------------------------------------------------------------ requests *)

Lemma guest_downgrade now raw : verify_access now true raw = VInvalid -> login_required now raw = GUEST.
Proof. intros H. unfold login_required. rewrite H. reflexivity. Qed.

Lemma login_required_sound now raw u : 0 < now -> login_required now raw = u -> u <> GUEST ->
  exists t e, raw = Some t /\ proper now KAccess t /\ claim_str (t_sub t) = Some u /\ t_exp t = CNum e /\ now < e.
Proof.
  intros Hn H Hu. unfold login_required in H. destruct raw as [t|].
  - destruct (verify_access now true (Some t)) as [|u' e c m] eqn:E; [congruence|]. subst u'.
    destruct (access_sound now t u e c m Hn E) as (P & S & X & L). exists t, e. split; [reflexivity|]. split; [exact P|]. split; [exact S|]. split; [exact X|exact L].
  - cbn in H. congruence.
Qed.

(* a refresh succeeds only for a valid access/refresh pair of the same user issued together *)
Lemma refresh_sound now a r pcli u : REFRESH_TS - ACCESS_TS + EPSILON < now -> refresh now a r pcli = Some u ->
  exists ta tr ea er, a = Some ta /\ r = Some tr /\
    proper now KAccess ta /\ proper now KRefresh tr /\
    claim_str (t_sub ta) = Some u /\ claim_str (t_sub tr) = Some u /\
    t_exp tr = CNum er /\ now < er /\ claim_int (t_exp ta) = Some ea /\
    claim_str (t_typ tr) = Some TYP_REFRESH /\
    - EPSILON <= (er - ea) - (REFRESH_TS - ACCESS_TS) <= EPSILON.
Proof.
  intros Hn H. unfold refresh in H. unfold REFRESH_TS, ACCESS_TS, EPSILON in *.
  destruct (verify_access now false a) as [|ju jexp jcli jm] eqn:Ea; [discriminate|].
  destruct (verify_refresh now r) as [|ru rexp rcli rm] eqn:Er; [discriminate|].
  destruct ((2 <? rexp - jexp - (604800 - 86400)) || (rexp - jexp - (604800 - 86400) <? - (2))) eqn:Ed; [discriminate|].
  destruct (negb (rcli =? pcli) && negb (rcli =? jcli)); [discriminate|].
  destruct (ru =? ju) eqn:Eu; cbn [negb] in H; [|discriminate]. inversion H; subst u.
  assert (ju = ru) by lia. subst ju.
  apply orb_false_iff in Ed. destruct Ed as [Ed1 Ed2].
  destruct r as [tr|].
  2:{ (* no refresh token: guest with expiry 0 — excluded by the pairing window *)
      cbn in Er. inversion Er; subst. destruct a as [ta|].
      - unfold verify_access in Ea. destruct (lib_accepts now KAccess ta) eqn:La; cbn [negb] in Ea; [|discriminate].
        destruct (claim_str (t_cli ta)); [|discriminate]. destruct (claim_str (t_sub ta)); [|discriminate].
        destruct (claim_int (t_exp ta)) as [x|] eqn:Ex; [|discriminate]. cbn [andb] in Ea. inversion Ea; subst.
        apply lib_accepts_proper in La. destruct La as (_ & _ & _ & _ & _ & Hl).
        destruct (t_exp ta); cbn in *; try discriminate; inversion Ex; subst; lia.
      - cbn in Ea. inversion Ea; subst. lia. }
  destruct (refresh_tok_sound now tr ru rexp rcli rm ltac:(lia) Er) as (Pr & Sr & Xr & Lr & Tr).
  destruct a as [ta|].
  2:{ cbn in Ea. inversion Ea; subst. lia. }
  unfold verify_access in Ea. destruct (lib_accepts now KAccess ta) eqn:La; cbn [negb] in Ea; [|discriminate].
  destruct (claim_str (t_cli ta)); [|discriminate]. destruct (claim_str (t_sub ta)) as [sa|] eqn:Esa; [|discriminate].
  destruct (claim_int (t_exp ta)) as [x|] eqn:Ex; [|discriminate]. cbn [andb] in Ea. inversion Ea; subst.
  apply lib_accepts_proper in La.
  exists ta, tr, jexp, rexp.
  split; [reflexivity|]. split; [reflexivity|]. split; [exact La|]. split; [exact Pr|].
  split; [exact Esa|]. split; [exact Sr|]. split; [exact Xr|]. split; [exact Lr|].
  split; [exact Ex|]. split; [exact Tr|]. unfold REFRESH_TS, ACCESS_TS, EPSILON. lia.
Qed.

Lemma token_info_sound now a b u : 0 < now -> get_token_info now a b = Some u ->
  login_required now a = u /\
  ((exists t e, b = Some t /\ proper now KAccess t /\ claim_str (t_sub t) = Some u /\ t_exp t = CNum e /\ now < e)
   \/ (b = None /\ u = GUEST)).
Proof.
  intros Hn H. unfold get_token_info in H.
  destruct (verify_access now true b) as [|bu be bc bm] eqn:Eb; [discriminate|].
  destruct (bu =? login_required now a) eqn:Eu; [|discriminate]. inversion H; subst bu.
  split; [lia|]. destruct b as [t|].
  - left. destruct (access_sound now t u be bc bm Hn Eb) as (P & S & X & L).
    exists t, be. split; [reflexivity|]. split; [exact P|]. split; [exact S|]. split; [exact X|exact L].
  - right. cbn in Eb. inversion Eb; subst. split; reflexivity.
Qed.

(* an e-mail change / id-e-mail set is applied only with a valid token of exactly that context and user *)
Lemma email_use_sound now caller path_user etok ctx adm allow e : 0 < now ->
  email_use now caller path_user etok ctx adm allow = Some e ->
  path_user <> GUEST /\
  (login_required now caller = path_user \/ (allow = true /\ adm = true)) /\
  exists t x, etok = Some t /\ proper now KEmail t /\ claim_str (t_sub t) = Some path_user /\
              claim_str (t_ctx t) = Some ctx /\ claim_str (t_eml t) = Some e /\ t_exp t = CNum x /\ now < x.
Proof.
  intros Hn H. unfold email_use in H.
  destruct (path_user =? GUEST) eqn:Eg; [discriminate|].
  destruct (negb (allow && adm) && negb (login_required now caller =? path_user)) eqn:Ec; [discriminate|].
  destruct (verify_email now ctx etok) as [|eu ee ec em] eqn:Ev; [discriminate|].
  destruct (path_user =? eu) eqn:Eu; cbn [negb] in H; [|discriminate]. inversion H; subst em.
  assert (eu = path_user) by lia. subst eu.
  split; [lia|]. split.
  - apply andb_false_iff in Ec. destruct Ec as [Ec|Ec].
    + right. apply negb_false_iff, andb_true_iff in Ec. exact Ec.
    + left. apply negb_false_iff in Ec. lia.
  - destruct etok as [t|]; [|discriminate].
    destruct (email_tok_sound now ctx t path_user ee ec e Hn Ev) as (P & S & X & L & C & M).
    exists t, ee. split; [reflexivity|]. split; [exact P|]. split; [exact S|]. split; [exact C|]. split; [exact M|]. split; [exact X|exact L].
Qed.

(* ------------------------------------------------------------------ non-vacuity *)
Definition ex_access : token := mkTok HS256 KAccess true (CStr 3) (CNum 2000) (CStr 1) CAbsent CAbsent CAbsent false false.
Definition ex_refresh : token := mkTok HS256 KRefresh true (CStr 3) (CNum (2000 + 518400)) (CStr 1) (CStr 1) CAbsent CAbsent false false.
Example ex_tokens :
  verify_access 1000 true (Some ex_access) = VOk 3 2000 1 0 /\
  verify_refresh 1000 (Some ex_access) = VInvalid /\
  verify_access 1000 true (Some ex_refresh) = VInvalid /\
  refresh 1000 (Some ex_access) (Some ex_refresh) 1 = Some 3 /\
  login_required 1000 (Some ex_refresh) = GUEST.
Proof. vm_compute. repeat split; reflexivity. Qed.
