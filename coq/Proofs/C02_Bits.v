(* C02 — bit-blasting library: a word is [ofbits l] (least significant bit first); the word operations of the Go code
   (xor, and, or, shifts, masks with 63) are list operations on the bits. Used to turn dEncrypt on words whose bits
   are boolean variables into explicit lists of boolean expressions. *)
From Verif Require Import Base.Common Base.Sweep Model.C02 Proofs.C02_Core Proofs.C02_Sym Proofs.C02_Perm Proofs.C02_KeySched.

Fixpoint bxor (a b : list bool) : list bool :=
  match a, b with
  | [], _ => b
  | _, [] => a
  | x :: a', y :: b' => xorb x y :: bxor a' b'
  end.
Fixpoint bor (a b : list bool) : list bool :=
  match a, b with
  | [], _ => b
  | _, [] => a
  | x :: a', y :: b' => orb x y :: bor a' b'
  end.
Fixpoint band (a b : list bool) : list bool :=
  match a, b with
  | x :: a', y :: b' => andb x y :: band a' b'
  | _, _ => []
  end.

Lemma nth_bxor a : forall b j, nth j (bxor a b) false = xorb (nth j a false) (nth j b false).
Proof.
  induction a as [|x a IH]; intros b j.
  - cbn [bxor]. destruct j; destruct (nth _ b false); reflexivity.
  - destruct b as [|y b]; cbn [bxor].
    + destruct j; cbn [nth]; rewrite xorb_false_r; reflexivity.
    + destruct j; cbn [nth]; [reflexivity|apply IH].
Qed.
Lemma nth_bor a : forall b j, nth j (bor a b) false = orb (nth j a false) (nth j b false).
Proof.
  induction a as [|x a IH]; intros b j.
  - cbn [bor]. destruct j; reflexivity.
  - destruct b as [|y b]; cbn [bor].
    + destruct j; cbn [nth]; rewrite orb_false_r; reflexivity.
    + destruct j; cbn [nth]; [reflexivity|apply IH].
Qed.
Lemma nth_band a : forall b j, nth j (band a b) false = andb (nth j a false) (nth j b false).
Proof.
  induction a as [|x a IH]; intros b j.
  - cbn [band]. destruct j; reflexivity.
  - destruct b as [|y b]; cbn [band].
    + destruct j; cbn [nth]; rewrite andb_false_r; reflexivity.
    + destruct j; cbn [nth]; [reflexivity|apply IH].
Qed.
Lemma nth_skipn' {A} (d : A) n : forall l j, nth j (skipn n l) d = nth (n + j) l d.
Proof.
  induction n as [|n IH]; intros l j; [reflexivity|]. destruct l as [|a l]; cbn [skipn Nat.add nth]; [destruct j; reflexivity|apply IH].
Qed.
Lemma nth_firstn' {A} (d : A) n : forall l j, nth j (firstn n l) d = if (j <? n)%nat then nth j l d else d.
Proof.
  induction n as [|n IH]; intros l j; [cbn [firstn]; destruct j; reflexivity|].
  destruct l as [|a l]; cbn [firstn]; [destruct j; cbn [nth]; destruct (_ <? _)%nat; reflexivity|].
  destruct j as [|j]; [reflexivity|]. cbn [nth]. rewrite IH. reflexivity.
Qed.

Lemma ofbits_ext a b : (forall j, nth j a false = nth j b false) -> ofbits a = ofbits b.
Proof.
  intros H. apply Z.bits_inj'. intros j Hj. rewrite !testbit_ofbits by exact Hj. apply H.
Qed.

Lemma ofbits_xor a b : Z.lxor (ofbits a) (ofbits b) = ofbits (bxor a b).
Proof. apply Z.bits_inj'. intros j Hj. rewrite Z.lxor_spec, !testbit_ofbits by exact Hj. symmetry. apply nth_bxor. Qed.
Lemma ofbits_or a b : Z.lor (ofbits a) (ofbits b) = ofbits (bor a b).
Proof. apply Z.bits_inj'. intros j Hj. rewrite Z.lor_spec, !testbit_ofbits by exact Hj. symmetry. apply nth_bor. Qed.
Lemma ofbits_and a b : Z.land (ofbits a) (ofbits b) = ofbits (band a b).
Proof. apply Z.bits_inj'. intros j Hj. rewrite Z.land_spec, !testbit_ofbits by exact Hj. symmetry. apply nth_band. Qed.

Lemma ofbits_shr a n : (0 <= n) -> shr (ofbits a) n = ofbits (skipn (Z.to_nat n) a).
Proof.
  intros Hn. apply Z.bits_inj'. intros j Hj. unfold shr. rewrite Z.shiftr_spec, !testbit_ofbits by lia.
  rewrite nth_skipn'. f_equal. lia.
Qed.

Lemma ofbits_shl32 a n : (0 <= n) -> shl32 (ofbits a) n = ofbits (firstn 32 (repeat false (Z.to_nat n) ++ a)).
Proof.
  intros Hn. apply Z.bits_inj'. intros j Hj. rewrite shl32_bit by exact Hj. rewrite (testbit_ofbits (firstn 32 _)) by exact Hj.
  rewrite nth_firstn'. destruct (Z.ltb_spec j 32).
  - destruct (Nat.ltb_spec (Z.to_nat j) 32); [|lia]. cbn [andb].
    destruct (Z.ltb_spec j n).
    + rewrite Z.testbit_neg_r by lia. rewrite app_nth1 by (rewrite repeat_length; lia).
      symmetry. apply nth_repeat.
    + rewrite testbit_ofbits by lia. rewrite app_nth2 by (rewrite repeat_length; lia). rewrite repeat_length. f_equal. lia.
  - destruct (Nat.ltb_spec (Z.to_nat j) 32); [lia|]. reflexivity.
Qed.

Lemma ofbits_and63 a : Z.land (ofbits a) 63 = ofbits (firstn 6 a).
Proof.
  apply Z.bits_inj'. intros j Hj. rewrite Z.land_spec, !testbit_ofbits by exact Hj. rewrite nth_firstn'.
  change 63 with (Z.ones 6). destruct (Z.ltb_spec j 6).
  - rewrite Z.ones_spec_low by lia. destruct (Nat.ltb_spec (Z.to_nat j) 6); [|lia]. apply andb_true_r.
  - rewrite Z.ones_spec_high by lia. destruct (Nat.ltb_spec (Z.to_nat j) 6); [lia|]. apply andb_false_r.
Qed.

(* a 6-bit value is the word of its six bits *)
Lemma ofbits_six x : 0 <= x < 64 -> x = ofbits (map (Z.testbit x) [0; 1; 2; 3; 4; 5]).
Proof.
  intros Hx. apply Z.bits_inj'. intros j Hj. rewrite testbit_ofbits by exact Hj.
  destruct (Z.ltb_spec j 6).
  - assert (Hc : j = 0 \/ j = 1 \/ j = 2 \/ j = 3 \/ j = 4 \/ j = 5) by lia.
    destruct Hc as [->|[->|[->|[->|[->| ->]]]]]; reflexivity.
  - rewrite nth_overflow by (cbn [map length]; lia).
    destruct (Z.eq_dec x 0) as [->|Hz]; [apply Z.bits_0|]. apply Z.bits_above_log2; [lia|].
    apply Z.lt_le_trans with 6; [apply Z.log2_lt_pow2; lia|lia].
Qed.

Lemma testbits_ofbits6 b0 b1 b2 b3 b4 b5 :
  map (Z.testbit (ofbits [b0; b1; b2; b3; b4; b5])) [0; 1; 2; 3; 4; 5] = [b0; b1; b2; b3; b4; b5].
Proof. cbn [map]. rewrite !testbit_ofbits by lia. reflexivity. Qed.
