(* C18 — lemmas about Model/C18.v *)
From Verif Require Import Base.Common Base.Sweep Gen.Consts_default Gen.AnsiTab Gen.StrTab Model.C18.

(* ------------------------------------------------------------------ ESCAPE_FLAG *)
Definition param_spec (c : Z) : bool := ((48 <=? c) && (c <=? 57)) || (c =? 59) || (c =? 61).
Definition command_spec (c : Z) : bool := existsb (Z.eqb c) [65; 66; 67; 68; 72; 73; 74; 75; 102; 104; 108; 109; 115; 117].

Lemma escape_flag_spec :
  length ESCAPE_FLAG = 256%nat /\
  forall c, 0 <= c < 256 -> is_escape_param c = param_spec c /\ is_escape_command c = command_spec c.
Proof.
  split; [vm_compute; reflexivity|].
  intros c Hc.
  pose (P := fun c : Z => Bool.eqb (is_escape_param c) (param_spec c) && Bool.eqb (is_escape_command c) (command_spec c)).
  assert (H : P c = true).
  { apply (sweep P 256); [vm_compute; reflexivity|lia]. }
  unfold P in H. apply andb_true_iff in H. destruct H as [H1 H2].
  split; apply Bool.eqb_prop; assumption.
Qed.
