(* C18 — lemmas about Model/C18.v; the parts live in Proofs/C18_*.v *)
From Verif Require Import Base.Common Base.Cstr Gen.Consts_default Gen.AnsiTab Gen.StrTab Model.C18.
From Verif Require Export Proofs.C18_cmp Proofs.C18_lines Proofs.C18_lines_ev Proofs.C18_ansi Proofs.C18_dbcs Proofs.C18_tok Proofs.C18_env.

(* every helper whose Go code indexes or slices (and so could panic) or loops on a condition (and so could spin)
   returns normally on every input; the remaining helpers are total functions of the model by their type *)
Lemma no_crash :
  (forall s, exists ls, read_lines s = Ok ls) /\
  (forall a, exists r, trim_dbcs a = Ok r) /\
  (forall s flag, exists o, strip_ansi s flag = Ok o) /\
  (forall s pos, exists st, dbcs_status s pos = Ok st) /\
  (forall s, exists r, dbcs_safe_trim s = Ok r) /\
  (forall title, exists r, subject_ex title = Ok r).
Proof.
  split; [intros s; eexists; apply readline_split_lines|].
  split; [intros a; destruct (trimdbcs_spec a) as [r [arr [H _]]]; eexists; exact H|].
  split; [intros s flag; apply stripansi_total|].
  split; [intros s pos; eexists; apply dbcs_status_spec|].
  split; [intros s; destruct (safetrim_spec s) as [r [H _]]; eexists; exact H|].
  intros title. destruct (subjectex_spec title) as [ty [pre [rest [H _]]]]. eexists; exact H.
Qed.

(* the inputs that used to panic *)
Example no_crash_ex :
  read_lines [10] = Ok [[]] /\ trim_dbcs [] = Ok ([], []) /\ strip_ansi [27; 91; 49; 50] 1 = Ok [] /\
  dbcs_status [] 0 = Ok 0 /\ dbcs_safe_trim [164] = Ok [] /\ subject_ex [70; 119; 58] = Ok (2, []).
Proof. vm_compute. repeat split. Qed.

(* ------------------------------------------------------------------ the function the harness runs *)
(* [run_case] (extracted and run against the implementation on every case) never reports crash (1) or hang (2):
   its status is 0 (ok) or 9 (malformed case line) *)
Definition okbad (l : list Z) : Prop := hd 9 l = ST_OK \/ hd 9 l = ST_BADCASE.
Lemma okbad_if (b : bool) x y : okbad x -> okbad y -> okbad (if b then x else y).
Proof. destruct b; auto. Qed.
Lemma okbad_wire {A} (f : A -> list Z) (r : res A) : (exists a, r = Ok a) -> okbad (wire f r).
Proof. intros [a ->]. left. reflexivity. Qed.
Lemma okbad_fnv k s h n : okbad (fnv_op k s h n).
Proof.
  unfold fnv_op. repeat (apply okbad_if; [left; reflexivity|]).
  apply okbad_if; [|right; reflexivity]. destruct s as [|c [|? ?]]; [right|left|right]; reflexivity.
Qed.

Lemma run_op_base_status op rest : okbad (run_op_base op rest).
Proof.
  destruct no_crash as [T1 [T2 [T3 [T4 [T5 T6]]]]]. destruct no_crash_io as [T7 T8].
  unfold run_op_base.
  repeat (apply okbad_if;
    [ repeat match goal with |- okbad (match ?l with _ => _ end) => destruct l end;
      first [ left; reflexivity | right; reflexivity | apply okbad_fnv
            | apply okbad_wire; first [apply T1 | apply T2 | apply T3 | apply T4 | apply T5 | apply T6 | apply T7 | apply T8] ]
    | ]).
  right. reflexivity.
Qed.

Lemma run_case_status args : okbad (run_case args).
Proof.
  unfold run_case. destruct args as [|g rest]; [right; reflexivity|].
  destruct g as [|op [|? ?]]; [right; reflexivity| |right; reflexivity].
  unfold run_op. apply okbad_if; [|apply okbad_if; [|apply run_op_base_status]].
  - unfold run_window. destruct rest as [|[|iop [|? ?]] [|ns gs]]; try (right; reflexivity).
    apply okbad_if; [|right; reflexivity].
    apply okbad_if; [left; reflexivity|apply run_op_base_status].
  - unfold run_conc. destruct rest as [|[|g [|r [|? ?]]] gs]; try (right; reflexivity).
    apply okbad_if; [right; reflexivity|]. destruct (conc_outs _ _); [left|right]; reflexivity.
Qed.
