(* C18 — lemmas about Model/C18.v; the parts live in Proofs/C18_*.v *)
From Verif Require Import Base.Common Base.Cstr Gen.Consts_default Gen.AnsiTab Gen.StrTab Model.C18.
From Verif Require Export Proofs.C18_cmp Proofs.C18_lines Proofs.C18_ansi Proofs.C18_dbcs.

(* every helper whose Go code indexes or slices (and so could panic) or loops on a condition (and so could spin)
   returns normally on every input; the remaining helpers are total functions of the model by their type *)
Lemma no_crash :
  (forall s, exists ls, read_lines s = Ok ls) /\
  (forall a, exists r, trim_dbcs a = Ok r) /\
  (forall s flag, exists o, strip_ansi s flag = Ok o) /\
  (forall s pos, exists st, dbcs_status s pos = Ok st) /\
  (forall s, exists r, dbcs_safe_trim s = Ok r) /\
  (forall title, exists r, subject_ex title = Ok r).
Proof.
  split; [intros s; eexists; apply readline_split_lines|].
  split; [intros a; destruct (trimdbcs_spec a) as [r [arr [H _]]]; eexists; exact H|].
  split; [intros s flag; apply stripansi_total|].
  split; [intros s pos; eexists; apply dbcs_status_spec|].
  split; [intros s; destruct (safetrim_spec s) as [r [H _]]; eexists; exact H|].
  intros title. destruct (subjectex_spec title) as [ty [pre [rest [H _]]]]. eexists; exact H.
Qed.

(* the inputs that used to panic *)
Example no_crash_ex :
  read_lines [10] = Ok [[]] /\ trim_dbcs [] = Ok ([], []) /\ strip_ansi [27; 91; 49; 50] 1 = Ok [] /\
  dbcs_status [] 0 = Ok 0 /\ dbcs_safe_trim [164] = Ok [] /\ subject_ex [70; 119; 58] = Ok (2, []).
Proof. vm_compute. repeat split. Qed.
