(* C04 — hash chains held in arrays, at the level of total functions: the inductive meaning of a chain,
   linking at the tail, unlinking a node, and the well-formedness invariant of the whole index. *)
From Verif Require Import Base.Common Gen.Consts_default Model.C04.

Definition upd {A} (f : Z -> A) (k : Z) (v : A) : Z -> A := fun x => if x =? k then v else f x.
Lemma upd_same {A} (f : Z -> A) k v : upd f k v k = v.
Proof. unfold upd. rewrite Z.eqb_refl. reflexivity. Qed.
Lemma upd_other {A} (f : Z -> A) k v x : x <> k -> upd f k v x = f x.
Proof. unfold upd. intros H. destruct (Z.eqb_spec x k); congruence. Qed.

(* what a chain means: the nodes from p to the -1 terminator *)
Inductive chain (nx : Z -> Z) : Z -> list Z -> Prop :=
| ch_nil : chain nx (-1) []
| ch_cons p l : p <> -1 -> chain nx (nx p) l -> chain nx p (p :: l).

Lemma chain_ext nx nx' : (forall x, nx x = nx' x) -> forall p l, chain nx p l -> chain nx' p l.
Proof. intros E p l H. induction H as [|p l Hp Hc IH]; constructor; auto. rewrite <- E. exact IH. Qed.

Lemma chain_fun nx : forall p l, chain nx p l -> forall l', chain nx p l' -> l = l'.
Proof.
  induction 1 as [|p l Hp Hc IH]; intros l' H'; inversion H'; subst; try congruence.
  f_equal. apply IH. assumption.
Qed.

Lemma chain_upd_other nx k v : forall p l, chain nx p l -> ~ In k l -> chain (upd nx k v) p l.
Proof.
  induction 1 as [|p l Hp Hc IH]; intros Hk; constructor; auto.
  rewrite upd_other by (intros ->; apply Hk; left; reflexivity).
  apply IH. intros HH; apply Hk; right; exact HH.
Qed.

Lemma last_in (q : Z) l : In (last (q :: l) 0) (q :: l).
Proof. revert q. induction l as [|a l IH]; intros q; [left; reflexivity|]. right. apply IH. Qed.
Lemma last_in_ne (l : list Z) : l <> [] -> In (last l 0) l.
Proof. destruct l; [congruence|]. intros _. apply last_in. Qed.

(* link a fresh slot behind the last node and terminate it *)
Lemma chain_snoc nx slot : forall p l, chain nx p l -> NoDup l -> ~ In slot l -> slot <> -1 ->
  l <> [] -> chain (upd (upd nx (last l 0) slot) slot (-1)) p (l ++ [slot]).
Proof.
  induction 1 as [|p l Hp Hc IH]; intros Hnd Hni Hs Hne; [congruence|].
  assert (Hps : p <> slot) by (intros E; apply Hni; left; exact E).
  destruct l as [|q l'].
  - inversion Hc as [Hnext|]; subst. cbn [last app].
    constructor; [exact Hp|]. rewrite upd_other by exact Hps. rewrite upd_same.
    constructor; [exact Hs|]. rewrite upd_same. constructor.
  - inversion Hnd as [|? ? Hnp Hnd']; subst.
    change (last (p :: q :: l') 0) with (last (q :: l') 0).
    change ((p :: q :: l') ++ [slot]) with (p :: ((q :: l') ++ [slot])).
    constructor; [exact Hp|]. rewrite upd_other by exact Hps. rewrite upd_other.
    + apply IH; auto. intros HH; apply Hni; right; exact HH. discriminate.
    + intros E. apply Hnp. rewrite E. apply last_in.
Qed.

(* a fresh slot as the only node *)
Lemma chain_single nx slot : slot <> -1 -> chain (upd nx slot (-1)) slot [slot].
Proof. intros H. constructor; [exact H|]. rewrite upd_same. constructor. Qed.

(* unlink the node behind l1 *)
Lemma chain_unlink nx x : forall l1 p l2, chain nx p (l1 ++ x :: l2) -> NoDup (l1 ++ x :: l2) -> l1 <> [] ->
  chain (upd nx (last l1 0) (nx x)) p (l1 ++ l2).
Proof.
  induction l1 as [|a l1 IH]; intros p l2 Hc Hnd Hne; [congruence|].
  cbn [app] in Hc, Hnd. inversion Hc as [|? ? Hp Hc']; subst. inversion Hnd as [|? ? Hna Hnd']; subst.
  destruct l1 as [|b l1].
  - cbn [app last] in *. inversion Hc' as [|? ? Hx Hc'']; subst.
    constructor; [exact Hp|]. rewrite upd_same.
    apply chain_upd_other; [exact Hc''|]. intros Hin. apply Hna. right. exact Hin.
  - change (last (a :: b :: l1) 0) with (last (b :: l1) 0).
    change ((a :: b :: l1) ++ l2) with (a :: ((b :: l1) ++ l2)).
    constructor; [exact Hp|]. rewrite upd_other.
    + apply IH; [exact Hc'|exact Hnd'|discriminate].
    + intros E. apply Hna. rewrite E. apply in_or_app. left. apply last_in.
Qed.

Lemma chain_head_unlink nx x l2 p : chain nx p (x :: l2) -> p = x /\ chain nx (nx x) l2.
Proof. intros H. inversion H; subst. split; [reflexivity|assumption]. Qed.

Lemma chain_not_minus1 nx : forall p l, chain nx p l -> ~ In (-1) l.
Proof. induction 1 as [|p l Hp Hc IH]; intros H; [destruct H|]. destruct H as [H|H]; [congruence|auto]. Qed.

Lemma chain_split nx : forall l1 p x l2, chain nx p (l1 ++ x :: l2) -> chain nx x (x :: l2).
Proof.
  induction l1 as [|a l1 IH]; intros p x l2 H; cbn [app] in H.
  - inversion H; subst. exact H.
  - inversion H; subst. eapply IH. eassumption.
Qed.

(* ------------------------------------------------------------------ the constants *)
(* what the theorems need of a configuration: at least one slot, a hash table of 2^HASH_BITS >= 1 buckets in which the empty id does not fall into
   bucket 0 (FNV1_32_INIT mod 2^HASH_BITS; only the two statements about the zeroed segment use it), and the fuel fields being what their names say.
   NOTHING relates MAX_USERS to PRE_ALLOCATED_USERS or to 2^HASH_BITS: the table may be smaller or larger than the cap on free records and than the
   number of buckets. *)
Definition consts_ok (K : consts) : Prop :=
  0 < MAXU /\ 0 <= HASHBITS /\ cmsys.FNV1_32_INIT mod 2 ^ HASHBITS <> 0 /\
  FUEL_MAXU = Z.to_nat MAXU /\ FUEL_LOADER = S (Z.to_nat MAXU).

Section Cfg.
Context {K : consts} (HK : consts_ok K).

Lemma MAXU_pos : 0 < MAXU.
Proof. exact (proj1 HK). Qed.
Lemma HASHN_pos : 0 < HASHN.
Proof. unfold HASHN. apply Z.pow_pos_nonneg; [reflexivity|exact (proj1 (proj2 HK))]. Qed.
Lemma FUEL_MAXU_eq : FUEL_MAXU = Z.to_nat MAXU.
Proof. exact (proj1 (proj2 (proj2 (proj2 HK)))). Qed.
Lemma FUEL_LOADER_eq : FUEL_LOADER = S (Z.to_nat MAXU).
Proof. exact (proj2 (proj2 (proj2 (proj2 HK)))). Qed.
Lemma empty_hash_nonzero : cmsys.FNV1_32_INIT mod HASHN <> 0.
Proof. exact (proj1 (proj2 (proj2 HK))). Qed.

(* ------------------------------------------------------------------ the invariant *)
Definition hash_ok (h : Z) : Prop := 0 <= h < HASHN.

Definition WFf (hd nx : Z -> Z) (idf : Z -> list Z) : Prop :=
  forall h, hash_ok h -> exists l, chain nx (hd h) l /\ NoDup l /\
    (forall x, In x l -> in_range x = true /\ uhash (idf x) = h).

Definition on_chainf (hd nx : Z -> Z) (x : Z) : Prop :=
  exists h l, hash_ok h /\ chain nx (hd h) l /\ In x l.

Lemma WFf_ext hd nx idf hd' nx' idf' :
  (forall x, hd x = hd' x) -> (forall x, nx x = nx' x) -> (forall x, idf x = idf' x) ->
  WFf hd nx idf -> WFf hd' nx' idf'.
Proof.
  intros Eh En Ei W h Hh. destruct (W h Hh) as [l [Hc [Hnd Hx]]]. exists l. split; [|split].
  - rewrite <- Eh. eapply chain_ext; eassumption.
  - exact Hnd.
  - intros x Hin. rewrite <- Ei. apply Hx. exact Hin.
Qed.

Lemma on_chainf_ext hd nx hd' nx' x :
  (forall x, hd x = hd' x) -> (forall x, nx x = nx' x) -> on_chainf hd nx x -> on_chainf hd' nx' x.
Proof.
  intros Eh En [h [l [Hh [Hc Hin]]]]. exists h, l. split; [exact Hh|]. split; [|exact Hin].
  rewrite <- Eh. eapply chain_ext; eassumption.
Qed.

Lemma uhash_ok id : hash_ok (uhash id).
Proof. unfold hash_ok, uhash. apply Z.mod_pos_bound. exact HASHN_pos. Qed.

Lemma in_range_not_m1 x : in_range x = true -> x <> -1.
Proof. unfold in_range. intros H E. subst. discriminate. Qed.

(* under WF a slot can only be on the chain its id selects *)
Lemma WFf_on_chain_bucket hd nx idf x h l : WFf hd nx idf -> hash_ok h -> chain nx (hd h) l -> In x l -> uhash (idf x) = h.
Proof.
  intros W Hh Hc Hin. destruct (W h Hh) as [l' [Hc' [_ Hx]]].
  rewrite (chain_fun _ _ _ Hc _ Hc') in Hin. apply Hx. exact Hin.
Qed.

Lemma NoDup_app_snoc (l : list Z) x : NoDup l -> ~ In x l -> NoDup (l ++ [x]).
Proof.
  induction l as [|a l IH]; intros Hnd Hni; cbn [app].
  - constructor; [intros []|constructor].
  - inversion Hnd as [|? ? Ha Hnd']; subst. constructor.
    + intros Hin. apply in_app_or in Hin. destruct Hin as [Hin|[E|[]]]; [contradiction|]. apply Hni. left. symmetry. exact E.
    + apply IH; [exact Hnd'|]. intros Hin. apply Hni. right. exact Hin.
Qed.

(* link [slot] (on no chain) at the tail of bucket h0 *)
Lemma WFf_link hd nx idf idf' slot h0 l0 :
  WFf hd nx idf -> in_range slot = true -> ~ on_chainf hd nx slot -> hash_ok h0 ->
  uhash (idf' slot) = h0 -> (forall x, x <> slot -> idf' x = idf x) ->
  chain nx (hd h0) l0 ->
  let hd' := if match l0 with [] => true | _ => false end then upd hd h0 slot else hd in
  let nx' := if match l0 with [] => true | _ => false end then upd nx slot (-1) else upd (upd nx (last l0 0) slot) slot (-1) in
  WFf hd' nx' idf' /\ chain nx' (hd' h0) (l0 ++ [slot]) /\
  (forall x, on_chainf hd' nx' x <-> on_chainf hd nx x \/ x = slot).
Proof.
  intros W Hr Hfree Hh0 Hid Hother Hc0 hd' nx'.
  assert (Hs1 : slot <> -1) by (apply in_range_not_m1; exact Hr).
  destruct (W h0 Hh0) as [l0' [Hc0' [Hnd0 Hx0]]].
  rewrite <- (chain_fun _ _ _ Hc0 _ Hc0') in Hnd0, Hx0. clear l0' Hc0'.
  assert (Hni0 : ~ In slot l0) by (intros Hin; apply Hfree; exists h0, l0; auto).
  (* the new chain of h0 *)
  assert (Hnew : chain nx' (hd' h0) (l0 ++ [slot])).
  { subst hd' nx'. destruct l0 as [|a l0].
    - cbn [app]. rewrite upd_same. apply chain_single. exact Hs1.
    - apply chain_snoc; auto. discriminate. }
  (* the other chains are untouched *)
  assert (Hold : forall h l, hash_ok h -> h <> h0 -> chain nx (hd h) l -> chain nx' (hd' h) l).
  { intros h l Hh Hne Hc. subst hd' nx'.
    assert (Hsl : ~ In slot l) by (intros Hin; apply Hfree; exists h, l; auto).
    destruct l0 as [|a l0].
    - rewrite upd_other by exact Hne. apply chain_upd_other; assumption.
    - apply chain_upd_other; [|exact Hsl]. apply chain_upd_other; [exact Hc|].
      intros Hin. apply Hne. rewrite <- (WFf_on_chain_bucket hd nx idf _ h l W Hh Hc Hin).
      apply Hx0. apply last_in. }
  split; [|split; [exact Hnew|]].
  - intros h Hh. destruct (Z.eq_dec h h0) as [->|Hne].
    + exists (l0 ++ [slot]). split; [exact Hnew|]. split.
      * apply NoDup_app_snoc; assumption.
      * intros x Hin. apply in_app_or in Hin. destruct Hin as [Hin|[<-|[]]].
        -- destruct (Hx0 x Hin) as [H1 H2]. split; [exact H1|]. rewrite Hother; [exact H2|]. intros ->. contradiction.
        -- split; assumption.
    + destruct (W h Hh) as [l [Hc [Hnd Hx]]]. exists l. split; [apply Hold; assumption|]. split; [exact Hnd|].
      intros x Hin. destruct (Hx x Hin) as [H1 H2]. split; [exact H1|]. rewrite Hother; [exact H2|].
      intros ->. apply Hfree. exists h, l. auto.
  - intros x. split.
    + intros [h [l [Hh [Hc Hin]]]]. destruct (Z.eq_dec h h0) as [->|Hne].
      * rewrite (chain_fun _ _ _ Hc _ Hnew) in Hin. apply in_app_or in Hin. destruct Hin as [Hin|[<-|[]]]; [left|right; reflexivity].
        exists h0, l0. auto.
      * left. destruct (W h Hh) as [l' [Hc' _]]. pose proof (Hold h l' Hh Hne Hc') as Hc''.
        rewrite (chain_fun _ _ _ Hc _ Hc'') in Hin. exists h, l'. auto.
    + intros [[h [l [Hh [Hc Hin]]]]| ->].
      * destruct (Z.eq_dec h h0) as [->|Hne].
        -- exists h0, (l0 ++ [slot]). split; [exact Hh0|]. split; [exact Hnew|].
           rewrite (chain_fun _ _ _ Hc _ Hc0) in Hin. apply in_or_app. left. exact Hin.
        -- exists h, l. split; [exact Hh|]. split; [apply Hold; assumption|exact Hin].
      * exists h0, (l0 ++ [slot]). split; [exact Hh0|]. split; [exact Hnew|]. apply in_or_app. right. left. reflexivity.
Qed.

(* unlink [slot] from the chain its id selects *)
Lemma WFf_unlink hd nx idf slot l1 l2 :
  WFf hd nx idf -> chain nx (hd (uhash (idf slot))) (l1 ++ slot :: l2) ->
  let h0 := uhash (idf slot) in
  let hd' := if match l1 with [] => true | _ => false end then upd hd h0 (nx slot) else hd in
  let nx' := if match l1 with [] => true | _ => false end then nx else upd nx (last l1 0) (nx slot) in
  WFf hd' nx' idf /\ (forall x, on_chainf hd' nx' x <-> on_chainf hd nx x /\ x <> slot).
Proof.
  intros W Hc0 h0 hd' nx'.
  assert (Hh0 : hash_ok h0) by apply uhash_ok.
  destruct (W h0 Hh0) as [l0' [Hc0' [Hnd0 Hx0]]].
  rewrite <- (chain_fun _ _ _ Hc0 _ Hc0') in Hnd0, Hx0. clear l0' Hc0'.
  assert (Hnew : chain nx' (hd' h0) (l1 ++ l2)).
  { subst hd' nx'. destruct l1 as [|a l1].
    - cbn [app] in *. rewrite upd_same. apply (chain_head_unlink nx slot l2 _ Hc0).
    - apply chain_unlink; [exact Hc0|exact Hnd0|discriminate]. }
  assert (Hold : forall h l, hash_ok h -> h <> h0 -> chain nx (hd h) l -> chain nx' (hd' h) l).
  { intros h l Hh Hne Hc. subst hd' nx'. destruct l1 as [|a l1].
    - rewrite upd_other by exact Hne. exact Hc.
    - apply chain_upd_other; [exact Hc|]. intros Hin. apply Hne.
      rewrite <- (WFf_on_chain_bucket hd nx idf _ h l W Hh Hc Hin).
      apply Hx0. apply in_or_app. left. apply last_in. }
  assert (Hsl : ~ In slot (l1 ++ l2)) by (apply NoDup_remove_2; exact Hnd0).
  split.
  - intros h Hh. destruct (Z.eq_dec h h0) as [->|Hne].
    + exists (l1 ++ l2). split; [exact Hnew|]. split; [apply NoDup_remove_1 with (a := slot); exact Hnd0|].
      intros x Hin. apply Hx0. apply in_app_or in Hin. apply in_or_app. destruct Hin; [left|right; right]; assumption.
    + destruct (W h Hh) as [l [Hc [Hnd Hx]]]. exists l. split; [apply Hold; assumption|]. split; assumption.
  - intros x. split.
    + intros [h [l [Hh [Hc Hin]]]]. destruct (Z.eq_dec h h0) as [->|Hne].
      * rewrite (chain_fun _ _ _ Hc _ Hnew) in Hin. split.
        -- exists h0, (l1 ++ slot :: l2). split; [exact Hh0|]. split; [exact Hc0|].
           apply in_app_or in Hin. apply in_or_app. destruct Hin; [left|right; right]; assumption.
        -- intros ->. contradiction.
      * destruct (W h Hh) as [l' [Hc' [_ Hx']]]. pose proof (Hold h l' Hh Hne Hc') as Hc''.
        rewrite (chain_fun _ _ _ Hc _ Hc'') in Hin. split; [exists h, l'; auto|].
        intros ->. apply Hne. destruct (Hx' slot Hin) as [_ E]. symmetry. exact E.
    + intros [[h [l [Hh [Hc Hin]]]] Hne]. destruct (Z.eq_dec h h0) as [->|Hneh].
      * rewrite (chain_fun _ _ _ Hc _ Hc0) in Hin. exists h0, (l1 ++ l2). split; [exact Hh0|]. split; [exact Hnew|].
        apply in_app_or in Hin. apply in_or_app. destruct Hin as [Hin|[E|Hin]]; [left; exact Hin|congruence|right; exact Hin].
      * exists h, l. split; [exact Hh|]. split; [apply Hold; assumption|exact Hin].
Qed.

(* a duplicate-free list of in-range slots has at most MAX_USERS elements *)
Lemma range_len_bound (l : list Z) : NoDup l -> (forall x, In x l -> in_range x = true) -> (length l <= Z.to_nat MAXU)%nat.
Proof.
  intros Hnd Hr.
  assert (Hincl : incl l (map Z.of_nat (seq 0 (Z.to_nat MAXU)))).
  { intros x Hin. specialize (Hr x Hin). unfold in_range in Hr. apply andb_prop in Hr. destruct Hr as [H1 H2].
    apply Z.leb_le in H1. apply Z.ltb_lt in H2.
    replace x with (Z.of_nat (Z.to_nat x)) by lia. apply in_map. apply in_seq. lia. }
  pose proof (NoDup_incl_length Hnd Hincl) as H. rewrite map_length, seq_length in H. exact H.
Qed.
Lemma range_len_bound_strict (l : list Z) slot : NoDup l -> (forall x, In x l -> in_range x = true) ->
  in_range slot = true -> ~ In slot l -> (length l < Z.to_nat MAXU)%nat.
Proof.
  intros Hnd Hr Hs Hni.
  assert (H : (length (slot :: l) <= Z.to_nat MAXU)%nat).
  { apply range_len_bound; [constructor; assumption|]. intros x [<-|Hin]; auto. }
  cbn [length] in H. lia.
Qed.
End Cfg.
