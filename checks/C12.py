#!/usr/bin/env python3
"""C12 — creating boards: proofs in coq/Props/C12.v; correspondence of the executable model with
bbs.CreateBoard / api.CreateBoard on real shared memory, and direct predicates (accept / frame / refuse /
name rule / lookup = scan) on the implementation's own bytes. Two drivers: the default build (MAX_BOARD = 100,
small and full tables, every byte printed) and the production build (-tags docker, MAX_BOARD = 20000: tables of
2000 .. 20000 boards, duplicate detection for the names that sit deepest in the by-name binary search)."""
import os, sys, struct, itertools
from concurrent.futures import ThreadPoolExecutor
sys.path.insert(0, os.path.join(os.path.dirname(os.path.abspath(__file__)), "..", "lib"))
import vf

PERM_BASIC, PERM_POST, PERM_LOGINOK, PERM_BM, PERM_BOARD, PERM_SYSOP = 1, 8, 16, 1024, 8192, 16384
BRD_GROUPBOARD, BRD_HIDE, BRD_POSTMASK, BRD_CPLOG = 8, 16, 32, 0x200000
ERR = {0: "ok", 1: "invalid-parent", 2: "no-rights", 3: "malformed-name", 4: "duplicate", 5: "directory-exists", 6: "no-capacity", 7: "other", 8: "no-user"}
OKCH = set(b"ABCDEFGHIJKLMNOPQRSTUVWXYZabcdefghijklmnopqrstuvwxyz0123456789_-.")
ALPHA = set(b"ABCDEFGHIJKLMNOPQRSTUVWXYZabcdefghijklmnopqrstuvwxyz")
WORKERS = 8


def pad(b, n):
    b = bytes(b)[:n]
    return b + b"\0" * (n - len(b))


def cstr(b):
    i = b.find(b"\0")
    return b if i < 0 else b[:i]


_FOLD = {}


def fold(b):
    r = _FOLD.get(b)
    if r is None:
        r = _FOLD[b] = cstr(b).lower()      # bytes.lower() folds exactly A-Z
    return r


def toks(bs):
    return " ".join(str(x) for x in bs)


def lp(b):
    return [len(b)] + list(b)


def name_rule(raw):
    """the rule of the property text"""
    return 2 <= len(raw) <= 12 and all(c in OKCH for c in raw) and raw[0] in ALPHA


class Slot:
    def __init__(self, name=b"", title=b"", bm=b"", attr=0, chess=0, level=0, gid=0, fill=0):
        self.name, self.title, self.bm, self.attr, self.chess, self.level, self.gid, self.fill = name, title, bm, attr, chess, level, gid, fill

    def group(self):
        return toks(list(pad(self.name, 13)) + list(pad(self.title, 49)) + list(pad(self.bm, 39)) + [self.attr, self.chess, self.level, self.gid, self.fill])

    def bytes(self):
        b = bytearray([self.fill]) * 256
        b[0:13] = pad(self.name, 13); b[13:62] = pad(self.title, 49); b[62:101] = pad(self.bm, 39)
        b[104:108] = struct.pack("<I", self.attr); b[108] = self.chess
        b[124:128] = struct.pack("<I", self.level); b[132:136] = struct.pack("<I", self.gid)
        return bytes(b)


class Req:
    def __init__(self, caller, cls, name, klass=b"Test", title=b"a board", bms=(), attr=0, level=0, chess=0, group=0):
        self.caller, self.cls, self.name, self.klass, self.title, self.bms = caller, cls, name, klass, title, list(bms)
        self.attr, self.level, self.chess, self.group = attr, level, chess, group

    def group_toks(self, U):
        uid, lvl, uname = U[self.caller]
        g = [uid, lvl, self.cls, self.attr, self.level, self.chess, self.group] + lp(cstr(uname)) + lp(self.name) + lp(self.klass) + lp(self.title) + [len(self.bms)]
        for b in self.bms:
            g += lp(b)
        return toks(g)


def names_group(names):
    out = []
    for n in names:
        out += list(pad(n, 13))
    return toks(out)


def unbig(tok):
    v = int(tok)
    if v == 0:
        return b""
    return v.to_bytes((v.bit_length() + 7) // 8, "big")[1:]


class Obs:
    """one observation of the implementation: the part shared with the model, and all bytes"""
    def __init__(self, t, npool):
        i = t.index("-777")
        self.shared = t[:i]
        s = t[:i]
        self.code, self.bid, self.bnum, self.nfile = int(s[0]), int(s[1]), int(s[2]), int(s[3])
        p = 4 + 2 * max(self.nfile, 0)
        self.k = int(s[p]); p += 1 + 2 * self.k
        self.tailzero = int(s[p]); p += 1
        self.bmcache = [tuple(int(x) for x in s[p + 4 * j:p + 4 * j + 4]) for j in range(self.k)]; p += 4 * self.k
        n = max(0, min(self.bnum, 100))
        self.sn = [int(x) for x in s[p:p + n]]; p += n
        self.sc = [int(x) for x in s[p:p + n]]; p += n
        self.getbid = [int(x) for x in s[p:p + npool]]; p += npool
        self.direx = [int(x) for x in s[p:p + npool]]; p += npool
        self.ndirs = int(s[p]); p += 1
        e = t[i + 1:]
        nf = int(e[0]); q = 1
        self.file = [unbig(x) for x in e[q:q + max(nf, 0)]]; q += max(nf, 0)
        kk = int(e[q]); q += 1
        self.cache = [unbig(x) for x in e[q:q + kk]]; q += kk
        nd = int(e[q]); q += 1
        self.dirs = sorted(unbig(x) for x in e[q:q + nd])


def split_obs(line, npool):
    t = line.split()
    if t[0] != "0":
        return None
    out, cur = [], []
    for x in t[1:]:
        if x == "-555":
            out.append(cur); cur = []
        else:
            cur.append(x)
    out.append(cur)
    return [Obs(o, npool) for o in out]


def shared_line(line):
    """the implementation's result line without the implementation-only parts"""
    t = line.split()
    if t[0] != "0":
        return line.strip()
    out, skip = [], False
    for x in t:
        if x == "-777":
            skip = True
        elif x == "-555":
            skip = False; out.append(x)
        elif not skip:
            out.append(x)
    return " ".join(out)


def cstrcmp(a, b):
    a, b = cstr(a), cstr(b)
    for i in range(min(len(a), len(b))):
        if a[i] != b[i]:
            return a[i] - b[i]
    return len(a) - len(b)


def less_name(c, i, j):
    return cstrcmp(fold(c[i][0:13]), fold(c[j][0:13])) < 0


def less_class(c, i, j):
    k = cstrcmp(c[i][13:17], c[j][13:17])
    return k < 0 if k != 0 else less_name(c, i, j)


def sorted_perm(arr, n, cache, less):
    if sorted(arr) != list(range(n)):
        return False
    if n > 200:  # big tables: sort keys (bytes compare = Cstrcmp on NUL-free prefixes), adjacent pairs
        kn = [fold(cache[i][0:13]) for i in range(n)]
        key = kn if less is less_name else [(cstr(cache[i][13:17]), kn[i]) for i in range(n)]
        return all(key[arr[i]] <= key[arr[i + 1]] for i in range(n - 1))
    if n > 40:   # adjacent pairs suffice for a strict weak order; the small tables are checked pairwise
        return all(not less(cache, arr[i + 1], arr[i]) for i in range(n - 1))
    return all(not less(cache, arr[j], arr[i]) for i in range(n) for j in range(i + 1, n))


def par(fn, lines, n=WORKERS):
    if len(lines) < 4 * n:
        return fn(lines)
    size = (len(lines) + n - 1) // n
    parts = [lines[i:i + size] for i in range(0, len(lines), size)]
    with ThreadPoolExecutor(len(parts)) as ex:
        res = list(ex.map(fn, parts))
    return [x for r in res for x in r]


class Case:
    def __init__(self, slots, reqs, dirs=None, via=0, tag=""):
        self.slots, self.reqs, self.via, self.tag = slots, reqs, via, tag
        self.dirs = dirs if dirs is not None else [s.name for s in slots if cstr(s.name)]
        self.extra_pool = []


def main():
    c = vf.Check("C12")
    rng = c.rng
    thorough = c.tier == "thorough"
    c.prove()
    model_ok = c.model_ok()
    impl = vf.build_impl()
    impl_docker = vf.build_impl(tags="verif docker", name="implrun_docker")      # the production configuration: MAX_BOARD = 20000
    model = vf.build_model("C12") if model_ok else None
    vf.ipc_cleanup()

    import time
    def tick(what):
        if os.environ.get("VERIF_TIMING"):
            sys.stderr.write("[%6.1fs] %s\n" % (time.time() - c.t0, what))

    def run_i(lines):
        return vf.run_impl(impl, "C12", lines, deadline_ms=30000)

    # ---------------------------------------------------------------- constants and users
    LV = {"admin": PERM_BASIC | PERM_POST | PERM_LOGINOK | PERM_BOARD, "sysop": PERM_BASIC | PERM_POST | PERM_LOGINOK | PERM_BOARD | PERM_SYSOP,
          "mod": PERM_BASIC | PERM_POST | PERM_LOGINOK | PERM_BM, "plain": PERM_BASIC | PERM_POST | PERM_LOGINOK}
    UIDS = {"admin": 2, "sysop": 5, "mod": 3, "plain": 4}      # CodingMan, Kahou2, pichu, Kahou
    k0 = run_i(["0"])[0].split()          # the driver's setup gives the four callers their levels
    if k0[0] != "0":
        raise SystemExit("C12 driver: cannot read constants: %s" % k0[:4])
    MAXB, IDLEN, SZ, AUTOCPLOG = int(k0[1]), int(k0[2]), int(k0[3]), int(k0[4])
    consts = [int(x) for x in k0[1:11]]
    if consts != [100, 12, 256, 1, 163, 85, 161, 183, 4, 50]:
        c.broken.append({"kind": "correspondence", "where": "constants", "theorem": "compiled constants (MAX_BOARD, IDLEN, record size, DEFAULT_AUTOCPLOG, symbols, MAX_BMs, MAX_USERS) = model",
                         "log": str(consts)})
    users = {}
    rest = k0[11:]
    while rest:
        uid, lvl, name = int(rest[1]), int(rest[2]), bytes(int(x) for x in rest[3:16])
        users[uid] = (lvl, name)
        rest = rest[16:]
    U = {k: (UIDS[k], users[UIDS[k]][0], users[UIDS[k]][1]) for k in UIDS}
    for k in UIDS:
        if users[UIDS[k]][0] & (PERM_BOARD | PERM_SYSOP | PERM_BASIC | PERM_LOGINOK) != LV[k] & (PERM_BOARD | PERM_SYSOP | PERM_BASIC | PERM_LOGINOK):
            raise SystemExit("C12 driver: user levels not set")
    by_fold = {fold(n): uid for uid, (l, n) in users.items()}

    def user_exists(idb):
        i13 = pad(idb, 13)
        return i13[0] != 0 and fold(i13) in by_fold

    def users_group(case):
        """the user index restricted to the ids this case mentions (callers, requested and stored moderators)"""
        ment = set()
        for s in case.slots:
            for p in cstr(pad(s.bm, 39)).split(b"/"):
                ment.add(fold(pad(p, 13)))
        for r in case.reqs:
            ment.add(fold(U[r.caller][2]))
            for b in r.bms:
                for p in cstr(pad(b, 13)).split(b"/"):
                    ment.add(fold(pad(p, 13)))
                ment.add(fold(pad(b, 13)))
        out = []
        for f in sorted(ment):
            if f in by_fold:
                out += [by_fold[f]] + list(users[by_fold[f]][1])
        return toks(out)

    # ---------------------------------------------------------------- pools
    GRP = b"\xa3\x55"; BRD = b"\xa1\xb7"
    def occ(i, fill=0):
        names = [b"Alpha", b"beta", b"Gamma", b"delta9", b"Eps.x", b"zeta-1", b"Eta_2"]
        bms = [b"pichu", b"", b"Kahou2/pichu", b"Kahou", b"", b"pichu2/pichu", b""]
        return Slot(names[i], b"Clas " + (GRP if i == 0 else BRD) + b"board %d" % i, bms[i], BRD_GROUPBOARD if i == 0 else 0, 0, 0, 0 if i == 0 else 1, fill)
    def vac(kind, fill=0):
        if kind == 0:
            return Slot(fill=0)
        return Slot(b"\0ld", b"Gone " + BRD + b"a deleted board", b"pichu", 0, 0, 0, 1, fill)   # name emptied, the rest left behind

    valid_names = [b"Newbrd", b"zz", b"a-b_c.d", b"Twelve_chars", b"x9", b"a..b"]
    twins = [b"newbrd", b"NEWBRD", b"Alpha", b"ALPHA", b"alpha", b"beta", b"BETA"]
    bad_names = [b"a", b"Thirteen_char", b"ab/cd", b"Alpha/../zz", b"a/../b", b"..", b"9lives", b"_ab", b"ab cd", b"ab\x80", b"", b"abcdefghijklmnop",
                 b"beta/x", b"a/", b"Z.", b"-a", b"a\xa1\xb7", b"beta/../qq"]
    nul_names = [b"ab\0cd"]                      # correspondence only: C-string semantics make this "ab"
    all_names = valid_names + twins + bad_names + nul_names
    POOL = []
    for n in all_names + [b"Alpha", b"beta", b"Gamma", b"delta9", b"zz", b"qq", b"ab", b"cd", b"x", b"b"]:
        if pad(n, 13) not in POOL and cstr(pad(n, 13)):
            POOL.append(pad(n, 13))
    bm_sets = [[], [b"pichu"], [b"PICHU", b"nosuch", b"Ab"], [b"Ab", b"Ptt", b"aska", b"test", b"pichu"], [b"CodingMan", b"chhsiao123", b"test119540", b"SYSOP120"],
               [b"Kahou", b""], [b"a/b", b"pichu"], [b"toolongusername1", b"Ptt"]]
    attrs = [0, BRD_HIDE, BRD_HIDE | BRD_POSTMASK, BRD_POSTMASK, BRD_GROUPBOARD | BRD_CPLOG, 0xFFFFFFFF, 0x01000000]
    levels = [0, PERM_POST, PERM_BM, 0xFFFFFFFF]
    callers = ["admin", "sysop", "mod", "plain"]
    clss = [1, 1, 1, 2, 3, 0, -1, MAXB, MAXB + 1, 7]

    def small_tables():
        out = []
        for n in range(0, 5):
            for pat in itertools.product([0, 1], repeat=n):
                vk = (sum(pat) + n) % 2
                fill = 0 if (n + sum(pat)) % 3 else 0xAA
                out.append([occ(i, fill) if pat[i] else vac((vk + i) % 2, fill) for i in range(n)])
        return out
    TABLES = small_tables()

    def full_table(holes=()):
        t = []
        for i in range(MAXB):
            if i in holes:
                t.append(vac(i % 2, 0x11))
            elif i == 0:
                t.append(occ(0))
            else:
                t.append(Slot(b"B%03d%s" % (i, b"xyzXYZ"[i % 6:i % 6 + 1]), b"Cl%02d " % (i % 7) + BRD + b"t", b"", 0, 0, 0, 1, i % 251))
        return t

    cases = []
    # (1) every small table x every name x every caller, one request; parents varied on a second pass
    for t in TABLES:
        for nm in all_names:
            for cl in callers:
                cases.append(Case(t, [Req(cl, 1, nm)], tag="single"))
    for t in TABLES:
        for cls in clss[3:]:
            for cl in ("admin", "mod"):
                cases.append(Case(t, [Req(cl, cls, b"Newbrd")], tag="parent"))
    # (2) every small table x pairs over a reduced pool (duplicates, twins and vacated-slot reuse after an accepted request)
    red = [b"Newbrd", b"NEWBRD", b"zz", b"Alpha", b"ab/cd", b"a/../b", b"9lives", b"Thirteen_char"]
    for t in TABLES:
        for a in red:
            for b in red:
                cases.append(Case(t, [Req("admin", 1, a), Req("mod" if (len(a) + len(b)) % 2 else "admin", 1, b)], tag="pair"))
    # (3) random triples with every other field varied
    def rand_req():
        return Req(rng.choice(callers), rng.choice(clss), rng.choice(all_names), rng.choice([b"Test", b"", b"Cl", b"LongClass", b"\xa4\xa4\xa4\xe5"]),
                   rng.choice([b"", b"a title", b"t" * 42, b"u" * 60, b"\xb4\xfa\xb8\xd5"]), rng.choice(bm_sets), rng.choice(attrs), rng.choice(levels),
                   rng.choice([0, 1, 255]), rng.choice([0, 0, 1]))
    for _ in range(30000 if thorough else 2500):
        cases.append(Case(rng.choice(TABLES), [rand_req() for _ in range(rng.choice([1, 2, 3, 3]))], tag="random"))
    # a stray directory of a pool name (left over from elsewhere): creation must refuse and change nothing
    for t in TABLES[::3]:
        cases.append(Case(t, [Req("admin", 1, b"Newbrd"), Req("admin", 1, b"zz")], dirs=[s.name for s in t if cstr(s.name)] + [b"Newbrd"], tag="stray-dir"))
    # (4) full table and nearly full tables
    fulls = [(), (0,), (49,), (MAXB - 1,), (3, 77), tuple(range(90, 100))]
    for holes in fulls:
        for cl in ("admin", "mod", "plain"):
            cases.append(Case(full_table(holes), [Req(cl, 1, b"Newbrd"), Req("admin", 1, b"zz"), Req("admin", 1, b"qq")], tag="full"))
    t99 = full_table()[:MAXB - 1]
    cases.append(Case(t99, [Req("admin", 1, b"Newbrd"), Req("admin", 1, b"zz"), Req("sysop", 1, b"B005z")], tag="full"))
    if thorough:
        for _ in range(60):
            holes = tuple(sorted(rng.sample(range(MAXB), rng.randrange(0, 4))))
            cases.append(Case(full_table(holes), [rand_req() for _ in range(3)], tag="full"))
    # (5) through the router
    nrt = 3000 if thorough else 400
    def utf8(b):
        try:
            b.decode("utf-8"); return True
        except UnicodeDecodeError:
            return False
    routable = [cs for cs in cases if all(utf8(r.name) and all(utf8(x) for x in r.bms) for r in cs.reqs)]   # JSON cannot carry other byte strings unchanged
    for cs in rng.sample(routable, nrt):
        cases.append(Case(cs.slots, cs.reqs, cs.dirs, via=1, tag="router"))

    pool_group = names_group(POOL)

    def line_of(cs, nreq=None, oracles=None):
        reqs = cs.reqs if nreq is None else cs.reqs[:nreq]
        g = ["1 %d %d %d" % (len(cs.slots), len(reqs), cs.via), pool_group, names_group(cs.dirs), users_group(cs)]
        g += [s.group() for s in cs.slots]
        g += [r.group_toks(U) for r in reqs]
        if oracles:
            for a, b in oracles:
                g += [toks(a), toks(b)]
        return "|".join(g)

    lines = [line_of(cs) for cs in cases]
    tick("cases generated")
    out = par(run_i, lines)
    tick("implementation run")
    c.count(sum(1 + len(cs.reqs) for cs in cases), "states observed")
    for tag in sorted(set(cs.tag for cs in cases)):
        c.cov["distribution"]["cases:" + tag] = sum(1 for cs in cases if cs.tag == tag)

    # ---------------------------------------------------------------- direct predicates on the implementation's own bytes
    npool = len(POOL)
    dist = {}
    crash_seen = {}
    mlines, mexpect = [], []

    class Ctx:
        """where a case runs: the default build (MAX_BOARD = 100, op 1) or the production build (op 6)"""
        def __init__(self, build, maxb, run, line_of, split, pool_of):
            self.build, self.maxb, self.run, self.line_of, self.split, self.pool_of = build, maxb, run, line_of, split, pool_of

    def report(key, desc, cs, nreq, got, ctx=None):
        ctx = ctx or ctx_default
        rp = {"cases": [ctx.line_of(cs, nreq)], "got": got}
        if ctx.build != "default":
            if not any(pk == (c.pid, key) for pk in [(x[0], x[1]) for x in c.known]):      # a known finding keeps its key in every build
                key = key + "@" + ctx.build
            desc = "[%s build, MAX_BOARD = %d, table of %d slots] %s" % (ctx.build, ctx.maxb, len(cs.slots), desc)
            rp.update({"build": "-tags " + ctx.build, "driver": "build/implrun_docker C12", "table_slots": len(cs.slots), "table": cs.tag,
                       "requests": [(r.caller, r.cls, repr(r.name)) for r in cs.reqs[:nreq]],
                       "note": "the case line is op 6: the input of op 1 (table, requests), every observation printed as its difference to the previous one"})
        c.violation(key, desc, rp)

    def scan_lookup(cs, ctx, o, nreq, pool, memo):
        """GetBid of every pool name against a scan of the shared-memory table (C12_lookup_is_scan_any_size on the implementation's own state)"""
        if memo.get("cache") is not o.cache:
            byf = {}
            for i in range(min(o.bnum, len(o.cache))):
                nm = cstr(o.cache[i][:13])
                if nm:
                    byf.setdefault(fold(nm), []).append(i + 1)
            memo["cache"], memo["byf"] = o.cache, byf
        byf = memo["byf"]
        for pi, pn in enumerate(pool):
            if not cstr(pn):
                continue
            want = byf.get(fold(pn), [])
            got = o.getbid[pi]
            if (got not in want) if want else (got != 0):
                kind = "missed" if want and got == 0 else "phantom" if not want else "wrong-slot"
                report("lookup-not-scan:%s" % kind, "after request %d: GetBid(%r) = %d, but a scan of the %d boards finds %s" % (
                    nreq, cstr(pn), got, o.bnum, ("slot %d carrying %r" % (want[0], cstr(o.cache[want[0] - 1][:13]))) if want else "no board of that name"), cs, nreq,
                    {"name": repr(cstr(pn)), "GetBid": got, "scan": want[:4]}, ctx)
                return

    def check_case(cs, line, ctx=None):
        ctx = ctx or ctx_default
        MAXB, POOL, run_i, line_of = ctx.maxb, ctx.pool_of(cs), ctx.run, ctx.line_of
        def viol(key, desc, cs, nreq, got):     # the predicates below report through the context
            report(key, desc, cs, nreq, got, ctx)
        obs = ctx.split(cs, line)
        memo = {}
        if obs is not None:
            scan_lookup(cs, ctx, obs[0], 0, POOL, memo)
        if obs is None:
            # a request crashed or hung: find it (only for the first few such cases; the others are counted)
            dist["crashed-or-hung cases"] = dist.get("crashed-or-hung cases", 0) + 1
            sus = tuple(sorted(set("overflow" if sum(len(cstr(pad(b, 13))) for b in x.bms) + max(0, len(x.bms) - 1) > 39 else
                                   "many" if sum(1 for b in x.bms if user_exists(b)) > 4 else "-" for x in cs.reqs)))
            crash_seen[sus] = crash_seen.get(sus, 0) + 1
            if crash_seen[sus] > 3:
                return None, 0
            st = line.split()[0]
            n = 0
            good = None
            for n in range(0, len(cs.reqs) + 1):
                o = run_i([line_of(cs, n)])[0]
                if o.split()[0] != "0":
                    break
                good = o
            r = cs.reqs[n - 1] if n >= 1 else None
            what = "crash" if st == "1" else "hang"
            verb = "panics" if st == "1" else "does not return"
            kind = "reload"
            if r is not None:
                kind = "moderator-list-overflow" if sum(len(cstr(pad(b, 13))) for b in r.bms) + max(0, len(r.bms) - 1) > 39 else \
                       "more-than-4-existing-moderators" if sum(1 for b in r.bms if user_exists(b)) > 4 else "other"
            viol("%s:%s" % (what, kind), "board creation %s (request %d of the case: name %r, moderators %r)" % (verb, n, r.name if r else None, r.bms if r else None), cs, n, line[:200])
            return good, n
        init = [s.bytes() for s in cs.slots]
        o0 = obs[0]
        # the reload itself: file as written, cache = file with FirstChild cleared
        if o0.file != init or o0.bnum != min(len(init), MAXB):
            viol("harness:reload", "initial .BRD not what the harness wrote", cs, 0, [o0.nfile, o0.bnum])
        for i, b in enumerate(init[:MAXB]):
            if o0.cache[i] != b[:144] + b"\0" * 8 + b[152:]:
                viol("reload:cache", "after ReloadBCache cache entry %d is not the file record with FirstChild cleared" % i, cs, 0, o0.cache[i].hex())
        prev = o0
        for qi, (r, o) in enumerate(zip(cs.reqs, obs[1:])):
            nreq = qi + 1
            raw = r.name
            n13 = pad(raw, 13)
            uid, ulevel, uname = U[r.caller]
            existing = [i for i in range(prev.bnum) if cstr(prev.cache[i][:13]) and fold(prev.cache[i][:13]) == fold(n13)]
            vacated = [i for i in range(prev.bnum) if not cstr(prev.cache[i][:13])]
            parent_ok = 1 <= r.cls <= MAXB
            parent_bm = cstr(prev.cache[r.cls - 1][62:101]) if parent_ok and r.cls - 1 < len(prev.cache) else b""
            moderator = cstr(uname) in parent_bm.split(b"/")
            rights = bool(ulevel & PERM_BOARD) or moderator
            capacity = bool(vacated) or prev.bnum < MAXB
            has_nul = b"\0" in raw[:13]
            wf = name_rule(raw)
            klass = "wf" if wf else "nul" if has_nul else "slash" if b"/" in raw else "len" if not (2 <= len(raw) <= 12) else "first" if raw[:1] and raw[0] not in ALPHA else "char"
            dist_key = "%s/%s" % (ERR.get(o.code, "?"), "vacated" if vacated else "append")
            dist[dist_key] = dist.get(dist_key, 0) + 1
            c.nontrivial((cs.tag != "router", tuple(s.bytes()[:13] for s in cs.slots), tuple((x.caller, x.cls, x.name, tuple(x.bms), x.attr, x.level, x.group) for x in cs.reqs[:nreq])))
            if ctx.build != "default" and o.sn == prev.sn and o.sc == prev.sc and o.cache == prev.cache and o.bnum == prev.bnum and qi > 0:
                pass      # nothing the verdict depends on has changed since the previous observation
            else:
                sp_ok = all(sorted_perm(arr, o.bnum, o.cache, less) for arr, less in ((o.sn, less_name), (o.sc, less_class))) if o.bnum <= len(o.cache) else False
            scan_lookup(cs, ctx, o, nreq, POOL, memo)
            if not sp_ok:
                viol("index-not-sorted-permutation", "a BSorted array is not a sorted permutation of the slots after request %d" % nreq, cs, nreq, [o.sn, o.sc])
            if o.code != 0:
                # ---------------- refusal: nothing may have changed
                changed = []
                if o.file != prev.file: changed.append("file")
                if o.cache[:len(prev.cache)] != prev.cache or any(x.strip(b"\0") for x in o.cache[len(prev.cache):]) or o.tailzero != 1: changed.append("cache")
                if o.bnum != prev.bnum: changed.append("count")
                if o.sn != prev.sn or o.sc != prev.sc or o.getbid != prev.getbid: changed.append("index")
                if o.dirs != prev.dirs: changed.append("directory")
                if o.bmcache[:len(prev.bmcache)] != prev.bmcache: changed.append("bmcache")
                if changed:
                    viol("refuse-side-effect:%s:%s" % (ERR.get(o.code, "?"), "+".join(changed)),
                         "request %d (%r by %s under %d) refused with '%s' but %s changed (directories %r -> %r)" % (nreq, raw, r.caller, r.cls, ERR.get(o.code), ", ".join(changed),
                          [d.decode("latin-1") for d in prev.dirs if d not in o.dirs], [d.decode("latin-1") for d in o.dirs if d not in prev.dirs]), cs, nreq, shared_line("0 " + " ".join(o.shared))[:300])
            else:
                # ---------------- acceptance
                b = o.bid
                if not has_nul:
                    if not wf:
                        viol("name-rule:accepted-%s" % klass, "request %d: malformed name %r accepted as board %d (directories created: %r)" % (nreq, raw, b, [d.decode("latin-1") for d in o.dirs if d not in prev.dirs]), cs, nreq, b)
                if existing:
                    viol("duplicate-accepted", "request %d: %r accepted although slot %d already carries %r" % (nreq, raw, existing[0] + 1, cstr(prev.cache[existing[0]][:13])), cs, nreq, b)
                if parent_ok and not (r.cls - 1 < prev.bnum and cstr(prev.cache[r.cls - 1][:13])):
                    # observation, not a violation: the code's notion of a valid parent is 1 <= bid <= MAX_BOARD
                    dist["note: accepted under a parent bid that names no board"] = dist.get("note: accepted under a parent bid that names no board", 0) + 1
                if not parent_ok:
                    viol("invalid-parent-accepted", "request %d accepted under parent %d" % (nreq, r.cls), cs, nreq, b)
                if not rights:
                    viol("no-rights-accepted", "request %d by %s accepted (parent moderators %r)" % (nreq, r.caller, parent_bm), cs, nreq, b)
                if not capacity:
                    viol("no-capacity-accepted", "request %d accepted on a full table" % nreq, cs, nreq, b)
                if not (1 <= b <= MAXB) or not (b - 1 in vacated or (b - 1 == prev.nfile and prev.nfile == prev.bnum)):
                    viol("slot-choice", "request %d: board placed in slot %d which was neither vacated nor the next free one (vacated %r, %d slots)" % (nreq, b, [v + 1 for v in vacated], prev.nfile), cs, nreq, b)
                    prev = o
                    continue
                exp_n = prev.nfile + (0 if b - 1 in vacated else 1)
                if o.nfile != exp_n or o.bnum != o.nfile:
                    viol("count", "request %d: %d slots in .BRD, board count %d (expected %d)" % (nreq, o.nfile, o.bnum, exp_n), cs, nreq, [o.nfile, o.bnum])
                # the record the creation rules prescribe
                a = (r.attr | BRD_CPLOG) & 0xFFFFFFFF
                a = ((a | BRD_GROUPBOARD) & ~BRD_CPLOG) if r.group else (a & ~BRD_GROUPBOARD)
                lvl = r.level
                if not (ulevel & PERM_BOARD) or (a & BRD_HIDE):
                    a &= ~BRD_POSTMASK; lvl = 0
                title = pad(r.klass, 4) + b" " + (GRP if r.group else BRD) + pad(r.title, 42)
                # requested moderators that exist, as many as fit into the 39-byte field with their separators
                req_ids, room = [], 39
                for x in r.bms:
                    x = cstr(pad(x, 13))
                    need = len(x) + (1 if req_ids else 0)
                    if need > room:
                        break
                    req_ids.append(x); room -= need
                keep = [x for x in req_ids if user_exists(x)]
                want_bm = b"/".join(keep)
                exp = bytearray(256)
                exp[0:13] = n13; exp[13:62] = title; exp[62:101] = pad(want_bm, 39)
                exp[104:108] = struct.pack("<I", a); exp[108] = r.chess; exp[124:128] = struct.pack("<I", lvl); exp[132:136] = struct.pack("<I", r.cls & 0xFFFFFFFF)
                exp = bytes(exp)
                frec = o.file[b - 1] if b - 1 < len(o.file) else b""
                crec = o.cache[b - 1] if b - 1 < len(o.cache) else b""
                bm_special = any(b"/" in cstr(pad(x, 13)) for x in r.bms)     # an id containing the separator is re-split by SanitizeBMs: left to the correspondence
                if frec != exp and not (bm_special and frec[:62] == exp[:62] and frec[101:] == exp[101:]):
                    what = [nm for nm, (x, y) in {"name": (0, 13), "title": (13, 62), "moderators": (62, 101), "attributes": (104, 108), "level": (124, 128), "parent": (132, 136)}.items() if frec[x:y] != exp[x:y]]
                    viol("accept:file-record:%s" % ("+".join(what) or "other-bytes"), "request %d: slot %d of .BRD does not carry the requested board (%s differ: name %r)" % (nreq, b, ", ".join(what) or "other bytes", cstr(frec[:13])), cs, nreq, frec.hex())
                if crec != frec:
                    only_pm = len(crec) == 256 and len(frec) == 256 and crec[:104] == frec[:104] and crec[108:] == frec[108:] and \
                        struct.unpack("<I", crec[104:108])[0] == struct.unpack("<I", frec[104:108])[0] | BRD_POSTMASK and (a & BRD_HIDE)
                    if only_pm:
                        viol("accept:cache-postmask-on-hidden-board", "request %d: hidden board %r: shared-memory copy has BRD_POSTMASK set, the .BRD record does not" % (nreq, raw), cs, nreq, crec[104:108].hex())
                    else:
                        viol("accept:cache-copy", "request %d: shared-memory copy of slot %d differs from its .BRD record (cache name %r, file name %r)" % (nreq, b, cstr(crec[:13]), cstr(frec[:13])), cs, nreq, crec.hex())
                for pi, pn in enumerate(POOL):
                    if fold(pn) == fold(n13) and o.getbid[pi] != b:
                        viol("accept:name-index", "request %d: GetBid(%r) = %d after creating %r in slot %d" % (nreq, cstr(pn), o.getbid[pi], raw, b), cs, nreq, o.getbid[pi])
                want_bmc = [by_fold[fold(pad(x, 13))] for x in keep][:4]
                want_bmc = tuple(want_bmc + [-1] * (4 - len(want_bmc)))
                if b - 1 < len(o.bmcache) and o.bmcache[b - 1] != want_bmc and not bm_special:
                    viol("accept:moderator-cache", "request %d: moderator cache of slot %d is %r, expected %r" % (nreq, b, o.bmcache[b - 1], want_bmc), cs, nreq, list(o.bmcache[b - 1]))
                # ---------------- frame
                for i in range(max(len(prev.file), len(o.file))):
                    if i != b - 1 and (i >= len(prev.file) or i >= len(o.file) or prev.file[i] != o.file[i]):
                        viol("frame:file:%s" % ("vacated-slot" if vacated else "append"), "request %d created board %d but slot %d of .BRD changed too (was %r, now %r)" % (
                            nreq, b, i + 1, cstr(prev.file[i][:13]) if i < len(prev.file) else None, cstr(o.file[i][:13]) if i < len(o.file) else None), cs, nreq, [i + 1])
                        break
                for i in range(max(len(prev.cache), len(o.cache))):
                    x = prev.cache[i] if i < len(prev.cache) else b"\0" * 256
                    y = o.cache[i] if i < len(o.cache) else b"\0" * 256
                    if i != b - 1 and x != y:
                        viol("frame:cache:%s" % ("vacated-slot" if vacated else "append"), "request %d created board %d but cache entry %d changed too" % (nreq, b, i + 1), cs, nreq, [i + 1])
                        break
                if o.tailzero != 1:
                    viol("frame:cache-tail", "request %d: cache entries beyond the table are no longer zero" % nreq, cs, nreq, 0)
                for i in range(len(prev.bmcache)):
                    if i != b - 1 and i < len(o.bmcache) and prev.bmcache[i] != o.bmcache[i]:
                        viol("frame:moderator-cache", "request %d changed the moderator cache of slot %d" % (nreq, i + 1), cs, nreq, [i + 1]); break
                for pi, pn in enumerate(POOL):
                    if fold(pn) != fold(n13) and o.getbid[pi] != prev.getbid[pi]:
                        viol("frame:name-index", "request %d (%r): GetBid(%r) changed from %d to %d" % (nreq, raw, cstr(pn), prev.getbid[pi], o.getbid[pi]), cs, nreq, [prev.getbid[pi], o.getbid[pi]]); break
                if wf:
                    wd = sorted(prev.dirs + [bytes([raw[0]]) + b"/" + raw])
                    if o.dirs != wd:
                        viol("accept:directory", "request %d (%r): directories %r, expected %r added" % (nreq, raw, [d for d in o.dirs if d not in prev.dirs], raw), cs, nreq, len(o.dirs))
            prev = o
        return line, len(cs.reqs)

    ctx_default = Ctx("default", MAXB, run_i, line_of, lambda cs, line: split_obs(line, npool), lambda cs: POOL)
    mcases = []
    for cs, line in zip(cases, out):
        good, n = check_case(cs, line)
        if good is None:
            continue
        obs = split_obs(good, npool)
        orc = [(obs[0].sn, obs[0].sc)] + [(o.sn, o.sc) for o in obs[1:] if o.code == 0]
        mlines.append(line_of(cs, None, orc))
        mexpect.append(shared_line(line))
        mcases.append(cs)
    tick("direct predicates")

    # ---------------------------------------------------------------- production build (-tags docker, MAX_BOARD = 20000): big tables
    # Duplicate detection, frame and refusal in tables of thousands of boards: the by-name lookup is a binary search whose depth
    # grows with the table, so names that sit deep in the search exist only here. Same predicates as above (check_case), on
    # states rebuilt from the differences op 6 prints; plus GetBid of EVERY name of the table in two letter cases against a scan.
    def run_d(lines):
        return vf.run_impl(impl_docker, "C12", lines, deadline_ms=120000)
    kd = run_d(["0"])[0].split()
    if kd[0] != "0":
        raise SystemExit("C12 docker driver: cannot read constants: %s" % kd[:4])
    constsd = [int(x) for x in kd[1:11]]
    MAXBD = constsd[0]
    if constsd != [20000, 12, 256, 1, 163, 85, 161, 183, 4, 2000000]:
        c.broken.append({"kind": "correspondence", "where": "constants (docker)", "theorem": "compiled constants of the production build (MAX_BOARD = 20000, ...) as expected", "log": str(constsd)})
    usersd, rest = {}, kd[11:]
    while rest:
        usersd[int(rest[1])] = (int(rest[2]), bytes(int(x) for x in rest[3:16]))
        rest = rest[16:]
    if usersd != users:
        raise SystemExit("C12 docker driver: user table differs from the default build's")
    Z256 = b"\0" * 256
    RESERVED = {b"newbrd", b"zz", b"qq", b"alpha", b"ab", b"cd", b"a-b_c.d", b"x9"}

    def seq_names(n):
        return [b"b%05d" % i for i in range(n)]

    def mixed_names(n):
        seen, out = set(RESERVED), []
        al, okc = bytes(sorted(ALPHA)), bytes(sorted(OKCH))
        while len(out) < n:
            L = rng.choice([2, 3, 4, 6, 9, 12, 12])
            nm = bytes([rng.choice(al)] + [rng.choice(okc) for _ in range(L - 1)])
            if nm.lower() not in seen:
                seen.add(nm.lower()); out.append(nm)
        return out

    def big_table(names, holes=()):
        t = []
        for i, nm in enumerate(names):
            if i == 0:
                t.append(occ(0))                                  # Alpha: the class board the requests are filed under (moderator pichu)
            elif i in holes:
                t.append(vac(i % 2, 0x11))
            else:
                t.append(Slot(nm, b"Cl%02d " % (i % 7) + BRD + b"t", b"", 0, 0, 0, 1, i % 251))
        return t

    def probe_depths(n):
        """number of probes getBidByNameCore needs to reach sorted position p (the loop of cache/cache_board.go on comparisons by position)"""
        depth = [0] * n
        for p in range(n):
            start, end, k = 0, n - 1, 0
            while True:
                idx = (start + end) // 2
                k += 1
                if idx == p or end == start:
                    break
                if idx == start:
                    if p < idx:
                        break
                    start = end
                elif p > idx:
                    start = idx
                else:
                    end = idx
            depth[p] = k
        return depth

    def big_case(names, holes, with_dirs, via, tag):
        t = big_table(names, holes)
        n = len(t)
        nms = [cstr(pad(x.name, 13)) for x in t]
        order = sorted(range(n), key=lambda i: (fold(nms[i]), i))
        depth = probe_depths(n)
        occp = [p for p in range(n) if nms[order[p]]]
        by_depth = sorted(occp, key=lambda p: (-depth[p], p))
        deepest = [order[p] for p in by_depth[:3]]
        first, last = order[occp[0]], order[occp[-1]]
        picks = deepest + [first, last] + [order[rng.choice(occp)] for _ in range(3)]
        var = [bytes.swapcase, bytes.upper, lambda x: x, bytes.lower]
        reqs = [Req("admin", 1, var[j % 4](nms[i])) for j, i in enumerate(picks)]
        reqs += [Req("admin", 1, nms[deepest[0]]), Req("sysop", 1, nms[deepest[1]].swapcase()), Req("admin", 1, nms[first].upper()), Req("admin", 1, nms[first])]
        reqs += [Req("admin", 1, b"Newbrd", bms=[b"pichu"]), Req("admin", 1, b"NEWBRD"), Req("mod", 1, b"zz"), Req("plain", 1, b"qq"), Req("admin", 1, b"ab/cd"),
                 Req("admin", 1, b"ZZ"), Req("admin", 2, b"x9", klass=b"Cl01", title=b"t" * 42, level=PERM_POST), Req("admin", 1, nms[deepest[2]].swapcase()), Req("admin", 1, b"newbrd")]
        cs = Case(t, reqs, dirs=[x for x in nms if x] if with_dirs else [], via=via, tag=tag)
        pool = []
        seenp = set()
        for x in [r.name for r in reqs] + [b"Alpha", b"qq", b"ab", b"cd"] + [v for nm in nms if nm for v in (nm, nm.swapcase())]:
            x13 = pad(x, 13)
            if cstr(x13) and x13 not in seenp:
                seenp.add(x13); pool.append(x13)
        cs.pool = pool
        cs.max_depth = depth[by_depth[0]]
        cs.deep_names = [nms[i] for i in deepest]
        return cs

    sizes = [2000, 4100, 6000]
    bcases = []
    for n in sizes:
        bcases.append(big_case(seq_names(n), (), False, 0, "big:%d:sequential-names" % n))
        bcases.append(big_case(mixed_names(n), (n // 3, n - 1), True, 0, "big:%d:mixed-names+vacated+directories" % n))
    bcases.append(big_case(seq_names(4100), (7,), False, 1, "big:4100:router"))
    if thorough:
        for n in [1024, 1025, 2047, 2048, 2049, 3000, 8191, 8192, 8193, 12000, MAXBD - 1, MAXBD]:
            bcases.append(big_case(mixed_names(n), tuple(sorted(rng.sample(range(1, n), rng.randrange(0, 3)))), n % 2 == 0, 0, "big:%d:mixed-names" % n))
            bcases.append(big_case(seq_names(n), (), False, 0, "big:%d:sequential-names" % n))
    else:
        bcases.append(big_case(seq_names(MAXBD), (), False, 0, "big:%d:full-table" % MAXBD))

    def line_of_big(cs, nreq=None, oracles=None):
        reqs = cs.reqs if nreq is None else cs.reqs[:nreq]
        if not hasattr(cs, "_sg"):
            cs._sg = [x.group() for x in cs.slots]
            cs._ug = users_group(cs)
        g = ["6 %d %d %d" % (len(cs.slots), len(reqs), cs.via), names_group(cs.pool), names_group(cs.dirs), cs._ug] + cs._sg + [r.group_toks(U) for r in reqs]
        return "|".join(g)

    class BigObs:
        pass

    def split_big(cs, line):
        t = line.split()
        if t[0] != "0":
            return None
        chunks, cur = [], []
        for x in t[1:]:
            if x == "-555":
                chunks.append(cur); cur = []
            else:
                cur.append(x)
        chunks.append(cur)
        init = [x.bytes() for x in cs.slots]
        prev = BigObs()
        prev.file, prev.cache, prev.bmcache, prev.sn, prev.sc = init, [b[:144] + b"\0" * 8 + b[152:] for b in init[:MAXBD]], [], [], []
        prev.getbid, prev.dirs = [-2] * len(cs.pool), []
        out = []
        for ch in chunks:
            o = BigObs()
            it = iter(ch)
            nx = lambda: int(next(it))
            o.code, o.bid, o.bnum, o.nfile = nx(), nx(), nx(), nx()
            o.shared = ch[:4]
            nf = max(o.nfile, 0)
            nd = nx()
            if nd == 0 and nf == len(prev.file):
                o.file = prev.file
            else:
                o.file = list(prev.file[:nf]) + [b""] * (nf - len(prev.file))
                for _ in range(nd):
                    i, v = nx(), next(it)
                    if i < nf and v != "0":
                        o.file[i] = unbig(v)
            o.k = nx()
            nd = nx()
            extra = False
            if nd == 0 and o.k == len(prev.cache):
                o.cache = prev.cache
            else:
                o.cache = list(prev.cache[:o.k]) + [Z256] * (o.k - len(prev.cache))
                for _ in range(nd):
                    i, v = nx(), unbig(next(it))
                    if i < o.k:
                        o.cache[i] = v
                    elif v.strip(b"\0"):
                        extra = True
            o.tailzero = nx()
            if extra:
                o.tailzero = 0
            nd = nx()
            o.bmcache = list(prev.bmcache[:o.k]) + [(-1, -1, -1, -1)] * (o.k - len(prev.bmcache))
            for _ in range(nd):
                i = nx()
                o.bmcache[i] = (nx(), nx(), nx(), nx())
            if nx():
                o.sn = [nx() for _ in range(nx())]
            else:
                o.sn = prev.sn
            if nx():
                o.sc = [nx() for _ in range(nx())]
            else:
                o.sc = prev.sc
            nd = nx()
            o.getbid = list(prev.getbid) if nd else prev.getbid
            for _ in range(nd):
                i = nx()
                o.getbid[i] = nx()
            o.ndirs = nx()
            ds = set(prev.dirs)
            for _ in range(nx()):
                ds.add(unbig(next(it)))
            for _ in range(nx()):
                ds.discard(unbig(next(it)))
            o.dirs = sorted(ds)
            out.append(o)
            prev = o
        return out

    ctx_docker = Ctx("docker", MAXBD, run_d, line_of_big, split_big, lambda cs: cs.pool)
    blines = [line_of_big(cs) for cs in bcases]
    tick("big cases generated")
    with ThreadPoolExecutor(WORKERS) as ex:
        bout = list(ex.map(lambda l: run_d([l])[0], blines))
    tick("big cases run")
    c.count(sum(1 + len(cs.reqs) for cs in bcases), "states observed (production build)")
    c.count(sum(len(cs.pool) * (1 + len(cs.reqs)) for cs in bcases), "GetBid vs scan (production build)")
    big_obs0 = []
    for cs, line in zip(bcases, bout):
        c.cov["distribution"]["cases:" + cs.tag] = 1
        dist["big tables: deepest name needs %d probes" % cs.max_depth] = dist.get("big tables: deepest name needs %d probes" % cs.max_depth, 0) + 1
        check_case(cs, line, ctx_docker)
        ob = split_big(cs, line)
        big_obs0.append(ob[0] if ob else None)
    ob = split_big(bcases[2], bout[2])
    if ob:
        c.sample({"op": "bbs.CreateBoard on a table of %d boards (-tags docker)" % len(bcases[2].slots), "deepest names (probes %d)" % bcases[2].max_depth: [repr(x) for x in bcases[2].deep_names],
                  "requests": [(r.caller, repr(r.name)) for r in bcases[2].reqs], "results": [(ERR.get(o.code), o.bid, o.bnum) for o in ob[1:]]})
    tick("big direct predicates")
    c.cov["distribution"].update({"outcome:" + k: v for k, v in sorted(dist.items())})

    # ---------------------------------------------------------------- name rule: IsValid on every short string over a reduced alphabet
    alpha = [0x41, 0x7a, 0x30, 0x39, 0x5f, 0x2d, 0x2e, 0x2f, 0x20, 0x40, 0x5b, 0x60, 0x7b, 0x80, 0xff]
    nm = [[]]
    for L in range(1, 4 if not thorough else 5):
        nm += [list(p) for p in itertools.product(alpha, repeat=L)]
    for L in range(4 if not thorough else 5, 15):
        for _ in range(1500):
            s = [rng.choice(alpha[:7]) for _ in range(L)]
            if rng.random() < 0.5:
                s[rng.randrange(L)] = rng.choice(alpha)
            if rng.random() < 0.7:
                s[0] = rng.choice([0x41, 0x7a, 0x62])
            nm.append(s)
    nm += [list(x) for x in all_names if b"\0" not in x]
    l3 = ["3|" + toks(s) for s in nm]
    o3 = par(run_i, l3)
    c.count(len(l3), "IsValid")
    for s, r in zip(nm, o3):
        want = name_rule(bytes(s))
        if r.split() != ["0", "1" if want else "0"]:
            pos = "first" if (len(s) >= 1 and s[0] not in ALPHA) else "len" if not 2 <= len(s) <= 12 else "later-char"
            c.violation("name-rule:IsValid:%s" % pos, "BoardID_t.IsValid(%r) = %s, the rule says %s" % (bytes(s), r, want), {"cases": ["3|" + toks(s)], "expected": "0 %d" % want, "got": r})
    c.sample({"op": "IsValid", "name": repr(bytes(nm[40])), "result": o3[40]})
    # NewBM on id lists of every total size around the 39-byte field
    ids = [[b"u%02d" % i + b"x" * (k % 11) for i in range(n)] for n in range(0, 9) for k in range(0, 12)]
    l4 = ["4|" + "|".join(toks(i) for i in x) if x else "4" for x in ids]
    o4 = par(run_i, l4)
    c.count(len(l4), "NewBM")
    for x, r in zip(ids, o4):
        if r.split()[0] != "0":
            c.violation("crash:moderator-list-overflow", "ptttype.NewBM panics on %d ids of %d bytes" % (len(x), len(x[0]) if x else 0), {"cases": ["4|" + "|".join(toks(i) for i in x)], "got": r})

    # ---------------------------------------------------------------- correspondence with the model
    tick("IsValid/NewBM")
    if model:
        mo = par(lambda ls: vf.run_model(model, ls), mlines)
        def describe(line):
            return "table/requests in the case line; first differing token shows which observation"
        bad = vf.correspond(c, "bbs.CreateBoard / api.CreateBoard vs model (state after every request)", mlines, mexpect, mo, describe)
        for i in bad[:3]:
            a, b = mexpect[i].split(), mo[i].split()
            j = next((k for k in range(min(len(a), len(b))) if a[k] != b[k]), min(len(a), len(b)))
            c.cov.setdefault("mismatch_detail", []).append({"tag": mcases[i].tag, "requests": [(r.caller, r.cls, repr(r.name)) for r in mcases[i].reqs], "first_diff_token": j, "impl": a[max(0, j - 3):j + 4], "model": b[max(0, j - 3):j + 4]})
        m3 = par(lambda ls: vf.run_model(model, ls), l3)
        vf.correspond(c, "BoardID_t.IsValid", l3, o3, m3)
        m5 = par(lambda ls: vf.run_model(model, ls), ["5|" + toks(s) for s in nm])
        for s, r in zip(nm, m5):
            if r.split() != ["0", "1" if name_rule(bytes(s)) else "0"]:
                c.broken.append({"kind": "correspondence", "where": "name_rule", "theorem": "the check's name rule = the specification the theorems use", "log": repr(bytes(s))})
                break
        m4 = par(lambda ls: vf.run_model(model, ls), l4)
        vf.correspond(c, "ptttype.NewBM", l4, o4, m4)
        # big tables: the model's GetBid on (the names in shared memory, the by-name index the implementation built) = the implementation's
        # GetBid, for the request names, the deepest names and a sample of the table in both letter cases (op 7; C12_big_table_lookup_is_scan)
        l7, e7 = [], []
        for cs, o0 in zip(bcases, big_obs0):
            if o0 is None or o0.bnum > (MAXBD if thorough else 6000) or o0.bnum > len(o0.cache):
                continue
            want = set(pad(r.name, 13) for r in cs.reqs) | set(pad(v, 13) for x in cs.deep_names for v in (x, x.swapcase(), x.upper()))
            idx = [i for i, pn in enumerate(cs.pool) if pn in want]
            idx += rng.sample(range(len(cs.pool)), min(len(cs.pool), 1200))
            l7.append("7|%s|%s|%s" % (toks(b"".join(o0.cache[i][:13] for i in range(o0.bnum))), toks(o0.sn), toks(b"".join(cs.pool[i] for i in idx))))
            e7.append("0 " + toks(o0.getbid[i] for i in idx))
        with ThreadPoolExecutor(WORKERS) as ex:
            m7 = list(ex.map(lambda l: vf.run_model(model, [l])[0], l7))
        vf.correspond(c, "cache.GetBid on big tables (production build) vs model lookup", [l[:200] + " ..." for l in l7], e7, m7)
        c.count(sum(len(e.split()) - 1 for e in e7), "model lookups on big tables")
        c.count(len(mlines) + len(l3) * 2 + len(l4) + len(l7), "model evaluations")
    tick("model run")
    k = next((i for i, cs in enumerate(cases) if cs.tag == "pair" and len(cs.slots) == 3), 0)
    ob = split_obs(out[k], npool)
    if ob:
        c.sample({"op": "bbs.CreateBoard x2", "table": [repr(cstr(s.name)) for s in cases[k].slots], "requests": [(r.caller, r.cls, repr(r.name)) for r in cases[k].reqs],
                  "results": [(ERR.get(o.code), o.bid, o.bnum) for o in ob[1:]], "by_name_index": ob[-1].sn})
    c.cov["exhaustive_parts"] = ["all 31 occupancy patterns of tables of 0..4 slots (vacated slots at every position, two kinds of vacated slot) x %d names x 4 callers" % len(all_names),
                                 "the same tables x all ordered pairs of 8 names", "full table and 6 hole patterns x 3 callers x 3 requests",
                                 "BoardID_t.IsValid on every string of length <= 3 over a 15-byte alphabet",
                                 "production build: GetBid of EVERY name of every big table (%s boards) in its own and in swapped letter case, after the reload and after every request, against a scan" % ", ".join(str(len(cs.slots)) for cs in bcases)]
    vf.ipc_cleanup()
    c.finish(rule="tables: complete enumeration of occupancy patterns up to 4 slots + full/nearly full tables; requests: complete singles and pairs over the name pool, PRNG(seed) triples varying caller, parent, "
                  "class, title, moderators, attributes, level, group flag; a subset repeated through the gin router. Production build (-tags docker, MAX_BOARD = 20000): tables of 2000, 4100 and 6000 boards "
                  "(sequential names; PRNG(seed) mixed-case names with vacated slots and all board directories), one of 4100 through the router, one full table of 20000; on each a fixed request list: duplicates "
                  "(own / swapped / upper / lower case) of the three names that need the most probes of the binary search (computed by the check from the sorted order), of the alphabetically first and last name and "
                  "of three PRNG names, fresh names, their case twins, a malformed name, callers without rights; the thorough tier adds 24 tables between 1024 and 20000 boards. "
                  "A case is non-trivial if its (table, request prefix) is distinct; "
                  "every observation compares all .BRD bytes, the shared-memory copy, moderator cache, both sorted indexes, GetBid of %d names and the directory tree" % len(POOL),
             assumptions=["big tables (production build) are compared with the model for the by-name lookup only (op 7: names in shared memory + the index the implementation built -> GetBid of the request names, "
                          "the deepest names and 1200 sampled names; tables up to 6000 boards in the quick tier, all in the thorough tier); the creation steps on big tables are decided by the direct predicates, "
                          "the full creation model is instantiated with the default build's MAX_BOARD = 100",
                          "sort.Sort is library code: its result enters the model as an oracle that must be a sorted permutation (checked by the model and, independently, by the check)",
                          "the user index (C04) is represented in a case by its restriction to the ids the case mentions",
                          "ResetBoard's busy guard and the hidden-board friend list (no `visible` file in a new directory) are outside the model; the driver is sequential",
                          "groupOp's side effect on the caller's own permission bits (PERM_SYSSUBOP|PERM_BM) is outside the property's state"])


if __name__ == "__main__":
    main()
