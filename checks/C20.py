#!/usr/bin/env python3
"""C20 — balance in shared memory and .PASSWDS: proofs in coq/Props/C20.v; histories of SetUMoney / DeUMoney /
MoneyOf, interleaved with every other writer of the user's record (passwdSyncUpdate and its callers, one-field
updates), on a real segment and a real .PASSWDS; model correspondence and direct predicates against plain arithmetic."""
import os, struct, sys
sys.path.insert(0, os.path.join(os.path.dirname(os.path.abspath(__file__)), "..", "lib"))
import vf

I32MAX, I32MIN = 2**31 - 1, -2**31
SET, DE, GET, QUERY = 1, 2, 3, 4
# the other writers of the same user's record (ptt layer / cmbbs), interleaved with the money operations
REWRITE, SETPERM, START, END, KILL, PASSWD, EMAIL, INCPOST = 5, 6, 7, 8, 9, 10, 11, 12
MONEY_OPS = (SET, DE, GET, QUERY)
REC_WRITERS = (REWRITE, SETPERM, END, KILL, INCPOST)          # end in ptt.passwdSyncUpdate: a whole-record write-back
NAMES = {SET: "SetUMoney", DE: "DeUMoney", GET: "MoneyOf", QUERY: "ptt.GetUser", REWRITE: "ptt.passwdSyncUpdate", SETPERM: "ptt.SetUserPerm", START: "ptt.pwcuStart",
         END: "ptt.pwcuEnd", KILL: "ptt.killUser", PASSWD: "cmbbs.PasswdUpdatePasswd", EMAIL: "cmbbs.PasswdUpdateEmail", INCPOST: "ptt.pwcuIncNumPost"}


class Layout:
    def __init__(self, consts, lay):
        self.maxu, self.recsz, self.off = consts
        self.lvl, self.posts, self.pw, self.pwlen, self.em, self.emlen = lay[:6]
        self.bools = list(lay[7:7 + lay[6]])

    def canon(self, rec):
        """a record that went through a UserecRaw value: encoding/binary reads a bool byte as != 0 and writes 0/1"""
        b = bytearray(rec)
        for o in self.bools:
            b[o] = 1 if b[o] else 0
        return bytes(b)

    def money_of_rec(self, rec):
        return struct.unpack("<i", rec[self.off:self.off + 4])[0]

    def with_money(self, rec, m):
        return rec[:self.off] + struct.pack("<i", m) + rec[self.off + 4:]


def describe(op, L):
    k, u = op[0], op[1]
    if k in (SET, DE):
        return "%s(%d, %d)" % (NAMES[k], u, op[2])
    if k == GET:
        return "MoneyOf(%d)" % u
    if k == QUERY:
        return "ptt.GetUser(id of slot %d).Money" % u
    if k == REWRITE:
        return "ptt.passwdSyncUpdate(%d, record carrying Money=%d)" % (u, L.money_of_rec(op[2]))
    if k == SETPERM:
        return "ptt.SetUserPerm(uid %d, record carrying Money=%d, perm %#x)" % (u, L.money_of_rec(op[3]), op[2])
    if k == START:
        return "ptt.pwcuStart(%d)" % u
    if k == END:
        return "NumPosts += %d; ptt.pwcuEnd(%d, record read by the earlier pwcuStart)" % (op[2], u)
    if k == KILL:
        return "ptt.killUser(%d)" % u
    if k == INCPOST:
        return "ptt.pwcuIncNumPost(uid %d)" % u
    return "%s(%d, ...)" % (NAMES[k], u)


def short(op):
    """an operation for messages / evidence: record bytes abbreviated to the Money they carry"""
    return [x if not isinstance(x, (bytes, bytearray)) else "<%d bytes>" % len(x) for x in op]


class World:
    """Plain-arithmetic reference: slot -> balance, and the bytes .PASSWDS must have (the records the callers handed
    over, with the balance in the Money field)."""

    def __init__(self, init, L):
        self.init, self.L = init, L
        self.maxu, self.recsz, self.off = L.maxu, L.recsz, L.off
        self.cur = bytearray(init)
        self.touched = set()
        self.pending = {}
        self.bal = {u: self.field(init, u) for u in range(1, self.maxu + 1)}

    def pos(self, u):
        return self.recsz * (u - 1) + self.off

    def field(self, data, u):
        b = bytes(data[self.pos(u):self.pos(u) + 4])
        return struct.unpack("<i", b + b"\0" * (4 - len(b)))[0]

    def valid(self, u):
        return 1 <= u <= self.maxu

    def record(self, u):
        return bytes(self.cur[self.recsz * (u - 1):self.recsz * u])

    def put(self, at, bs):
        self.cur[at:at + len(bs)] = bs
        self.touched.update(range(at, at + len(bs)))

    def footprint(self, op):
        """bytes of .PASSWDS the operation may write (start, length)"""
        k, u = op[0], op[1]
        if k in REC_WRITERS:
            return (self.recsz * (u - 1), self.recsz)
        if k == PASSWD:
            return (self.recsz * (u - 1) + self.L.pw, self.L.pwlen)
        if k == EMAIL:
            return (self.recsz * (u - 1) + self.L.em, self.L.emlen)
        if k in (SET, DE):
            return (self.pos(u), 4)
        return (0, 0)

    def step(self, op):
        """expected (status, value, code); value None = not fixed by the property; None = outcome not fixed at all"""
        k, u = op[0], op[1]
        L = self.L
        if k in (GET, QUERY):
            return (0, self.bal[u], 0) if self.valid(u) else None
        if k == START:
            rec = L.with_money(L.canon(self.record(u)), self.bal[u])
            self.pending[u] = rec
            return (0, self.bal[u], 0)                   # the record ptt hands to its callers shows the balance
        if not self.valid(u):
            return (3, None, None)                       # must fail, with an error, writing nothing
        if k in (SET, DE):
            m = op[2]
            if k == SET:
                self.bal[u] = m
            elif m < 0 and self.bal[u] < -m:
                self.bal[u] = 0                          # a debit larger than the balance leaves 0
            else:
                self.bal[u] = self.bal[u] + m
                assert I32MIN <= self.bal[u] <= I32MAX
            self.put(self.pos(u), struct.pack("<i", self.bal[u]))
            return (0, self.bal[u], 0)
        if k in REC_WRITERS:
            # a whole-record write-back never changes a balance: the record lands in the file with the balance in it
            if k == REWRITE:
                rec = L.canon(op[2])
            elif k == SETPERM:
                rec = L.canon(op[3])
                rec = rec[:L.lvl] + struct.pack("<I", op[2]) + rec[L.lvl + 4:]
            elif k == KILL:
                rec = b"\0" * self.recsz
            else:
                rec = self.pending.pop(u) if k == END else L.with_money(L.canon(self.record(u)), self.bal[u])
                n = (struct.unpack("<I", rec[L.posts:L.posts + 4])[0] + (op[2] if k == END else 1)) % 2**32
                rec = rec[:L.posts] + struct.pack("<I", n) + rec[L.posts + 4:]
            self.put(self.recsz * (u - 1), L.with_money(rec, self.bal[u]))
            return (0, None, 0)
        if k in (PASSWD, EMAIL):
            self.put(self.footprint(op)[0], bytes(op[2]))
            return (0, None, 0)
        raise ValueError(op)

    def model_value(self, op):
        """the value token of the driver for a writer (correspondence only, not part of the property)"""
        k, u = op[0], op[1]
        if k in (REWRITE, SETPERM):
            rec = op[2] if k == REWRITE else op[3]
            return self.bal[u] if self.valid(u) else self.L.money_of_rec(rec)
        if k == END:
            return self.bal[u]
        return 0

    def expected_diffs(self):
        return {o: self.cur[o] for o in self.touched if self.cur[o] != self.init[o]}


def expected_line(init, L, ops):
    """The whole result line plain arithmetic prescribes (an invalid slot: error -1/ErrInvalidUID for set/credit/debit; MoneyOf has no error channel and panics)."""
    w = World(init, L)

    def obs():
        d = w.expected_diffs()
        return [w.bal[u] for u in range(1, L.maxu + 1)] + [len(init), len(d)] + [x for k in sorted(d) for x in (k, d[k])]
    t = [0] + obs()
    for op in ops:
        u = op[1]
        e = w.step(op)
        if e is None:
            o3 = [1, 0, 0]
        elif e[0] == 3:
            o3 = [3, -1 if op[0] in (SET, DE) else w.model_value(op), 1]
        else:
            o3 = [0, e[1] if e[1] is not None else w.model_value(op), 0]
        t += o3 + [w.bal[u] if w.valid(u) else 0] + obs()
    return " ".join(str(x) for x in t)


def parse_result(line, maxu, nsteps):
    """-> (status, [ (out3|None, field|None, shm list, flen, {off: byte}) ] ) with the initial observation first"""
    t = [int(x) for x in line.split()]
    if t[0] != 0:
        return t[0], []
    i, obs = 1, []
    for s in range(nsteps + 1):
        out3 = fld = None
        if s > 0:
            out3, fld = tuple(t[i:i + 3]), t[i + 3]
            i += 4
        shm = t[i:i + maxu]; i += maxu
        flen, n = t[i], t[i + 1]; i += 2
        d = {t[i + 2 * k]: t[i + 2 * k + 1] for k in range(n)}; i += 2 * n
        obs.append((out3, fld, shm, flen, d))
    assert i == len(t), (i, len(t))
    return 0, obs


def op_group(o):
    return " ".join(" ".join(str(b) for b in x) if isinstance(x, (bytes, bytearray)) else str(x) for x in o)


def case_line(ftoks, ops):
    return "1|" + ftoks + "".join("|" + op_group(o if o[0] not in (GET, QUERY) else o[:2]) for o in ops)


def judge(init, L, ops, line):
    """First step at which the implementation's own outputs contradict the property. -> None | (step index, key, text, expected, got)"""
    maxu, recsz, off = L.maxu, L.recsz, L.off
    w = World(init, L)
    st, obs = parse_result(line, maxu, len(ops))
    if st != 0:
        return (0, "driver", "case status %d" % st, "0", str(st))
    o0 = obs[0]
    if o0[2] != [w.bal[u] for u in range(1, maxu + 1)] or o0[3] != len(init) or o0[4]:
        return (0, "load", "after a cold load the segment's balances differ from the Money fields of .PASSWDS", str([w.bal[u] for u in range(1, maxu + 1)]), str(o0[2]))
    for i, op in enumerate(ops):
        kind, u = op[0], op[1]
        m = op[2] if kind in (SET, DE) else 0
        before = dict(w.bal)
        exp = w.step(op)
        out3, fld, shm, flen, d = obs[i + 1]
        what = describe(op, L)
        money_op = kind in MONEY_OPS
        if not w.valid(u):
            cls = {SET: "set-invalid-slot", DE: "de-invalid-slot", GET: "get-invalid-slot", QUERY: "get-invalid-slot"}.get(kind, "writer-invalid-slot")
        elif kind in REC_WRITERS:
            cls = "record-rewrite"
        elif kind in (PASSWD, EMAIL):
            cls = "one-field-update"
        elif kind == START:
            cls = "record-query"
        elif kind == DE and m == I32MIN:
            cls = "debit-min-int32"
        elif u == maxu:
            cls = "last-slot"
        else:
            cls = "agree"
        prob = None
        if exp is not None:
            if exp[0] == 3:
                if out3[0] != 3:
                    prob = ("%s on an invalid slot must return an error; status %d (1 = panic, 0 = accepted)" % (what, out3[0]), "status 3", "status %d" % out3[0])
            elif out3[0] != 0:
                prob = ("%s on a valid slot (balance %d) fails: status %d code %d; shared memory now holds %d, the Money field of the record %d" % (
                    what, before.get(u, 0), out3[0], out3[2], shm[u - 1], fld), "0 %s" % exp[1], "%d %d %d" % out3)
            elif exp[1] is not None and out3[1] != exp[1]:
                prob = ("%s with balance %d returns %d, arithmetic says %d" % (what, before.get(u, 0), out3[1], exp[1]), str(exp[1]), str(out3[1]))
        want_shm = [w.bal[x] for x in range(1, maxu + 1)]
        want_d = w.expected_diffs()
        if prob is None and shm != want_shm:
            bad = [x + 1 for x in range(maxu) if shm[x] != want_shm[x]]
            prob = ("after %s (balance before: %d) shared memory holds %s for slot(s) %s, arithmetic says %s" % (
                what, before.get(u, 0), [shm[x - 1] for x in bad][:4], bad[:4], [want_shm[x - 1] for x in bad][:4]), str(want_shm), str(shm))
        if prob is None and (d != want_d or flen != len(init)):
            offs = sorted(set(d.items()) ^ set(want_d.items()))
            slots = sorted({o // recsz + 1 for o, _ in offs})
            fp = w.footprint(op)
            money_offs = [o for o, _ in offs if off <= o % recsz < off + 4]
            outside = [o for o, _ in offs if not (fp[0] <= o < fp[0] + fp[1]) and o not in money_offs]
            if flen != len(init) or outside or any(s != u for s in slots):
                cls2 = "frame"
            elif money_offs:
                cls2 = cls
            else:
                cls2 = "record-content"       # inside the record just written, not the balance: the bytes are not the caller's
            ms = sorted({o // recsz + 1 for o in money_offs})
            got_field = struct.unpack("<i", bytes(d.get(k, init[k]) if d.get(k, init[k]) >= 0 else 0 for k in range(w.pos(ms[0]), w.pos(ms[0]) + 4)))[0] if ms else None
            if ms and cls2 != "frame":
                prob = ("after %s the three views of slot %d's balance disagree: shared memory %s, Money field of the record in .PASSWDS %s, arithmetic %s (balance before the call: %d)" % (
                    what, ms[0], shm[ms[0] - 1], got_field, w.bal[ms[0]], before.get(ms[0], 0)), str(sorted(want_d.items())[:64]), str(sorted(d.items())[:64]))
            else:
                prob = ("after %s .PASSWDS differs from what arithmetic and the callers' records say at byte offsets %s (record(s) %s%s): shared memory %s, file field %s" % (
                    what, [o for o, _ in offs][:8], slots[:4], "" if len(money_offs) == len(offs) else ", outside the Money field", shm[u - 1] if w.valid(u) else "-", got_field),
                    str(sorted(want_d.items())[:64]), str(sorted(d.items())[:64]))
            cls = cls2
        if prob is None and w.valid(u) and fld != w.bal[u]:
            prob = ("after %s PasswdQuery(%d).Money = %d, arithmetic says %d" % (what, u, fld, w.bal[u]), str(w.bal[u]), str(fld))
        if prob is not None:
            return (i, cls, prob[0], prob[1], prob[2])
    return None


def main():
    c = vf.Check("C20")
    rng = c.rng
    thorough = c.tier == "thorough"
    c.prove()
    model_ok = c.model_ok()
    impl = vf.build_impl()
    model = vf.build_model("C20") if model_ok else None
    vf.ipc_cleanup()

    # constants: source (gosync -> model) against the compiled program
    ci = vf.run_impl(impl, "C20", ["2"])[0].split()
    consts = tuple(int(x) for x in ci[1:4])
    maxu, recsz, off = consts
    if model:
        cm = vf.run_model(model, ["2"])
        vf.correspond(c, "constants MAX_USERS / USEREC_RAW_SZ / Offsetof(Money)", ["2"], [" ".join(ci)], cm)
    li = vf.run_impl(impl, "C20", ["3"])[0].split()
    if model:
        vf.correspond(c, "layout: Offsetof(UserLevel / NumPosts / PasswdHash / Email), PASSLEN, EMAILSZ, offsets of the bool bytes", ["3"], [" ".join(li)], vf.run_model(model, ["3"]))
    L = Layout(consts, [int(x) for x in li[1:]])
    c.count(2, "constants")

    # ---------------------------------------------------------------- initial files
    fixture = open(os.path.join(vf.REPO, "ptt", "testcase", ".PASSWDS1"), "rb").read()
    if len(fixture) != maxu * recsz:
        fixture = (fixture + b"\0" * (maxu * recsz))[:maxu * recsz]

    def with_money(data, f):
        b = bytearray(data)
        for u in range(1, maxu + 1):
            b[recsz * (u - 1) + off:recsz * (u - 1) + off + 4] = struct.pack("<i", f(u))
        return bytes(b)

    edge = [0, 1, -1, I32MAX, I32MIN, I32MIN + 1, I32MAX - 1, 255, 256, 65536, -65536, 16777216]
    files = {
        "fixture": fixture,
        "zero": b"\0" * (maxu * recsz),
        "random": bytes(rng.randrange(256) for _ in range(maxu * recsz)),
        "fixture+edge-balances": with_money(fixture, lambda u: edge[(u * 7) % len(edge)]),
        "ff": b"\xff" * (maxu * recsz),
    }
    ftoks = {k: " ".join(str(b) for b in v) for k, v in files.items()}
    slots_pool = [1, 2, maxu - 1, maxu, 0, -1, maxu + 1]
    # slots of the fixture whose id is non-empty and unique (ptt.GetUser can be asked for them)
    ids = {}
    for u in range(1, maxu + 1):
        uid_bytes = fixture[recsz * (u - 1) + 4:recsz * (u - 1) + 17].split(b"\0")[0].upper()
        ids.setdefault(uid_bytes, []).append(u)
    queryable = sorted(us[0] for k, us in ids.items() if k and len(us) == 1)

    def money_step(w, fname, u, allow_query=True):
        k = rng.choice([SET, DE, DE, DE, GET])
        if k == GET and allow_query and fname.startswith("fixture") and u in queryable and rng.random() < 0.5:
            k = QUERY
        bal = w.bal.get(u, rng.choice([0, 5, -5]))
        cand = [0, 1, -1, bal, -bal, bal + 1, -(bal + 1), bal - 1, I32MAX, I32MIN + 1, I32MIN, I32MAX - bal, rng.randrange(I32MIN, I32MAX + 1), rng.randrange(-1000, 1000)]
        cand = [m for m in cand if I32MIN <= m <= I32MAX]
        if k == DE:     # no step may overflow: either the debit saturates or the sum stays inside int32
            cand = [m for m in cand if (m < 0 and bal < -m) or I32MIN <= bal + m <= I32MAX]
        m = rng.choice(cand)
        if k == SET and rng.random() < 0.7:
            m = abs(m) if m != I32MIN else I32MAX          # mostly non-negative set amounts (C20_nonneg's premise)
        return (k, u, m)

    def gen_history(fname, n, pool):
        w = World(files[fname], L)
        ops = []
        for _ in range(n):
            r = rng.random()
            u = rng.choice(pool) if r < 0.9 else (rng.randrange(1, maxu + 1) if r < 0.97 else rng.choice([I32MAX, I32MIN, maxu + 2, -2, 2 * maxu]))
            op = money_step(w, fname, u)
            w.step(op)
            ops.append(op)
        return ops

    def caller_record(w, u, snaps, big):
        """a record some caller hands to a whole-record write-back: read earlier (stale balance), built from scratch (zero balance), or arbitrary"""
        r = rng.random()
        if big and r < 0.5:
            rec = bytes(rng.randrange(256) for _ in range(recsz))
        elif r < 0.2:
            rec = b"\0" * recsz
        elif r < 0.6 and snaps.get(u):
            rec = rng.choice(snaps[u])                                    # a copy read at an earlier point of the history
        else:
            rec = w.record(u) if w.valid(u) else files["fixture"][:recsz]
        b = bytearray(L.canon(rec))
        for _ in range(rng.randrange(0, 4)):                              # the caller changed a few fields
            o = rng.choice([L.lvl, L.posts, L.pw, L.em, rng.randrange(recsz)])
            if o not in L.bools and not (off <= o < off + 4):
                b[o] = rng.randrange(256)
        bal = w.bal.get(u, 0)
        r = rng.random()
        if r < 0.55:
            money = rng.choice([0, 1, -1, bal + 1, bal - 1, -bal if bal != I32MIN else 0, I32MAX, I32MIN, rng.randrange(I32MIN, I32MAX + 1)])
            money = min(max(money, I32MIN), I32MAX)
            b[off:off + 4] = struct.pack("<i", money)                      # whatever Money the caller's copy carries
        return bytes(b)

    def gen_writer_history(fname, n, pool, big=False):
        """money operations interleaved with every other writer of the same users' records"""
        w = World(files[fname], L)
        ops, snaps, open_starts, killed = [], {}, set(), set()
        fixture_ids = fname.startswith("fixture")
        for i in range(n):
            r = rng.random()
            u = rng.choice(pool) if r < 0.93 else rng.choice([0, -1, maxu + 1])
            if not w.valid(u):
                k = rng.choice([SET, DE, REWRITE, SETPERM, PASSWD, EMAIL])
            elif u in open_starts and rng.random() < 0.35:
                k = END
            else:
                k = rng.choice([SET, DE, DE, DE, GET, REWRITE, REWRITE, SETPERM, START, START, KILL, PASSWD, EMAIL, INCPOST])
            if k == KILL and not (fixture_ids and u in queryable and u not in killed):
                k = REWRITE
            if k in (SET, DE, GET):
                op = money_step(w, fname, u, allow_query=u not in killed)
                if not w.valid(u) and op[0] in (GET, QUERY):
                    op = (SET, u, 3)
            elif k == REWRITE:
                op = (REWRITE, u, caller_record(w, u, snaps, big))
            elif k == SETPERM:
                op = (SETPERM, u, rng.choice([0, 1, 0xffffffff, rng.randrange(2**32)]), caller_record(w, u, snaps, big))
            elif k == START:
                op = (START, u); open_starts.add(u)
            elif k == END:
                op = (END, u, rng.choice([0, 1, 1, 2**32 - 1, rng.randrange(2**32)])); open_starts.discard(u)
            elif k == KILL:
                op = (KILL, u); killed.add(u)
            elif k == INCPOST:
                op = (INCPOST, u)
            else:
                op = (k, u, bytes(rng.randrange(256) for _ in range(L.pwlen if k == PASSWD else L.emlen)))
            if w.valid(u):
                snaps.setdefault(u, []).append(w.record(u))
            w.step(op)
            ops.append(op)
        for u in sorted(open_starts):      # every record read is written back in the end, however stale
            ops.append((END, u, 1))
        return ops

    cases = []     # (file name, ops)
    # complete sweeps: every slot, the same five operations; every slot around both ends; every amount class on the last slot
    for u in range(1, maxu + 1):
        cases.append(("fixture", [(SET, u, 5 + u), (DE, u, -3), (DE, u, -(u + 9)), (DE, u, 7), (GET, u, 0), (SET, u, I32MAX), (DE, u, -I32MAX), (DE, u, I32MIN + 1)]))
    for u in list(range(-2, 3)) + list(range(maxu - 2, maxu + 3)) + [I32MAX, I32MIN, 65536 + 1, -maxu]:
        for k in (SET, DE):
            cases.append(("fixture+edge-balances", [(k, u, 7), (GET, min(max(u, 1), maxu), 0)]))
        cases.append(("random", [(GET, u, 0)]))
    for m in [I32MIN, I32MIN + 1, -1, 0, 1, I32MAX]:
        for b0 in [0, 1, 5, I32MAX]:
            cases.append(("zero", [(SET, maxu, b0), (DE, maxu, m if (m < 0 and b0 < -m) or b0 + m <= I32MAX else -m), (SET, 1, b0), (DE, 1, m if (m < 0 and b0 < -m) or b0 + m <= I32MAX else -m)]))
    # every slot x every other writer of the record, each with a money operation between the read and the write-back
    # or a caller record whose Money is not the balance
    zero_rec = b"\0" * recsz
    for u in range(1, maxu + 1):
        own = fixture[recsz * (u - 1):recsz * u]
        stale = L.with_money(L.canon(own), 7)
        for fname in ("fixture", "ff"):
            cases.append((fname, [(SET, u, 1000 + u), (START, u), (DE, u, 500), (DE, u, -300), (END, u, 1), (GET, u, 0),
                                  (REWRITE, u, zero_rec), (GET, u, 0), (DE, u, -5000), (DE, u, 640),
                                  (SETPERM, u, 0x1234 + u, stale), (PASSWD, u, bytes([65 + u % 26] * L.pwlen)), (EMAIL, u, bytes([97 + u % 26] * L.emlen)),
                                  (DE, u, 1), (INCPOST, u), (GET, u, 0), (START, u), (SET, u, 0), (END, u, 2**32 - 1), (GET, u, 0)]))
    for u in queryable:
        cases.append(("fixture", [(DE, u, 640), (KILL, u), (GET, u, 0), (DE, u, -40), (START, u), (DE, u, 2), (END, u, 1)]))
    for u in (0, -1, maxu + 1, I32MAX, I32MIN):
        cases.append(("fixture+edge-balances", [(REWRITE, u, zero_rec), (SETPERM, u, 7, L.with_money(zero_rec, 9)), (PASSWD, u, bytes(L.pwlen)), (EMAIL, u, bytes(L.emlen)), (GET, 1, 0), (GET, maxu, 0)]))
    n_sweep = len(cases)
    n_hist = 2500 if thorough else 110
    names = sorted(files)
    for i in range(n_hist):
        fname = names[i % len(names)]
        cases.append((fname, gen_history(fname, rng.randrange(1, 61), slots_pool if i % 4 else list(range(1, maxu + 1)) + [0, maxu + 1])))
    n_whist = 2000 if thorough else 90
    for i in range(n_whist):
        fname = names[i % len(names)]
        big = i % 6 == 5
        pool = [1, 2, maxu - 1, maxu] if i % 3 else sorted(rng.sample(range(1, maxu + 1), 3) + [maxu])
        cases.append((fname, gen_writer_history(fname, rng.randrange(2, 9 if big else 31), pool, big)))

    lines = [case_line(ftoks[f], ops) for f, ops in cases]
    io = vf.run_impl(impl, "C20", lines, deadline_ms=60000)
    if model:
        mo = vf.run_model(model, lines)
        vf.correspond(c, "histories of SetUMoney/DeUMoney/MoneyOf interleaved with passwdSyncUpdate/SetUserPerm/pwcuStart..pwcuEnd/killUser/PasswdUpdatePasswd/PasswdUpdateEmail "
                         "(returns, every balance of the segment, every changed byte of .PASSWDS)",
                      ["1|<%s>|%s" % (f, " | ".join(str(short(o)) for o in ops)) for f, ops in cases], io, mo)

    # incomplete .PASSWDS (fewer records than MAX_USERS): outside the property's premise, model and code must still agree
    shortf = [("fixture", 10 * recsz, [(SET, 3, 9), (SET, 20, 4), (DE, 20, -1), (SET, maxu - 1, 1)]), ("random", recsz * 7 + 100, [(SET, 8, 77), (DE, 8, -80), (GET, 30, 0)]),
              ("fixture", 10 * recsz, [(START, 3), (DE, 3, 9), (END, 3, 1), (REWRITE, 12, zero_rec), (PASSWD, 14, bytes(L.pwlen)), (GET, 12, 0)])]
    sl = [case_line(" ".join(str(b) for b in files[f][:n]), ops) for f, n, ops in shortf]
    so = vf.run_impl(impl, "C20", sl)
    if model:
        vf.correspond(c, "short .PASSWDS", ["1|<%s[:%d]>|%s" % (f, n, [short(o) for o in ops]) for f, n, ops in shortf], so, vf.run_model(model, sl))
    c.count(sum(len(s[2]) for s in shortf), "steps on an incomplete file (correspondence only)")

    def first_failure(fname, ops):
        # an END needs its START: a trial history that lost it is not a history
        open_ = set()
        for o in ops:
            if o[0] == START:
                open_.add(o[1])
            elif o[0] == END:
                if o[1] not in open_:
                    return None
                open_.discard(o[1])
        return judge(files[fname], L, ops, vf.run_impl(impl, "C20", [case_line(ftoks[fname], ops)])[0])

    seen_keys = set()
    for ci_, ((fname, ops), line) in enumerate(zip(cases, io)):
        w = World(files[fname], L)
        nwriters = 0
        for op in ops:
            c.nontrivial((op, w.bal.get(op[1])))
            nwriters += op[0] not in MONEY_OPS
            w.step(op)
        c.count(len(ops) - nwriters, "sweep steps" if ci_ < n_sweep else "generated-history steps")
        c.count(nwriters, "record-writer steps between money operations")
        bad = judge(files[fname], L, ops, line)
        if bad is None:
            continue
        step, key, text, exp, got = bad
        if key in seen_keys:
            continue
        seen_keys.add(key)
        # shrink: the prefix up to the failing step, then drop earlier operations while the same class still fails
        cur = ops[:step + 1]
        j = 0
        while j < len(cur) - 1 and len(cur) > 1:
            trial = cur[:j] + cur[j + 1:]
            b2 = first_failure(fname, trial)
            if b2 is not None and b2[1] == key and b2[0] == len(trial) - 1:
                cur, (step, key, text, exp, got) = trial, b2
            else:
                j += 1
        c.violation(key, "%s  [initial .PASSWDS: %s; history: %s]" % (text, fname, [describe(o, L) for o in cur]),
                    {"cases": [case_line(ftoks[fname], cur)], "history": [short(o) for o in cur], "history_readable": [describe(o, L) for o in cur], "initial_file": fname,
                     "expected": expected_line(files[fname], L, cur), "expected_observation": exp, "got_observation": got})
    c.sample({"initial_file": cases[n_sweep][0], "history (kind 1 set, 2 credit/debit, 3 MoneyOf, 4 ptt.GetUser; slot; amount)": [short(o) for o in cases[n_sweep][1][:12]],
              "result_prefix": " ".join(io[n_sweep].split()[:70])})
    c.sample({"initial_file": "fixture", "history": [short(o) for o in cases[maxu - 1][1]], "note": "one of the per-slot sweeps (last slot)"})
    c.sample({"initial_file": cases[n_sweep + n_hist][0], "history": [describe(o, L) for o in cases[n_sweep + n_hist][1][:16]], "note": "a generated history with record writers between the money operations"})
    c.cov["exhaustive_parts"] = ["all %d valid slots x 2 initial files x one fixed 20-operation history that puts a money operation between pwcuStart and pwcuEnd and writes back records "
                                 "whose Money is stale / zero through passwdSyncUpdate, SetUserPerm, pwcuIncNumPost, PasswdUpdatePasswd, PasswdUpdateEmail" % maxu,
                                 "killUser after a credit on every fixture slot with a unique id", "all %d valid slots x one fixed 8-operation history" % maxu, "every slot in -2..2 and MAX_USERS-2..MAX_USERS+2 plus int32 extremes x {set, credit}",
                                 "6 boundary amounts x 4 balances on the first and the last slot"]
    c.cov["histories"] = len(cases)
    c.cov["constants_compiled"] = {"MAX_USERS": maxu, "USEREC_RAW_SZ": recsz, "Offsetof(Money)": off}
    vf.ipc_cleanup()
    c.finish(rule="one case = a cold load of a %d-byte .PASSWDS (fixture, zero, 0xff, random bytes, fixture with boundary balances) followed by up to 60 operations over slots "
                  "{1,2,MAX-1,MAX,0,-1,MAX+1} (+ random and extreme slots) and amounts {0,+-1,+-balance,+-(balance+1),2^31-1,-2^31+1,-2^31,random} filtered so that no sum leaves int32; after every "
                  "step all balances of the segment and every changed byte of the file are compared with the extracted model and with plain arithmetic computed by the check; a step is non-trivial/"
                  "distinct by (operation, slot, amount or record, balance before). Writer histories interleave the money operations with every other writer of the same user's record "
                  "(ptt.passwdSyncUpdate with a caller record whose Money is stale / zero / arbitrary, ptt.SetUserPerm, pwcuStart .. money operations .. pwcuEnd, pwcuIncNumPost, killUser, "
                  "cmbbs.PasswdUpdatePasswd / PasswdUpdateEmail; valid and invalid slots) and the same three-way agreement plus 'bytes outside the operation's footprint are unchanged' is "
                  "decided after every step" % (maxu * recsz),
             assumptions=["one process at a time updates a balance (concurrent updates are outside the property)", ".PASSWDS exists with MAX_USERS records (short files are exercised for the correspondence only)",
                          "os.File Seek/Write and encoding/binary little-endian int32 are re-specified in the model (write_at, enc32) and exercised byte-exactly, not verified"])


if __name__ == "__main__":
    main()
