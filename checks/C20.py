#!/usr/bin/env python3
"""C20 — balance in shared memory and .PASSWDS: proofs in coq/Props/C20.v; histories of SetUMoney / DeUMoney /
MoneyOf, interleaved with every other writer of the user's record (passwdSyncUpdate and its callers, one-field
updates), on a real segment and a real .PASSWDS; writes that are refused (file away, /dev/full) and disagreement that is already there; the same
on the production build's table (-tags docker, 2 000 000 slots, sparse 1 GB .PASSWDS); model correspondence and direct predicates against plain arithmetic."""
import os, struct, sys
sys.path.insert(0, os.path.join(os.path.dirname(os.path.abspath(__file__)), "..", "lib"))
import vf

I32MAX, I32MIN = 2**31 - 1, -2**31
SET, DE, GET, QUERY = 1, 2, 3, 4
# the other writers of the same user's record (ptt layer / cmbbs), interleaved with the money operations
REWRITE, SETPERM, START, END, KILL, PASSWD, EMAIL, INCPOST = 5, 6, 7, 8, 9, 10, 11, 12
# writes that are refused / disagreement that is already there
REFUSE, PLANTSHM, PLANTFILE = 13, 14, 15     # (REFUSE, slot, mode, inner operation); (PLANTSHM, slot, m); (PLANTFILE, slot, m)
REFUSE_MODES = {1: "is away (renamed): the open fails", 2: "leads to /dev/full: the write fails"}
MONEY_OPS = (SET, DE, GET, QUERY)
REC_WRITERS = (REWRITE, SETPERM, END, KILL, INCPOST)          # end in ptt.passwdSyncUpdate: a whole-record write-back
NAMES = {SET: "SetUMoney", DE: "DeUMoney", GET: "MoneyOf", QUERY: "ptt.GetUser", REWRITE: "ptt.passwdSyncUpdate", SETPERM: "ptt.SetUserPerm", START: "ptt.pwcuStart",
         END: "ptt.pwcuEnd", KILL: "ptt.killUser", PASSWD: "cmbbs.PasswdUpdatePasswd", EMAIL: "cmbbs.PasswdUpdateEmail", INCPOST: "ptt.pwcuIncNumPost"}


class SparseBytes:
    """the bytes of a (sparse) file: size and the non-zero bytes"""

    def __init__(self, size, d=None):
        self.size, self.d = size, dict(d or {})

    def __len__(self):
        return self.size

    def copy(self):
        return SparseBytes(self.size, self.d)

    def __getitem__(self, k):
        if isinstance(k, slice):
            a, b, _ = k.indices(self.size)
            return bytes(self.d.get(i, 0) for i in range(a, b))
        return self.d.get(k, 0)

    def __setitem__(self, k, bs):
        for i, x in enumerate(bytes(bs)):
            if x:
                self.d[k.start + i] = x
            else:
                self.d.pop(k.start + i, None)


class LazyBal(dict):
    def __init__(self, world):
        super().__init__()
        self.world = world

    def get(self, u, default=None):
        return self[u] if self.world.valid(u) else default

    def __missing__(self, u):
        if not self.world.valid(u):
            raise KeyError(u)
        v = self.world.field(self.world.init, u)
        self[u] = v
        return v


class Layout:
    def __init__(self, consts, lay):
        self.maxu, self.recsz, self.off = consts
        self.lvl, self.posts, self.pw, self.pwlen, self.em, self.emlen = lay[:6]
        self.bools = list(lay[7:7 + lay[6]])

    def canon(self, rec):
        """a record that went through a UserecRaw value: encoding/binary reads a bool byte as != 0 and writes 0/1"""
        b = bytearray(rec)
        for o in self.bools:
            b[o] = 1 if b[o] else 0
        return bytes(b)

    def money_of_rec(self, rec):
        return struct.unpack("<i", rec[self.off:self.off + 4])[0]

    def with_money(self, rec, m):
        return rec[:self.off] + struct.pack("<i", m) + rec[self.off + 4:]


def describe(op, L):
    k, u = op[0], op[1]
    if k in (SET, DE):
        return "%s(%d, %d)" % (NAMES[k], u, op[2])
    if k == GET:
        return "MoneyOf(%d)" % u
    if k == QUERY:
        return "ptt.GetUser(id of slot %d).Money" % u
    if k == REWRITE:
        return "ptt.passwdSyncUpdate(%d, record carrying Money=%d)" % (u, L.money_of_rec(op[2]))
    if k == SETPERM:
        return "ptt.SetUserPerm(uid %d, record carrying Money=%d, perm %#x)" % (u, L.money_of_rec(op[3]), op[2])
    if k == START:
        return "ptt.pwcuStart(%d)" % u
    if k == END:
        return "NumPosts += %d; ptt.pwcuEnd(%d, record read by the earlier pwcuStart)" % (op[2], u)
    if k == KILL:
        return "ptt.killUser(%d)" % u
    if k == INCPOST:
        return "ptt.pwcuIncNumPost(uid %d)" % u
    if k == REFUSE:
        return "%s while .PASSWDS %s" % (describe(op[3], L), REFUSE_MODES[op[2]])
    if k == PLANTSHM:
        return "[the segment's balance of slot %d becomes %d with no file write: a process died between SetUMoney's two stores]" % (u, op[2])
    if k == PLANTFILE:
        return "[the Money field of record %d in .PASSWDS becomes %d behind the segment's back]" % (u, op[2])
    return "%s(%d, ...)" % (NAMES[k], u)


def short(op):
    """an operation for messages / evidence: record bytes abbreviated to the Money they carry"""
    return [short(x) if isinstance(x, tuple) else x if not isinstance(x, (bytes, bytearray)) else "<%d bytes>" % len(x) for x in op]


class World:
    """Plain-arithmetic reference: slot -> balance, and the bytes .PASSWDS must have (the records the callers handed
    over, with the balance in the Money field)."""

    def __init__(self, init, L):
        self.init, self.L = init, L
        self.maxu, self.recsz, self.off = L.maxu, L.recsz, L.off
        self.touched = set()
        self.pending = {}
        self.dirty = set()        # slots whose record may have been left behind by a refused write / a planted value
        if isinstance(init, SparseBytes):
            self.cur = init.copy()
            self.bal = LazyBal(self)
        else:
            self.cur = bytearray(init)
            self.bal = {u: self.field(init, u) for u in range(1, self.maxu + 1)}

    def pos(self, u):
        return self.recsz * (u - 1) + self.off

    def field(self, data, u):
        b = bytes(data[self.pos(u):self.pos(u) + 4])
        return struct.unpack("<i", b + b"\0" * (4 - len(b)))[0]

    def valid(self, u):
        return 1 <= u <= self.maxu

    def record(self, u):
        return bytes(self.cur[self.recsz * (u - 1):self.recsz * u])

    def put(self, at, bs):
        self.cur[at:at + len(bs)] = bs
        self.touched.update(range(at, at + len(bs)))

    def footprint(self, op):
        """bytes of .PASSWDS the operation may write (start, length)"""
        k, u = op[0], op[1]
        if k in REC_WRITERS:
            return (self.recsz * (u - 1), self.recsz)
        if k == PASSWD:
            return (self.recsz * (u - 1) + self.L.pw, self.L.pwlen)
        if k == EMAIL:
            return (self.recsz * (u - 1) + self.L.em, self.L.emlen)
        if k in (SET, DE, PLANTFILE):
            return (self.pos(u), 4)
        return (0, 0)

    def arith(self, k, u, m):
        """the balance a set / credit / debit leaves"""
        if k == SET:
            return m
        if m < 0 and self.bal[u] < -m:
            return 0                                 # a debit larger than the balance leaves 0
        v = self.bal[u] + m
        assert I32MIN <= v <= I32MAX
        return v

    def in_premise(self, op):
        """no sum outside int32"""
        if op[0] == REFUSE:
            op = op[3]
        k, u = op[0], op[1]
        if k != DE or not self.valid(u):
            return True
        m = op[2]
        return (m < 0 and self.bal[u] < -m) or I32MIN <= self.bal[u] + m <= I32MAX

    def step(self, op):
        """expected (status, value, code); value None = not fixed by the property; None = outcome not fixed at all"""
        k, u = op[0], op[1]
        L = self.L
        if k in (GET, QUERY):
            return (0, self.bal[u], 0) if self.valid(u) else None
        if k == START:
            rec = L.with_money(L.canon(self.record(u)), self.bal[u])
            self.pending[u] = rec
            return (0, self.bal[u], 0)                   # the record ptt hands to its callers shows the balance
        if not self.valid(u):
            return (3, None, None)                       # must fail, with an error, writing nothing
        if k == REFUSE:
            # the write cannot happen: the call must report an error and the file is as it was. The code stores into the
            # segment before it attempts the write; judge() accepts the old balance as well and tells this World.
            inner = op[3]
            if inner[0] in (SET, DE):
                self.bal[u] = self.arith(inner[0], u, inner[2])
                self.dirty.add(u)
            return (3, None, None)
        if k == PLANTSHM:
            self.bal[u] = op[2]
            self.dirty.add(u)
            return (0, op[2], 0)
        if k == PLANTFILE:
            self.put(self.pos(u), struct.pack("<i", op[2]))
            self.dirty.add(u)
            return (0, op[2], 0)
        if k in (SET, DE):
            self.bal[u] = self.arith(k, u, op[2])
            self.put(self.pos(u), struct.pack("<i", self.bal[u]))
            self.dirty.discard(u)                        # a successful operation always writes the file
            return (0, self.bal[u], 0)
        if k in REC_WRITERS:
            self.dirty.discard(u)
            # a whole-record write-back never changes a balance: the record lands in the file with the balance in it
            if k == REWRITE:
                rec = L.canon(op[2])
            elif k == SETPERM:
                rec = L.canon(op[3])
                rec = rec[:L.lvl] + struct.pack("<I", op[2]) + rec[L.lvl + 4:]
            elif k == KILL:
                rec = b"\0" * self.recsz
            else:
                rec = self.pending.pop(u) if k == END else L.with_money(L.canon(self.record(u)), self.bal[u])
                n = (struct.unpack("<I", rec[L.posts:L.posts + 4])[0] + (op[2] if k == END else 1)) % 2**32
                rec = rec[:L.posts] + struct.pack("<I", n) + rec[L.posts + 4:]
            self.put(self.recsz * (u - 1), L.with_money(rec, self.bal[u]))
            return (0, None, 0)
        if k in (PASSWD, EMAIL):
            self.put(self.footprint(op)[0], bytes(op[2]))
            return (0, None, 0)
        raise ValueError(op)

    def model_value(self, op):
        """the value token of the driver for a writer (correspondence only, not part of the property)"""
        k, u = op[0], op[1]
        if k in (REWRITE, SETPERM):
            rec = op[2] if k == REWRITE else op[3]
            return self.bal[u] if self.valid(u) else self.L.money_of_rec(rec)
        if k == END:
            return self.bal[u]
        if k == REFUSE:
            inner = op[3]
            if inner[0] in (SET, DE):
                return self.bal[u] if self.valid(u) else -1
            return self.model_value(inner)
        return 0

    def expected_diffs(self):
        return {o: self.cur[o] for o in self.touched if self.cur[o] != self.init[o]}


def expected_line(init, L, ops):
    """The whole result line plain arithmetic prescribes (an invalid slot: error -1/ErrInvalidUID for set/credit/debit; MoneyOf has no error channel and panics)."""
    w = World(init, L)

    def obs():
        d = w.expected_diffs()
        return [w.bal[u] for u in range(1, L.maxu + 1)] + [len(init), len(d)] + [x for k in sorted(d) for x in (k, d[k])]
    t = [0] + obs()
    for op in ops:
        u = op[1]
        e = w.step(op)
        if e is None:
            o3 = [1, 0, 0]
        elif e[0] == 3:
            o3 = [3, -1 if op[0] in (SET, DE) else w.model_value(op), 1 if not w.valid(u) else 99]
        else:
            o3 = [0, e[1] if e[1] is not None else w.model_value(op), 0]
        t += o3 + [w.field(w.cur, u) if w.valid(u) else 0] + obs()
    return " ".join(str(x) for x in t)


def parse_result(line, maxu, nsteps, sparse_init=None):
    """-> (status, [ (out3|None, field|None, {slot: balance}, flen, {off: byte differing from the initial file}) ] ), the
    initial observation first. Dense form (default build): all MAX_USERS balances, the differing bytes. Sparse form
    (sparse_init given): every non-zero balance of the segment, every non-zero byte of the file."""
    t = [int(x) for x in line.split()]
    if t[0] != 0:
        return t[0], []
    i, obs = 1, []
    for s in range(nsteps + 1):
        out3 = fld = None
        if s > 0:
            out3, fld = tuple(t[i:i + 3]), t[i + 3]
            i += 4
        if sparse_init is None:
            shm = {u + 1: v for u, v in enumerate(t[i:i + maxu])}; i += maxu
            flen, n = t[i], t[i + 1]; i += 2
            d = {t[i + 2 * k]: t[i + 2 * k + 1] for k in range(n)}; i += 2 * n
        else:
            k = t[i]; i += 1
            shm = {t[i + 2 * j]: t[i + 2 * j + 1] for j in range(k)}; i += 2 * k
            flen, n = t[i], t[i + 1]; i += 2
            nz = {t[i + 2 * j]: t[i + 2 * j + 1] for j in range(n)}; i += 2 * n
            d = {o: nz.get(o, 0) for o in set(nz) | set(sparse_init.d) if nz.get(o, 0) != sparse_init[o]}
        obs.append((out3, fld, shm, flen, d))
    assert i == len(t), (i, len(t))
    return 0, obs


def op_group(o):
    if o[0] == REFUSE:
        i = o[3]
        return "13 %d %s" % (o[2], op_group(i if i[0] not in (GET, QUERY) else i[:2]))
    return " ".join(" ".join(str(b) for b in x) if isinstance(x, (bytes, bytearray)) else str(x) for x in o)


def case_line(ftoks, ops, head="1"):
    return head + "|" + ftoks + "".join("|" + op_group(o if o[0] not in (GET, QUERY) else o[:2]) for o in ops)


def judge(init, L, ops, line):
    """First step at which the implementation's own outputs contradict the property. -> None | (step index, key, text, expected, got)"""
    maxu, recsz, off = L.maxu, L.recsz, L.off
    sparse = isinstance(init, SparseBytes)
    w = World(init, L)
    st, obs = parse_result(line, maxu, len(ops), init if sparse else None)
    if st != 0:
        return (0, "driver", "case status %d" % st, "0", str(st))

    def universe(shm):
        return range(1, maxu + 1) if not sparse else sorted(set(shm) | set(w.bal))

    def shm_bad(shm):
        return [x for x in universe(shm) if shm.get(x, 0) != w.bal[x]]
    o0 = obs[0]
    if shm_bad(o0[2]) or o0[3] != len(init) or o0[4]:
        bad = shm_bad(o0[2])
        return (0, "load", "after a cold load the segment's balances differ from the Money fields of .PASSWDS (slots %s)" % bad[:6], str([w.bal[u] for u in bad[:6]]), str([o0[2].get(u, 0) for u in bad[:6]]))
    for i, op in enumerate(ops):
        kind, u = op[0], op[1]
        m = op[2] if kind in (SET, DE) else 0
        before = dict(w.bal)
        dirty_before = u in w.dirty
        file_before = w.field(w.cur, u) if w.valid(u) else None
        out3, fld, shm, flen, d = obs[i + 1]
        what = describe(op, L)
        if not w.in_premise(op):
            return None          # from here on a sum leaves int32 (the implementation kept the old balance at a refused write, which it may): not a history of the property
        if kind == REFUSE and w.valid(u) and out3[0] == 0:
            # the call claims success although nothing could be written: that is only right when nothing needed writing, i.e.
            # when everything the operation itself would have left is already there (decided below, byte by byte)
            exp = w.step(op[3])
        else:
            exp = w.step(op)
        if kind == REFUSE and out3[0] == 3 and w.valid(u) and op[3][0] in (SET, DE) and shm.get(u, 0) == before.get(u, 0) != w.bal[u]:
            w.bal[u] = before.get(u, 0)      # an implementation that does not touch the segment when the write is refused is as good
            if file_before == w.bal[u]:
                w.dirty.discard(u)
        if not w.valid(u):
            cls = {SET: "set-invalid-slot", DE: "de-invalid-slot", GET: "get-invalid-slot", QUERY: "get-invalid-slot"}.get(kind, "writer-invalid-slot")
        elif kind == REFUSE:
            cls = "refused-write"
        elif dirty_before and kind in (SET, DE) + REC_WRITERS:
            cls = "resync-after-disagreement"
        elif kind in REC_WRITERS:
            cls = "record-rewrite"
        elif kind in (PASSWD, EMAIL):
            cls = "one-field-update"
        elif kind == START:
            cls = "record-query"
        elif kind == DE and m == I32MIN:
            cls = "debit-min-int32"
        elif u == maxu:
            cls = "last-slot"
        elif u > 65536:
            cls = "slot-above-65536"
        else:
            cls = "agree"
        if sparse and cls in ("agree", "last-slot", "record-rewrite", "record-query") and u > 65536:
            cls = "slot-above-65536"
        views = ""
        if w.valid(u) and dirty_before:
            views = " (before the call shared memory held %d and the Money field of the record %d)" % (before.get(u, 0), file_before)
        prob = None
        if exp is not None:
            if exp[0] == 3:
                if out3[0] != 3:
                    prob = ("%s must return an error%s; status %d (1 = panic, 0 = accepted)" % (what, " (invalid slot)" if not w.valid(u) else "", out3[0]), "status 3", "status %d" % out3[0])
            elif out3[0] != 0:
                prob = ("%s on a valid slot (balance %d) fails: status %d code %d; shared memory now holds %d, the Money field of the record %d" % (
                    what, before.get(u, 0), out3[0], out3[2], shm.get(u, 0), fld), "0 %s" % exp[1], "%d %d %d" % out3)
            elif exp[1] is not None and out3[1] != exp[1]:
                prob = ("%s with balance %d returns %d, arithmetic says %d%s" % (what, before.get(u, 0), out3[1], exp[1], views), str(exp[1]), str(out3[1]))
        want_d = w.expected_diffs()
        if prob is None and shm_bad(shm):
            bad = shm_bad(shm)
            prob = ("after %s (balance before: %d) shared memory holds %s for slot(s) %s, arithmetic says %s%s" % (
                what, before.get(u, 0), [shm.get(x, 0) for x in bad][:4], bad[:4], [w.bal[x] for x in bad][:4], views),
                str({x: w.bal[x] for x in bad[:16]}), str({x: shm.get(x, 0) for x in bad[:16]}))
        if prob is None and (d != want_d or flen != len(init)):
            offs = sorted(set(d.items()) ^ set(want_d.items()))
            slots = sorted({o // recsz + 1 for o, _ in offs})
            fp = w.footprint(op)
            money_offs = [o for o, _ in offs if off <= o % recsz < off + 4]
            outside = [o for o, _ in offs if not (fp[0] <= o < fp[0] + fp[1]) and o not in money_offs]
            if flen != len(init) or outside or any(s != u for s in slots):
                cls2 = "frame"
            elif money_offs:
                cls2 = cls
            else:
                cls2 = "record-content"       # inside the record just written, not the balance: the bytes are not the caller's
            ms = sorted({o // recsz + 1 for o in money_offs})
            got_field = struct.unpack("<i", bytes(d.get(k, init[k]) if d.get(k, init[k]) >= 0 else 0 for k in range(w.pos(ms[0]), w.pos(ms[0]) + 4)))[0] if ms else None
            if ms and cls2 != "frame":
                prob = ("after %s the three views of slot %d's balance disagree: shared memory %s, Money field of the record in .PASSWDS %s, arithmetic %s (balance before the call: %d)%s" % (
                    what, ms[0], shm.get(ms[0], 0), got_field, w.bal[ms[0]], before.get(ms[0], 0), views), str(sorted(want_d.items())[:64]), str(sorted(d.items())[:64]))
            else:
                prob = ("after %s .PASSWDS differs from what arithmetic and the callers' records say at byte offsets %s (record(s) %s%s): shared memory %s, file field %s" % (
                    what, [o for o, _ in offs][:8], slots[:4], "" if len(money_offs) == len(offs) else ", outside the Money field", shm.get(u, 0) if w.valid(u) else "-", got_field),
                    str(sorted(want_d.items())[:64]), str(sorted(d.items())[:64]))
            cls = cls2
        if prob is None and w.valid(u):
            want_fld = w.field(w.cur, u)
            assert u in w.dirty or want_fld == w.bal[u]
            if fld != want_fld:
                prob = ("after %s PasswdQuery(%d).Money = %d, arithmetic says %d" % (what, u, fld, want_fld), str(want_fld), str(fld))
        if prob is not None:
            return (i, cls, prob[0], prob[1], prob[2])
    return None

LAYOUTS = {1: "an absolute symbolic link to the record file in another directory", 2: "a relative symbolic link to a file next to it", 3: "a chain of two symbolic links to the record file"}


def par_rounds(pops, mode):
    """the rounds of a kind-6 case as the driver forms them: lists of indices into pops"""
    if mode == 0:
        return [list(range(len(pops)))]
    order, per = [], {}
    for i, o in enumerate(pops):
        if o[0] not in per:
            order.append(o[0])
        per.setdefault(o[0], []).append(i)
    return [[per[g][r] for g in order if r < len(per[g])] for r in range(max(len(v) for v in per.values()))] if pops else []


def par_line(ftoks, pops, mode):
    return "6 %d|%s" % (mode, ftoks) + "".join("|%d %d %d" % (g, k, u) + (" %d" % m if k != GET else "") for g, k, u, m in pops)


def par_parse(line, maxu, rounds):
    """-> (status, held, obs0, [(outs, obs)]) with obs = (segment, file length, differing bytes)"""
    t = [int(x) for x in line.split()]
    if t[0] != 0:
        return t[0], 0, None, []
    i = 2

    def obs():
        nonlocal i
        shm = {u + 1: v for u, v in enumerate(t[i:i + maxu])}; i += maxu
        flen, n = t[i], t[i + 1]; i += 2
        d = {t[i + 2 * k]: t[i + 2 * k + 1] for k in range(n)}; i += 2 * n
        return shm, flen, d
    o0 = obs()
    out = []
    for r in rounds:
        n = t[i]; i += 1
        assert n == len(r), (n, len(r))
        outs = [tuple(t[i + 3 * k:i + 3 * k + 3]) for k in range(n)]; i += 3 * n
        out.append((outs, obs()))
    assert i == len(t), (i, len(t))
    return 0, t[1], o0, out


def par_describe(pops, idx, L):
    return ["goroutine %d: %s" % (pops[i][0], describe(pops[i][1:], L)) for i in idx]


def judge_par(init, L, pops, mode, line):
    """Several goroutines of one process, each on slots of its own. Operations on different slots commute, so plain arithmetic
    is the per-slot history in program order. -> None | (round, key, text, expected, got)"""
    rounds = par_rounds(pops, mode)
    st, held, o0, robs = par_parse(line, L.maxu, rounds)
    if st != 0:
        return (0, "driver", "case status %d" % st, "0", str(st))
    w = World(init, L)
    if any(o0[0][u] != w.bal[u] for u in w.bal) or o0[1] != len(init) or o0[2]:
        return (0, "load", "after a cold load the segment differs from .PASSWDS", "", "")
    for ri, (idx, (outs, (shm, flen, d))) in enumerate(zip(rounds, robs)):
        how = "%d goroutines of one process %s" % (len({pops[i][0] for i in idx}), "run free" if mode == 0 else "are all held by the kernel inside open(.PASSWDS) and then let go")
        before = dict(w.bal)
        for i, o3 in zip(idx, outs):
            op = pops[i][1:]
            u = op[1]
            exp = w.step(op)
            what = "goroutine %d: %s" % (pops[i][0], describe(op, L))
            if exp is None:
                continue
            if exp[0] == 3 and o3[0] != 3:
                return (ri, "parallel-invalid-slot", "%s must return an error (invalid slot); status %d  [%s]" % (what, o3[0], how), "status 3", "status %d" % o3[0])
            if exp[0] == 0 and o3[0] != 0:
                return (ri, "parallel-goroutines-fail", "%s on a valid slot (balance %d) fails: status %d code %d  [%s, each on a slot of its own]" % (what, before.get(u, 0), o3[0], o3[2], how), "0 %s" % exp[1], "%d %d %d" % o3)
            if exp[0] == 0 and exp[1] is not None and o3[1] != exp[1]:
                return (ri, "parallel-goroutines-return", "%s with balance %d returns %d, arithmetic says %d  [%s, each on a slot of its own]" % (what, before.get(u, 0), o3[1], exp[1], how), str(exp[1]), str(o3[1]))
        want_d = w.expected_diffs()
        bad = [u for u in range(1, L.maxu + 1) if shm[u] != w.bal[u] or w.field(w.cur, u) != struct.unpack("<i", bytes(d.get(k, init[k]) if d.get(k, init[k]) >= 0 else 0 for k in range(w.pos(u), w.pos(u) + 4)))[0]]
        if bad:
            u = bad[0]
            got_f = struct.unpack("<i", bytes(d.get(k, init[k]) if d.get(k, init[k]) >= 0 else 0 for k in range(w.pos(u), w.pos(u) + 4)))[0]
            mine = [i for i in idx if pops[i][2] == u]
            return (ri, "parallel-goroutines-agree", "after %s, each working on a slot of its own, the three views of slot %d's balance disagree: shared memory %d, Money field of the record in .PASSWDS %d, "
                    "arithmetic %d (balance before: %d; the only operation(s) on this slot: %s; the others: %s)" % (
                        how, u, shm[u], got_f, w.bal[u], before.get(u, 0), par_describe(pops, mine, L), par_describe(pops, [i for i in idx if i not in mine][:6], L)),
                    str({x: w.bal[x] for x in bad[:8]}), str({"shm": {x: shm[x] for x in bad[:8]}, "file bytes": sorted(d.items())[:32]}))
        if d != want_d or flen != len(init):
            offs = sorted(set(d.items()) ^ set(want_d.items()))
            return (ri, "parallel-goroutines-frame", "after %s .PASSWDS differs from arithmetic outside the Money fields at byte offsets %s" % (how, [o for o, _ in offs][:8]), str(sorted(want_d.items())[:32]), str(sorted(d.items())[:32]))
    return None


def main():
    c = vf.Check("C20")
    rng = c.rng
    thorough = c.tier == "thorough"
    c.prove()
    model_ok = c.model_ok()
    impl = vf.build_impl()
    model = vf.build_model("C20") if model_ok else None
    vf.ipc_cleanup()

    # constants: source (gosync -> model) against the compiled program
    ci = vf.run_impl(impl, "C20", ["2"])[0].split()
    consts = tuple(int(x) for x in ci[1:4])
    maxu, recsz, off = consts
    if model:
        cm = vf.run_model(model, ["2"])
        vf.correspond(c, "constants MAX_USERS / USEREC_RAW_SZ / Offsetof(Money)", ["2"], [" ".join(ci)], cm)
    li = vf.run_impl(impl, "C20", ["3"])[0].split()
    if model:
        vf.correspond(c, "layout: Offsetof(UserLevel / NumPosts / PasswdHash / Email), PASSLEN, EMAILSZ, offsets of the bool bytes", ["3"], [" ".join(li)], vf.run_model(model, ["3"]))
    L = Layout(consts, [int(x) for x in li[1:]])
    c.count(2, "constants")

    # ---------------------------------------------------------------- initial files
    fixture = open(os.path.join(vf.REPO, "ptt", "testcase", ".PASSWDS1"), "rb").read()
    if len(fixture) != maxu * recsz:
        fixture = (fixture + b"\0" * (maxu * recsz))[:maxu * recsz]

    def with_money(data, f):
        b = bytearray(data)
        for u in range(1, maxu + 1):
            b[recsz * (u - 1) + off:recsz * (u - 1) + off + 4] = struct.pack("<i", f(u))
        return bytes(b)

    edge = [0, 1, -1, I32MAX, I32MIN, I32MIN + 1, I32MAX - 1, 255, 256, 65536, -65536, 16777216]
    files = {
        "fixture": fixture,
        "zero": b"\0" * (maxu * recsz),
        "random": bytes(rng.randrange(256) for _ in range(maxu * recsz)),
        "fixture+edge-balances": with_money(fixture, lambda u: edge[(u * 7) % len(edge)]),
        "ff": b"\xff" * (maxu * recsz),
    }
    ftoks = {k: " ".join(str(b) for b in v) for k, v in files.items()}
    slots_pool = [1, 2, maxu - 1, maxu, 0, -1, maxu + 1]
    # slots of the fixture whose id is non-empty and unique (ptt.GetUser can be asked for them)
    ids = {}
    for u in range(1, maxu + 1):
        uid_bytes = fixture[recsz * (u - 1) + 4:recsz * (u - 1) + 17].split(b"\0")[0].upper()
        ids.setdefault(uid_bytes, []).append(u)
    queryable = sorted(us[0] for k, us in ids.items() if k and len(us) == 1)

    def money_step(w, fname, u, allow_query=True):
        k = rng.choice([SET, DE, DE, DE, GET])
        if k == GET and allow_query and fname.startswith("fixture") and u in queryable and rng.random() < 0.5:
            k = QUERY
        bal = w.bal.get(u, rng.choice([0, 5, -5]))
        cand = [0, 1, -1, bal, -bal, bal + 1, -(bal + 1), bal - 1, I32MAX, I32MIN + 1, I32MIN, I32MAX - bal, rng.randrange(I32MIN, I32MAX + 1), rng.randrange(-1000, 1000)]
        cand = [m for m in cand if I32MIN <= m <= I32MAX]
        if k == DE:     # no step may overflow: either the debit saturates or the sum stays inside int32
            cand = [m for m in cand if (m < 0 and bal < -m) or I32MIN <= bal + m <= I32MAX]
        m = rng.choice(cand)
        if k == SET and rng.random() < 0.7:
            m = abs(m) if m != I32MIN else I32MAX          # mostly non-negative set amounts (C20_nonneg's premise)
        return (k, u, m)

    def gen_history(fname, n, pool):
        w = World(files[fname], L)
        ops = []
        for _ in range(n):
            r = rng.random()
            u = rng.choice(pool) if r < 0.9 else (rng.randrange(1, maxu + 1) if r < 0.97 else rng.choice([I32MAX, I32MIN, maxu + 2, -2, 2 * maxu]))
            op = money_step(w, fname, u)
            w.step(op)
            ops.append(op)
        return ops

    def caller_record(w, u, snaps, big):
        """a record some caller hands to a whole-record write-back: read earlier (stale balance), built from scratch (zero balance), or arbitrary"""
        r = rng.random()
        if big and r < 0.5:
            rec = bytes(rng.randrange(256) for _ in range(recsz))
        elif r < 0.2:
            rec = b"\0" * recsz
        elif r < 0.6 and snaps.get(u):
            rec = rng.choice(snaps[u])                                    # a copy read at an earlier point of the history
        else:
            rec = w.record(u) if w.valid(u) else files["fixture"][:recsz]
        b = bytearray(L.canon(rec))
        for _ in range(rng.randrange(0, 4)):                              # the caller changed a few fields
            o = rng.choice([L.lvl, L.posts, L.pw, L.em, rng.randrange(recsz)])
            if o not in L.bools and not (off <= o < off + 4):
                b[o] = rng.randrange(256)
        bal = w.bal.get(u, 0)
        r = rng.random()
        if r < 0.55:
            money = rng.choice([0, 1, -1, bal + 1, bal - 1, -bal if bal != I32MIN else 0, I32MAX, I32MIN, rng.randrange(I32MIN, I32MAX + 1)])
            money = min(max(money, I32MIN), I32MAX)
            b[off:off + 4] = struct.pack("<i", money)                      # whatever Money the caller's copy carries
        return bytes(b)

    def gen_writer_history(fname, n, pool, big=False):
        """money operations interleaved with every other writer of the same users' records"""
        w = World(files[fname], L)
        ops, snaps, open_starts, killed = [], {}, set(), set()
        fixture_ids = fname.startswith("fixture")
        for i in range(n):
            r = rng.random()
            u = rng.choice(pool) if r < 0.93 else rng.choice([0, -1, maxu + 1])
            if not w.valid(u):
                k = rng.choice([SET, DE, REWRITE, SETPERM, PASSWD, EMAIL])
            elif u in open_starts and rng.random() < 0.35:
                k = END
            else:
                k = rng.choice([SET, DE, DE, DE, GET, REWRITE, REWRITE, SETPERM, START, START, KILL, PASSWD, EMAIL, INCPOST])
            if k == KILL and not (fixture_ids and u in queryable and u not in killed):
                k = REWRITE
            if k in (SET, DE, GET):
                op = money_step(w, fname, u, allow_query=u not in killed)
                if not w.valid(u) and op[0] in (GET, QUERY):
                    op = (SET, u, 3)
            elif k == REWRITE:
                op = (REWRITE, u, caller_record(w, u, snaps, big))
            elif k == SETPERM:
                op = (SETPERM, u, rng.choice([0, 1, 0xffffffff, rng.randrange(2**32)]), caller_record(w, u, snaps, big))
            elif k == START:
                op = (START, u); open_starts.add(u)
            elif k == END:
                op = (END, u, rng.choice([0, 1, 1, 2**32 - 1, rng.randrange(2**32)])); open_starts.discard(u)
            elif k == KILL:
                op = (KILL, u); killed.add(u)
            elif k == INCPOST:
                op = (INCPOST, u)
            else:
                op = (k, u, bytes(rng.randrange(256) for _ in range(L.pwlen if k == PASSWD else L.emlen)))
            if w.valid(u):
                snaps.setdefault(u, []).append(w.record(u))
            w.step(op)
            ops.append(op)
        for u in sorted(open_starts):      # every record read is written back in the end, however stale
            ops.append((END, u, 1))
        return ops

    cases = []     # (file name, ops)
    # complete sweeps: every slot, the same five operations; every slot around both ends; every amount class on the last slot
    for u in range(1, maxu + 1):
        cases.append(("fixture", [(SET, u, 5 + u), (DE, u, -3), (DE, u, -(u + 9)), (DE, u, 7), (GET, u, 0), (SET, u, I32MAX), (DE, u, -I32MAX), (DE, u, I32MIN + 1)]))
    for u in list(range(-2, 3)) + list(range(maxu - 2, maxu + 3)) + [I32MAX, I32MIN, 65536 + 1, -maxu]:
        for k in (SET, DE):
            cases.append(("fixture+edge-balances", [(k, u, 7), (GET, min(max(u, 1), maxu), 0)]))
        cases.append(("random", [(GET, u, 0)]))
    for m in [I32MIN, I32MIN + 1, -1, 0, 1, I32MAX]:
        for b0 in [0, 1, 5, I32MAX]:
            cases.append(("zero", [(SET, maxu, b0), (DE, maxu, m if (m < 0 and b0 < -m) or b0 + m <= I32MAX else -m), (SET, 1, b0), (DE, 1, m if (m < 0 and b0 < -m) or b0 + m <= I32MAX else -m)]))
    # every slot x every other writer of the record, each with a money operation between the read and the write-back
    # or a caller record whose Money is not the balance
    zero_rec = b"\0" * recsz
    for u in range(1, maxu + 1):
        own = fixture[recsz * (u - 1):recsz * u]
        stale = L.with_money(L.canon(own), 7)
        for fname in ("fixture", "ff"):
            cases.append((fname, [(SET, u, 1000 + u), (START, u), (DE, u, 500), (DE, u, -300), (END, u, 1), (GET, u, 0),
                                  (REWRITE, u, zero_rec), (GET, u, 0), (DE, u, -5000), (DE, u, 640),
                                  (SETPERM, u, 0x1234 + u, stale), (PASSWD, u, bytes([65 + u % 26] * L.pwlen)), (EMAIL, u, bytes([97 + u % 26] * L.emlen)),
                                  (DE, u, 1), (INCPOST, u), (GET, u, 0), (START, u), (SET, u, 0), (END, u, 2**32 - 1), (GET, u, 0)]))
    for u in queryable:
        cases.append(("fixture", [(DE, u, 640), (KILL, u), (GET, u, 0), (DE, u, -40), (START, u), (DE, u, 2), (END, u, 1)]))
    for u in (0, -1, maxu + 1, I32MAX, I32MIN):
        cases.append(("fixture+edge-balances", [(REWRITE, u, zero_rec), (SETPERM, u, 7, L.with_money(zero_rec, 9)), (PASSWD, u, bytes(L.pwlen)), (EMAIL, u, bytes(L.emlen)), (GET, 1, 0), (GET, maxu, 0)]))
    # ---- writes that are refused / shared memory and .PASSWDS already disagreeing: a later successful operation must bring
    # all three views into line (it always writes the file). Every slot x both ways of refusing the write; the operation
    # repeated with the very value the segment already holds (the caller's retry), credit 0, a debit that clamps to 0.
    for u in range(1, maxu + 1):
        md = 1 + u % 2
        cases.append(("fixture", [(SET, u, 100), (REFUSE, u, md, (SET, u, 250)), (SET, u, 250), (GET, u, 0), (DE, u, -50),
                                  (REFUSE, u, 3 - md, (DE, u, 7)), (DE, u, 0), (REFUSE, u, md, (DE, u, -1000)), (DE, u, -1), (DE, u, 12),
                                  (REFUSE, u, md, (SET, u, 0)), (SET, u, 0), (REFUSE, u, 3 - md, (REWRITE, u, zero_rec)), (GET, u, 0)]))
        cases.append(("fixture+edge-balances", [(SET, u, 40 + u), (PLANTSHM, u, 9), (SET, u, 9), (PLANTFILE, u, 77), (DE, u, 0), (PLANTSHM, u, 0), (DE, u, -5),
                                                (PLANTFILE, u, -3), (SET, u, 0), (PLANTSHM, u, 500 + u), (REWRITE, u, zero_rec), (PLANTFILE, u, 1), (INCPOST, u) if u in queryable else (GET, u, 0),
                                                (PLANTSHM, u, I32MAX), (START, u), (END, u, 1), (GET, u, 0)]))
    for u in (0, -1, maxu + 1):
        cases.append(("fixture", [(REFUSE, u, 1, (SET, u, 5)), (REFUSE, u, 2, (DE, u, 5)), (REFUSE, u, 1, (REWRITE, u, zero_rec)), (REFUSE, u, 2, (PASSWD, u, bytes(L.pwlen))), (GET, 1, 0)]))
    n_sweep = len(cases)
    n_hist = 2500 if thorough else 110
    names = sorted(files)
    for i in range(n_hist):
        fname = names[i % len(names)]
        cases.append((fname, gen_history(fname, rng.randrange(1, 61), slots_pool if i % 4 else list(range(1, maxu + 1)) + [0, maxu + 1])))
    n_whist = 2000 if thorough else 90
    for i in range(n_whist):
        fname = names[i % len(names)]
        big = i % 6 == 5
        pool = [1, 2, maxu - 1, maxu] if i % 3 else sorted(rng.sample(range(1, maxu + 1), 3) + [maxu])
        cases.append((fname, gen_writer_history(fname, rng.randrange(2, 9 if big else 31), pool, big)))


    def gen_disagree_history(fname, n, pool, init=None, Lx=None):
        """money operations and record writers with refused writes and planted disagreement between them; on a slot whose record
        was left behind, mostly the operations that ask for the value the segment already holds"""
        w = World(files[fname] if init is None else init, Lx or L)
        ops, snaps = [], {}
        for _ in range(n):
            u = rng.choice(pool) if rng.random() < 0.95 else rng.choice([0, -1, w.maxu + 1])
            r = rng.random()
            if not w.valid(u):
                op = rng.choice([(REFUSE, u, 1, (SET, u, 3)), (REFUSE, u, 2, (DE, u, -3)), (SET, u, 3), (REFUSE, u, 2, (REWRITE, u, zero_rec))])
            elif u in w.dirty and r < 0.5:
                b = w.bal[u]
                op = rng.choice([(SET, u, b), (DE, u, 0), (REWRITE, u, caller_record(w, u, snaps, False)), (GET, u, 0),
                                 (DE, u, -1) if b <= 0 else (DE, u, 0), money_step(w, fname, u, allow_query=False)])
            elif r < 0.72:
                inner = money_step(w, fname, u, allow_query=False)
                if inner[0] == GET:
                    inner = rng.choice([(REWRITE, u, caller_record(w, u, snaps, False)), (PASSWD, u, bytes(rng.randrange(256) for _ in range(L.pwlen))),
                                        (EMAIL, u, bytes(rng.randrange(256) for _ in range(L.emlen)))])
                op = (REFUSE, u, rng.choice([1, 2]), inner)
            elif r < 0.86:
                b = w.bal[u]
                op = (rng.choice([PLANTSHM, PLANTFILE]), u, rng.choice([0, 1, -1, b, min(b + 1, I32MAX), max(b - 1, I32MIN), I32MAX, I32MIN, rng.randrange(-1000, 1000)]))
            else:
                op = money_step(w, fname, u, allow_query=False)
            if w.valid(u):
                snaps.setdefault(u, []).append(w.record(u))
            w.step(op)
            ops.append(op)
        return ops
    n_dhist = 1500 if thorough else 70
    for i in range(n_dhist):
        fname = names[i % len(names)]
        pool = [1, 2, maxu - 1, maxu] if i % 3 else sorted(rng.sample(range(1, maxu + 1), 3) + [maxu])
        cases.append((fname, gen_disagree_history(fname, rng.randrange(3, 25), pool)))

    lines = [case_line(ftoks[f], ops) for f, ops in cases]
    io = vf.run_impl(impl, "C20", lines, deadline_ms=60000)
    if model:
        mo = vf.run_model(model, lines)
        vf.correspond(c, "histories of SetUMoney/DeUMoney/MoneyOf interleaved with passwdSyncUpdate/SetUserPerm/pwcuStart..pwcuEnd/killUser/PasswdUpdatePasswd/PasswdUpdateEmail "
                         "(returns, every balance of the segment, every changed byte of .PASSWDS)",
                      ["1|<%s>|%s" % (f, " | ".join(str(short(o)) for o in ops)) for f, ops in cases], io, mo)

    # ---------------------------------------------------------------- .PASSWDS is a symbolic link to the record file
    # (kind 5: the same histories, the same observation through the name, the same judge). Every slot x three layouts.
    lcases = []     # (file name, ops, layout)
    for u in range(1, maxu + 1):
        lay = 1 + u % 3
        md = 1 + u % 2
        lcases.append(("fixture", [(SET, u, 5 + u), (DE, u, -3), (DE, u, -(u + 9)), (DE, u, 7), (GET, u, 0), (REFUSE, u, md, (SET, u, 250)), (SET, u, 250), (START, u), (DE, u, 500), (END, u, 1),
                                   (REWRITE, u, zero_rec), (PLANTFILE, u, 77), (DE, u, 0), (SET, u, I32MAX), (DE, u, -I32MAX), (DE, u, I32MIN + 1)], lay))
    for lay in (1, 2, 3):
        lcases.append(("fixture+edge-balances", [(k, u, 7) for u in (0, -1, maxu + 1) for k in (SET, DE)] + [(REWRITE, maxu + 1, zero_rec), (GET, 1, 0), (GET, maxu, 0)], lay))
    for i in range(600 if thorough else 24):
        fname = names[i % len(names)]
        pool = [1, 2, maxu - 1, maxu] if i % 3 else sorted(rng.sample(range(1, maxu + 1), 3) + [maxu])
        gen = (lambda: gen_history(fname, rng.randrange(1, 40), pool + [0, maxu + 1]), lambda: gen_writer_history(fname, rng.randrange(2, 20), pool), lambda: gen_disagree_history(fname, rng.randrange(3, 20), pool))[i % 3]
        lcases.append((fname, gen(), 1 + i % 3))
    llines = [case_line(ftoks[f], ops, "5 %d" % lay) for f, ops, lay in lcases]
    lio = vf.run_impl(impl, "C20", llines, deadline_ms=60000)
    if model:
        vf.correspond(c, "the same kinds of histories with .PASSWDS a symbolic link to the record file (absolute / relative / chain of two): the model speaks about the bytes behind the name",
                      ["5 %d|<%s>|%s" % (lay, f, " | ".join(str(short(o)) for o in ops)) for f, ops, lay in lcases], lio, vf.run_model(model, [case_line(ftoks[f], ops) for f, ops, _ in lcases]))

    # ---------------------------------------------------------------- several goroutines of ONE process, each on slots of its own (kind 6)
    pcases = []     # (file name, pops, mode)    pops: (goroutine, kind, slot, amount)
    for u in list(range(1, maxu)) + [maxu]:
        v = u + 1 if u < maxu else 1
        pcases.append(("fixture", [(0, SET, u, 1000 + u), (1, SET, v, 2005 + u), (0, DE, u, 7), (1, DE, v, -6), (0, DE, u, -5000), (1, DE, v, 11), (0, GET, u, 0), (1, SET, v, 0)], 1))

    def gen_par(fname, ng, nops, extra_invalid):
        w = World(files[fname], L)
        slots = rng.sample(range(1, maxu + 1), 2 * ng)
        if rng.random() < 0.5 and maxu not in slots:
            slots[0] = maxu
        if rng.random() < 0.5 and 1 not in slots:
            slots[1] = 1
        pops = []
        for r in range(nops):
            for g in range(ng):
                u = rng.choice(slots[2 * g:2 * g + 2])
                k, u, m = money_step(w, fname, u, allow_query=False)
                w.step((k, u, m))
                pops.append((g, k, u, m))
            if extra_invalid and r == 0:
                pops.append((ng, rng.choice([SET, DE]), rng.choice([0, -1, maxu + 1]), 7))
        return pops
    for i in range(400 if thorough else 24):
        fname = ("fixture", "zero", "fixture+edge-balances")[i % 3]
        pcases.append((fname, gen_par(fname, rng.choice([2, 3, 8, 16]), rng.randrange(1, 7), i % 4 == 0), 1))
    for i in range(40 if thorough else 4):
        fname = ("zero", "fixture")[i % 2]
        pcases.append((fname, gen_par(fname, rng.choice([4, 8, 16]) if thorough else (4, 8)[i % 2], 150 if thorough else 50, False), 0))
    plines = [par_line(ftoks[f], pops, mode) for f, pops, mode in pcases]
    pio = vf.run_impl(impl, "C20", plines, deadline_ms=300000)
    if model:
        # every interleaving of whole operations is a history of the model; the implementation's returns and final state must be those
        # of the history that lists the operations in case order (operations on different slots commute)
        def proj_impl(line, pops, mode):
            st, held, o0, robs = par_parse(line, maxu, par_rounds(pops, mode))
            if st != 0:
                return line
            outs = [o for r in robs for o in r[0]]
            shm, flen, d = robs[-1][1]
            return " ".join(str(x) for x in [0] + [y for o in outs for y in o] + [shm[u] for u in range(1, maxu + 1)] + [flen, len(d)] + [y for k in sorted(d) for y in (k, d[k])])

        def proj_model(line, pops, mode):
            st, obs = parse_result(line, maxu, len(pops))
            if st != 0:
                return line
            order = [i for r in par_rounds(pops, mode) for i in r]
            outs = [obs[order.index(i) + 1][0] for i in order]
            _, _, shm, flen, d = obs[-1]
            return " ".join(str(x) for x in [0] + [y for o in outs for y in o] + [shm[u] for u in range(1, maxu + 1)] + [flen, len(d)] + [y for k in sorted(d) for y in (k, d[k])])
        seq = [[pops[i][1:] for r in par_rounds(pops, mode) for i in r] for _, pops, mode in pcases]
        pmo = vf.run_model(model, [case_line(ftoks[f], ops) for (f, _, _), ops in zip(pcases, seq)])
        vf.correspond(c, "money operations from several goroutines of one process, each on slots of its own (returns and final state against the model's run of the same operations as one history)",
                      ["6 %d|<%s>|%s" % (mode, f, pops[:24]) for f, pops, mode in pcases], [proj_impl(l, pp, md) for l, (_, pp, md) in zip(pio, pcases)], [proj_model(l, pp, md) for l, (_, pp, md) in zip(pmo, pcases)])
    leases_held = sum(1 for l, (_, _, md) in zip(pio, pcases) if md == 1 and l.split()[:2] == ["0", "1"])
    c.cov["parallel"] = {"cases": len(pcases), "lock-step cases": sum(1 for x in pcases if x[2] == 1), "lock-step cases in which every round was held by a read lease on .PASSWDS": leases_held,
                         "operations": sum(len(x[1]) for x in pcases)}
    c.cov["symlinked .PASSWDS"] = {"histories": len(lcases), "layouts": LAYOUTS}

    # incomplete .PASSWDS (fewer records than MAX_USERS): outside the property's premise, model and code must still agree
    shortf = [("fixture", 10 * recsz, [(SET, 3, 9), (SET, 20, 4), (DE, 20, -1), (SET, maxu - 1, 1)]), ("random", recsz * 7 + 100, [(SET, 8, 77), (DE, 8, -80), (GET, 30, 0)]),
              ("fixture", 10 * recsz, [(START, 3), (DE, 3, 9), (END, 3, 1), (REWRITE, 12, zero_rec), (PASSWD, 14, bytes(L.pwlen)), (GET, 12, 0)])]
    sl = [case_line(" ".join(str(b) for b in files[f][:n]), ops) for f, n, ops in shortf]
    so = vf.run_impl(impl, "C20", sl)
    if model:
        vf.correspond(c, "short .PASSWDS", ["1|<%s[:%d]>|%s" % (f, n, [short(o) for o in ops]) for f, n, ops in shortf], so, vf.run_model(model, sl))
    c.count(sum(len(s[2]) for s in shortf), "steps on an incomplete file (correspondence only)")

    # ---------------------------------------------------------------- any table size: the production build (-tags docker)
    # .PASSWDS is a sparse file of MAX_USERS records (1 GB, a few blocks allocated); the driver reports every non-zero balance of
    # the whole segment and every non-zero byte of the file after every step, so all three views and the frame are decided
    # exactly as above. Slots on both sides of 65 536 (= 1 << HASH_BITS, the size of the other table of the segment) and the last one.
    impl_docker = vf.build_impl(tags="verif docker", name="implrun_docker")
    cd_ = vf.run_impl(impl_docker, "C20", ["2"])[0].split()
    ld_ = vf.run_impl(impl_docker, "C20", ["3"])[0].split()
    if model:
        vf.correspond(c, "constants of the docker build: MAX_USERS / USEREC_RAW_SZ / Offsetof(Money)", ["2 1"], [" ".join(cd_)], vf.run_model(model, ["2 1"]))
        vf.correspond(c, "layout of the docker build (the model uses one layout for both builds)", ["3"], [" ".join(ld_)], vf.run_model(model, ["3"]))
    Ld = Layout(tuple(int(x) for x in cd_[1:4]), [int(x) for x in ld_[1:]])
    maxd = Ld.maxu
    c.count(2, "constants")
    same_layout = (Ld.recsz, Ld.off, Ld.lvl, Ld.posts, Ld.pw, Ld.pwlen, Ld.em, Ld.emlen, Ld.bools) == (L.recsz, L.off, L.lvl, L.posts, L.pw, L.pwlen, L.em, L.emlen, L.bools)
    if not same_layout:
        c.broken.append({"kind": "correspondence", "where": "record layout of the docker build differs from the default build", "theorem": "correspondence layout", "mismatches": 1, "examples": [], "log": ""})

    def big_init(Lx, nrec, plants):
        sp = SparseBytes(nrec * Lx.recsz)
        for u, m in plants:
            base = Lx.recsz * (u - 1)
            uid = b"u%d" % u
            sp[base + 4:base + 4 + len(uid)] = uid                    # UserecRaw.UserID follows the 4-byte Version
            sp[base + Lx.off:base + Lx.off + 4] = struct.pack("<i", m)
        return sp

    def big_watch(Lx, plants, ops):
        return sorted({u for u, _ in plants} | {o[1] for o in ops if 1 <= o[1] <= Lx.maxu})

    def big_lines(cfg, Lx, nrec, load, plants, ops):
        watch = " ".join(str(x) for x in big_watch(Lx, plants, ops))
        pl = " ".join("%d %d" % p for p in plants)
        tail = "".join("|" + op_group(o if o[0] not in (GET, QUERY) else o[:2]) for o in ops)
        return "4|%d %d|%s|%s%s" % (nrec, load, watch, pl, tail), "4 %d|%s|%s%s" % (cfg, watch, pl, tail)

    def big_project(line, Lx, init, watch, nsteps):
        """the implementation's observation in the form the size-generic model prints: per step status value code, the Money field of
        the addressed record, and (segment balance, Money field) of every watched slot"""
        st, obs = parse_result(line, Lx.maxu, nsteps, init)
        if st != 0:
            return line
        t = [0]
        for out3, fld, shm, flen, d in obs:
            if out3 is not None:
                t += list(out3) + [fld]
            for x in watch:
                at = Lx.recsz * (x - 1) + Lx.off
                t += [shm.get(x, 0), struct.unpack("<i", bytes(d.get(k, init[k]) for k in range(at, at + 4)))[0]]
        return " ".join(str(x) for x in t)

    def big_expected(init, Lx, ops):
        w = World(init, Lx)
        out = []
        for op in ops:
            e = w.step(op)
            u = op[1]
            out.append("%s -> %s; shared memory %s, Money field of the record %s" % (
                describe(op, Lx), "unspecified" if e is None else "an error" if e[0] == 3 else "returns %s" % (e[1] if e[1] is not None else "-"),
                w.bal[u] if w.valid(u) else "-", w.field(w.cur, u) if w.valid(u) else "-"))
        return out

    def run_big(exe, cfg, Lx, big, label, build):
        """big: [(nrec, load, plants, ops)]"""
        pairs = [big_lines(cfg, Lx, *b) for b in big]
        bo = vf.run_impl(exe, "C20", [a for a, _ in pairs], deadline_ms=900000)
        inits = [big_init(Lx, b[0], b[2]) for b in big]
        if model:
            proj = [big_project(l, Lx, ini, big_watch(Lx, b[2], b[3]), len(b[3])) for l, ini, b in zip(bo, inits, big)]
            vf.correspond(c, "%s: histories on the table of MAX_USERS = %d slots against the size-generic model (returns, segment balance and Money field of every addressed slot)" % (label, Lx.maxu),
                          ["%s|plants %s|%s" % (a.split("|")[1], b[2], " | ".join(str(short(o)) for o in b[3])) for (a, _), b in zip(pairs, big)], proj, vf.run_model(model, [m_ for _, m_ in pairs]))
        for (nrec, load, plants, ops), ini, line, (iline, _) in zip(big, inits, bo, pairs):
            w = World(ini, Lx)
            for op in ops:
                c.nontrivial((build, op, w.bal.get(op[1])))
                w.step(op)
            c.count(len(ops), "steps on the %s build's table (%d slots)" % (build, Lx.maxu))
            bad = judge(ini, Lx, ops, line)
            if bad is None:
                continue
            step, key, text, exp, got = bad
            key = key if build == "default" else "docker-" + key
            if key in seen_keys:
                continue
            seen_keys.add(key)
            cur = ops[:step + 1]

            def still_fails(tr, ld):
                try:
                    b2 = judge(ini, Lx, tr, vf.run_impl(exe, "C20", [big_lines(cfg, Lx, nrec, ld, plants, tr)[0]], deadline_ms=900000)[0]) if ends_ok(tr) else None
                except AssertionError:      # a shortened history whose sums leave int32 is not a history of the property
                    b2 = None
                return b2 if b2 is not None and (b2[1] if build == "default" else "docker-" + b2[1]) == key and b2[0] == len(tr) - 1 else None
            # shrink: without the real cold load when the failure does not need it, then the failing slot's operations alone, then one by one
            if load == 1 and build == "docker":
                b2 = still_fails(cur, 0)
                if b2 is not None:
                    load, (step, _, text, exp, got) = 0, b2
            if load == 0 or build == "default":
                tr = [o for o in cur if o[1] == cur[-1][1]]
                b2 = still_fails(tr, load) if len(tr) < len(cur) else None
                if b2 is not None:
                    cur, (step, _, text, exp, got) = tr, b2
                j = 0
                while j < len(cur) - 1 and len(cur) > 1:
                    trial = cur[:j] + cur[j + 1:]
                    b2 = still_fails(trial, load)
                    if b2 is not None:
                        cur, (step, _, text, exp, got) = trial, b2
                    else:
                        j += 1
            c.violation(key, "[%s build, MAX_USERS = %d] %s  [.PASSWDS: %d zero records, balances planted %s, %s; history: %s]" % (
                build, Lx.maxu, text, nrec, plants, "real cold load (LoadUHash)" if load else "balances put into the segment as the cold load does", [describe(o, Lx) for o in cur]),
                {"cases": [big_lines(cfg, Lx, nrec, load, plants, cur)[0]], "driver": os.path.basename(exe) + " (go build -tags '%s')" % ("verif docker" if build == "docker" else "verif"),
                 "history": [short(o) for o in cur], "history_readable": [describe(o, Lx) for o in cur], "expected": big_expected(ini, Lx, cur),
                 "expected_observation": exp, "got_observation": got})

    def ends_ok(ops):
        open_ = set()
        for o in ops:
            if o[0] == START:
                open_.add(o[1])
            elif o[0] == END:
                if o[1] not in open_:
                    return False
                open_.discard(o[1])
        return True

    def slot_history(u, b0):
        """what the per-slot sweeps above do, on one slot of a big table (balance b0 planted)"""
        stale = L.with_money(zero_rec, 7)
        return [(GET, u, 0), (DE, u, 5), (DE, u, -30), (REWRITE, u, zero_rec), (GET, u, 0), (SET, u, 1000), (START, u), (DE, u, 500), (DE, u, -300), (END, u, 1),
                (REWRITE, u, stale), (DE, u, -5000), (DE, u, 640), (PASSWD, u, bytes([65 + u % 26] * L.pwlen)), (DE, u, 1), (INCPOST, u),
                (REFUSE, u, 1 + u % 2, (SET, u, 250)), (SET, u, 250), (REFUSE, u, 2 - u % 2, (DE, u, -1000)), (DE, u, -1), (DE, u, 12),
                (PLANTSHM, u, 9), (SET, u, 9), (PLANTFILE, u, 77), (DE, u, 0), (SET, u, I32MAX), (DE, u, -I32MAX), (DE, u, I32MIN + 1), (GET, u, 0)]

    seen_keys = set()
    edge_slots = [1, 2, 65535, 65536, 65537, 65538, 70000, 1000000, maxd - 1, maxd]
    big = []
    if same_layout:
        plants = [(u, 100 + 3 * k) for k, u in enumerate(edge_slots)]
        # one real cold load of the whole 1 GB file (about 15 s); every boundary slot runs the per-slot history, then the invalid slots
        ops = [o for u in edge_slots for o in slot_history(u, 0)]
        ops += [(k, u, 7) for u in (0, -1, maxd + 1, I32MAX, I32MIN) for k in (SET, DE)] + [(REWRITE, maxd + 1, zero_rec), (REFUSE, maxd + 1, 1, (SET, maxd + 1, 3)), (GET, maxd, 0), (GET, 65537, 0)]
        big.append((maxd, 1, plants, ops))
        for u in [65536, 65537, maxd] + ([rng.randrange(65538, maxd) for _ in range(3)]):
            for b0 in (100, 0, I32MAX):
                big.append((maxd, 0, [(u, b0), (1, 5)], [(DE, u, 5 if b0 < I32MAX else -5), (GET, u, 0), (DE, u, -30), (REWRITE, u, zero_rec), (SET, u, 7), (SET, 1, 6), (GET, u, 0)]))
        pool = [65536, 65537, maxd, 1]
        for i in range(400 if thorough else 14):
            pl = [(u, rng.choice([0, 5, 100, I32MAX, -7, rng.randrange(0, 10**6)])) for u in pool + [rng.randrange(65538, maxd)]]
            ini = big_init(Ld, maxd, pl)
            big.append((maxd, 1 if thorough and i % 80 == 0 else 0, pl, gen_disagree_history(None, rng.randrange(4, 30), [u for u, _ in pl], init=ini, Lx=Ld)))
        run_big(impl_docker, 1, Ld, big, "docker build", "docker")
    # the same case form on the default build's table (the size-generic model at N = 50)
    small = []
    for i in range(100 if thorough else 10):
        pl = [(u, rng.choice([0, 5, 100, I32MAX, -7])) for u in (1, 2, maxu - 1, maxu)]
        ini = big_init(L, maxu, pl)
        small.append((maxu, i % 2, pl, gen_disagree_history(None, rng.randrange(4, 30), [u for u, _ in pl], init=ini, Lx=L)))
    run_big(impl, 0, L, small, "default build", "default")

    def first_failure(fname, ops, head="1"):
        # an END needs its START: a trial history that lost it is not a history
        open_ = set()
        for o in ops:
            if o[0] == START:
                open_.add(o[1])
            elif o[0] == END:
                if o[1] not in open_:
                    return None
                open_.discard(o[1])
        try:
            return judge(files[fname], L, ops, vf.run_impl(impl, "C20", [case_line(ftoks[fname], ops, head)])[0])
        except AssertionError:      # a shortened history whose sums leave int32 is not a history of the property
            return None

    everything = [(f, ops, line, "1", "") for (f, ops), line in zip(cases, io)] + [(f, ops, line, "5 %d" % lay, "symlinked-passwds-") for (f, ops, lay), line in zip(lcases, lio)]
    for ci_, (fname, ops, line, head, kp) in enumerate(everything):
        w = World(files[fname], L)
        nwriters = 0
        for op in ops:
            c.nontrivial((head, op, w.bal.get(op[1])) if kp else (op, w.bal.get(op[1])))
            nwriters += op[0] not in MONEY_OPS
            w.step(op)
        c.count(len(ops) - nwriters, "steps with .PASSWDS a symbolic link" if kp else "sweep steps" if ci_ < n_sweep else "generated-history steps")
        c.count(nwriters, "record-writer steps between money operations")
        bad = judge(files[fname], L, ops, line)
        if bad is None:
            continue
        step, key, text, exp, got = bad
        if kp + key in seen_keys:
            continue
        seen_keys.add(kp + key)
        # shrink: the prefix up to the failing step, then drop earlier operations while the same class still fails
        cur = ops[:step + 1]
        j = 0
        while j < len(cur) - 1 and len(cur) > 1:
            trial = cur[:j] + cur[j + 1:]
            b2 = first_failure(fname, trial, head)
            if b2 is not None and b2[1] == key and b2[0] == len(trial) - 1:
                cur, (step, key, text, exp, got) = trial, b2
            else:
                j += 1
        where = "" if not kp else "[BBSHOME/.PASSWDS is %s] " % LAYOUTS[int(head.split()[1])]
        c.violation(kp + key, "%s%s  [initial .PASSWDS: %s; history: %s]" % (where, text, fname, [describe(o, L) for o in cur]),
                    {"cases": [case_line(ftoks[fname], cur, head)], "history": [short(o) for o in cur], "history_readable": [describe(o, L) for o in cur], "initial_file": fname,
                     "layout": where.strip(), "expected": expected_line(files[fname], L, cur), "expected_observation": exp, "got_observation": got})

    for (fname, pops, mode), line in zip(pcases, pio):
        for g, k, u, m in pops:
            c.nontrivial(("par", mode, g, k, u, m))
        c.count(len(pops), "operations issued by concurrent goroutines of one process")
        bad = judge_par(files[fname], L, pops, mode, line)
        if bad is None:
            continue
        ri, key, text, exp, got = bad
        if key in seen_keys:
            continue
        seen_keys.add(key)
        cur = pops

        def par_fails(tr):
            try:
                b2 = judge_par(files[fname], L, tr, mode, vf.run_impl(impl, "C20", [par_line(ftoks[fname], tr, mode)], deadline_ms=300000)[0])
            except AssertionError:
                return None
            return b2 if b2 is not None and b2[1] == key else None
        if mode == 1:
            # the failing round alone, then one goroutine less at a time (the held schedule is deterministic)
            tr = [pops[i] for i in par_rounds(pops, mode)[ri]]
            b2 = par_fails(tr) if len(tr) < len(cur) else None
            if b2 is not None:
                cur, (ri, _, text, exp, got) = tr, b2
            for g in sorted({o[0] for o in cur}):
                tr = [o for o in cur if o[0] != g]
                b2 = par_fails(tr) if len({o[0] for o in tr}) >= 2 else None
                if b2 is not None:
                    cur, (ri, _, text, exp, got) = tr, b2
        c.violation(key, "%s  [initial .PASSWDS: %s; case: %s]" % (text, fname, par_describe(cur, range(len(cur)), L)[:12]),
                    {"cases": [par_line(ftoks[fname], cur, mode)], "mode": "lock step, every round held inside open(2) by a read lease" if mode == 1 else "free running", "operations (goroutine, kind, slot, amount)": [list(o) for o in cur[:64]],
                     "expected_observation": exp, "got_observation": got})
    c.sample({"initial_file": cases[n_sweep][0], "history (kind 1 set, 2 credit/debit, 3 MoneyOf, 4 ptt.GetUser; slot; amount)": [short(o) for o in cases[n_sweep][1][:12]],
              "result_prefix": " ".join(io[n_sweep].split()[:70])})
    c.sample({"initial_file": "fixture", "history": [short(o) for o in cases[maxu - 1][1]], "note": "one of the per-slot sweeps (last slot)"})
    c.sample({"initial_file": cases[n_sweep + n_hist][0], "history": [describe(o, L) for o in cases[n_sweep + n_hist][1][:16]], "note": "a generated history with record writers between the money operations"})
    c.cov["exhaustive_parts"] = ["all %d valid slots x 2 initial files x one fixed 20-operation history that puts a money operation between pwcuStart and pwcuEnd and writes back records "
                                 "whose Money is stale / zero through passwdSyncUpdate, SetUserPerm, pwcuIncNumPost, PasswdUpdatePasswd, PasswdUpdateEmail" % maxu,
                                 "killUser after a credit on every fixture slot with a unique id", "all %d valid slots x one fixed 8-operation history" % maxu, "every slot in -2..2 and MAX_USERS-2..MAX_USERS+2 plus int32 extremes x {set, credit}",
                                 "6 boundary amounts x 4 balances on the first and the last slot",
                                 "all %d valid slots x {file away, path to /dev/full}: set refused then repeated with the same value, credit refused then credit 0, clamping debit refused then "
                                 "repeated, set 0 refused then repeated, write-back refused; all %d valid slots x planted segment / planted file balance followed by set-to-the-same-value, credit 0, "
                                 "clamping debit, passwdSyncUpdate, pwcuIncNumPost, pwcuStart..pwcuEnd" % (maxu, maxu),
                                 "docker build (MAX_USERS = %d, real cold load of the 1 GB sparse .PASSWDS): slots %s x one fixed 29-operation history (money operations, write-backs, "
                                 "pwcuStart..pwcuEnd, refused writes, planted disagreement), invalid slots 0, -1, MAX_USERS+1, int32 extremes" % (maxd, edge_slots)]
    c.cov["builds"] = {"default": {"MAX_USERS": maxu}, "docker": {"MAX_USERS": maxd, "USEREC_RAW_SZ": Ld.recsz, "Offsetof(Money)": Ld.off, "histories": len(big)}}
    c.cov["histories"] = len(cases)
    c.cov["constants_compiled"] = {"MAX_USERS": maxu, "USEREC_RAW_SZ": recsz, "Offsetof(Money)": off}
    vf.ipc_cleanup()
    c.finish(rule="one case = a cold load of a %d-byte .PASSWDS (fixture, zero, 0xff, random bytes, fixture with boundary balances) followed by up to 60 operations over slots "
                  "{1,2,MAX-1,MAX,0,-1,MAX+1} (+ random and extreme slots) and amounts {0,+-1,+-balance,+-(balance+1),2^31-1,-2^31+1,-2^31,random} filtered so that no sum leaves int32; after every "
                  "step all balances of the segment and every changed byte of the file are compared with the extracted model and with plain arithmetic computed by the check; a step is non-trivial/"
                  "distinct by (operation, slot, amount or record, balance before). Writer histories interleave the money operations with every other writer of the same user's record "
                  "(ptt.passwdSyncUpdate with a caller record whose Money is stale / zero / arbitrary, ptt.SetUserPerm, pwcuStart .. money operations .. pwcuEnd, pwcuIncNumPost, killUser, "
                  "cmbbs.PasswdUpdatePasswd / PasswdUpdateEmail; valid and invalid slots) and the same three-way agreement plus 'bytes outside the operation's footprint are unchanged' is "
                  "decided after every step. Disagreement histories: any of these operations may run while .PASSWDS refuses the write (renamed away for the call: the open fails; the path "
                  "leads to /dev/full for the call: the write fails), and the segment's balance or the record's Money field may be changed alone (a process that died between SetUMoney's two "
                  "stores, a restored file); a refused call must report an error (or, if it reports success, everything it would have written must already be there), never touches the file, and "
                  "EVERY later successful set / credit / debit / write-back on the slot must leave segment = Money field = arithmetic computed from the segment's balance = value returned. "
                  "Production build: a second driver built with -tags 'verif docker' (MAX_USERS = 2 000 000) runs the same kinds of histories on a sparse 1 GB .PASSWDS (one real LoadUHash cold "
                  "load per quick run, the other cases put the planted balances into the segment directly) over slots {1, 2, 65535, 65536, 65537, 65538, 70000, 1000000, MAX-1, MAX} and random "
                  "slots above 65 536; after every step EVERY non-zero balance of the 2 000 000-entry segment and EVERY non-zero byte of the file (data extents) are compared with arithmetic, and the "
                  "returns / balances / Money fields with the size-generic model. Symbolic link: the same kinds of histories (every slot x a 16-operation history with a refused write, a write-back, a planted "
                  "file balance; generated money / writer / disagreement histories) run with BBSHOME/.PASSWDS being an absolute link into another directory, a relative link, or a chain of two links; observed "
                  "through the name, judged by the same predicate, compared with the model's run of the same history; the name must still be the link afterwards. Several goroutines of one process (kind 6): "
                  "each goroutine works on slots of its own; lock-step cases (every adjacent pair of slots and (MAX_USERS, 1) x set / credit / debit / clamping debit; generated cases with 2..16 goroutines, an "
                  "invalid slot among them) hold every round still inside open(2) with a read lease (fcntl F_SETLEASE) on .PASSWDS until every goroutine of the round is blocked in openat or has returned, then "
                  "let all go; free-running cases (4-8 goroutines x 50 rounds; more in the thorough tier) add the unheld interleavings; after every round returns, every balance of the segment and every changed "
                  "byte of the file are compared with per-slot arithmetic (operations on different slots commute: C20_interleaving_independent), and returns + final state with the model's run of the operations as one history" % (maxu * recsz),
             assumptions=["two concurrent updates of the SAME balance are outside the property; concurrent operations on DIFFERENT users inside one process are exercised (kind 6), not proved: the theorems treat an operation "
                          "as a whole (any interleaving of whole operations is a history; C20_interleaved_whole_operations), that the Go code shares no state between two calls of one process is VALIDATION - "
                          "deterministically at the schedule point 'every goroutine has done what precedes its open of .PASSWDS, none has written' (held by a kernel read lease; needs a file system with leases "
                          "and /proc/self/task/*/syscall - evidence coverage 'parallel' says in how many cases every round was held), and by free-running rounds at whatever interleavings the machine produces; other schedule points "
                          "inside an operation (between seek and write, inside logrus) are reached only by the free-running rounds; several goroutines are not run on the docker build or through the record writers",
                          "how the name .PASSWDS resolves (symbolic links, absolute / relative / chained) is kernel behaviour: the theorems speak about the bytes behind the name, the link layouts are validation (default build only)", ".PASSWDS exists with MAX_USERS records (short files are exercised for the correspondence only)",
                          "a refused write is produced by renaming .PASSWDS away or by pointing its path to /dev/full for the duration of one call; a failure in the middle of the 4-byte write (torn write) is not produced",
                          "docker build: records of the sparse .PASSWDS other than the planted ones are zero (free slots, balance 0); LoadUHash skips the Money of free slots beyond the first 1000 free ones, "
                          "so a FREE slot with a left-over balance far into the file starts in disagreement after a cold load - that start state is represented by the planted-file-balance operation, not by a real load",
                          "os.File Seek/Write and encoding/binary little-endian int32 are re-specified in the model (write_at, enc32) and exercised byte-exactly, not verified"])


if __name__ == "__main__":
    main()
