#!/usr/bin/env python3
"""C20 — balance in shared memory and .PASSWDS: proofs in coq/Props/C20.v; histories of SetUMoney / DeUMoney /
MoneyOf on a real segment and a real .PASSWDS; model correspondence and direct predicates against plain arithmetic."""
import os, struct, sys
sys.path.insert(0, os.path.join(os.path.dirname(os.path.abspath(__file__)), "..", "lib"))
import vf

I32MAX, I32MIN = 2**31 - 1, -2**31
SET, DE, GET, QUERY = 1, 2, 3, 4


class World:
    """Plain-arithmetic reference: slot -> balance, and the bytes .PASSWDS must have."""

    def __init__(self, init, maxu, recsz, off):
        self.init, self.maxu, self.recsz, self.off = init, maxu, recsz, off
        self.bal = {u: self.field(init, u) for u in range(1, maxu + 1)}

    def pos(self, u):
        return self.recsz * (u - 1) + self.off

    def field(self, data, u):
        b = data[self.pos(u):self.pos(u) + 4]
        return struct.unpack("<i", b + b"\0" * (4 - len(b)))[0]

    def valid(self, u):
        return 1 <= u <= self.maxu

    def step(self, kind, u, m):
        """expected (status, value, code); None where the property text does not fix the outcome"""
        if kind in (GET, QUERY):
            return (0, self.bal[u], 0) if self.valid(u) else None
        if not self.valid(u):
            return (3, None, None)                       # must fail, with an error, writing nothing
        if kind == SET:
            self.bal[u] = m
        elif m < 0 and self.bal[u] < -m:
            self.bal[u] = 0                              # a debit larger than the balance leaves 0
        else:
            self.bal[u] = self.bal[u] + m
            assert I32MIN <= self.bal[u] <= I32MAX
        return (0, self.bal[u], 0)

    def expected_diffs(self):
        d = {}
        for u in range(1, self.maxu + 1):
            want = struct.pack("<i", self.bal[u])
            for k in range(4):
                if self.init[self.pos(u) + k] != want[k]:
                    d[self.pos(u) + k] = want[k]
        return d


def expected_line(init, consts, ops):
    """The whole result line plain arithmetic prescribes (an invalid slot: error -1/ErrInvalidUID for set/credit/debit; MoneyOf has no error channel and panics)."""
    maxu, recsz, off = consts
    w = World(init, maxu, recsz, off)

    def obs():
        d = w.expected_diffs()
        return [w.bal[u] for u in range(1, maxu + 1)] + [len(init), len(d)] + [x for k in sorted(d) for x in (k, d[k])]
    t = [0] + obs()
    for (k, u, m) in ops:
        e = w.step(k, u, m)
        t += ([1, 0, 0] if e is None else [3, -1, 1] if e[0] == 3 else list(e)) + [w.bal[u] if w.valid(u) else 0] + obs()
    return " ".join(str(x) for x in t)


def parse_result(line, maxu, nsteps):
    """-> (status, [ (out3|None, field|None, shm list, flen, {off: byte}) ] ) with the initial observation first"""
    t = [int(x) for x in line.split()]
    if t[0] != 0:
        return t[0], []
    i, obs = 1, []
    for s in range(nsteps + 1):
        out3 = fld = None
        if s > 0:
            out3, fld = tuple(t[i:i + 3]), t[i + 3]
            i += 4
        shm = t[i:i + maxu]; i += maxu
        flen, n = t[i], t[i + 1]; i += 2
        d = {t[i + 2 * k]: t[i + 2 * k + 1] for k in range(n)}; i += 2 * n
        obs.append((out3, fld, shm, flen, d))
    assert i == len(t), (i, len(t))
    return 0, obs


def case_line(ftoks, ops):
    return "1|" + ftoks + "".join("|%d %d %d" % o if o[0] in (SET, DE) else "|%d %d" % o[:2] for o in ops)


def judge(init, consts, ops, line):
    """First step at which the implementation's own outputs contradict the property. -> None | (step index, key, text, expected, got)"""
    maxu, recsz, off = consts
    w = World(init, maxu, recsz, off)
    st, obs = parse_result(line, maxu, len(ops))
    if st != 0:
        return (0, "driver", "case status %d" % st, "0", str(st))
    o0 = obs[0]
    if o0[2] != [w.bal[u] for u in range(1, maxu + 1)] or o0[3] != len(init) or o0[4]:
        return (0, "load", "after a cold load the segment's balances differ from the Money fields of .PASSWDS", str([w.bal[u] for u in range(1, maxu + 1)]), str(o0[2]))
    for i, (kind, u, m) in enumerate(ops):
        before = dict(w.bal)
        exp = w.step(kind, u, m)
        out3, fld, shm, flen, d = obs[i + 1]
        what = {SET: "SetUMoney(%d, %d)" % (u, m), DE: "DeUMoney(%d, %d)" % (u, m), GET: "MoneyOf(%d)" % u, QUERY: "ptt.GetUser(id of slot %d).Money" % u}[kind]
        if not w.valid(u):
            cls = {SET: "set-invalid-slot", DE: "de-invalid-slot"}.get(kind, "get-invalid-slot")
        elif kind == DE and m == I32MIN:
            cls = "debit-min-int32"
        elif u == maxu:
            cls = "last-slot"
        else:
            cls = "agree"
        prob = None
        if exp is not None:
            if exp[0] == 3:
                if out3[0] != 3:
                    prob = ("%s on an invalid slot must return an error; status %d (1 = panic, 0 = accepted)" % (what, out3[0]), "status 3", "status %d" % out3[0])
            elif out3[0] != 0:
                prob = ("%s on a valid slot (balance %d) fails: status %d code %d; shared memory now holds %d, the Money field of the record %d" % (
                    what, before.get(u, 0), out3[0], out3[2], shm[u - 1], fld), "0 %d" % exp[1], "%d %d %d" % out3)
            elif out3[1] != exp[1]:
                prob = ("%s with balance %d returns %d, arithmetic says %d" % (what, before.get(u, 0), out3[1], exp[1]), str(exp[1]), str(out3[1]))
        want_shm = [w.bal[x] for x in range(1, maxu + 1)]
        want_d = w.expected_diffs()
        if prob is None and shm != want_shm:
            bad = [x + 1 for x in range(maxu) if shm[x] != want_shm[x]]
            prob = ("after %s (balance before: %d) shared memory holds %s for slot(s) %s, arithmetic says %s" % (
                what, before.get(u, 0), [shm[x - 1] for x in bad][:4], bad[:4], [want_shm[x - 1] for x in bad][:4]), str(want_shm), str(shm))
        if prob is None and (d != want_d or flen != len(init)):
            offs = sorted(set(d.items()) ^ set(want_d.items()))
            slots = sorted({o // recsz + 1 for o, _ in offs})
            infield = all(off <= o % recsz < off + 4 for o, _ in offs)
            if flen != len(init) or not infield or any(s != u for s in slots):
                cls2 = "frame"
            else:
                cls2 = cls
            got_field = w.field(bytes(d.get(k, init[k]) if d.get(k, init[k]) >= 0 else 0 for k in range(w.pos(slots[0]), w.pos(slots[0]) + 4)), 1) if infield and slots else None
            prob = ("after %s .PASSWDS differs from what arithmetic says at byte offsets %s (record(s) %s%s): shared memory %s, file field %s" % (
                what, [o for o, _ in offs][:8], slots[:4], "" if infield else ", outside the Money field", shm[u - 1] if w.valid(u) else "-", got_field), str(sorted(want_d.items())), str(sorted(d.items())))
            cls = cls2
        if prob is None and w.valid(u) and fld != w.bal[u]:
            prob = ("after %s PasswdQuery(%d).Money = %d, arithmetic says %d" % (what, u, fld, w.bal[u]), str(w.bal[u]), str(fld))
        if prob is not None:
            return (i, cls, prob[0], prob[1], prob[2])
    return None


def main():
    c = vf.Check("C20")
    rng = c.rng
    thorough = c.tier == "thorough"
    c.prove()
    model_ok = c.model_ok()
    impl = vf.build_impl()
    model = vf.build_model("C20") if model_ok else None
    vf.ipc_cleanup()

    # constants: source (gosync -> model) against the compiled program
    ci = vf.run_impl(impl, "C20", ["2"])[0].split()
    consts = tuple(int(x) for x in ci[1:4])
    maxu, recsz, off = consts
    if model:
        cm = vf.run_model(model, ["2"])
        vf.correspond(c, "constants MAX_USERS / USEREC_RAW_SZ / Offsetof(Money)", ["2"], [" ".join(ci)], cm)
    c.count(1, "constants")

    # ---------------------------------------------------------------- initial files
    fixture = open(os.path.join(vf.REPO, "ptt", "testcase", ".PASSWDS1"), "rb").read()
    if len(fixture) != maxu * recsz:
        fixture = (fixture + b"\0" * (maxu * recsz))[:maxu * recsz]

    def with_money(data, f):
        b = bytearray(data)
        for u in range(1, maxu + 1):
            b[recsz * (u - 1) + off:recsz * (u - 1) + off + 4] = struct.pack("<i", f(u))
        return bytes(b)

    edge = [0, 1, -1, I32MAX, I32MIN, I32MIN + 1, I32MAX - 1, 255, 256, 65536, -65536, 16777216]
    files = {
        "fixture": fixture,
        "zero": b"\0" * (maxu * recsz),
        "random": bytes(rng.randrange(256) for _ in range(maxu * recsz)),
        "fixture+edge-balances": with_money(fixture, lambda u: edge[(u * 7) % len(edge)]),
        "ff": b"\xff" * (maxu * recsz),
    }
    ftoks = {k: " ".join(str(b) for b in v) for k, v in files.items()}
    slots_pool = [1, 2, maxu - 1, maxu, 0, -1, maxu + 1]
    # slots of the fixture whose id is non-empty and unique (ptt.GetUser can be asked for them)
    ids = {}
    for u in range(1, maxu + 1):
        uid_bytes = fixture[recsz * (u - 1) + 4:recsz * (u - 1) + 17].split(b"\0")[0].upper()
        ids.setdefault(uid_bytes, []).append(u)
    queryable = sorted(us[0] for k, us in ids.items() if k and len(us) == 1)

    def gen_history(fname, n, pool):
        w = World(files[fname], maxu, recsz, off)
        ops = []
        for _ in range(n):
            r = rng.random()
            u = rng.choice(pool) if r < 0.9 else (rng.randrange(1, maxu + 1) if r < 0.97 else rng.choice([I32MAX, I32MIN, maxu + 2, -2, 2 * maxu]))
            k = rng.choice([SET, DE, DE, DE, GET])
            if k == GET and fname.startswith("fixture") and u in queryable and rng.random() < 0.5:
                k = QUERY
            bal = w.bal.get(u, rng.choice([0, 5, -5]))
            cand = [0, 1, -1, bal, -bal, bal + 1, -(bal + 1), bal - 1, I32MAX, I32MIN + 1, I32MIN, I32MAX - bal, rng.randrange(I32MIN, I32MAX + 1), rng.randrange(-1000, 1000)]
            cand = [m for m in cand if I32MIN <= m <= I32MAX]
            if k == DE:     # no step may overflow: either the debit saturates or the sum stays inside int32
                cand = [m for m in cand if (m < 0 and bal < -m) or I32MIN <= bal + m <= I32MAX]
            m = rng.choice(cand)
            if k == SET and rng.random() < 0.7:
                m = abs(m) if m != I32MIN else I32MAX          # mostly non-negative set amounts (C20_nonneg's premise)
            w.step(k, u, m)
            ops.append((k, u, m))
        return ops

    cases = []     # (file name, ops)
    # complete sweeps: every slot, the same five operations; every slot around both ends; every amount class on the last slot
    for u in range(1, maxu + 1):
        cases.append(("fixture", [(SET, u, 5 + u), (DE, u, -3), (DE, u, -(u + 9)), (DE, u, 7), (GET, u, 0), (SET, u, I32MAX), (DE, u, -I32MAX), (DE, u, I32MIN + 1)]))
    for u in list(range(-2, 3)) + list(range(maxu - 2, maxu + 3)) + [I32MAX, I32MIN, 65536 + 1, -maxu]:
        for k in (SET, DE):
            cases.append(("fixture+edge-balances", [(k, u, 7), (GET, min(max(u, 1), maxu), 0)]))
        cases.append(("random", [(GET, u, 0)]))
    for m in [I32MIN, I32MIN + 1, -1, 0, 1, I32MAX]:
        for b0 in [0, 1, 5, I32MAX]:
            cases.append(("zero", [(SET, maxu, b0), (DE, maxu, m if (m < 0 and b0 < -m) or b0 + m <= I32MAX else -m), (SET, 1, b0), (DE, 1, m if (m < 0 and b0 < -m) or b0 + m <= I32MAX else -m)]))
    n_sweep = len(cases)
    n_hist = 2500 if thorough else 110
    names = sorted(files)
    for i in range(n_hist):
        fname = names[i % len(names)]
        cases.append((fname, gen_history(fname, rng.randrange(1, 61), slots_pool if i % 4 else list(range(1, maxu + 1)) + [0, maxu + 1])))

    lines = [case_line(ftoks[f], ops) for f, ops in cases]
    io = vf.run_impl(impl, "C20", lines, deadline_ms=60000)
    if model:
        mo = vf.run_model(model, lines)
        vf.correspond(c, "histories of SetUMoney/DeUMoney/MoneyOf (returns, every balance of the segment, every changed byte of .PASSWDS)",
                      ["1|<%s>|%s" % (f, " | ".join(map(str, ops))) for f, ops in cases], io, mo)

    # incomplete .PASSWDS (fewer records than MAX_USERS): outside the property's premise, model and code must still agree
    short = [("fixture", 10 * recsz, [(SET, 3, 9), (SET, 20, 4), (DE, 20, -1), (SET, maxu - 1, 1)]), ("random", recsz * 7 + 100, [(SET, 8, 77), (DE, 8, -80), (GET, 30, 0)])]
    sl = [case_line(" ".join(str(b) for b in files[f][:n]), ops) for f, n, ops in short]
    so = vf.run_impl(impl, "C20", sl)
    if model:
        vf.correspond(c, "short .PASSWDS", ["1|<%s[:%d]>|%s" % s for s in short], so, vf.run_model(model, sl))
    c.count(sum(len(s[2]) for s in short), "steps on an incomplete file (correspondence only)")

    def first_failure(fname, ops):
        return judge(files[fname], consts, ops, vf.run_impl(impl, "C20", [case_line(ftoks[fname], ops)])[0])

    seen_keys = set()
    for ci_, ((fname, ops), line) in enumerate(zip(cases, io)):
        w = World(files[fname], maxu, recsz, off)
        for (k, u, m) in ops:
            c.nontrivial((k, u, m, w.bal.get(u)))
            w.step(k, u, m)
        c.count(len(ops), "sweep steps" if ci_ < n_sweep else "generated-history steps")
        bad = judge(files[fname], consts, ops, line)
        if bad is None:
            continue
        step, key, text, exp, got = bad
        if key in seen_keys:
            continue
        seen_keys.add(key)
        # shrink: the prefix up to the failing step, then drop earlier operations while the same class still fails
        cur = ops[:step + 1]
        j = 0
        while j < len(cur) - 1 and len(cur) > 1:
            trial = cur[:j] + cur[j + 1:]
            b2 = first_failure(fname, trial)
            if b2 is not None and b2[1] == key and b2[0] == len(trial) - 1:
                cur, (step, key, text, exp, got) = trial, b2
            else:
                j += 1
        c.violation(key, "%s  [initial .PASSWDS: %s; history: %s]" % (text, fname, cur),
                    {"cases": [case_line(ftoks[fname], cur)], "history": [list(o) for o in cur], "initial_file": fname, "expected": expected_line(files[fname], consts, cur), "expected_observation": exp, "got_observation": got})
    c.sample({"initial_file": cases[n_sweep][0], "history (kind 1 set, 2 credit/debit, 3 MoneyOf, 4 ptt.GetUser; slot; amount)": [list(o) for o in cases[n_sweep][1][:12]],
              "result_prefix": " ".join(io[n_sweep].split()[:70])})
    c.sample({"initial_file": "fixture", "history": [list(o) for o in cases[maxu - 1][1]], "note": "one of the per-slot sweeps (last slot)"})
    c.cov["exhaustive_parts"] = ["all %d valid slots x one fixed 8-operation history" % maxu, "every slot in -2..2 and MAX_USERS-2..MAX_USERS+2 plus int32 extremes x {set, credit}",
                                 "6 boundary amounts x 4 balances on the first and the last slot"]
    c.cov["histories"] = len(cases)
    c.cov["constants_compiled"] = {"MAX_USERS": maxu, "USEREC_RAW_SZ": recsz, "Offsetof(Money)": off}
    vf.ipc_cleanup()
    c.finish(rule="one case = a cold load of a %d-byte .PASSWDS (fixture, zero, 0xff, random bytes, fixture with boundary balances) followed by up to 60 operations over slots "
                  "{1,2,MAX-1,MAX,0,-1,MAX+1} (+ random and extreme slots) and amounts {0,+-1,+-balance,+-(balance+1),2^31-1,-2^31+1,-2^31,random} filtered so that no sum leaves int32; after every "
                  "step all balances of the segment and every changed byte of the file are compared with the extracted model and with plain arithmetic computed by the check; a step is non-trivial/"
                  "distinct by (operation, slot, amount, balance before)" % (maxu * recsz),
             assumptions=["one process at a time updates a balance (concurrent updates are outside the property)", ".PASSWDS exists with MAX_USERS records (short files are exercised for the correspondence only)",
                          "os.File Seek/Write and encoding/binary little-endian int32 are re-specified in the model (write_at, enc32) and exercised byte-exactly, not verified"])


if __name__ == "__main__":
    main()
