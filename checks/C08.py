#!/usr/bin/env python3
"""C08 — write authorisation: proofs in coq/Props/C08.v; a decision table over user bits, board attributes /
level / limits, ban state, cool-down state and article ownership is materialised in a scratch BBS environment
and pushed through ptt.NewPost / Recommend / EditPost / CrossPost / CheckPostPerm2 / CheckPostRestriction;
accept/refuse and the before/after snapshots must equal the extracted model and satisfy the rule set."""
import os, sys
from concurrent.futures import ThreadPoolExecutor
sys.path.insert(0, os.path.join(os.path.dirname(os.path.abspath(__file__)), "..", "lib"))
sys.path.insert(0, os.path.dirname(os.path.abspath(__file__)))
import vf
import C07 as R                                         # the read rule's reference (spec_may_read)

P = dict(BASIC=0o1, CHAT=0o2, PAGE=0o4, POST=0o10, LOGINOK=0o20, BM=0o2000, SYSOP=0o40000, VIOLATELAW=0o400000, ANGEL=0o1000000,
         POLICE=0o20000000000, POLICE_MAN=0o2000000000)
B = dict(HIDE=0x10, POSTMASK=0x20, VOTEBOARD=0x200, NORECOMMEND=0x1000, RESTRICTEDPOST=0x40000, GUESTPOST=0x80000, COOLDOWN=0x100000,
         OVER18=0x01000000)
OPS = {1: "NewPost", 2: "Recommend", 3: "EditPost", 4: "CrossPost"}

# one row = a dict of concrete plantings; BASE passes every rule
BASE = dict(ulevel=P["BASIC"] | P["CHAT"] | P["PAGE"] | P["POST"] | P["LOGINOK"], o18=1, logindays=1000, badpost=0, regbefore=1,
            inbm=0, fr=0, ban=0, cd_rel=-600, pt=0, bsel=0, battr=0, blevel=0, limlogins=0, limbad=0, nuser=0, exists=1, owner=1)
# single deviations from any row: (name, function)
DEV = [
    ("sysop", lambda r: r.update(ulevel=r["ulevel"] | P["SYSOP"])),
    ("no-basic", lambda r: r.update(ulevel=r["ulevel"] & ~P["BASIC"])),
    ("no-post", lambda r: r.update(ulevel=r["ulevel"] & ~P["POST"])),
    ("no-loginok", lambda r: r.update(ulevel=r["ulevel"] & ~P["LOGINOK"])),
    ("violatelaw", lambda r: r.update(ulevel=r["ulevel"] | P["VIOLATELAW"])),
    ("angel", lambda r: r.update(ulevel=r["ulevel"] | P["ANGEL"])),
    ("inbm", lambda r: r.update(inbm=1)),
    ("friend", lambda r: r.update(fr=1)),
    ("banned", lambda r: r.update(ban=1)),
    ("ban-expired", lambda r: r.update(ban=2)),
    ("readonly-board", lambda r: r.update(bsel=1)),
    ("default-board", lambda r: r.update(bsel=2)),
    ("guestpost", lambda r: r.update(battr=r["battr"] | B["GUESTPOST"])),
    ("hidden", lambda r: r.update(battr=r["battr"] | B["HIDE"] | B["POSTMASK"])),
    ("hidden-nomask", lambda r: r.update(battr=r["battr"] | B["HIDE"])),
    ("restrictedpost", lambda r: r.update(battr=r["battr"] | B["RESTRICTEDPOST"])),
    ("voteboard", lambda r: r.update(battr=r["battr"] | B["VOTEBOARD"])),
    ("norecommend", lambda r: r.update(battr=r["battr"] | B["NORECOMMEND"])),
    ("over18-board-minor", lambda r: r.update(battr=r["battr"] | B["OVER18"], o18=0)),
    ("level-post", lambda r: r.update(blevel=r["blevel"] | P["POST"], battr=r["battr"] | B["POSTMASK"])),
    ("level-angel", lambda r: r.update(blevel=r["blevel"] | P["ANGEL"], battr=r["battr"] | B["POSTMASK"])),
    ("level-angel-read", lambda r: r.update(blevel=r["blevel"] | P["ANGEL"])),
    ("level-violatelaw", lambda r: r.update(blevel=r["blevel"] | P["VIOLATELAW"], battr=r["battr"] | B["POSTMASK"])),
    ("few-logins", lambda r: r.update(logindays=95, limlogins=10)),
    ("enough-logins", lambda r: r.update(logindays=100, limlogins=10)),
    ("badposts", lambda r: r.update(badpost=6, limbad=250)),
    ("badposts-ok", lambda r: r.update(badpost=5, limbad=250)),
    ("cd-active-idle", lambda r: r.update(cd_rel=600, pt=0)),
    ("cd-active-full", lambda r: r.update(cd_rel=600, pt=15)),
    ("cd-expired-full", lambda r: r.update(cd_rel=-600, pt=15)),
    ("cd-board", lambda r: r.update(cd_rel=600, battr=r["battr"] | B["COOLDOWN"])),
    ("cd-flood-5000", lambda r: r.update(cd_rel=600, pt=1, nuser=5000)),
    ("cd-flood-1500", lambda r: r.update(cd_rel=600, pt=3, nuser=1500)),
    ("cd-under-1500", lambda r: r.update(cd_rel=600, pt=2, nuser=1500)),
    ("cd-ten", lambda r: r.update(cd_rel=600, pt=10)),
    ("missing-article", lambda r: r.update(exists=0)),
    ("not-owner", lambda r: r.update(owner=0)),
    ("owner-reregistered", lambda r: r.update(regbefore=0)),
]


def line(op, r):
    return "%d|%d %d %d %d %d|%d %d %d %d %d|%d %d %d %d %d %d|%d %d" % (
        op, r["ulevel"], r["o18"], r["logindays"], r["badpost"], r["regbefore"], r["inbm"], r["fr"], r["ban"], r["cd_rel"], r["pt"],
        r["bsel"], r["battr"], r["blevel"], r["limlogins"], r["limbad"], r["nuser"], r["exists"], r["owner"])


def facts(r):
    """the facts of the property text, computed from the plantings independently of the Coq model"""
    ul, ba, bl = r["ulevel"], r["battr"], r["blevel"]
    f = {}
    row = dict(sysop=bool(ul & P["SYSOP"]), police=bool(ul & P["POLICE"]), policeman=bool(ul & P["POLICE_MAN"]), basic=bool(ul & P["BASIC"]),
               verified=bool(ul & P["LOGINOK"]), inbm=bool(r["inbm"]), friend=bool(r["fr"]), uover18=bool(r["o18"]), haslevel=bool(ul & bl),
               permboard=False, namedbm=False, hidden=bool(ba & B["HIDE"]), postmask=bool(ba & B["POSTMASK"]), bover18=bool(ba & B["OVER18"]),
               level0=bl == 0, levelbm=bool(bl & P["BM"]))
    f["readable"] = R.spec_may_read(row)
    f["sysop"] = row["sysop"]
    f["moderator"] = row["basic"] and row["verified"] and row["inbm"]
    f["verified"] = row["verified"]
    f["basic"] = row["basic"]
    f["readonly"] = r["bsel"] == 1
    extra = bl & ~P["POST"]
    if f["readonly"]:
        rules = False
    elif f["sysop"]:
        rules = True
    elif r["ban"] == 1:
        rules = False
    elif r["bsel"] == 2 or ba & B["GUESTPOST"]:
        rules = True
    elif not ul & P["POST"]:
        rules = False
    elif row["hidden"]:
        rules = True
    elif ba & B["RESTRICTEDPOST"] and not r["fr"]:
        rules = False
    elif ul & P["VIOLATELAW"]:
        rules = bool(bl & P["VIOLATELAW"])
    else:
        rules = extra == 0 or bool(ul & extra)
    f["posting_rules"] = rules
    over = r["logindays"] // 10 < r["limlogins"] or r["badpost"] > 255 - r["limbad"]
    f["limits_ok"] = f["sysop"] or f["moderator"] or not over
    pt, nu = r["pt"], r["nuser"]
    flood = (nu > 4000 and pt >= 1) or (nu > 2000 and pt >= 2) or (nu > 1000 and pt >= 3) or pt >= 10
    f["cooldown"] = r["cd_rel"] >= 0 and not f["sysop"] and (bool(ba & B["COOLDOWN"]) or pt == 15 or flood)
    f["may_write"] = f["readable"] and rules and f["limits_ok"] and f["verified"] and not f["cooldown"]
    f["owner"] = bool(r["owner"] and r["regbefore"])
    return f


def main():
    c = vf.Check("C08")
    rng = c.rng
    thorough = c.tier == "thorough"
    c.prove()
    model_ok = c.model_ok()
    impl = vf.build_impl()
    model = vf.build_model("C08") if model_ok else None
    vf.ipc_cleanup()

    def run_impl_par(lines, workers=12):
        n = max(500, (len(lines) + workers - 1) // workers)
        chunks = [lines[k:k + n] for k in range(0, len(lines), n)]
        with ThreadPoolExecutor(max_workers=workers) as ex:
            outs = list(ex.map(lambda ch: vf.run_impl(impl, "C08", ch, deadline_ms=20000), chunks))
        return [o for ch in outs for o in ch]

    # ---------------------------------------------------------------- the table
    rows, tags = [], []

    def add(r, tag):
        rows.append(r)
        tags.append(tag)

    add(dict(BASE), ("base",))
    for i, (n1, f1) in enumerate(DEV):                                  # every single and every pair of deviations
        r = dict(BASE); f1(r); add(r, (n1,))
        for (n2, f2) in DEV[i + 1:]:
            r = dict(BASE); f1(r); f2(r); add(r, (n1, n2))
    n_struct = len(rows)
    for _ in range(250000 if thorough else 25000):                        # random combinations, biased towards few deviations
        r = dict(BASE)
        k = rng.choice([3, 3, 4, 4, 5, 6, 8])
        names = []
        for (n, f) in rng.sample(DEV, k):
            f(r); names.append(n)
        add(r, tuple(sorted(names)))

    lines, meta = [], []
    for r, t in zip(rows, tags):
        for op in (1, 2, 3, 4, 5):
            lines.append(line(op, r)); meta.append((op, r, t))
    out = run_impl_par(lines)
    c.count(len(lines), "rows x (4 operations + rule pieces)")
    if model:
        mo = vf.run_model(model, lines)
        vf.correspond(c, "decision table x operations", lines, out, mo)
        # the Coq specification against the reference of this check
        l6 = [line(6, r) for r in rows]
        o6 = vf.run_model(model, l6)
        for r, l, o in zip(rows, l6, o6):
            f = facts(r)
            want = "0 %d %d %d %d %d %d" % (f["may_write"], f["readable"], f["posting_rules"], f["limits_ok"], f["verified"], f["cooldown"])
            if o.strip() != want:
                c.broken.append({"kind": "correspondence", "where": "specification", "theorem": "may_write (Coq) vs reference (check)",
                                 "examples": [{"case": l, "model": o, "check": want}], "log": ""})
                break

    stats = {}
    for k_line, ((op, r, t), l, o) in enumerate(zip(meta, lines, out)):
        fo = o.split()
        f = facts(r)
        exp = {"expected": mo[k_line]} if model else {}
        if fo[0] != "0":
            c.violation("crash:%s" % OPS.get(op, "pieces"), "%s crashed / stalled on %s: %s" % (OPS.get(op, "rule pieces"), l, o), {"cases": [l], "got": o})
            continue
        if op == 5:
            ok_perm, restricted, cooling = fo[1] == "0", fo[2] == "1", fo[3] == "1"
            if ok_perm != f["posting_rules"]:
                c.violation("piece:CheckPostPerm2", "CheckPostPerm2 = %s where the posting rules say %s; %s" % (fo[1], f["posting_rules"], l), dict({"cases": [l], "got": o}, **exp))
            if restricted == f["limits_ok"]:
                c.violation("piece:CheckPostRestriction", "CheckPostRestriction = %s where limits_ok = %s; %s" % (not restricted, f["limits_ok"], l), dict({"cases": [l], "got": o}, **exp))
            if cooling != f["cooldown"]:
                c.violation("piece:checkCooldown", "checkCooldown = %s where the cool-down is %s; %s" % (cooling, f["cooldown"], l), dict({"cases": [l], "got": o}, **exp))
            continue
        name = OPS[op]
        code, trace = int(fo[1]), fo[5] == "1"
        accepted = code == 0
        stats[(name, "accept" if accepted else "refuse %d" % code)] = stats.get((name, "accept" if accepted else "refuse %d" % code), 0) + 1
        c.nontrivial((op, code, t))
        if code == 19:
            c.violation("other-error:" + name, "%s failed with an error outside the rule set on %s" % (name, l), dict({"cases": [l], "got": o}, **exp))
        if not accepted and trace:
            c.violation("refusal-trace:" + name, "%s refused (%d) but .DIR / the directory / the author's record changed; %s" % (name, code, l), dict({"cases": [l], "got": o}, **exp))
        if accepted and not f["may_write"]:
            # which conjunct of the rule set was skipped
            if not f["readable"]:
                key = "%s-unreadable" % name.lower()
            elif not f["posting_rules"]:
                key = "%s-posting-rules" % name.lower()
            elif not f["limits_ok"]:
                key = "%s-no-limits" % name.lower()
            elif not f["verified"]:
                key = "%s-unverified" % name.lower()
            else:
                key = "%s-cooldown" % name.lower()
            c.violation(key, "%s accepted a write the rule set refuses (readable=%s rules=%s limits=%s verified=%s cooldown=%s); row %s" % (
                name, f["readable"], f["posting_rules"], f["limits_ok"], f["verified"], f["cooldown"], l), dict({"cases": [l], "got": o}, **exp))
        if accepted and op == 3 and not (f["owner"] or f["sysop"]):
            c.violation("edit-not-owner", "EditPost accepted an edit by someone who is neither the author nor a sysop; %s" % l, dict({"cases": [l], "got": o}, **exp))
        if not accepted and f["may_write"]:
            ba = r["battr"]
            pre = {1: True,
                   2: r["exists"] and not ba & B["NORECOMMEND"],
                   3: r["exists"] and not ba & B["VOTEBOARD"] and f["basic"] and (f["owner"] or f["sysop"]),
                   4: r["exists"] and not r["ulevel"] & P["VIOLATELAW"]}[op]
            if pre:
                c.violation("spurious-refusal:" + name, "%s refused (%d) a write the rule set allows; %s" % (name, code, l), dict({"cases": [l], "got": o}, **exp))
    c.cov["distribution"].update({"%s %s" % k: v for k, v in sorted(stats.items())})
    c.sample({"row": lines[0], "impl": out[0], "legend": "status code(0=accepted) d.DIR d.files d.NumPosts refusal-trace"})
    for k, l in enumerate(lines):
        if out[k].split()[1:2] not in (["0"], []) and meta[k][0] in OPS and len(c.cov["samples"]) < 6:
            c.sample({"row": l, "impl": out[k], "facts": {a: int(b) for a, b in facts(meta[k][1]).items()}})
    c.cov["exhaustive_parts"] = ["the all-rules-pass row, all %d single deviations and all %d pairs of deviations from it, each through the four operations and the rule pieces" % (
        len(DEV), len(DEV) * (len(DEV) - 1) // 2)]
    c.cov["structured_rows"] = n_struct
    c.finish(rule="baseline + all single and pair deviations (%d named deviations: permission bits, moderator, friend, ban active/expired, board kind, attributes, levels, "
                  "limits at and around their thresholds, cool-down states, ownership) + PRNG(seed) combinations of 3-8 deviations; each row x NewPost, Recommend, EditPost, "
                  "CrossPost, rule pieces; a case is non-trivial per distinct (operation, outcome code, deviation set)" % len(DEV),
             assumptions=["build-time switches at their defaults (USE_COOLDOWN, REJECT_FLOOD_POST, USE_NEW_BAN_SYSTEM, USE_SYSOP_EDIT, SAFE_ARTICLE_DELETE = true)",
                          "clock: cool-down and ban expiry are planted 600 s / 1000 s away from the clock the code reads, so no second boundary is crossed",
                          "the cool-down word in shared memory is outside the no-trace frame (checkCooldown normalises an expired word before later guards run)",
                          "sysop exemption from ban / post-permission / level rules, and the hidden-board and default/guest-post shortcuts of pttbbs' postperm, are part of the rule set as specified"])


if __name__ == "__main__":
    main()
