#!/usr/bin/env python3
"""C08 — write authorisation: proofs in coq/Props/C08.v; a decision table over user bits, board attributes /
level / limits, ban state, cool-down state, article ownership (owner ids related to the caller's by prefix, case,
trailing characters) and the cross-post SOURCE board (BRD_CPLOG, ban, limits, level, visibility) is materialised in a
scratch BBS environment and pushed through ptt.NewPost / Recommend / EditPost / CrossPost / CheckPostPerm2 /
CheckPostRestriction; accept/refuse and the before/after snapshots of EVERY board must equal the extracted model
and satisfy the rule set. getRestrictionReason is swept over all 256 values of either limit, isFileOwner over id
pairs related by prefix / case / trailing bytes.
Two inputs of the rule set live outside a row and are varied on their own: the SITE CONFIGURATION (op 9: the read-only
system boards BN_SECURITY / BN_ALLPOST are named by an ini file loaded through initgin.InitAllConfig after package
initialisation; rows address a board by name) and the WRITER'S UID in both builds (op 10: default, and the production
table sizes of `-tags docker` in a second driver build/implrun_docker; uids around MAX_BOARD, 2^16 and MAX_USERS, with
the opposite cool-down state planted at the uids a wrong index or bound would read).
A third input is the BOARD'S OWN NAME (op 11): two rules know a board only by its name (the read-only system boards, the
default board). Next to all the boards of the scratch BBS a further board is given a name related to a special board's
name (longer with the same beginning, shorter, other case + longer, one character off, unrelated) and rows are run on it:
it must follow the ordinary rules unless it carries the special name itself."""
import os, sys
from concurrent.futures import ThreadPoolExecutor
sys.path.insert(0, os.path.join(os.path.dirname(os.path.abspath(__file__)), "..", "lib"))
sys.path.insert(0, os.path.dirname(os.path.abspath(__file__)))
import vf
import C07 as R                                         # the read rule's reference (spec_may_read)

P = dict(BASIC=0o1, CHAT=0o2, PAGE=0o4, POST=0o10, LOGINOK=0o20, BM=0o2000, SYSOP=0o40000, VIOLATELAW=0o400000, ANGEL=0o1000000,
         POLICE=0o20000000000, POLICE_MAN=0o2000000000)
B = dict(HIDE=0x10, POSTMASK=0x20, VOTEBOARD=0x200, NORECOMMEND=0x1000, RESTRICTEDPOST=0x40000, GUESTPOST=0x80000, COOLDOWN=0x100000, CPLOG=0x200000,
         OVER18=0x01000000)
CALLER, OTHER = b"CodingMan", b"Kahou"                  # the fixture users of the scratch BBS (go/impl/cmd/implrun/c08.go)
ARTICLE = b"M.1607202239.A.30D"
OPS = {1: "NewPost", 2: "Recommend", 3: "EditPost", 4: "CrossPost"}

# one row = a dict of concrete plantings; BASE passes every rule
BASE = dict(ulevel=P["BASIC"] | P["CHAT"] | P["PAGE"] | P["POST"] | P["LOGINOK"], o18=1, logindays=1000, badpost=0, regbefore=1,
            inbm=0, fr=0, ban=0, cd_rel=-600, pt=0, bsel=0, battr=0, blevel=0, limlogins=0, limbad=0, nuser=0, exists=1, owner=1,
            # extended plantings: the owner field of the addressed article (None: by `owner`), the cross-post source board
            ownerid=None, sattr=0, slevel=0, slimlogins=0, slimbad=0, sban=0, sinbm=0, sfr=0)
SRC_KEYS = ("sattr", "slevel", "slimlogins", "slimbad", "sban", "sinbm", "sfr")
# single deviations from any row: (name, function)
DEV = [
    ("sysop", lambda r: r.update(ulevel=r["ulevel"] | P["SYSOP"])),
    ("no-basic", lambda r: r.update(ulevel=r["ulevel"] & ~P["BASIC"])),
    ("no-post", lambda r: r.update(ulevel=r["ulevel"] & ~P["POST"])),
    ("no-loginok", lambda r: r.update(ulevel=r["ulevel"] & ~P["LOGINOK"])),
    ("violatelaw", lambda r: r.update(ulevel=r["ulevel"] | P["VIOLATELAW"])),
    ("angel", lambda r: r.update(ulevel=r["ulevel"] | P["ANGEL"])),
    ("inbm", lambda r: r.update(inbm=1)),
    ("friend", lambda r: r.update(fr=1)),
    ("banned", lambda r: r.update(ban=1)),
    ("ban-expired", lambda r: r.update(ban=2)),
    ("readonly-board", lambda r: r.update(bsel=1)),
    ("default-board", lambda r: r.update(bsel=2)),
    ("guestpost", lambda r: r.update(battr=r["battr"] | B["GUESTPOST"])),
    ("hidden", lambda r: r.update(battr=r["battr"] | B["HIDE"] | B["POSTMASK"])),
    ("hidden-nomask", lambda r: r.update(battr=r["battr"] | B["HIDE"])),
    ("restrictedpost", lambda r: r.update(battr=r["battr"] | B["RESTRICTEDPOST"])),
    ("voteboard", lambda r: r.update(battr=r["battr"] | B["VOTEBOARD"])),
    ("norecommend", lambda r: r.update(battr=r["battr"] | B["NORECOMMEND"])),
    ("over18-board-minor", lambda r: r.update(battr=r["battr"] | B["OVER18"], o18=0)),
    ("level-post", lambda r: r.update(blevel=r["blevel"] | P["POST"], battr=r["battr"] | B["POSTMASK"])),
    ("level-angel", lambda r: r.update(blevel=r["blevel"] | P["ANGEL"], battr=r["battr"] | B["POSTMASK"])),
    ("level-angel-read", lambda r: r.update(blevel=r["blevel"] | P["ANGEL"])),
    ("level-violatelaw", lambda r: r.update(blevel=r["blevel"] | P["VIOLATELAW"], battr=r["battr"] | B["POSTMASK"])),
    ("few-logins", lambda r: r.update(logindays=95, limlogins=10)),
    ("enough-logins", lambda r: r.update(logindays=100, limlogins=10)),
    ("badposts", lambda r: r.update(badpost=6, limbad=250)),
    ("badposts-ok", lambda r: r.update(badpost=5, limbad=250)),
    ("cd-active-idle", lambda r: r.update(cd_rel=600, pt=0)),
    ("cd-active-full", lambda r: r.update(cd_rel=600, pt=15)),
    ("cd-expired-full", lambda r: r.update(cd_rel=-600, pt=15)),
    ("cd-board", lambda r: r.update(cd_rel=600, battr=r["battr"] | B["COOLDOWN"])),
    ("cd-flood-5000", lambda r: r.update(cd_rel=600, pt=1, nuser=5000)),
    ("cd-flood-1500", lambda r: r.update(cd_rel=600, pt=3, nuser=1500)),
    ("cd-under-1500", lambda r: r.update(cd_rel=600, pt=2, nuser=1500)),
    ("cd-ten", lambda r: r.update(cd_rel=600, pt=10)),
    ("missing-article", lambda r: r.update(exists=0)),
    ("not-owner", lambda r: r.update(owner=0)),
    ("owner-reregistered", lambda r: r.update(regbefore=0)),
    # --- limits whose tenfold does not fit a byte (26..255 units = 260..2550 login-days), and bad-post limits at both ends
    ("logins-300-has-50", lambda r: r.update(logindays=50, limlogins=30)),
    ("logins-300-has-299", lambda r: r.update(logindays=299, limlogins=30)),
    ("logins-300-has-300", lambda r: r.update(logindays=300, limlogins=30)),
    ("logins-260-has-9", lambda r: r.update(logindays=9, limlogins=26)),
    ("logins-1280-has-1000", lambda r: r.update(logindays=1000, limlogins=128)),
    ("logins-2550-has-2549", lambda r: r.update(logindays=2549, limlogins=255)),
    ("logins-2550-has-2550", lambda r: r.update(logindays=2550, limlogins=255)),
    ("badposts-limit255-has-1", lambda r: r.update(badpost=1, limbad=255)),
    ("badposts-limit255-has-0", lambda r: r.update(badpost=0, limbad=255)),
    ("badposts-limit1-has-255", lambda r: r.update(badpost=255, limbad=1)),
    ("badposts-limit1-has-254", lambda r: r.update(badpost=254, limbad=1)),
    # --- the owner field of the addressed article, related to the caller's id
    ("owner-longer-digit", lambda r: r.update(ownerid=CALLER + b"1")),
    ("owner-longer-dot", lambda r: r.update(ownerid=CALLER + b".")),
    ("owner-longer-full", lambda r: r.update(ownerid=CALLER + b"12345")),
    ("owner-shorter", lambda r: r.update(ownerid=CALLER[:-1])),
    ("owner-first-char", lambda r: r.update(ownerid=CALLER[:1])),
    ("owner-lower-case", lambda r: r.update(ownerid=CALLER.lower())),
    ("owner-upper-case", lambda r: r.update(ownerid=CALLER.upper())),
    ("owner-trailing-blank", lambda r: r.update(ownerid=CALLER + b" ")),
    ("owner-nul-then-junk", lambda r: r.update(ownerid=CALLER + b"\0X")),
    ("owner-empty", lambda r: r.update(ownerid=b"")),
    # --- the SOURCE board of a cross-post
    ("src-cplog", lambda r: r.update(sattr=r["sattr"] | B["CPLOG"])),
    ("src-banned", lambda r: r.update(sban=1)),
    ("src-ban-expired", lambda r: r.update(sban=2)),
    ("src-few-logins", lambda r: r.update(slimlogins=101)),
    ("src-many-logins-wrap", lambda r: r.update(slimlogins=128)),
    ("src-badposts", lambda r: r.update(slimbad=255, badpost=max(r["badpost"], 1))),
    ("src-level-angel", lambda r: r.update(slevel=r["slevel"] | P["ANGEL"], sattr=r["sattr"] | B["POSTMASK"])),
    ("src-level-angel-read", lambda r: r.update(slevel=r["slevel"] | P["ANGEL"])),
    ("src-restrictedpost", lambda r: r.update(sattr=r["sattr"] | B["RESTRICTEDPOST"])),
    ("src-hidden", lambda r: r.update(sattr=r["sattr"] | B["HIDE"] | B["POSTMASK"])),
    ("src-voteboard", lambda r: r.update(sattr=r["sattr"] | B["VOTEBOARD"])),
    ("src-friend", lambda r: r.update(sfr=1)),
    ("src-inbm", lambda r: r.update(sinbm=1)),
]


def owner_bytes(r):
    if r.get("ownerid") is not None:
        return bytes(r["ownerid"])
    return CALLER if r["owner"] else OTHER


def extended(r):
    return r.get("ownerid") is not None or any(r.get(k, 0) for k in SRC_KEYS)


def line(op, r):
    base = "%d|%d %d %d %d %d|%d %d %d %d %d|%d %d %d %d %d %d|" % (
        op, r["ulevel"], r["o18"], r["logindays"], r["badpost"], r["regbefore"], r["inbm"], r["fr"], r["ban"], r["cd_rel"], r["pt"],
        r["bsel"], r["battr"], r["blevel"], r["limlogins"], r["limbad"], r["nuser"])
    if not extended(r):
        return base + "%d %d" % (r["exists"], r["owner"])
    return base + "%d 2|%s|%s|%s" % (r["exists"], " ".join(map(str, owner_bytes(r))), " ".join(map(str, CALLER)),
                                    " ".join(str(r[k]) for k in SRC_KEYS))


def cstr(b, n):
    """the C string in an n-byte field holding b"""
    b = bytes(b)[:n].ljust(n, b"\0")
    return b.split(b"\0")[0]


def board_facts(r, ba, bl, inbm, fr, ban, bsel, limlogins, limbad):
    """the caller against one board: readable, posting rules, limits — from the property text, independent of the Coq model"""
    ul = r["ulevel"]
    f = {}
    row = dict(sysop=bool(ul & P["SYSOP"]), police=bool(ul & P["POLICE"]), policeman=bool(ul & P["POLICE_MAN"]), basic=bool(ul & P["BASIC"]),
               verified=bool(ul & P["LOGINOK"]), inbm=bool(inbm), friend=bool(fr), uover18=bool(r["o18"]), haslevel=bool(ul & bl),
               permboard=False, namedbm=False, hidden=bool(ba & B["HIDE"]), postmask=bool(ba & B["POSTMASK"]), bover18=bool(ba & B["OVER18"]),
               level0=bl == 0, levelbm=bool(bl & P["BM"]))
    f["readable"] = R.spec_may_read(row)
    f["sysop"] = row["sysop"]
    f["moderator"] = row["basic"] and row["verified"] and row["inbm"]
    f["verified"] = row["verified"]
    f["basic"] = row["basic"]
    f["readonly"] = bsel == 1
    extra = bl & ~P["POST"]
    if f["readonly"]:
        rules = False
    elif f["sysop"]:
        rules = True
    elif ban == 1:
        rules = False
    elif bsel == 2 or ba & B["GUESTPOST"]:
        rules = True
    elif not ul & P["POST"]:
        rules = False
    elif row["hidden"]:
        rules = True
    elif ba & B["RESTRICTEDPOST"] and not fr:
        rules = False
    elif ul & P["VIOLATELAW"]:
        rules = bool(bl & P["VIOLATELAW"])
    else:
        rules = extra == 0 or bool(ul & extra)
    f["posting_rules"] = rules
    # in days, on unbounded integers: the board keeps the limit in units of ten login-days
    over = r["logindays"] < 10 * limlogins or r["badpost"] + limbad > 255
    f["limits_ok"] = f["sysop"] or f["moderator"] or not over
    return f


def facts(r):
    """the facts of the property text, computed from the plantings independently of the Coq model"""
    ba = r["battr"]
    f = board_facts(r, ba, r["blevel"], r["inbm"], r["fr"], r["ban"], r["bsel"], r["limlogins"], r["limbad"])
    pt, nu = r["pt"], r["nuser"]
    flood = (nu > 4000 and pt >= 1) or (nu > 2000 and pt >= 2) or (nu > 1000 and pt >= 3) or pt >= 10
    f["cooldown"] = r["cd_rel"] >= 0 and not f["sysop"] and (bool(ba & B["COOLDOWN"]) or pt == 15 or flood)
    f["may_write"] = f["readable"] and f["posting_rules"] and f["limits_ok"] and f["verified"] and not f["cooldown"]
    # the author: the owner field holds exactly the caller's id (whole C strings), and the account is not younger than the article
    f["owner"] = bool(cstr(owner_bytes(r), 14) == cstr(CALLER, 13) and r["regbefore"])
    # the source board of a cross-post
    fs = board_facts(r, r.get("sattr", 0), r.get("slevel", 0), r.get("sinbm", 0), r.get("sfr", 0), r.get("sban", 0), 0, r.get("slimlogins", 0), r.get("slimbad", 0))
    f["src_readable"], f["src_rules"], f["src_limits_ok"] = fs["readable"], fs["posting_rules"], fs["limits_ok"]
    f["src_cplog"] = bool(r.get("sattr", 0) & B["CPLOG"])
    f["src_voteboard"] = bool(r.get("sattr", 0) & B["VOTEBOARD"])
    return f


# ---------------------------------------------------------------- getRestrictionReason / isFileOwner on their own
REASON = {0: "none", 3: "login-days", 4: "bad-posts"}


def reason_ref(days, bad, liml, limb):
    return 3 if days < 10 * liml else 4 if bad + limb > 255 else 0


def reason_lines(rng, thorough):
    ls = []
    for liml in range(256):                                              # every login-days limit x days around every threshold a wrapped product could fake
        w = (10 * liml) % 256
        for days in sorted({0, 9, 10, 255, 256, 10 * liml - 1, 10 * liml, 10 * liml + 1, 10 * liml + 9, w - 1, w, w + 1, 2549, 2550, 2559, 2560,
                            4294967290, 4294967295}):
            if 0 <= days <= 4294967295:
                ls.append((days, 0, liml, 0))
    for limb in range(256):                                              # every bad-post limit x every bad-post count
        for bad in range(256):
            ls.append((5000, bad, 0, limb))
    for _ in range(50000 if thorough else 5000):
        liml, limb = rng.randrange(256), rng.randrange(256)
        days = rng.choice([rng.randrange(0, 2600), 10 * liml + rng.randrange(-3, 4), rng.randrange(2 ** 32)])
        bad = rng.choice([rng.randrange(256), 255 - limb + rng.randrange(-2, 3)])
        ls.append((min(max(days, 0), 2 ** 32 - 1), min(max(bad, 0), 255), liml, limb))
    return ls


def atoi10(b):
    """strconv.Atoi on ten bytes; an error gives 0"""
    s0 = b
    if b[:1] in (b"+", b"-"):
        b = b[1:]
    if not b or any(not 48 <= ch <= 57 for ch in b):
        return 0
    n = int(b.decode())
    return -n if s0[:1] == b"-" else n


def owner_ref(owner, uid, fname, fl):
    if cstr(owner, 14) != cstr(uid, 13):
        return False
    fn = bytes(fname)[:28].ljust(28, b"\0")
    if len(fn.split(b"\0")[0]) <= 3:
        return False
    ts = atoi10(fn[2:12]) & 0xFFFFFFFF
    ts = ts - (1 << 32) if ts >= 1 << 31 else ts
    return ts >= fl


def owner_lines(rng, thorough):
    ids = [b"A1", b"A10", b"A1b", b"A1.", b"a1", b"A2", b"A", b"SYSOP", b"SYSOP3", b"sysop", b"Sysop", CALLER, CALLER + b"1", CALLER[:-1],
           CALLER.lower(), CALLER.upper(), CALLER + b".", CALLER + b" ", b" " + CALLER, b"abcdefghijkl", b"abcdefghijk", b"abcdefghijkl.",
           b"abcdefghijklm", b"abcdefghijklmn", b"", b"A1\0X", b"A1\0", b"\0A1", b"guest", b"guest.", b"-A1", b"A1-"]
    ls = []
    for o in ids:
        for u in ids:
            if len(o) <= 14 and len(u) <= 13:
                ls.append((o, u, ARTICLE, 1000))
    fnames = [ARTICLE, b"M.1", b"M.1607202239", b"M.0000001000.A.ABC", b"M.+000001000.A.ABC", b"M.-000001000.A.ABC", b"M.16072O2239.A.30D", b"",
              b"M.4000000000.A.ABC", b"M.9999999999.A.ABC"]
    for (o, u) in [(b"A1", b"A1"), (b"A10", b"A1"), (b"A1", b"A10"), (CALLER, CALLER), (CALLER + b"1", CALLER), (b"A1\0X", b"A1")]:
        for fn in fnames:
            for fl in (1000, 999, 1001, -1000, 0, 1607202238, 1607202239, 1607202240, 2000000000, -294967296, -294967297, 2147483647, -2147483648):
                ls.append((o, u, fn, fl))
    alnum = b"abcdefghijklmnopqrstuvwxyzABCDEFGHIJKLMNOPQRSTUVWXYZ0123456789"
    for _ in range(200000 if thorough else 20000):
        a = bytes(rng.choice(alnum) for _ in range(rng.randrange(1, 13)))
        m = rng.randrange(12)
        if m == 0: b = a
        elif m == 1: b = a[:rng.randrange(0, len(a))]                              # a proper prefix
        elif m == 2: b = a + bytes([rng.choice(alnum)])                            # one character longer
        elif m == 3: b = (a + bytes(rng.choice(alnum) for _ in range(14)))[:rng.choice([13, 14])]
        elif m == 4: b = a.swapcase()
        elif m == 5:
            k = rng.randrange(len(a)); b = a[:k] + a[k:k + 1].swapcase() + a[k + 1:]
        elif m == 6:
            k = rng.randrange(len(a)); b = a[:k] + bytes([rng.choice(alnum)]) + a[k + 1:]
        elif m == 7: b = a + rng.choice([b".", b" ", b"-", b"\xa1"])
        elif m == 8: b = a + b"\0" + bytes([rng.choice(alnum)])                    # same C string, junk after the NUL
        elif m == 9: b = a[:rng.randrange(0, len(a))] + b"\0" + a                  # cut by a NUL
        elif m == 10: b = a[1:]
        else: b = bytes(rng.choice(alnum) for _ in range(rng.randrange(0, 13)))
        o, u = (a, b) if rng.random() < 0.5 else (b, a)
        o, u = o[:14], u[:13]
        ts = rng.choice([1607202239, rng.randrange(0, 2 ** 31), rng.randrange(0, 10 ** 10)])
        fn = b"M.%010d.A.%03X" % (ts, rng.randrange(4096))
        if rng.random() < 0.05:
            fn = fn[:rng.randrange(0, 14)]
        tsw = ts & 0xFFFFFFFF
        tsw = tsw - (1 << 32) if tsw >= 1 << 31 else tsw
        fl = rng.choice([1000, tsw - 1, tsw, tsw + 1, rng.randrange(-2 ** 31, 2 ** 31)])
        ls.append((o, u, fn, min(max(fl, -2 ** 31), 2 ** 31 - 1)))
    return ls


def bts(b):
    return " ".join(map(str, bytes(b)))


# ---------------------------------------------------------------- the site configuration (op 9) and the writer's uid (op 10)
N_WHOAMI, N_ALLPOST, N_SYSOP, N_ALLHID, N_SECURITY = b"WhoAmI", b"ALLPOST", b"SYSOP", b"ALLHIDPOST", b"Security"
TARGETS = [N_WHOAMI, N_ALLPOST, N_SYSOP]                  # boards of the scratch BBS a row can address by name
# (BN_SECURITY, BN_ALLPOST) as a site's ini file may name them; the first is what is compiled in
SITE_CONFIGS = [
    (N_SECURITY, N_ALLPOST),
    (N_SECURITY, N_WHOAMI),                                                         # the all-post log board renamed (the code also WRITES there: an existing board, its own spelling)
    (N_WHOAMI, N_ALLPOST), (b"whoAMi", N_ALLPOST), (b"WHOAMI", N_ALLPOST), (b"whoami", N_ALLHID),   # the security board renamed (board names compare without case)
    (N_ALLHID, N_WHOAMI), (N_WHOAMI, N_ALLHID),                                     # both renamed
    (N_SECURITY, N_SYSOP), (N_SYSOP, N_ALLPOST),                                    # the default board configured read-only
    (N_SECURITY, N_ALLHID),
    (b"WhoAm", N_ALLPOST), (b"WhoAmI2", N_ALLPOST), (b"ALLPOS", N_ALLHID), (b"ALLPOSTS", N_ALLHID),   # names that only share a prefix with a board
    (N_ALLPOST, N_ALLPOST), (N_WHOAMI, N_WHOAMI),                                   # both names on one board
]


def board_name_eq(a, b):
    """two board names denote the same board: equal C strings in the 13-byte id field, up to the case of A..Z"""
    low = lambda x: bytes(ch + 32 if 65 <= ch <= 90 else ch for ch in cstr(x, 13))
    return low(a) == low(b)


N_DEFAULT = N_SYSOP                                       # ptttype.DEFAULT_BOARD (the driver reports a status 3 3 when the code says otherwise)
FIXTURE_BOARDS = [b"SYSOP", b"1...........", b"junk", b"Security", b"2...........", b"ALLPOST", b"deleted", b"Note", b"Record", b"WhoAmI",
                  b"EditExp", b"ALLHIDPOST"]


def fixture_boards():
    """the names of all the boards of the scratch BBS (the fixture's .BRD1: 256-byte records, name first)"""
    try:
        d = open(os.path.join(os.environ.get("VERIF_REPO", "/repo"), "ptt", "testcase", ".BRD1"), "rb").read()
        names = [cstr(d[i:i + 13], 13) for i in range(0, len(d) - 255, 256)]
        return [n for n in names if n] or FIXTURE_BOARDS
    except OSError:
        return FIXTURE_BOARDS


def related_names(rng, boards, thorough):
    """(name, relation, special name) for the further board of op 11: names related to the names of the special boards (the
    default board, the two read-only system boards) and of other boards by prefix / extension / case / one character"""
    alnum = b"abcdefghijklmnopqrstuvwxyzABCDEFGHIJKLMNOPQRSTUVWXYZ0123456789"
    res = [(N_SYSOP, "is", N_SYSOP), (N_ALLPOST, "is", N_ALLPOST), (N_WHOAMI, "is", N_WHOAMI)]      # controls: the boards themselves
    tails = [b"2", b"_", b"note", b"-bugs", b"X" * 12]
    for S in (N_DEFAULT, N_SECURITY, N_ALLPOST, b"Note", b"Record"):
        for t in tails + [bytes(rng.choice(alnum) for _ in range(rng.randrange(1, 8)))]:
            res.append(((S + t)[:12], "extends", S))
        res.append((S.lower() + b"x", "other-case-extends", S))
        res.append((S.swapcase() + bytes([rng.choice(alnum)]), "other-case-extends", S))
        k = rng.randrange(len(S))
        res.append((S[:k] + S[k:k + 1].swapcase() + S[k + 1:] + b"note", "other-case-extends", S))
        for k in sorted({len(S) - 1, len(S) - 2, 3, 1}):
            if 1 <= k < len(S):
                res.append((S[:k], "prefix-of", S))
        res.append((S[:-1] + (b"Q" if S[-1:] != b"Q" else b"R"), "one-character-off", S))
        res.append((b"x" + S, "ends-with", S))
        res.append((S[1:], "suffix-of", S))
    for _ in range(40 if thorough else 6):
        res.append((bytes(rng.choice(alnum) for _ in range(rng.randrange(1, 13))), "unrelated", b""))
    out, seen = [], set()
    for (n, rel, S) in res:
        if n in seen or not 1 <= len(n) <= 12:
            continue
        # board names are unique up to case within a BBS: a name another board carries (in any case) is not a further board
        if rel != "is" and any(board_name_eq(n, b) for b in boards):
            continue
        seen.add(n)
        out.append((n, rel, S))
    return out


def gen_const(build, name):
    """a constant of the Go source as gosync regenerated it for this run (coq/Gen/Consts_<build>.v)"""
    import re
    src = open(os.path.join(vf.COQ, "Gen", "Consts_%s.v" % build)).read()
    return int(re.search(r"Definition %s : Z := (-?\d+)\." % name, src).group(1))


def simple_devs():
    """the deviations a 5-group row can carry (no owner bytes, no source-board planting) that leave the board choice alone"""
    res = []
    for (n, f) in DEV:
        r = dict(BASE); f(r)
        if not extended(r) and r["bsel"] == 0:
            res.append((n, f))
    return res


def replay_docker(path):
    """--replay of a case that needs the production build: same protocol as vf.Check.do_replay, on build/implrun_docker"""
    import json
    obj = json.load(open(path))
    if obj.get("build") != "docker":
        return
    print("replay of %s (driver built with -tags 'verif docker'): %s" % (path, obj.get("what", "")))
    exe = vf.build_impl(tags="verif docker", name="implrun_docker")
    out = vf.run_impl(exe, "C08", obj["cases"], deadline_ms=60000)
    vf.ipc_cleanup()
    bad = False
    for cs, o in zip(obj["cases"], out):
        print("case   %s\nresult %s" % (cs, o))
        bad = bad or o.split()[:1] in (["1"], ["2"])
    if isinstance(obj.get("expected"), str):
        print("expected %s" % obj["expected"])
        bad = bad or out[-1].strip() != obj["expected"].strip()
    print("replay: %s" % ("property still violated on this input" if bad else "input now behaves"))
    sys.exit(1 if bad else 0)


def urng_names(c):
    """the name generator's own stream (the table's stream stays what it was)"""
    import random
    return random.Random(c.seed * 104729 + 11)


def tick(label, _t=[None]):
    import time
    if os.environ.get("VERIF_TIMING"):
        now = time.time()
        sys.stderr.write("[C08 %6.1fs] %s\n" % (now - (_t[0] or now), label))
        _t[0] = _t[0] or now


def main():
    tick("start")
    if "--replay" in sys.argv[1:-1]:
        replay_docker(sys.argv[sys.argv.index("--replay") + 1])
    c = vf.Check("C08")
    rng = c.rng
    thorough = c.tier == "thorough"
    c.prove()
    model_ok = c.model_ok()
    tick("proved")
    impl = vf.build_impl()
    impl_docker = vf.build_impl(tags="verif docker", name="implrun_docker")      # the production table sizes (MAX_USERS 2 000 000, MAX_BOARD 20 000)
    model = vf.build_model("C08") if model_ok else None
    tick("built")
    vf.ipc_cleanup()

    def run_impl_par(lines, workers=12):
        n = max(500, (len(lines) + workers - 1) // workers)
        chunks = [lines[k:k + n] for k in range(0, len(lines), n)]
        with ThreadPoolExecutor(max_workers=workers) as ex:
            outs = list(ex.map(lambda ch: vf.run_impl(impl, "C08", ch, deadline_ms=20000), chunks))
        return [o for ch in outs for o in ch]

    # ---------------------------------------------------------------- rows outside the table: site configurations (op 9), writer uids in
    # both builds (op 10). Generated and started here, on a pool of their own next to the table; judged further down
    side = ThreadPoolExecutor(max_workers=6)
    sdev = simple_devs()
    cfg_rows = [(dict(BASE), ("base",))]
    for (n1, f1) in sdev:
        r = dict(BASE); f1(r); cfg_rows.append((r, (n1,)))
    sysop = dict(DEV)["sysop"]
    for (n1, f1) in sdev:
        if n1 in ("inbm", "banned", "guestpost", "hidden", "no-post", "no-loginok", "cd-active-full", "not-owner", "missing-article", "voteboard"):
            r = dict(BASE); sysop(r); f1(r); cfg_rows.append((r, ("sysop", n1)))
    l9, m9 = [], []
    for (sec, allpost) in SITE_CONFIGS:
        for tgt in TARGETS:
            ro = board_name_eq(tgt, sec) or board_name_eq(tgt, allpost)
            for (r, t) in (cfg_rows if thorough or ro or (sec, allpost) == SITE_CONFIGS[0] else cfg_rows[:12]):
                rr = dict(r, bsel=2 if tgt == N_SYSOP else 0)
                reff = dict(rr, bsel=1 if ro else rr["bsel"])            # what the rule set sees: read-only by configuration
                for op in (1, 2, 3, 4, 5):
                    l9.append("9|%d|%s|%s|%s|%s" % (op, bts(sec), bts(allpost), bts(tgt), line(op, rr).split("|", 1)[1]))
                    m9.append((op, reff, t, sec, allpost, tgt, ro))
    f9 = side.submit(run_impl_par, l9, 4)
    # ---- op 11: a further board whose NAME is related to a special board's name (compiled-in configuration)
    boards = fixture_boards()
    names11 = related_names(urng_names(c), boards, thorough)
    D = dict(DEV)
    nm_rows = list(cfg_rows) if thorough else [(r, t) for (r, t) in cfg_rows if t[-1] in (
        "base", "sysop", "no-post", "no-loginok", "violatelaw", "friend", "banned", "guestpost", "hidden", "restrictedpost", "level-angel",
        "level-violatelaw", "few-logins", "cd-active-full", "not-owner")]
    for pair in (("violatelaw", "level-violatelaw"), ("friend", "restrictedpost"), ("guestpost", "no-post"), ("hidden", "no-post"), ("banned", "no-post"),
                 ("no-post", "restrictedpost"), ("no-post", "level-angel"), ("violatelaw", "no-post")):
        r = dict(BASE); D[pair[0]](r); D[pair[1]](r); nm_rows.append((r, pair))
    l11, m11 = [], []
    for (nm, rel, S) in names11:
        ro = board_name_eq(nm, SITE_CONFIGS[0][0]) or board_name_eq(nm, SITE_CONFIGS[0][1])
        df = cstr(nm, 13) == cstr(N_DEFAULT, 13)                      # the very same name: whole C strings, case kept
        for (r, t) in nm_rows:
            rr = dict(r, bsel=0)
            reff = dict(rr, bsel=1 if ro else 2 if df else 0)          # what the rule set sees through the name
            for op in (1, 2, 3, 4, 5):
                l11.append("11|%d|%s|%s|%s|%s|%s" % (op, bts(SITE_CONFIGS[0][0]), bts(SITE_CONFIGS[0][1]), bts(N_DEFAULT), bts(nm), line(op, rr).split("|", 1)[1]))
                m11.append((op, reff, t, nm, rel, S, ro, df))
    f11 = side.submit(run_impl_par, l11, 3)
    cd_devs = [(n, f) for (n, f) in sdev if n.startswith("cd-")]
    co_devs = [(n, f) for (n, f) in sdev if n in ("sysop", "inbm", "banned", "guestpost", "no-loginok", "few-logins", "not-owner") or
               (thorough and n in ("friend", "restrictedpost", "hidden", "no-post", "badposts", "violatelaw", "missing-article", "norecommend"))]
    uid_rows = [(dict(BASE), ("base",))]
    for (n1, f1) in cd_devs:
        r = dict(BASE); f1(r); uid_rows.append((r, (n1,)))
        for (n2, f2) in co_devs:
            r = dict(BASE); f1(r); f2(r); uid_rows.append((r, (n1, n2)))
    for (n2, f2) in co_devs:
        r = dict(BASE); f2(r); uid_rows.append((r, (n2,)))
    r = dict(BASE); dict(DEV)["friend"](r); dict(DEV)["restrictedpost"](r); uid_rows.append((r, ("friend", "restrictedpost")))
    jobs10 = {}
    import random
    urng = random.Random(c.seed * 7919 + 8)            # the table's own stream stays what it was
    for build, exe in (("default", impl), ("docker", impl_docker)):
        max_users, max_board = gen_const(build, "MAX_USERS"), gen_const(build, "MAX_BOARD")
        # the fixture's own uid, a free low uid, the uids around every table size of the build and around 2^16, the last uids
        uids = sorted(u for u in {2, 41, max_board - 1, max_board, max_board + 1, 65535, 65536, 65537, 65538, 131073, max_users - 1, max_users}
                      | ({urng.randrange(max_board + 2, 65535), urng.randrange(65539, max_users - 1)} if max_users > 70000 else set())
                      if (u == 2 or u >= 41) and 1 <= u <= max_users)
        l10, m10 = [], []
        for uid in uids:
            for (r, t) in uid_rows:
                active = r["cd_rel"] >= 0
                # the neighbours a wrong index / a wrong bound would read: the opposite cool-down state is planted there
                near = [u for u in (1, uid - 1, uid + 1, uid - 65536, uid + 65536, uid % 65536, uid % max_board, uid - max_board, max_board, max_users, 2)
                        if 1 <= u <= max_users and u != uid]
                near = sorted(set(near))
                others = " ".join("%d %d %d" % ((u, -600, 0) if active else (u, 600, 15)) for u in near)
                for op in (1, 2, 3, 4, 5):
                    l10.append("10|%d|%d %d|%s|%s" % (op, uid, max_users, others, line(op, r).split("|", 1)[1]))
                    m10.append((op, r, t, uid))
        f10 = [side.submit(vf.run_impl, exe, "C08", l10[k:k + 1000], 60000) for k in range(0, len(l10), 1000)]
        jobs10[build] = (exe, max_users, max_board, uids, l10, m10, f10)

    # ---------------------------------------------------------------- the table
    rows, tags, rops = [], [], []

    def add(r, tag, ops=(1, 2, 3, 4, 5)):
        rows.append(r)
        tags.append(tag)
        rops.append(ops)

    add(dict(BASE), ("base",))
    for i, (n1, f1) in enumerate(DEV):                                  # every single and every pair of deviations
        r = dict(BASE); f1(r); add(r, (n1,))
        for (n2, f2) in DEV[i + 1:]:
            r = dict(BASE); f1(r); f2(r); add(r, (n1, n2))
    # limits over their whole byte range, around every threshold (and every threshold a product kept in a byte would fake),
    # for an ordinary user, a moderator and a sysop; on the target board and on the BRD_CPLOG source of a cross-post
    LB = [0, 1, 2, 25, 26, 27, 51, 52, 100, 127, 128, 129, 200, 254, 255]
    who = [("user", lambda r: None), ("moderator", lambda r: r.update(inbm=1)), ("sysop", lambda r: r.update(ulevel=r["ulevel"] | P["SYSOP"]))]
    for L in LB:
        wv = (10 * L) % 256
        for days in sorted({0, 10 * L - 1, 10 * L, 10 * L + 1, wv - 1, wv, 2549, 2550, 100000}):
            if days < 0:
                continue
            for wn, wf in who:
                r = dict(BASE, logindays=days, limlogins=L); wf(r); add(r, ("limit-logins", L, days, wn))
            r = dict(BASE, logindays=days, slimlogins=L, sattr=B["CPLOG"]); add(r, ("src-limit-logins", L, days))
    for L in [0, 1, 25, 26, 100, 127, 128, 254, 255]:
        for bad in sorted({0, 254 - L, 255 - L, 256 - L, L, 255}):
            if not 0 <= bad <= 255:
                continue
            for wn, wf in who:
                r = dict(BASE, badpost=bad, limbad=L); wf(r); add(r, ("limit-badposts", L, bad, wn))
            r = dict(BASE, badpost=bad, slimbad=L, sattr=B["CPLOG"]); add(r, ("src-limit-badposts", L, bad))
    # a cross-post out of a BRD_CPLOG board: every pair of further deviations (the refusal can originate from either board)
    cplog = dict(DEV)["src-cplog"]
    others = [d for d in DEV if d[0] != "src-cplog"]
    for i, (n1, f1) in enumerate(others):
        for (n2, f2) in others[i + 1:]:
            r = dict(BASE); cplog(r); f1(r); f2(r); add(r, ("src-cplog", n1, n2), ops=(4,))
    n_struct = len(rows)
    for _ in range(250000 if thorough else 25000):                        # random combinations, biased towards few deviations
        r = dict(BASE)
        k = rng.choice([3, 3, 4, 4, 5, 6, 8])
        names = []
        for (n, f) in rng.sample(DEV, k):
            f(r); names.append(n)
        add(r, tuple(sorted(names)))

    lines, meta = [], []
    for r, t, ops in zip(rows, tags, rops):
        for op in ops:
            lines.append(line(op, r)); meta.append((op, r, t))
    out = run_impl_par(lines)
    tick("table impl")
    c.count(len(lines), "rows x (4 operations + rule pieces)")
    if model:
        mo = vf.run_model(model, lines)
        vf.correspond(c, "decision table x operations", lines, out, mo)
        # the Coq specification against the reference of this check
        l6 = [line(6, r) for r in rows]
        o6 = vf.run_model(model, l6)
        for r, l, o in zip(rows, l6, o6):
            f = facts(r)
            want = "0 %d %d %d %d %d %d %d %d %d" % (f["may_write"], f["readable"], f["posting_rules"], f["limits_ok"], f["verified"], f["cooldown"],
                                                 f["src_readable"], f["src_rules"], f["src_limits_ok"])
            if o.strip() != want:
                c.broken.append({"kind": "correspondence", "where": "specification", "theorem": "may_write (Coq) vs reference (check)",
                                 "examples": [{"case": l, "model": o, "check": want}], "log": ""})
                break

    tick("table model")
    # ---------------------------------------------------------------- getRestrictionReason and isFileOwner on their own
    rl = reason_lines(rng, thorough)
    ol = owner_lines(rng, thorough)
    l7 = ["7|%d %d %d %d" % t for t in rl]
    l8 = ["8|%s|%s|%s|%d" % (bts(o_), bts(u_), bts(fn_), fl_) for (o_, u_, fn_, fl_) in ol]
    o78 = vf.run_impl(impl, "C08", l7 + l8, deadline_ms=20000)
    c.count(len(l7), "getRestrictionReason: 256 login-days limits x boundary days, 256 x 256 bad-post limit x count, random")
    c.count(len(l8), "isFileOwner: id pairs related by prefix / case / trailing bytes / NUL, file-name and first-login boundaries")
    if model:
        m78 = vf.run_model(model, l7 + l8)
        vf.correspond(c, "getRestrictionReason / isFileOwner", l7 + l8, o78, m78)
    for t, l, o in zip(rl, l7, o78[:len(l7)]):
        want = "0 %d" % reason_ref(*t)
        c.nontrivial((7, o, t[2] >= 26, t[3] == 0))
        if o.strip() != want:
            days, bad, liml, limb = t
            key = "restriction-reason:%s-expected%s" % (REASON[reason_ref(*t)], "-limit-over-25-units" if liml >= 26 else "")
            c.violation(key, "getRestrictionReason(login-days %d, bad posts %d, limit %d x 10 days, bad-post limit %d) = %s, the rule says %s" % (
                days, bad, liml, limb, REASON.get(int(o.split()[1]), o) if o.split()[:1] == ["0"] and len(o.split()) > 1 else o, REASON[reason_ref(*t)]),
                {"cases": [l], "expected": want, "got": o})
    for t, l, o in zip(ol, l8, o78[len(l7):]):
        o_, u_, fn_, fl_ = t
        same = cstr(o_, 14) == cstr(u_, 13)
        c.nontrivial((8, o, same, cstr(o_, 14).startswith(cstr(u_, 13)), cstr(u_, 13).startswith(cstr(o_, 14)), cstr(o_, 14).lower() == cstr(u_, 13).lower()))
        if o.strip() == "0 1" and not same:
            rel = "a proper prefix of" if cstr(o_, 14).startswith(cstr(u_, 13)) else "an extension of" if cstr(u_, 13).startswith(cstr(o_, 14)) else \
                  "equal up to case to" if cstr(o_, 14).lower() == cstr(u_, 13).lower() else "different from"
            c.violation("owner-not-exact-id:" + rel.split()[-2], "isFileOwner: user %r passes as the author of an article owned by %r (the user's id is %s the owner's)" % (
                cstr(u_, 13), cstr(o_, 14), rel), {"cases": [l], "expected": "0 0", "got": o})
        elif o.strip() != "0 %d" % owner_ref(*t):
            c.violation("isFileOwner-reference", "isFileOwner(owner %r, user %r, file %r, first login %d) = %s, reference says %d" % (o_, u_, fn_, fl_, o, owner_ref(*t)),
                        {"cases": [l], "expected": "0 %d" % owner_ref(*t), "got": o})

    tick("sweeps")
    stats = {}

    def judge(op, r, t, l, o, exp, ctx=None):
        """the direct predicates on one outcome. ctx: None for a table row; for a row run under a site configuration
        (op 9) or under another uid / build (op 10) a dict: what (text for the message), ro_key / cd_key (suffix of the
        violation key when the refused-by-rule conjunct is the read-only board / the cool-down), replay (extra replay fields)"""
        fo = o.split()
        f = facts(r)
        exp = dict(exp)
        where = ""
        ro_sfx = cd_sfx = nm_sfx = ""
        if ctx:
            nm_sfx = ctx.get("name_key", "")
            exp.update(ctx.get("replay", {}))
            where = " [" + ctx["what"] + "]"
            ro_sfx, cd_sfx = ctx.get("ro_key", ""), ctx.get("cd_key", "")
        if fo[0] != "0":
            c.violation("crash:%s" % OPS.get(op, "pieces"), "%s crashed / stalled on %s: %s%s" % (OPS.get(op, "rule pieces"), l, o, where), dict({"cases": [l], "got": o}, **exp))
            return
        l0, l = l, l + where
        if op == 5:
            ok_perm, restricted, cooling = fo[1] == "0", fo[2] == "1", fo[3] == "1"
            if ok_perm != f["posting_rules"]:
                c.violation("piece:CheckPostPerm2" + (ro_sfx if f["readonly"] or fo[1] == "2" else "") + nm_sfx,
                            "CheckPostPerm2 = %s where the posting rules say %s; %s" % (fo[1], f["posting_rules"], l), dict({"cases": [l0], "got": o}, **exp))
            if restricted == f["limits_ok"]:
                c.violation("piece:CheckPostRestriction", "CheckPostRestriction = %s where limits_ok = %s; %s" % (not restricted, f["limits_ok"], l), dict({"cases": [l0], "got": o}, **exp))
            if cooling != f["cooldown"]:
                c.violation("piece:checkCooldown" + cd_sfx, "checkCooldown = %s where the cool-down is %s; %s" % (cooling, f["cooldown"], l), dict({"cases": [l0], "got": o}, **exp))
            return
        name = OPS[op]
        code, trace = int(fo[1]), fo[5] == "1"
        accepted = code == 0
        stats[(name, "accept" if accepted else "refuse %d" % code)] = stats.get((name, "accept" if accepted else "refuse %d" % code), 0) + 1
        c.nontrivial((op, code, t))
        if code == 19:
            c.violation("other-error:" + name, "%s failed with an error outside the rule set on %s" % (name, l), dict({"cases": [l0], "got": o}, **exp))
        if not accepted and trace:
            c.violation("refusal-trace:" + name, "%s refused (%d) but an index / a board directory (target, source, log boards: any board of the BBS) / "
                        "the author's record changed; %s" % (name, code, l), dict({"cases": [l0], "got": o}, **exp))
        if accepted and not f["may_write"]:
            # which conjunct of the rule set was skipped
            if not f["readable"]:
                key = "%s-unreadable" % name.lower()
            elif not f["posting_rules"]:
                key = "%s-posting-rules" % name.lower() + (ro_sfx if f["readonly"] else "") + nm_sfx
            elif not f["limits_ok"]:
                key = "%s-no-limits" % name.lower()
            elif not f["verified"]:
                key = "%s-unverified" % name.lower()
            else:
                key = "%s-cooldown" % name.lower() + (cd_sfx if op != 3 else "")
            c.violation(key, "%s accepted a write the rule set refuses (readable=%s rules=%s limits=%s verified=%s cooldown=%s); row %s" % (
                name, f["readable"], f["posting_rules"], f["limits_ok"], f["verified"], f["cooldown"], l), dict({"cases": [l0], "got": o}, **exp))
        if accepted and op == 3 and not (f["owner"] or f["sysop"]):
            c.violation("edit-not-owner", "EditPost accepted an edit by someone who is neither the author nor a sysop (owner field %r, editor %r); %s" % (
                owner_bytes(r), CALLER, l), dict({"cases": [l0], "got": o}, **exp))
        if accepted and op == 4 and not f["src_readable"]:
            c.violation("crosspost-source-unreadable", "CrossPost accepted out of a board the user may not read; %s" % l, dict({"cases": [l0], "got": o}, **exp))
        if accepted and op == 4 and f["src_cplog"] and not (f["src_rules"] and f["src_limits_ok"]):
            c.violation("crosspost-source-rules", "CrossPost out of a BRD_CPLOG board wrote the forward line into the source article although the source board's "
                        "rules refuse the user (rules=%s limits=%s); %s" % (f["src_rules"], f["src_limits_ok"], l), dict({"cases": [l0], "got": o}, **exp))
        if not accepted and f["may_write"]:
            ba = r["battr"]
            pre = {1: True,
                   2: r["exists"] and not ba & B["NORECOMMEND"],
                   3: r["exists"] and not ba & B["VOTEBOARD"] and f["basic"] and (f["owner"] or f["sysop"]),
                   4: r["exists"] and not r["ulevel"] & P["VIOLATELAW"] and f["src_readable"] and not f["src_voteboard"] and
                      (not f["src_cplog"] or (f["src_rules"] and f["src_limits_ok"]))}[op]
            if pre:
                c.violation("spurious-refusal:" + name + (ro_sfx if code == 2 else "") + nm_sfx, "%s refused (%d) a write the rule set allows; %s" % (name, code, l), dict({"cases": [l0], "got": o}, **exp))

    for k_line, ((op, r, t), l, o) in enumerate(zip(meta, lines, out)):
        judge(op, r, t, l, o, {"expected": mo[k_line]} if model else {})

    tick("judged")
    # ---------------------------------------------------------------- the read-only system boards as the SITE names them
    # every configuration is loaded through the project's own start-up path (ini file -> initgin.InitAllConfig) after the
    # packages were initialised; rows address a board by name. A board the configuration in force names read-only
    # refuses every write; a board it does not name follows the ordinary rules (also when its name is a compiled-in default)
    o9 = f9.result()
    tick("cfg impl")
    c.count(len(l9), "rows x operations under %d site configurations of the read-only system boards x %d target boards" % (len(SITE_CONFIGS), len(TARGETS)))
    mo9 = vf.run_model(model, l9) if model else None
    if model:
        vf.correspond(c, "rows under site configurations (BN_SECURITY / BN_ALLPOST from the ini file)", l9, o9, mo9)
    for k, ((op, reff, t, sec, allpost, tgt, ro), l, o) in enumerate(zip(m9, l9, o9)):
        named = "the compiled-in names" if (sec, allpost) == SITE_CONFIGS[0] else "a site configuration"
        ctx = {"what": "%s: BN_SECURITY=%s BN_ALLPOST=%s, target board %s is %sread-only" % (named, sec.decode(), allpost.decode(), tgt.decode(), "" if ro else "not "),
               "ro_key": ":board-%s-by-site-configuration" % ("read-only" if ro else "not-read-only")}
        judge(op, reff, ("cfg", sec, allpost, tgt) + t, l, o, {"expected": mo9[k]} if model else {}, ctx)

    tick("cfg done")
    # ---------------------------------------------------------------- the board's own NAME: a further board next to the special ones
    # the board carries a name related to the default board's / a read-only system board's / another board's name. It is
    # the default board / read-only exactly when the name IS that name (default board: the same C string; read-only: up to
    # case); otherwise every posting rule applies to it as to any ordinary board, and a refusal leaves no trace
    o11 = f11.result()
    tick("names impl")
    c.count(len(l11), "rows x operations on a further board under %d names related to the special boards' names (%s)" % (
        len(names11), ", ".join("%d %s" % (sum(1 for x in names11 if x[1] == k), k) for k in sorted({x[1] for x in names11}))))
    mo11 = vf.run_model(model, l11) if model else None
    if model:
        vf.correspond(c, "rows on a board named by the case (default board / read-only boards decided from the name)", l11, o11, mo11)
    for k, ((op, reff, t, nm, rel, S, ro, df), l, o) in enumerate(zip(m11, l11, o11)):
        kind = "the read-only board %s" % S.decode() if rel == "is" and ro else "the default board" if rel == "is" and df else \
               "the ordinary board WhoAmI" if rel == "is" else "a further board next to %s; its name %s" % (
                   ", ".join(b.decode() for b in boards if b in (N_DEFAULT, N_SECURITY, N_ALLPOST, S)), {
                       "extends": "starts with the name of %s and is longer", "other-case-extends": "starts with the name of %s in another case and is longer",
                       "prefix-of": "is a proper prefix of the name of %s", "one-character-off": "differs from the name of %s in its last character",
                       "ends-with": "ends with the name of %s", "suffix-of": "is the name of %s without its first character",
                       "unrelated": "is unrelated to any board's%s"}[rel] % (S.decode() if S else ""))
        special = "DEFAULT_BOARD" if S == N_DEFAULT else "read-only-board" if S in (N_SECURITY, N_ALLPOST) else "another-board" if S else "no-board"
        ctx = {"what": "board named %s (%s): %s" % (nm.decode(), kind, "read-only" if ro else "the default board" if df else "an ordinary board by its name"),
               "ro_key": ":board-%s-by-name" % ("read-only" if ro else "not-read-only"),
               "name_key": "" if rel == "is" else ":board-name-%s-%s" % (rel, special)}
        judge(op, reff, ("name", rel, special, len(nm) == 12) + t, l, o, {"expected": mo11[k]} if model else {}, ctx)
    c.cov["distribution"]["board names (op 11)"] = len(names11)

    tick("names done")
    # ---------------------------------------------------------------- the writer's uid: SHM->cooldowntime[uid-1], both builds
    for build, (exe, max_users, max_board, uids, l10, m10, f10) in jobs10.items():
        o10 = [o for fu in f10 for o in fu.result()]
        c.count(len(l10), "cool-down rows x operations x writer uids %s in the %s build (MAX_USERS %d, MAX_BOARD %d)" % (uids, build, max_users, max_board))
        mo10 = vf.run_model(model, l10) if model else None
        if model:
            vf.correspond(c, "cool-down rows by writer uid, %s build" % build, l10, o10, mo10)
        for k, ((op, r, t, uid), l, o) in enumerate(zip(m10, l10, o10)):
            cls = "uid-above-MAX_BOARD" if uid > max_board else "uid-up-to-MAX_BOARD"
            ctx = {"what": "%s build%s: MAX_USERS %d, MAX_BOARD %d; the caller is user number %d" % (build, " (-tags docker)" if build == "docker" else "", max_users, max_board, uid),
                   "cd_key": ":%s-build-%s" % (build, cls), "replay": {"build": build}}
            judge(op, r, ("uid", build, uid) + t, l, o, {"expected": mo10[k]} if model else {}, ctx)
        c.cov["distribution"]["uids %s" % build] = len(uids)
    vf.ipc_cleanup()
    tick("uid done")
    c.cov["distribution"].update({"%s %s" % k: v for k, v in sorted(stats.items())})
    c.sample({"row": lines[0], "impl": out[0], "legend": "status code(0=accepted) d.DIR d.files d.NumPosts refusal-trace(any board directory / index / the author's record)"})
    k7 = next((k for k, t in enumerate(rl) if t[2] == 30 and t[0] == 44), 0)
    c.sample({"row": l7[k7], "impl": o78[k7], "legend": "getRestrictionReason(days badposts limit-logins limit-badposts): 0 none, 3 login-days, 4 bad-posts"})
    k8 = next((k for k, t in enumerate(ol) if t[0] == b"A10" and t[1] == b"A1"), 0)
    c.sample({"row": l8[k8], "impl": o78[len(l7) + k8], "legend": "isFileOwner(owner bytes | user id bytes | file name | first login)"})
    for k, l in enumerate(lines):
        if out[k].split()[1:2] not in (["0"], []) and meta[k][0] in OPS and len(c.cov["samples"]) < 6:
            c.sample({"row": l, "impl": out[k], "facts": {a: int(b) for a, b in facts(meta[k][1]).items()}})
    c.cov["exhaustive_parts"] = ["the all-rules-pass row, all %d single deviations and all %d pairs of deviations from it, each through the four operations and the rule pieces" % (
        len(DEV), len(DEV) * (len(DEV) - 1) // 2),
        "getRestrictionReason: all 256 login-days limits x the days around 10 x limit and around (10 x limit) mod 256; all 256 x 256 (bad-post limit, bad-post count) pairs",
        "isFileOwner: all ordered pairs of 32 ids related by prefix / case / trailing character / embedded NUL",
        "site configurations: %d (BN_SECURITY, BN_ALLPOST) pairs (compiled-in, either / both renamed to existing boards, other case, the default board, names sharing "
        "only a prefix with a board) x %d target boards x base + all single deviations (+ sysop pairs) where the target is read-only or the names are the compiled-in ones" % (
            len(SITE_CONFIGS), len(TARGETS)),
        "board names: every generated name (%d; per special board: 6 longer names incl. the 12-character one, 3 names in another case + longer, its proper "
        "prefixes of length 1, 3, n-2, n-1, last character off, leading character added, first character removed) x base + 14 single + 8 pair "
        "deviations x 5 operations" % len(names11),
        "writer uids: every cool-down state x {alone, sysop, moderator, banned, guest-post, unverified, few logins, not owner} x 5 operations for each uid of "
        "default %s / docker %s" % (jobs10["default"][3], jobs10["docker"][3])]
    c.cov["structured_rows"] = n_struct
    c.finish(rule="baseline + all single and pair deviations (%d named deviations: permission bits, moderator, friend, ban active/expired, board kind, attributes, levels, "
                  "limits at and around their thresholds incl. limits of 26..255 units, cool-down states, owner field = caller's id / longer / shorter / other case / "
                  "trailing characters / NUL+junk / unrelated, cross-post source board with BRD_CPLOG / ban / limits / level / hidden / restricted / vote) + a grid of both "
                  "limits over their byte range x user / moderator / sysop (target and source board) + PRNG(seed) combinations of 3-8 deviations; each row x NewPost, "
                  "Recommend, EditPost, CrossPost, rule pieces, with snapshots of every board directory and index; getRestrictionReason and isFileOwner swept on their own; "
                  "a case is non-trivial per distinct (operation, outcome code, deviation set); + rows under site configurations naming the read-only system boards "
                  "(ini file -> initgin.InitAllConfig) x target boards by name; + cool-down rows x writer uids around MAX_BOARD / 2^16 / MAX_USERS in the default and the "
                  "-tags docker build, neighbours' cool-down words planted in the opposite state; + rows on a further board whose name is related to the name of the default board / a "
                  "read-only system board / another board (PRNG(seed) tails and case flips)" % len(DEV),
             assumptions=["site configuration: only the names of the read-only system boards (BN_SECURITY, BN_ALLPOST) are varied, loaded from an ini file through "
                          "initgin.InitAllConfig after package initialisation; BN_ALLPOST is only renamed to an existing board in its own spelling (the code also "
                          "writes its log there); every other configuration value at its default",
                          "board names: the further board of the name rows is the board-cache slot and a fresh directory of the ordinary fixture board "
                          "under the chosen name (name index re-sorted by cache.SortBCache), one name at a time, next to every board of the scratch BBS, "
                          "under the compiled-in BN_SECURITY / BN_ALLPOST; ptttype.DEFAULT_BOARD is compared with the name the case carries on every row "
                          "(observed, not proved); a name that another board carries in another case is not generated (board names are unique up to case)",
                          "builds: default (MAX_USERS 50) and -tags docker (MAX_USERS 2 000 000, MAX_BOARD 20 000); in the docker build only the cool-down rows are run, "
                          "for %d writer uids (the records of high uids live in a sparsely extended .PASSWDS of the scratch BBS)" % len(jobs10["docker"][3]),
                          "build-time switches at their defaults (USE_COOLDOWN, REJECT_FLOOD_POST, USE_NEW_BAN_SYSTEM, USE_SYSOP_EDIT, SAFE_ARTICLE_DELETE = true)",
                          "clock: cool-down and ban expiry are planted 600 s / 1000 s away from the clock the code reads, so no second boundary is crossed",
                          "the cool-down word in shared memory is outside the no-trace frame (checkCooldown normalises an expired word before later guards run)",
                          "sysop exemption from ban / post-permission / level rules, and the hidden-board and default/guest-post shortcuts of pttbbs' postperm, are part of the rule set as specified"])


if __name__ == "__main__":
    main()
