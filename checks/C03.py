#!/usr/bin/env python3
"""C03 — account model: theorems in coq/Props/C03.v; histories of register / login / password check /
password change / e-mail change / lookups run through bbs.* and (one in five) the gin handlers of api/
on a scratch BBSHOME with real shared memory; after every operation the result, the projected .PASSWDS
(id, which pool passwords the hash verifies, e-mail per slot) and the index answers are compared with the
extracted model (correspondence) and with a reference account dictionary written here (direct predicates)."""
import concurrent.futures, json, os, sys
sys.path.insert(0, os.path.join(os.path.dirname(os.path.abspath(__file__)), "..", "lib"))
import vf

OPN = {1: "register", 2: "login", 3: "check-passwd", 4: "change-passwd", 5: "change-email", 6: "exists", 7: "get-user", 8: "hour", 9: "reload-index",
       10: "login-from-address", 11: "register-from-address", 12: "clock-stepped-back"}
OLD_CODES = (1, 7)        # last-login age codes of accounts the clean-up removes (c03Age / Model age_of); 2, 3, 4 = stamp later than the clock


def norm(code, a):
    """the operation as the account table sees it: the client address decides nothing, a step back of the clock changes nothing"""
    if code == 10:
        return 2, a[:2]
    if code == 11:
        return 1, a[:3]
    if code == 12:
        return 9, []
    return code, a


def show(a):
    return [x.decode("latin-1") if isinstance(x, bytes) else x for x in a]


def enc(strs):
    return " ".join(" ".join([str(len(s))] + [str(b) for b in s]) for s in strs)


def low(b):
    return bytes(c + 32 if 65 <= c <= 90 else c for c in b)


def cstr(b, n):
    b = b[:n]
    i = b.find(b"\0")
    return b if i < 0 else b[:i]


def kb(pw):
    """DES key block of a password: crypt(3) looks at nothing else (C02)"""
    k = bytes((2 * c) % 256 for c in cstr(pw, 8))
    return k + b"\0" * (8 - len(k))


def genkb(pw):
    """what a stored hash of [pw] verifies: cmbbs.GenPasswd answers the all-zero hash for the empty password and for one
    that starts with NUL (as a C string it is empty), and nothing verifies against that hash"""
    return kb(pw) if pw[:1] not in (b"", b"\0") else None


def id_ok(name, idlen):
    i = cstr(name, idlen + 1)
    return 2 <= len(i) <= idlen and chr(i[0]).isascii() and chr(i[0]).isalpha() and all(chr(c).isascii() and chr(c).isalnum() for c in i)


class Ref:
    """The property text as a reference: accounts keyed by case-folded id; password equality is equality of key blocks."""

    def __init__(self, init, nslots, reserved, throttle, idlen, emailsz, layer=0):
        self.layer = layer
        self.n, self.reserved, self.throttle, self.idlen, self.emailsz = nslots, [low(r) for r in reserved], throttle, idlen, emailsz
        self.slots = [None] * nslots
        self.byid = None
        for k in range(nslots):
            if 4 * k + 3 < len(init) and init[4 * k]:
                i, pw, em, fl = init[4 * k:4 * k + 4]
                self.slots[k] = {"id": i, "kb": genkb(pw), "email": em, "old": fl[0] in OLD_CODES, "xempt": bool(fl[1])}

    def reindex(self):
        """case-folded id -> first slot holding it (rebuilt whenever a slot is given or taken away)"""
        self.byid = {}
        for k, a in enumerate(self.slots):
            if a:
                self.byid.setdefault(low(a["id"]), k)

    def find(self, name):
        if self.byid is None:
            self.reindex()
        return self.byid.get(low(cstr(name, self.idlen + 1)))

    def reclaimable(self):
        return [k for k, a in enumerate(self.slots) if k >= 1 and a and a["old"] and not a["xempt"] and a["id"] != b"guest"]

    def expect(self, code, a):
        """-> (ok?, payload or None, description of the expected effect)"""
        valid = id_ok(a[0], self.idlen) if code not in (8, 9) else True
        k = self.find(a[0]) if code not in (8, 9) and valid else None
        acct = self.slots[k] if k is not None else None
        if code == 1:
            i = cstr(a[0], self.idlen + 1)
            if not valid or low(i) in (b"new", b"guest") or low(i) in self.reserved or k is not None:
                return False, None
            free = [s for s, x in enumerate(self.slots) if x is None]
            if not free and (self.throttle or not self.reclaimable()):
                return False, None
            return True, i
        if code == 2:
            if acct is None or not (acct["id"] == b"guest" or (acct["kb"] is not None and acct["kb"] == kb(a[1]))):
                return False, None
            return True, acct["id"]
        if self.layer == 1 and code in (4, 5) and a[0] == b"guest":
            return False, None              # api/user_utils.go: nobody changes the guest account through the handlers
        if code in (3, 4):
            if acct is None or acct["kb"] is None or acct["kb"] != kb(a[1]):
                return False, None
            return True, b""
        if code == 5:
            return (acct is not None), b""
        if code == 6:
            return valid, (a[0] if acct is not None else b"") if valid else None
        if code == 7:
            if acct is None:
                return False, None
            return True, bytes([len(acct["id"])]) + acct["id"] + bytes([len(acct["email"])]) + acct["email"]
        return True, b""

    def apply(self, code, a, ok, table):
        """update the reference after an accepted operation; [table] = observed projection, used only to learn
        WHICH free slot a registration was given. Returns the set of slots allowed to differ from before."""
        if code == 8:
            self.throttle = False
            return set()
        if code == 9:
            return set()
        if not ok:
            if code == 1 and id_ok(a[0], self.idlen) and not any(x is None for x in self.slots) and not self.throttle:
                i = cstr(a[0], self.idlen + 1)
                if not (low(i) in (b"new", b"guest") or low(i) in self.reserved or self.find(a[0]) is not None):
                    self.throttle = True      # a clean-up was attempted and found nothing
            return set()
        k = self.find(a[0])
        if code == 1:
            touched = set()
            if not any(x is None for x in self.slots):
                self.throttle = True
                for s in self.reclaimable():
                    self.slots[s] = None
                    touched.add(s)
            i = cstr(a[0], self.idlen + 1)
            cand = [s for s, x in enumerate(self.slots) if x is None and table[s][0] == i]
            s = cand[0] if cand else [s for s, x in enumerate(self.slots) if x is None][0]
            self.slots[s] = {"id": i, "kb": genkb(a[1]), "email": cstr(a[2], self.emailsz), "old": False, "xempt": False}
            self.byid = None
            return touched | {s}
        if code == 2:
            self.slots[k]["old"] = False
        if code == 4:
            self.slots[k]["kb"] = genkb(a[2])
        if code == 5:
            self.slots[k]["email"] = cstr(a[1], self.emailsz)
        return {k} if code in (4, 5) else set()

    def projection(self, pwpool):
        out = []
        for a in self.slots:
            if a is None:
                out.append((b"", 0, b""))
            else:
                out.append((a["id"], sum(1 << i for i, p in enumerate(pwpool) if a["kb"] is not None and a["kb"] == kb(p)), a["email"]))
        return out


def parse_steps(line, nslots, npool):
    """-> list of (status tokens, payload bytes|None, table [(id, mask, email)], lookups, disagreeing uids) or None"""
    f = line.split()
    if not f or f[0] != "0":
        return None
    steps, i = [], 1
    while i < len(f):
        if f[i] != "-1":
            return None
        i += 1
        st = f[i]
        payload = None
        if st == "0":
            n = int(f[i + 1]); payload = bytes(int(x) for x in f[i + 2:i + 2 + n]); i += 2 + n; status = ("0",)
        elif st == "3":
            status = ("3", f[i + 1]); i += 2
        else:
            status = (st,); i += 1
        table = []
        for _ in range(nslots):
            n = int(f[i]); ident = bytes(int(x) for x in f[i + 1:i + 1 + n]); i += 1 + n
            m = int(f[i]); i += 1
            n = int(f[i]); em = bytes(int(x) for x in f[i + 1:i + 1 + n]); i += 1 + n
            table.append((ident, m, em))
        look = [int(x) for x in f[i:i + npool]]; i += npool
        dis = []
        if i < len(f) and f[i] == "-7":
            i += 1
            while i < len(f) and f[i] != "-1":
                dis.append(int(f[i])); i += 1
        steps.append((status, payload, table, look, dis))
    return steps


def parse_big(line, n, npool):
    """output of a case of op 2 -> [(status tokens, payload, table (dense, n entries), lookups, missing, extra, disagreeing)], the
    first entry being the observation after the load (status None)"""
    f = line.split()
    if not f or f[0] != "0":
        return None
    obs, i = [], 1
    first = True
    try:
        while i < len(f):
            status, payload = None, None
            if not first:
                if f[i] != "-1":
                    return None
                i += 1
                st = f[i]
                if st == "0":
                    k = int(f[i + 1]); payload = bytes(int(x) for x in f[i + 2:i + 2 + k]); i += 2 + k; status = ("0",)
                elif st == "3":
                    status = ("3", f[i + 1]); i += 2
                else:
                    status = (st,); i += 1
            first = False
            table = [(b"", 0, b"")] * n
            beyond = []
            cnt = int(f[i]); i += 1
            for _ in range(cnt):
                rec = int(f[i]); i += 1
                k = int(f[i]); ident = bytes(int(x) for x in f[i + 1:i + 1 + k]); i += 1 + k
                m = int(f[i]); i += 1
                k = int(f[i]); em = bytes(int(x) for x in f[i + 1:i + 1 + k]); i += 1 + k
                if 1 <= rec <= n:
                    table[rec - 1] = (ident, m, em)
                else:
                    beyond.append(rec)
            look = [int(x) for x in f[i:i + npool]]; i += npool
            if f[i] != "-5":
                return None
            i += 1
            lists = {"-5": [], "-6": [], "-7": []}
            cur = "-5"
            while i < len(f) and f[i] != "-1":
                if f[i] in ("-6", "-7"):
                    cur = f[i]
                else:
                    lists[cur].append(int(f[i]))
                i += 1
            obs.append((status, payload, table, look, lists["-5"], lists["-6"] + beyond, lists["-7"]))
    except (IndexError, ValueError):
        return None
    return obs


def main():
    c = vf.Check("C03")
    rng = c.rng
    thorough = c.tier == "thorough"
    c.prove()
    model_ok = c.model_ok()
    impl = vf.build_impl()
    impl_docker = vf.build_impl(tags="verif docker", name="implrun_docker")      # MAX_USERS = 2 000 000: the production constants
    model = vf.build_model("C03") if model_ok else None
    vf.ipc_cleanup()
    dk = vf.run_impl(impl_docker, "C03", ["8"])[0].split()
    DOCKER_MAX_USERS, PRE = int(dk[1]), int(dk[2])

    ek = vf.run_impl(impl, "C03", ["7"])[0].split()
    USHM, KEEP_DAYS, CLEAN_RANGE, REGGED_BITS = int(ek[1]), int(ek[2]), int(ek[3]), int(ek[4])
    if (KEEP_DAYS, REGGED_BITS) != (15, 0):
        c.violation("harness-constants", "KEEP_DAYS_UNREGGED=%d, PERM_DEFAULT&(LOGINOK|VIOLATELAW)=%d: Model/C03.v KEEP_MIN_UNREGGED assumes 15 days for the accounts of the harness" % (KEEP_DAYS, REGGED_BITS), {"cases": ["7"]})
    envl = vf.run_impl(impl, "C03", ["9"])[0].split()
    nslots, idlen, emailsz = int(envl[1]), int(envl[2]), int(envl[3])
    t, reserved = envl[4:], []
    while t:
        n = int(t[0]); reserved.append(bytes(int(x) for x in t[1:1 + n])); t = t[1 + n:]
    # the loader's list against the fixture file itself (first token of every line)
    want_res = [l.split()[0].encode() for l in open(os.path.join(vf.REPO, "ptt", "testcase", "etc", "reserved.id")).read().split("\n") if l.split()]
    if reserved != want_res:
        c.violation("reserved-id-loader", "etc/reserved.id holds %s but the server loaded %s" % (want_res, reserved), {"cases": ["9"], "expected": str(want_res), "got": str(reserved)})
    c.cov["reserved_ids"] = [r.decode() for r in reserved]

    NEW = [b"alice", b"bob12", b"Carol", b"dave", b"eve99", b"zq", b"abcdefghijkl", b"frank", b"grace", b"heidi", b"ivan", b"judy"]
    TWIN = [b"ALICE", b"Alice", b"BOB12", b"carol", b"sysop", b"GUEST", b"Guest", b"tEST1"]
    BADID = [b"a", b"abcdefghijklm", b"abcdefghijklmnop", b"1abc", b"ab!c", b"ab c", b"", b"al\0ice", b"\xa4\xa4ab", b"ab\xa4", b"_ab", b"ab-c"]
    SPECIAL = [b"new", b"NEW", b"New", b"guest"] + reserved + [r.upper() for r in reserved]
    OLD = [b"old%02d" % k for k in range(60)]
    PW = [b"123123", b"abcdefgh", b"abcdefghXYZ", b"abcdefgH", b"password", b"p\xe1ssword", b"pass\0word", b"pass", b"\0abc", b"\x80", b"Pass", b"x", b""]
    PW_ASCII = [p for p in PW if all(ch < 128 for ch in p)]
    EM = [b"a@example.com", b"x@example.org", b"", b"averyveryveryverylongmailboxname.with.many.parts@example.com", b"b@example.com"]

    def make_history(layer, shape):
        ascii_only = layer == 1
        pws = PW_ASCII if ascii_only else PW
        names_new = list(NEW)
        bad = [b for b in BADID if not ascii_only or (all(0 < ch < 128 for ch in b) and b)]
        # ---- initial table
        free = {"roomy": 10, "tight": rng.choice([1, 2, 3]), "full": 0, "full-old": 0}[shape]
        slots = []
        base = [(b"SYSOP", b"123123", b"sysop@example.com", True, False), (b"guest", b"", b"", True, False),
                (b"test1", b"123123", b"t1@example.com", False, False), (b"Kahou2", b"abcdefgh", b"", False, False),
                (b"xempt1", b"pass", b"", True, True)]
        slots += base
        nold = {"roomy": 3, "tight": 2, "full": 0, "full-old": rng.choice([1, 3, 8])}[shape]
        k = 0
        while len(slots) < nslots - free:
            old = k < nold
            slots.append((OLD[k], rng.choice([b"123123", b"pass", b""]), b"", old, False))
            k += 1
        rest = slots[2:]
        rng.shuffle(rest)
        slots = slots[:2] + rest + [(b"", b"", b"", False, False)] * free
        if shape == "full-old" and rng.random() < 0.5:
            slots[0], slots[1] = slots[1], slots[0]           # guest in slot 1, SYSOP elsewhere (and old: reclaimable)
        init = []
        for (i, pw, em, old, xe) in slots:
            # last login: long ago (1), just past the limit (7) / now (0), LATER than the clock reads (2: 5 s, 3: an hour, 4: 400 days), inside the keep period (5), a bit before the limit (6)
            age = rng.choice([1, 1, 7]) if old else (rng.choice([0, 0, 0, 2, 3, 4, 5, 6]) if i else 0)
            init += [i, pw, em, bytes([age, 1 if xe else 0])]
        known = {i: pw for (i, pw, em, old, xe) in slots if i}
        throttle = rng.random() < 0.25
        ops = gen_ops(shape, known, pws, bad, names_new, [i for i in known])
        if shape in ("full", "full-old", "tight") and layer == 0:
            # the clock is stepped back after accounts were used (their stamps are then later than the clock), an hour passes, the table is full
            total = 0
            for _ in range(rng.randint(0, 3)):
                d = rng.choice([1, 5, 60, 3600, 20000])
                if total + d <= 86400:
                    total += d
                    at = rng.randint(0, len(ops))
                    ops[at:at] = [(12, [d])] + ([(8, [])] if rng.random() < 0.6 else [])
        idpool = sorted(set(names_new + TWIN[:4] + [b"SYSOP", b"guest", b"test1", b"old00", b"old01", b"OLD02", b"xempt1"] + [b for b in bad if b][:4]))
        return {"layer": layer, "throttle": throttle, "pwpool": PW, "idpool": idpool, "init": init, "ops": ops, "shape": shape}

    def gen_ops(shape, known, pws, bad, names_new, existing):
        # ---- operations
        ops = []
        nops = rng.randint(15, 40)
        for _ in range(nops):
            r = rng.random()
            def some_name():
                q = rng.random()
                if q < 0.45 and existing:
                    n = rng.choice(existing)
                    return rng.choice([n, n, n.upper(), n.lower(), n.swapcase()])
                if q < 0.7:
                    return rng.choice(names_new + TWIN)
                if q < 0.85:
                    return rng.choice(bad)
                return rng.choice(SPECIAL)
            def pw_for(n):
                cur = known.get(n) or next((known[x] for x in known if low(x) == low(n)), None)
                if cur and rng.random() < 0.6:
                    return cur
                return rng.choice(pws)
            if r < 0.34 or (shape != "roomy" and r < 0.5):
                n = rng.choice(names_new + names_new + TWIN + bad + SPECIAL + existing[:3]) if rng.random() < 0.8 else some_name()
                pw = rng.choice(pws)
                ops.append((1, [n, pw, rng.choice(EM)]))
                if id_ok(n, idlen):
                    known.setdefault(cstr(n, idlen + 1), pw); existing.append(cstr(n, idlen + 1))
            elif r < 0.56:
                n = some_name(); ops.append((2, [n, pw_for(n)]))
            elif r < 0.66:
                n = some_name(); ops.append((3, [n, pw_for(n)]))
            elif r < 0.79:
                n = some_name(); new = rng.choice(pws)
                old = pw_for(n)
                ops.append((4, [n, old, new]))
                if rng.random() < 0.7:
                    known[cstr(n, idlen + 1)] = new          # a guess: the generator need not be right
            elif r < 0.87:
                ops.append((5, [some_name(), rng.choice(EM)]))
            elif r < 0.93:
                ops.append((6, [some_name()]))
            elif r < 0.97:
                ops.append((7, [some_name()]))
            else:
                ops.append((8, []))
        return ops

    def make_address_history():
        """MANY logins in one shared-memory lifetime: a handful of accounts, every login / registration from another client address"""
        h = make_history(0, "roomy")
        known = {h["init"][4 * k]: h["init"][4 * k + 1] for k in range(len(h["init"]) // 4) if h["init"][4 * k]}
        who = [b"test1", b"Kahou2", b"SYSOP", b"guest"][:rng.randint(1, 4)]
        rng.shuffle(who)
        fresh = list(NEW)
        rng.shuffle(fresh)
        ops, nadr = [], 0
        def adr():
            nonlocal nadr
            nadr += 1
            return b"10.%d.%d.%d" % (rng.randint(0, 250), nadr // 200, 1 + nadr % 200)
        for _ in range(rng.randint(USHM + 12, USHM + 30)):
            r = rng.random()
            if r < 0.72:
                n = rng.choice(who)
                ops.append((10, [rng.choice([n, n, n.swapcase()]), known[n] if rng.random() < 0.9 else rng.choice(PW), adr()]))
            elif r < 0.8 and fresh and len(who) < 9:
                n = fresh.pop()
                pw = rng.choice([b"123123", b"abcdefgh", b"pass"])
                ops.append((11, [n, pw, rng.choice(EM), adr()]))
                known[n] = pw; who.append(n)
            elif r < 0.86:
                n = rng.choice(who)
                new = rng.choice([b"123123", b"abcdefgh", b"pass", b"password"])
                ops.append((4, [n, known[n], new])); known[n] = new if n != b"guest" else known[n]
            elif r < 0.93:
                ops.append((rng.choice([2, 3]), [rng.choice(who), rng.choice(PW)]))
            else:
                ops.append((6, [rng.choice(who + TWIN)]))
        return dict(h, ops=ops, shape="many-addresses", throttle=False)

    def line_of(h):
        if "n" in h:
            return "2|%d %d|%s|%s|%s|%s|%s|%s" % (h["layer"], 1 if h["throttle"] else 0, enc(h["pwpool"]), enc(h["idpool"]), enc(reserved),
                                                 " ".join(str(x) for x in [h["n"]] + h["pos"]), enc(h["sparse"]),
                                                 "|".join(("%d %s" % (code, enc(a))).strip() for code, a in h["ops"]))
        return "1|%d %d|%s|%s|%s|%s|%s" % (h["layer"], 1 if h["throttle"] else 0, enc(h["pwpool"]), enc(h["idpool"]), enc(reserved), enc(h["init"]),
                                           "|".join(("12 %d" % a[0]) if code == 12 else ("%d %s" % (code, enc(a))).strip() for code, a in h["ops"]))

    # ---- ids with bytes >= 0x80 (Big5 / Latin-1 text typed into the id field): every high byte value at every position of an
    # otherwise well-formed id, and ids with several of them. None is a user id: each request naming one must be refused and
    # leave the table as it is.
    def high_byte_ids():
        ids = []
        tmpl = b"Ab3dE6gHi9kL"
        for ln in (range(2, 13) if thorough else (2, 5, 12)):
            for pos in range(ln):
                for b in range(128, 256):
                    ids.append(tmpl[:pos] + bytes([b]) + tmpl[pos + 1:ln])
        ids += [b"A\xc0s\xaaL", b"B\xe9\xe8\xe7", b"\xc0bc1", b"Abc12\xff", b"Ab\xaa\xb5\xba", b"Abcdefghijk\xd8", b"\xa4\xa4\xa4\xe5", b"\xe9\xe8", b"\xff\xff\xff\xff\xff\xff\xff\xff\xff\xff\xff\xff"]
        for _ in range(400 if thorough else 80):
            ln = rng.randint(2, 12)
            i = bytearray(tmpl[:ln])
            for pos in rng.sample(range(ln), rng.randint(2, ln)):
                i[pos] = rng.randint(128, 255)
            ids.append(bytes(i))
        return ids

    def make_sweep_history(ids, k):
        h = make_history(0, "roomy")
        ops = []
        for j, i in enumerate(ids):
            ops.append((1, [i, b"123123", b"a@example.com"]))
            other = (2, 3, 4, 5, 6, 7)[(j + k) % 6]
            ops.append((other, {2: [i, b"123123"], 3: [i, b"123123"], 4: [i, b"123123", b"pass"], 5: [i, b"x@example.org"], 6: [i], 7: [i]}[other]))
        return dict(h, ops=ops, pwpool=[b"123123", b"pass"], idpool=sorted(set(ids))[::5] + [b"SYSOP", b"test1"], shape="high-byte-ids", throttle=False)

    # ---- tables of the production build: files of n records with more than PRE_ALLOCATED_USERS free records in front of live accounts
    LATE = [b"late%02d" % k for k in range(40)] + [b"LateUser1", b"Zed9", b"qq"]

    def make_big_history(layer, shape):
        ascii_only = layer == 1
        pws = PW_ASCII if ascii_only else PW
        bad = [b for b in BADID if not ascii_only or (all(0 < ch < 128 for ch in b) and b)]
        base = [(b"SYSOP", b"123123", b"sysop@example.com", True, False), (b"guest", b"", b"", True, False),
                (b"test1", b"123123", b"t1@example.com", False, False), (b"Kahou2", b"abcdefgh", b"", False, False),
                (b"xempt1", b"pass", b"", True, True)]
        names = list(LATE)
        rng.shuffle(names)
        def acct():
            return (names.pop(), rng.choice([b"123123", b"pass", b"abcdefgh"]), rng.choice([b"", b"l@example.com"]), rng.random() < 0.3, False)
        placed = {k: a for k, a in enumerate(base)}
        late = []
        if shape == "behind-free":
            at = len(base)
            for _ in range(rng.randint(0, 5)):
                placed[at] = acct(); at += 1
            at += rng.choice([PRE - 1, PRE, PRE + 1, PRE + 1, PRE + 2, PRE + 9, PRE + 120, PRE + 600])
            for _ in range(rng.randint(2, 6)):
                placed[at] = acct(); late.append(placed[at][0]); at += 1
                if rng.random() < 0.3:
                    at += rng.randint(1, 40)
            at += rng.choice([0, 0, 3, 60])
            for _ in range(rng.randint(0, 3)):
                placed[at] = acct(); late.append(placed[at][0]); at += 1
            n = at
        elif shape == "sprinkled":
            n = rng.randint(PRE + 100, PRE + 900)
            for k in sorted(rng.sample(range(len(base), n), rng.randint(8, 20))):
                placed[k] = acct()
                if k > PRE:
                    late.append(placed[k][0])
        else:                                   # "few-free": at most PRE_ALLOCATED_USERS free records in the whole file
            n = rng.randint(120, PRE)
            for k in sorted(rng.sample(range(len(base), n), rng.randint(4, 12))):
                placed[k] = acct()
                late.append(placed[k][0])
        pos = sorted(placed)
        sparse = []
        for k in pos:
            i, pw, em, old, xe = placed[k]
            sparse += [i, pw, em, bytes([1 if old else 0, 1 if xe else 0])]
        known = {a[0]: a[1] for a in placed.values()}
        rng.shuffle(late)
        existing = late + late + [a[0] for a in placed.values()]
        ops = gen_ops("roomy", known, pws, bad, list(NEW), existing)
        ops = [((9, []) if code == 8 and rng.random() < 0.7 else (code, a)) for code, a in ops]
        ops.insert(rng.randint(0, len(ops)), (9, []))
        if late:                                # each history asks for an account behind the free records at least once, in every way
            who = late[0]
            ops[2:2] = [(6, [who.swapcase()]), (2, [who.lower(), known[who]]), (1, [who.upper(), b"123123", b""]), (3, [who, known[who]])]
        idpool = sorted(set(NEW[:6] + TWIN[:2] + [a[0] for a in placed.values()] + [x.swapcase() for x in late[:3]] + [b for b in bad if b][:3]))
        init = []
        for k in range(n):
            init += list(sparse[4 * pos.index(k):4 * pos.index(k) + 4]) if k in placed else [b"", b"", b"", b"\0\0"]
        return {"layer": layer, "throttle": False, "pwpool": PW, "idpool": idpool, "init": init, "ops": ops, "shape": shape,
                "n": n, "pos": pos, "sparse": sparse, "late": late, "free_before_last": sum(1 for k in range(max(pos)) if k not in placed),
                "deep": [placed[k][0] for j, k in enumerate(pos) if k - j > PRE]}      # accounts with more than PRE free records in front of them

    hs = []
    # the full table with expired accounts first (DESIGN section 6, row 19)
    h0 = make_history(0, "full-old")
    h0["throttle"] = False
    h0["ops"] = [(1, [b"alice", b"123123", b"a@example.com"]), (6, [b"old00"]), (2, [b"alice", b"123123"]), (1, [b"bob12", b"pass", b""])] + h0["ops"][:10]
    hs.append(h0)
    nh = 4000 if thorough else 400
    for k in range(nh):
        hs.append(make_history(1 if k % 5 == 4 else 0, rng.choice(["roomy", "roomy", "tight", "tight", "full", "full-old", "full-old"])))
    nadr = 60 if thorough else 8
    for k in range(nadr):
        hs.append(make_address_history())
    hb = high_byte_ids()
    c.cov["exhaustive_parts"].append("every byte value 0x80..0xFF at every position of an otherwise well-formed id of length %s: register + one other request each (%d ids, %d more with several such bytes)"
                                     % ("2..12" if thorough else "2, 5, 12", 128 * sum(range(2, 13) if thorough else (2, 5, 12)), len(hb) - 128 * sum(range(2, 13) if thorough else (2, 5, 12))))
    per = 40
    for k in range(0, len(hb), per):
        hs.append(make_sweep_history(hb[k:k + per], k // per))
    nsweep = len(range(0, len(hb), per))
    nbig = 400 if thorough else 36
    bigs = [make_big_history(1 if k % 6 == 5 else 0, ["behind-free", "behind-free", "behind-free", "sprinkled", "sprinkled", "few-free"][k % 6] if k >= 2 else "behind-free") for k in range(nbig)]
    lines = [line_of(h) for h in hs]
    blines = [line_of(h) for h in bigs]
    par = 6
    def run_par(exe, lns):
        chunks = [lns[i::par] for i in range(par)]
        with concurrent.futures.ThreadPoolExecutor(par) as ex:
            outs = list(ex.map(lambda ch: vf.run_impl(exe, "C03", ch, deadline_ms=120000) if ch else [], chunks))
        res = [None] * len(lns)
        for k, ch in enumerate(outs):
            for j, o in enumerate(ch):
                res[k + par * j] = o
        return res
    import time
    tm = [time.time()]
    def lap(what):
        tm.append(time.time())
        if os.environ.get("VERIF_TIMING"):
            sys.stderr.write("%-40s %.1fs\n" % (what, tm[-1] - tm[-2]))
    io = run_par(impl, lines[:len(lines) - nsweep])
    lap("impl: histories")
    io += run_par(impl, lines[len(lines) - nsweep:])
    lap("impl: high-byte sweep")
    vf.ipc_cleanup()
    bio = run_par(impl_docker, blines)
    lap("impl: docker tables")
    vf.ipc_cleanup()
    if model:
        mo = vf.run_model(model, lines)
        vf.correspond(c, "histories through bbs.* / api handlers vs Model/C03 (results, projected .PASSWDS, index answers after every step)", lines, io, mo,
                      describe=lambda cs: "first differing step is found by ./check C03 --replay")
        lap("model: histories + sweep")
        bmo = vf.run_model(model, blines)
        lap("model: docker tables")
        vf.correspond(c, "production build (-tags docker, MAX_USERS=%d): histories on files of up to %d records with more than PRE_ALLOCATED_USERS=%d free records in front of live accounts vs Model/C03 "
                         "(results, non-empty records, index answers, records the index leaves out, after the load and after every step)" % (DOCKER_MAX_USERS, max(h["n"] for h in bigs), PRE),
                      blines, bio, bmo, describe=lambda cs: "run the case with build/implrun_docker C03 and build/C03/modelrun")
    nops = 0
    opmix, classes = {}, {}
    # accounts whose stored hash is the all-zero one (empty or NUL-leading password): they exist and nobody can log in
    lock = {"registered with the empty password": 0, "registered with a NUL-leading password": 0, "password changed to empty/NUL-leading": 0,
            "login/check/change refused on such an account although the password it was given is presented": 0}
    HOWBIG = "cd go/impl && go build -tags 'verif docker' -o ../../build/implrun_docker ./cmd/implrun; echo '<case>' | build/implrun_docker C03 -deadline 120000   (./check --replay uses the default build, whose 50-record table cannot hold this file)"
    bigcov = {"accounts behind more than PRE_ALLOCATED_USERS free records": 0, "requests naming such an account": 0, "index rebuilt on the running server": 0,
              "largest number of free records in front of an account": 0, "observations with records left out of the index": 0}

    cov_adr = {"largest number of logins / registrations in one shared-memory lifetime": 0, "largest number of distinct (account, client address) pairs logged in within one history": 0,
               "largest number of distinct accounts logged in within one history": 0}
    cov_clock = {"steps back of the clock": 0, "registrations on a full table after the clock was stepped back: accepted": 0, "registrations on a full table after the clock was stepped back: refused": 0,
                 "initial accounts whose last-login stamp is later than the clock": sum(1 for h in hs for k in range(len(h["init"]) // 4) if h["init"][4 * k] and h["init"][4 * k + 3][0] in (2, 3, 4))}

    def judge(h, steps, ns):
        """the direct predicates, step by step; steps = [(status, payload, table, lookups, disagreeing, missing, extra)]"""
        nonlocal nops
        big = "n" in h
        ref = Ref(h["init"], ns, reserved, h["throttle"], idlen, emailsz, h["layer"])
        online, adrs, stepped, seen = set(), set(), [False], [0]
        for si, ((code, a), (status, payload, table, look, dis, miss, extra)) in enumerate(zip([(0, [])] * (1 if big else 0) + h["ops"], steps)):
            loadstep = big and si == 0
            sn = si if big else si + 1
            name = "load" if loadstep else OPN[code]
            if loadstep:
                status = ("0",)
            else:
                nops += 1
                opmix[name] = opmix.get(name, 0) + 1
            where = "%s %s%s of a %s history (layer %d%s)" % ("after" if loadstep else "step %d" % sn, "the index was built from .PASSWDS" if loadstep else name, "" if loadstep else show(a), h["shape"], h["layer"],
                                                          ", -tags docker, %d records, %d free ones in front of the last account" % (h["n"], h["free_before_last"]) if big else "")
            rep = {"cases": [line_of(dict(h, ops=h["ops"][:sn]))], "got": " ".join(status), "step": sn}
            if big:
                rep["build"] = HOWBIG
            if status[0] in ("1", "2"):
                c.violation("%s-crash" % name, "%s: the server %s" % (where, "panicked" if status[0] == "1" else "did not answer"), rep)
                break
            if not loadstep:
                addressed = code in (10, 11)
                code, a = norm(code, a)
                ok_exp, pay_exp = ref.expect(code, a)
                ok_got = status[0] == "0"
                classes[(name, ok_got)] = classes.get((name, ok_got), 0) + 1
                if big and code not in (8, 9) and any(low(cstr(a[0], idlen + 1)) == low(x) for x in h["deep"]):
                    bigcov["requests naming such an account"] += 1
                if code == 9:
                    bigcov["index rebuilt on the running server"] += 1
                if ok_got != ok_exp:
                    if addressed and not ok_got and status == ("3", "7"):
                        seen[0] = max(seen[0], sum(1 for (cc, aa) in h["ops"][:sn] if cc in (10, 11)))
                        key = "%s-no-online-entry" % name
                        desc = ("%s: refused with 'unable to get new utmp' although only %d accounts have logged in since the shared memory was set up (the on-line table has %d entries, one per account): "
                                "%d logins / registrations from pairwise different client addresses came before" % (where, len(online), USHM, sum(1 for (cc, aa) in h["ops"][:sn - 1] if cc in (10, 11))))
                    elif code == 1 and not ok_got and not any(x is None for x in ref.slots):
                        key = "register-full-table-expired-accounts"
                        desc = "%s: refused (%s) although %d expired accounts could be reclaimed; afterwards uids %s are empty in .PASSWDS but still in the index" % (where, " ".join(status), len(ref.reclaimable()), dis[:8])
                    else:
                        key = "%s-%s-wrongly" % (name, "accepted" if ok_got else "refused")
                        desc = "%s: %s, the account table says it must be %s" % (where, "accepted" if ok_got else "refused (%s)" % " ".join(status), "accepted" if ok_exp else "refused")
                    c.violation(key, desc, dict(rep, expected="accepted" if ok_exp else "refused"))
                    break
                if ok_got and code == 1 and genkb(a[1]) is None:
                    lock["registered with the empty password" if a[1] == b"" else "registered with a NUL-leading password"] += 1
                if ok_got and code == 4 and genkb(a[2]) is None:
                    lock["password changed to empty/NUL-leading"] += 1
                if not ok_got and code in (2, 3, 4) and id_ok(a[0], idlen) and genkb(a[1]) is None:
                    kk = ref.find(a[0])
                    if kk is not None and ref.slots[kk]["kb"] is None and ref.slots[kk]["id"] != b"guest":
                        lock["login/check/change refused on such an account although the password it was given is presented"] += 1
                if ok_got and pay_exp is not None and payload != pay_exp:
                    c.violation("%s-answer" % name, "%s: answered %r, expected %r" % (where, payload, pay_exp), dict(rep, expected=repr(pay_exp)))
                    break
                if ok_got and code in (1, 2):
                    online.add(low(cstr(a[0], idlen + 1)))
                    cov_adr["largest number of logins / registrations in one shared-memory lifetime"] = max(cov_adr["largest number of logins / registrations in one shared-memory lifetime"], sum(1 for (cc, aa) in h["ops"][:sn] if cc in (1, 2, 10, 11)))
                    if addressed:
                        adrs.add((low(cstr(a[0], idlen + 1)), h["ops"][sn - 1][1][-1]))
                        cov_adr["largest number of distinct (account, client address) pairs logged in within one history"] = max(cov_adr["largest number of distinct (account, client address) pairs logged in within one history"], len(adrs))
                    cov_adr["largest number of distinct accounts logged in within one history"] = max(cov_adr["largest number of distinct accounts logged in within one history"], len(online))
                if name == "clock-stepped-back":
                    cov_clock["steps back of the clock"] += 1
                    stepped[0] = True
                if stepped[0] and code == 1 and not any(x is None for x in ref.slots) and id_ok(a[0], idlen):
                    cov_clock["registrations on a full table after the clock was stepped back: %s" % ("accepted" if ok_got else "refused")] += 1
                allowed = ref.apply(code, a, ok_got, table)
            else:
                ok_got, allowed = True, set()
            after = ref.projection(h["pwpool"])
            if table != after:
                d = [(k + 1, after[k], table[k]) for k in range(ns) if table[k] != after[k]]
                outside = [x for x in d if x[0] - 1 not in allowed]
                key = "%s-%s" % (name, "changes-other-slot" if outside else "slot-content")
                if not ok_got:
                    key = "%s-refused-but-table-changed" % name
                c.violation(key, "%s: .PASSWDS differs from the account table in (uid, expected (id, verifying passwords, e-mail), found): %s" % (where, d[:4]), dict(rep, expected=str(d[:4])))
                break
            if big:
                # every account of the file is in the index, wherever it is stored (the loader may leave out free records only)
                lost = [(k, ref.slots[k - 1]["id"].decode("latin-1")) for k in miss if 1 <= k <= ns and ref.slots[k - 1] is not None]
                if lost:
                    c.violation("account-not-in-index", "%s: the user-id index does not hold the accounts (uid, id) %s of .PASSWDS (%d records are left out; only free ones may be): they cannot be looked up, cannot log in, and their ids can be registered again"
                                % (where, lost[:6], len(miss)), dict(rep, expected="every non-empty record of .PASSWDS is reached by a hash chain", got=str(lost[:20])))
                    break
                if extra:
                    c.violation("index-beyond-file", "%s: the index / the file hold uids beyond the %d records of the table: %s" % (where, ns, extra[:8]), rep)
                    break
                if miss:
                    bigcov["observations with records left out of the index"] += 1
            if dis:
                c.violation("index-file-disagree", "%s: SHM index and .PASSWDS hold different ids for uids %s" % (where, dis[:8]), rep)
                break
            want_look = [(lambda k: 0 if k is None else k + 1)(ref.find(n) if cstr(n, idlen + 1) else None) for n in h["idpool"]]
            if look != want_look:
                d = [(n.decode("latin-1"), w, g) for n, w, g in zip(h["idpool"], want_look, look) if w != g]
                c.violation("index-lookup", "%s: the index answers (name, expected uid, got): %s" % (where, d[:5]), rep)
                break

    for h, line, o in zip(hs, lines, io):
        steps = parse_steps(o, nslots, len(h["idpool"]))
        if steps is None or len(steps) != len(h["ops"]):
            c.violation("history-aborted", "the history did not run to its end (status %s): shape=%s layer=%d" % (o.split()[:2], h["shape"], h["layer"]), {"cases": [line], "got": o[:4000]})
            continue
        judge(h, [(st, pay, tab, look, dis, [], []) for (st, pay, tab, look, dis) in steps], nslots)
        c.nontrivial((h["shape"], h["layer"], tuple((code, tuple(a)) for code, a in h["ops"])))
    for h, line, o in zip(bigs, blines, bio):
        steps = parse_big(o, h["n"], len(h["idpool"]))
        if steps is None or len(steps) != len(h["ops"]) + 1:
            c.violation("history-aborted", "the history did not run to its end (status %s): shape=%s layer=%d, -tags docker" % (o.split()[:2], h["shape"], h["layer"]), {"cases": [line], "got": o[:4000], "build": HOWBIG})
            continue
        judge(h, [(st, pay, tab, look, dis, miss, extra) for (st, pay, tab, look, miss, extra, dis) in steps], h["n"])
        bigcov["accounts behind more than PRE_ALLOCATED_USERS free records"] += len(h["deep"])
        bigcov["largest number of free records in front of an account"] = max(bigcov["largest number of free records in front of an account"], h["free_before_last"])
        c.nontrivial((h["shape"], h["layer"], h["n"], tuple(h["pos"]), tuple((code, tuple(a)) for code, a in h["ops"])))
    lap("predicates")
    c.count(len(bigs), "histories on production-build tables")
    c.cov["production_build_tables"] = bigcov
    c.cov["distribution"].update({"docker-shape:" + s: sum(1 for h in bigs if h["shape"] == s) for s in ("behind-free", "sprinkled", "few-free")})
    c.count(len(hs), "histories")
    c.cov["operations"] = nops
    c.cov["distribution"].update({"op:" + k: v for k, v in sorted(opmix.items())})
    c.cov["result_classes"] = {"%s:%s" % (k[0], "accepted" if k[1] else "refused"): v for k, v in sorted(classes.items())}
    c.cov["distribution"].update({"shape:" + s: sum(1 for h in hs if h["shape"] == s) for s in ("roomy", "tight", "full", "full-old", "many-addresses")})
    c.cov["zero_hash_accounts"] = lock
    c.cov["online_table"] = dict(cov_adr, USHM_SIZE=USHM)
    c.cov["clock"] = cov_clock
    c.cov["distribution"]["through api handlers"] = sum(1 for h in hs if h["layer"] == 1)
    c.sample({"history": [(OPN[code], show(a)) for code, a in hs[0]["ops"][:6]], "shape": hs[0]["shape"], "observed_results": [" ".join(s[0]) for s in (parse_steps(io[0], nslots, len(hs[0]["idpool"])) or [])[:6]]})
    c.sample({"history": [(OPN[code], show(a)) for code, a in hs[5]["ops"][:8]], "shape": hs[5]["shape"], "layer": hs[5]["layer"],
              "observed_results": [" ".join(s[0]) for s in (parse_steps(io[5], nslots, len(hs[5]["idpool"])) or [])[:8]]})
    c.finish(rule="PRNG(seed)-generated histories of 15-40 operations over an id pool (valid, too short/long, leading digit, symbols, NUL inside, non-ASCII, case twins, new/guest, the reserved ids of the fixture) "
                  "and a password pool (shared 8-byte prefixes, bit-7 twins, NUL inside, NUL first, zero length, key block zero) on %d-slot tables that are roomy / tight / full / full with expired accounts; one history in five through the gin handlers; "
                  "initial accounts with last-login stamps later than the clock and near the expiry limit, steps back of the clock (1 s .. 20000 s) inside tight / full histories; "
                  "plus 'many-addresses' histories of USHM_SIZE+12 .. USHM_SIZE+30 operations in one shared-memory lifetime in which every login / registration comes from a client address not used before; "
                  "plus, complete for its domain, every byte value 0x80..0xFF at every position of otherwise well-formed ids (register + one other request each, see exhaustive_parts); "
                  "plus histories of the same kind on the production build (-tags docker, MAX_USERS=%d) over files of a few thousand records in which accounts sit behind PRE_ALLOCATED_USERS-1 / exactly / +1 / +2 / +9 / +120 / +600 free records, are sprinkled over such a file, "
                  "or (control) the file has at most PRE_ALLOCATED_USERS free records, with requests for those accounts in every letter case, re-registration of their ids and rebuilds of the index on the running server; "
                  "a history is distinct by (shape, layer, table, operation list); each operation is one evaluation of the predicates" % (nslots, DOCKER_MAX_USERS),
             assumptions=["passwords are compared through their DES key block (first 8 bytes up to NUL, low 7 bits): crypt(3) sees nothing else (C02); that two different key blocks never verify each other's hash is C02's cryptographic assumption",
                          "fewer than USHM_SIZE (31) distinct ACCOUNTS log in during one shared-memory lifetime (= one history); the number of logins and of client addresses is not limited (many-addresses histories: more than USHM_SIZE logins, each from a new address); "
                          "that one entry per account suffices is a theorem about the model's on-line table (C03_utmp_never_full), that the server's table behaves like it is validated by these histories, on the default build only (the 524 entries of the production build are not filled); home/<c>/ parents exist",
                          "'the account's current password' is read as: the password last given to Register/ChangePasswd when it is non-empty as a C string; for a zero-length or NUL-leading one cmbbs.GenPasswd stores the all-zero hash (repaired under C02: it used to panic on zero length) and, as in pttbbs, nothing verifies against it - such an account exists, keeps its id taken, and cannot log in or change its password (counted under coverage.zero_hash_accounts)",
                          "operations are sequential (concurrent registrations are C15's subject); the clock enters through the .fresh throttle and now - LastLogin of each account; "
                          "the process cannot move the real clock: initial accounts get stamps on either side of it (5 s / 1 h / 400 days later; now; 14 days, limit -2 days, limit +2 days, 5 years earlier) and 'the clock is stepped back by d' moves every LastLogin of .PASSWDS and the mtime of .fresh ahead by d, "
                          "which is the same to code that only forms now - stamp. Theorem: the model's expiry rule for ages of either sign (C03_expired_exact, C03_stamp_ahead_never_expires, C03_clock_back_keeps_unexpired); validated: that the server computes that rule (accounts are PERM_DEFAULT: KEEP_DAYS_UNREGGED; differences beyond the int32 range of Time4 are not generated)",
                          "production build: .PASSWDS is as long as its records (up to about 2600 of the 2 000 000; fillUHash reads to the end of the file) - a 1 GB file is not written; fewer registrations per history than free records in the index, "
                          "so the clean-up of a full 2 000 000-slot table (tryCleanUser) is not exercised on that build; the free records are all-zero records (no garbage ids)"])


if __name__ == "__main__":
    main()
