#!/usr/bin/env python3
"""C18 — byte-string primitives: proofs in coq/Props/C18.v; exhaustive + random correspondence of the extracted
model with types/cmsys/cmbbs/ptt helpers; direct predicates against references written here (strcmp, strcasecmp,
strstr, FNV-1a, line splitting, an ANSI tokeniser, DBCS parity) and "status is never crash/hang"."""
import itertools, os, sys
sys.path.insert(0, os.path.join(os.path.dirname(os.path.abspath(__file__)), "..", "lib"))
import vf

ESC = 27
ALPHA = [0, ord('a'), ord('A'), ord('b'), ord('1'), ord(';'), ord('m'), ord('H'), ord('['), ESC, 32, 10, 13, 0x80, 0xA4, 0xFE]
PAIR_ALPHA_Q = [0, ord('a'), ord('A'), ord('b'), 0x80]
PAIR_ALPHA_T = [0, ord('a'), ord('A'), ord('b'), ord('Z'), 0x80, 0xFE]
PARAMS = b"0123456789;="
CMDS = b"ABCDHIJKfhlmsu"
MOVE_CODE = b"0123456789;,["
MOVE_CMD = b"ABCDfjHJRu"
FNV32_INIT, FNV32_PRIME = 33554467, 0x01000193
FNV64_INIT, FNV64_PRIME = 0xcbf29ce484222325, 0x100000001b3
HASH_BITS = 16
TITLE_SZ = 65
LEGACY_FW = bytes([0x5b, 0xc2, 0xe0, 0xbf, 0xfd, 0x5d])


def toks(bs):
    return " ".join(map(str, bs))


def strings_upto(alpha, n):
    out = [()]
    for k in range(1, n + 1):
        out.extend(itertools.product(alpha, repeat=k))
    return out


# ------------------------------------------------------------------ references (written from the C semantics)
def cprefix(s):
    s = list(s)
    return s[:s.index(0)] if 0 in s else s


def lower(c):
    return c + 32 if 65 <= c <= 90 else c


def upper(c):
    return c - 32 if 97 <= c <= 122 else c


def sgn(x):
    return (x > 0) - (x < 0)


def ref_strcmp(a, b):           # on NUL-free lists, unsigned char comparison
    for x, y in zip(a, b):
        if x != y:
            return x - y
    if len(a) == len(b):
        return 0
    return a[len(b)] if len(a) > len(b) else -b[len(a)]


def ref_strstr(h, n):
    if not n:
        return 0
    for i in range(len(h) - len(n) + 1):
        if h[i:i + len(n)] == n:
            return i
    return -1


def ref_fnv1a(bs, init, prime, mask, f=lambda c: c):
    h = init
    for c in bs:
        h ^= f(c)
        h = (h * prime) & mask
    return h


def ref_fnv1(bs, init, prime, mask):
    h = init
    for c in bs:
        h = (h * prime) & mask
        h ^= c
    return h


def ref_fnv1a_dbcs(bs, init, prime, mask):
    h, dbcs = init, False
    for c in bs:
        if dbcs:
            dbcs = False
        elif c < 0x80:
            c = upper(c)
        else:
            dbcs = True
        h ^= c
        h = (h * prime) & mask
    return h


def ref_lines(s):
    def strip_cr(l):
        return l[:-1] if l and l[-1] == 13 else l
    lines, cur, pending = [], [], False
    for c in s:
        pending = True
        if c == 10:
            lines.append(strip_cr(cur)); cur = []; pending = False
        else:
            cur.append(c)
    if pending:
        lines.append(strip_cr(cur))
    return lines


def ref_readline_events(ev, ncalls):
    """types.ReadLine called ncalls times over bufio.Reader.ReadBytes('\\n') on an event stream: a byte (< 256) or a read
    error 256+code handed out once (code 0 = io.EOF), io.EOF for ever after the last event.
    Result: ('L', line) for (line, nil), ('E', code) for (nil, err)."""
    out, pos = [], 0
    for _ in range(ncalls):
        buf, err = [], None
        while True:
            if pos >= len(ev):
                err = 0
                break
            x = ev[pos]
            pos += 1
            if x >= 256:
                err = x - 256
                break
            buf.append(x)
            if x == 10:
                break
        if err not in (None, 0):
            out.append(('E', err))             # the bytes read before a real error are not a line
        elif not buf:
            out.append(('E', 0))
        else:
            if buf[-1] == 10:
                buf = buf[:-1]
            if buf and buf[-1] == 13:
                buf = buf[:-1]
            out.append(('L', buf))
    return out


def caller_view(ev):
    """what a caller looping on err == nil must see on a stream without io.EOF events in the middle: the COMPLETE lines
    in front of the first read error and that error; without a read error all lines and io.EOF.
    Computed from the data alone (no simulation of the calls)."""
    errs = [i for i, x in enumerate(ev) if x >= 256]
    if not errs:
        return ref_lines(ev), 0
    pre = ev[:errs[0]]
    whole = pre[:len(pre) - pre[::-1].index(10)] if 10 in pre else []
    return ref_lines(whole), ev[errs[0]] - 256


def parse_rl_events(r):
    """driver answer of op 26 -> list of ('L', line) | ('E', code) | ('LE', line, code)"""
    out, i = [], 2
    while i < len(r):
        k = r[i]
        if k == 0:
            n = r[i + 1]; out.append(('L', r[i + 2:i + 2 + n])); i += 2 + n
        elif k == 1:
            out.append(('E', r[i + 1])); i += 2
        else:
            n = r[i + 1]; out.append(('LE', r[i + 2:i + 2 + n], r[i + 2 + n])); i += 3 + n
    return out


SPACE = [32, 9, 10, 13]                            # ptttype.BYTES_SPACE


def ref_find_record(content, key):
    """1-based number of the first line whose first token equals the key under strcasecmp (NUL-terminated prefixes);
    the token is what cmsys.tokenize cuts: up to the LAST separator byte of the line, the whole line without one"""
    k = [lower(x) for x in cprefix(key)]
    for i, l in enumerate(ref_lines(content)):
        seps = [j for j, x in enumerate(l) if x in SPACE]
        first = l[:seps[-1]] if seps else l
        if [lower(x) for x in cprefix(first)] == k:
            return i + 1
    return 0


def ref_strip_ansi(s, flag):
    """tokenise: text byte | ESC [ params cmd | ESC x | truncated; keep per mode"""
    out, i, n = [], 0, len(s)
    while i < n:
        c = s[i]
        if c == 0:
            break
        if c != ESC:
            out.append(c); i += 1; continue
        if i == n - 1:
            break
        if s[i + 1] != ord('['):
            if s[i + 1] == 0:
                break
            i += 2; continue
        j = i + 2
        while j < n and s[j] in PARAMS:
            j += 1
        if j == n:
            break                                     # truncated sequence: nothing of it survives
        cmd = s[j]
        if (flag == 2 and cmd in CMDS) or (flag == 1 and cmd == ord('m')):
            out.extend(s[i:j + 1])
        if cmd == 0:
            break
        i = j + 1
    return out


def csi_wellformed(out, flag):
    """every ESC of the output starts a complete sequence the mode allows"""
    i = 0
    while i < len(out):
        if out[i] == ESC:
            if flag == 0 or i + 1 >= len(out) or out[i + 1] != ord('['):
                return False
            j = i + 2
            while j < len(out) and out[j] in PARAMS:
                j += 1
            if j >= len(out):
                return False
            if not ((flag == 2 and out[j] in CMDS) or (flag == 1 and out[j] == ord('m'))):
                return False
            i = j + 1
        else:
            i += 1
    return True


def dbcs_status(s, pos):
    """0 ascii, 1 leading, 2 trailing — of byte min(pos, len-1); 0 for pos < 0 or empty input"""
    st = 0
    for i, c in enumerate(s):
        if i > pos:
            break
        st = 2 if st == 1 else (1 if c >= 0x80 else 0)
    return st


def ref_none_big5(s):
    out, i = [], 0
    s = cprefix(s) + ([0] if 0 in s else [])
    n = len(s)
    while i < n and s[i] != 0:
        c = s[i]
        if 32 <= c < 128:
            out.append(c)
        elif c >= 0x80 and i + 1 < n and (0x40 <= s[i + 1] <= 0x7e or 0xa1 <= s[i + 1] <= 0xfe):
            out += [c, s[i + 1]]; i += 1
        i += 1
    return out


def big5_units_ok(out):
    i = 0
    while i < len(out):
        c = out[i]
        if 32 <= c < 128:
            i += 1
        elif c >= 0x80 and i + 1 < len(out) and (0x40 <= out[i + 1] <= 0x7e or 0xa1 <= out[i + 1] <= 0xfe):
            i += 2
        else:
            return False
    return True


def ref_movecmd(s):
    out, i, n = list(s), 0, len(s)
    while True:
        while i < n and out[i] != ESC:
            i += 1
        if i >= n:
            break
        i += 1
        while i < n and out[i] in MOVE_CODE:
            i += 1
        if i >= n:
            break
        if out[i] in MOVE_CMD:
            out[i] = ord('s')
    return out


def ref_token_r(a, sep):
    a = list(a)
    m = len(cprefix(a))
    for i, c in enumerate(a[:m]):
        if c in sep:
            m = i
            break
    return a[:m], a[m + 1:]


def main():
    c = vf.Check("C18")
    rng = c.rng
    thorough = c.tier == "thorough"
    c.prove()
    model_ok = c.model_ok()
    impl = vf.build_impl()
    model = vf.build_model("C18") if model_ok else None

    xcheck = []                                    # (case line, extracted model's output) pairs re-evaluated inside Coq

    def both(lines, label, deadline_ms=2000):
        io = vf.run_impl(impl, "C18", lines, deadline_ms=deadline_ms)
        for i, o in enumerate(io):                 # a reported hang must survive a generous deadline on its own (loaded machine)
            if o.split()[:1] == ["2"] and deadline_ms < 20000:
                io[i] = vf.run_impl(impl, "C18", [lines[i]], deadline_ms=20000)[0]
                if io[i].split()[:1] != ["2"]:
                    c.cov.setdefault("deadline_retries", []).append(lines[i])
        if model:
            mo = vf.run_model(model, lines)
            vf.correspond(c, label, lines, io, mo)
            for i in sorted(set([0, len(lines) // 3, len(lines) // 2, (2 * len(lines)) // 3, len(lines) - 1])):
                if len(lines[i]) < 400:
                    xcheck.append((lines[i], mo[i]))
        c.count(len(lines), label)
        return [[int(t) for t in o.split()] for o in io]

    def bad_status(label, line, r, klass):
        """crash / hang is a violation whatever the input; klass names the input class"""
        if r[0] in (1, 2):
            what = "panics" if r[0] == 1 else "does not return"
            c.violation(klass, "%s %s on %s" % (label, what, line), {"cases": [line], "expected": "status 0", "got": " ".join(map(str, r))})
            return True
        if r[0] != 0:
            c.violation(label + "-badcase", "%s: driver rejected %s" % (label, line), {"cases": [line], "got": " ".join(map(str, r))})
            return True
        return False

    def expect(label, key, line, r, want, note=""):
        if r != want:
            c.violation(key, "%s on %s: got %s, the reference gives %s %s" % (label, line, r, want, note),
                        {"cases": [line], "expected": " ".join(map(str, want)), "got": " ".join(map(str, r))})

    # ------------------------------------------------------------------ inputs
    n_long = 4 if thorough else 3
    LONG = strings_upto(ALPHA, n_long + 1)          # quick: all strings of length <= 4 (69 905); thorough: <= 5 (1.1 M)
    SMALL = strings_upto(ALPHA, n_long)             # quick: length <= 3 (4 369); thorough: <= 4
    SHORT = LONG if not thorough else SMALL         # the cheap unary helpers: quick <= 4, thorough <= 4
    c.cov["exhaustive_parts"] = [
        "all strings of length <= %d over the 16-byte alphabet %s through ReadLine, TrimDBCS, StripNoneBig5, StripAnsi (3 modes), DBCSSafeTrim, StripANSIMoveCmd" % (n_long + 1, ALPHA),
        "all strings of length <= 4 over the same alphabet through Cstrlen, CstrToBytes, CstrTolower/Toupper, StringHash(WithHashBits), StripBlank, Trim",
        "all strings of length <= %d through DBCSStatus at every position -1..len+1, and through SubjectEx" % n_long,
        "all 256 byte values through the ctype helpers, x every previous status through DBCSNextStatus",
        "all pairs of strings of length <= 3 over %s through the 6 binary helpers" % (PAIR_ALPHA_T if thorough else PAIR_ALPHA_Q)]

    def rand_bytes():
        k = rng.randrange(5, 90)
        mode = rng.randrange(4)
        if mode == 0:
            return [rng.choice(ALPHA) for _ in range(k)]
        if mode == 1:
            return [rng.randrange(256) for _ in range(k)]
        if mode == 2:   # ANSI-looking: text, complete, truncated and odd sequences
            out = []
            for _ in range(rng.randrange(1, 12)):
                t = rng.randrange(8)
                if t == 0:
                    out += [rng.choice(b"abc \xa4\xa4XYZ\r\n") for _ in range(rng.randrange(1, 6))]
                elif t in (1, 2, 3):
                    out += [ESC, ord('[')] + [rng.choice(PARAMS) for _ in range(rng.randrange(0, 5))] + [rng.choice(CMDS + b"mmmxR@\x1b,")]
                elif t == 4:
                    out += [ESC, rng.choice(b"(cM7\x00\x1b[")]
                elif t == 5:
                    out += [ESC, ord('[')] + [rng.choice(PARAMS) for _ in range(rng.randrange(0, 4))]
                elif t == 6:
                    out += [ESC]
                else:
                    out += [rng.choice([0, 10, 13, 32, 0x80, 0xff])]
            return out
        out = []        # DBCS-looking text with line ends and blanks
        for _ in range(rng.randrange(1, 30)):
            t = rng.randrange(6)
            if t < 2:
                out += [rng.randrange(0x81, 0xff), rng.choice([rng.randrange(0x40, 0x7f), rng.randrange(0xa1, 0xff), rng.randrange(0x80, 0xa1), 0x20, 0xff])]
            elif t < 4:
                out += [rng.randrange(32, 127)]
            else:
                out += [rng.choice([10, 13, 32, 32, 0, 9, 0x80, 0xfe])]
        return out
    RAND = [tuple(rand_bytes()) for _ in range(50000 if thorough else 3000)]

    # ------------------------------------------------------------------ ctype, DBCSNextStatus (complete)
    lines = ["5|%d" % b for b in range(256)]
    for ln, r in zip(lines, both(lines, "ctype")):
        if bad_status("ctype", ln, r, "ctype-crash"):
            continue
        b = int(ln[2:])
        al = (65 <= b <= 90) or (97 <= b <= 122)
        nu = 48 <= b <= 57
        expect("Isalpha/Isnumber/Isalnum/Isascii/CcharTolower/CcharToupper", "ctype-ref", ln, r, [0, int(al), int(nu), int(al or nu), int(b < 128), lower(b), upper(b)])
        c.nontrivial(("ctype", b))
    lines = ["17|%d|%d" % (b, p) for b in range(256) for p in (0, 1, 2, 3, -1)]
    for ln, r in zip(lines, both(lines, "DBCSNextStatus")):
        if bad_status("DBCSNextStatus", ln, r, "dbcsnext-crash"):
            continue
        b, p = [int(x) for x in ln.split("|")[1:]]
        expect("DBCSNextStatus", "dbcsnext-ref", ln, r, [0, 2 if p == 1 else (1 if b >= 0x80 else 0)])

    # ------------------------------------------------------------------ unary helpers, deep enumeration
    deep = LONG + RAND
    # ReadLine: short streams exhaustively, plus long lines around bufio's 4096-byte buffer and streams much longer
    # than it (the returned lines are kept by the driver WITHOUT copying and printed only at the end, so a line
    # that aliases the reader's buffer shows up as corrupted)
    rl_long = []
    for n in (4094, 4095, 4096, 4097, 8191, 8192, 8193, 20000):
        rl_long.append([97 + (i % 23) for i in range(n)] + [10] + [66, 67, 13, 10] + [68])
        rl_long.append([97 + (i % 23) for i in range(n)])                                      # no terminator at all
    for _ in range(6):
        st = []
        for _ in range(rng.randrange(150, 400)):
            st += [rng.choice([65, 66, 32, 13, 0xA4, 0x40, 49]) for _ in range(rng.randrange(0, 120))] + rng.choice([[10], [13, 10]])
        rl_long.append(st)
    rl_streams = deep + [tuple(x) for x in rl_long]
    lines = ["6|" + toks(s) for s in rl_streams]
    for s, ln, r in zip(rl_streams, lines, both(lines, "ReadLine")):
        ref = ref_lines(s)
        if bad_status("types.ReadLine", ln, r, "readline-empty-line" if any(len(l) == 0 for l in ref) else "readline-crash"):
            continue
        want = [0, len(ref)]
        for l in ref:
            want += [len(l)] + l
        expect("types.ReadLine (all lines until EOF)", "readline-ref", ln, r, want, "(each line without its LF and one CR, empty lines included)")
        c.nontrivial(("rl", s))
    c.sample({"op": "ReadLine", "stream": repr(bytes(deep[-1])), "lines": len(ref_lines(deep[-1]))})
    # ReadLine over readers that FAIL: the stream is a list of events (byte | read error handed out once), delivered
    # through bufio.NewReaderSize(reader, bufsize) by a reader that cuts the bytes into Reads as `chunks` says and
    # reports an error alone (mode 0), with the last data (1), or through iotest.OneByteReader / HalfReader /
    # DataErrReader (2, 3, 4). The model sees only the events and the number of calls.
    E_IO, E_TMO, E_STALE = 257, 258, 259
    CFGS = [("", 16, 0), ("1", 16, 0), ("", 4096, 1), ("3 0 2", 16, 2), ("2 5", 16, 4), ("7", 32, 3), ("", 16, 1), ("0 1 0 0 4", 4096, 0)]
    ev_alpha = [97, 10, 13, 256, E_IO, E_TMO]
    n_ev = 5 if thorough else 4
    ev_cases = []                                   # (events, ncalls, chunks, bufsize, mode)
    for k, evs in enumerate(strings_upto(ev_alpha, n_ev)):
        for cf in CFGS[:5]:
            ev_cases.append((list(evs), len(evs) + 1) + cf)
    for k, evs in enumerate(itertools.product(ev_alpha, repeat=n_ev + 1)):
        ev_cases.append((list(evs), len(evs) + 1) + CFGS[k % len(CFGS)])
    c.cov["exhaustive_parts"].append("all event streams (byte 'a', LF, CR, io.EOF in the middle, an I/O error, a timeout) of length <= %d through ReadLine over 5 reader configurations, length %d over one of 8" % (n_ev, n_ev + 1))

    def ev_text(nlines, maxlen):
        out = []
        for _ in range(nlines):
            out += [rng.choice([65, 66, 32, 13, 0xA4, 0x40, 49, 0]) for _ in range(rng.randrange(0, maxlen))] + rng.choice([[10], [10], [13, 10]])
        if rng.random() < .4:
            out += [rng.choice([65, 66, 13, 49]) for _ in range(rng.randrange(1, maxlen))]      # unterminated last line
        return out

    def ev_cfg():
        chunks = rng.choice(["", "1", "2", "16", "17", toks([rng.randrange(0, 40) for _ in range(rng.randrange(1, 6))] + [rng.randrange(1, 40)])])
        return (chunks, rng.choice([16, 16, 17, 64, 4096]), rng.randrange(5))

    def with_calls(evs, cf):
        return (evs, sum(1 for x in evs if x == 10 or x >= 256) + 3) + cf

    # the two streams of the first report: an I/O error after 25 bytes, a timeout on the 2nd read of a 16-byte buffer
    demo = [ord(x) for x in "SYSOP\n\nguest\nteemocogs-123456789\nlast\n"]
    ev_cases.append(with_calls(demo[:25] + [E_IO] * 12, ("", 4096, 0)))                          # the error stays (error-after-n reader)
    ev_cases.append(with_calls(demo[:25] + [E_IO] + demo[25:], ("", 4096, 0)))                   # the error goes away
    demo2 = [ord(x) for x in "0123456789abcdefXYZ\nnext\n"]
    ev_cases.append(with_calls(demo2[:16] + [E_TMO] + demo2[16:], ("16", 16, 0)))
    for _ in range(6000 if thorough else 700):
        evs = ev_text(rng.randrange(1, 8), rng.choice([4, 20, 50]))
        kind = rng.randrange(6)
        code = rng.choice([E_IO, E_TMO, E_STALE, 260])
        if kind == 0:                                                   # one error at a random place, then the stream goes on
            i = rng.randrange(len(evs) + 1); evs = evs[:i] + [code] + evs[i:]
        elif kind == 1:                                                 # the error stays: every later read fails
            i = rng.randrange(len(evs) + 1); evs = evs[:i] + [code] * (evs[:i].count(10) + 4)
        elif kind == 2:                                                 # several errors, some of them adjacent
            for _ in range(rng.randrange(2, 5)):
                i = rng.randrange(len(evs) + 1); evs = evs[:i] + [rng.choice([E_IO, E_TMO, E_STALE, 260])] * rng.choice([1, 1, 2]) + evs[i:]
        elif kind == 3:                                                 # exactly at a line boundary / at the very start / at the very end
            lf = [i + 1 for i, x in enumerate(evs) if x == 10] + [0, len(evs)]
            i = rng.choice(lf); evs = evs[:i] + [code] + evs[i:]
        elif kind == 4:                                                 # io.EOF in the middle (a file that grows), maybe an error too
            i = rng.randrange(len(evs) + 1); evs = evs[:i] + [256] + evs[i:]
            if rng.random() < .5:
                i = rng.randrange(len(evs) + 1); evs = evs[:i] + [code] + evs[i:]
        ev_cases.append(with_calls(evs, ev_cfg()))                      # kind 5: a healthy reader
    for n in ((4000, 4096, 4500, 9000) if not thorough else (4000, 4095, 4096, 4097, 4500, 8192, 9000, 70000)):
        body = [97 + (i % 23) for i in range(n)]                        # the error falls into a line longer than bufio's buffer
        for at in (n // 2, n - 1, n):
            ev_cases.append(with_calls([66, 10] + body[:at] + [E_IO] + body[at:] + [10, 67, 10], ("", 4096, 0)))
            ev_cases.append(with_calls([66, 10] + body[:at] + [E_TMO] * 5, (rng.choice(["", "1000", "4096 1"]), rng.choice([16, 4096]), rng.randrange(5))))
    lines = ["26|%s|%d|%s|%d %d" % (toks(e), n, ch, bs, md) for e, n, ch, bs, md in ev_cases]
    n_mid = 0
    for (evs, ncalls, ch, bs, md), ln, r in zip(ev_cases, lines, both(lines, "ReadLine(failing reader)")):
        if bad_status("types.ReadLine over a failing reader", ln, r, "readline-io-crash"):
            continue
        got = parse_rl_events(r)
        short = ln if len(ln) < 600 else ln[:600] + " ..."
        want = [0, ncalls]
        for o in ref_readline_events(evs, ncalls):
            want += ([0, len(o[1])] + o[1]) if o[0] == 'L' else [1, o[1]]
        if 256 not in evs:
            # what every caller (a loop on err == nil) sees: complete lines of the input, then the first error
            wl, we = caller_view(evs)
            gl = []
            for g in got:
                if g[0] != 'L':
                    break
                gl.append(g[1])
            ge = got[len(gl)] if len(gl) < len(got) else None
            errs = [i for i, x in enumerate(evs) if x >= 256]
            mid = bool(errs) and errs[0] > 0 and evs[errs[0] - 1] != 10
            n_mid += mid
            if gl != wl or ge is None or ge[0] != 'E' or ge[1] != we:
                if len(gl) > len(wl) or gl != wl[:len(gl)]:
                    j = min([i for i in range(min(len(gl), len(wl))) if gl[i] != wl[i]] + [min(len(gl), len(wl))])
                    what = "call %d returned %r with a nil error: that is not a line of the input%s" % (
                        j + 1, bytes(gl[j][:60]), " (the read failed with error %d in the middle of this line, %r is only what had been read)" % (we, bytes(gl[j][:60])) if mid and j == len(wl) else "")
                    key = "readline-fragment-as-line"
                else:
                    what = "after %d lines the caller got %s, expected the %s" % (len(gl), ge, "read error %d" % we if we else "lines %s and io.EOF" % wl[len(gl):len(gl) + 2])
                    key = "readline-io-error-lost"
                c.violation(key, "types.ReadLine over a reader that fails (events %s, bufio size %d, reader kind %d): %s" % (evs[:80], bs, md, what),
                            {"cases": [ln], "expected": toks(want), "caller_must_see": "lines %s then error %d" % (wl[:8], we), "got": toks(r[:300])})
                continue
        if r != want:
            c.violation("readline-io-ref", "types.ReadLine called %d times over a failing reader, %s: got %s, the reference (ReadBytes semantics: bytes up to LF | up to the error, which is reported without the bytes | the rest at EOF) gives %s"
                        % (ncalls, short, r[:80], want[:80]), {"cases": [ln], "expected": toks(want), "got": toks(r[:300])})
        c.nontrivial(("rlev", tuple(evs), ch, bs, md))
    c.cov["readline_error_in_mid_line"] = n_mid
    c.sample({"op": "ReadLine(failing reader)", "events": demo[:25] + [E_IO], "caller_sees": [bytes(l).decode() for l in caller_view(demo[:25] + [E_IO])[0]], "then_error": 1})

    # FileFindRecord / FileExistsRecord on real files: every small file, and files with one very long line (bufio's
    # default buffer is 4096 bytes, a bufio.Scanner gives up at 65536) with the key before, on and after it
    FA = [97, 65, 98, 32, 10, 13]
    fcases = [(list(ct), k) for ct in strings_upto(FA, 5 if thorough else 4) for k in ([97], [65, 0, 98], [98], [])]
    c.cov["exhaustive_parts"].append("all files of length <= %d over 'a','A','b',blank,LF,CR x 4 keys through FileFindRecord/FileExistsRecord" % (5 if thorough else 4))
    long_ns = (4095, 4096, 4097, 8192, 65534, 65535, 65536, 65537, 70000) + ((131072, 200000, 300000) if thorough else ())
    for n in long_ns:
        body = [97 + (i % 23) for i in range(n)]
        up = [upper(x) for x in body]
        shapes = [[103, 10, 10] + body + [10, 10] + [83, 89, 83, 13, 10] + [108, 97],        # g, "", LONG, "", SYS, la
                  [103, 10] + body,                                                            # the long line is the last one, unterminated
                  body + [13, 10, 108, 97, 10]]                                                # ... the first one
        for ct in shapes:
            for k in ([103], [115, 121, 115], [76, 65, 0, 9], [110, 111]):
                fcases.append((ct, k))
        if n in (4096, 65535, 65536, 70000) or thorough:
            fcases.append((shapes[0], up))                                                     # the long line itself is a record
            fcases.append((shapes[1], up))
            fcases.append((shapes[0], up[:-1]))                                                # ... and nothing shorter matches it
            k = n // 3
            fcases.append(([103, 10] + body[:k] + [32] + body[k + 1:] + [10, 108, 97], up[:k]))  # first token of the long line
    for _ in range(2000 if thorough else 300):
        ct = ev_text(rng.randrange(1, 12), rng.choice([3, 12]))
        ls = [l for l in ref_lines(ct)]
        k = list(rng.choice(ls)) if ls and rng.random() < .7 else [rng.choice([65, 66, 49]) for _ in range(rng.randrange(0, 4))]
        if rng.random() < .3:
            k = [upper(x) if rng.random() < .5 else lower(x) for x in k]
        fcases.append((ct, k))
    lines = ["27|%s|%s" % (toks(ct), toks(k)) for ct, k in fcases]
    n_after_long = 0
    for (ct, k), ln, r in zip(fcases, lines, both(lines, "FileFindRecord")):
        if bad_status("cmsys.FileFindRecord", ln, r, "findrecord-crash"):
            continue
        want = ref_find_record(ct, k)
        longest = max([len(l) for l in ref_lines(ct)] + [0])
        n_after_long += want > 0 and longest >= 65536
        if r != [0, want, int(want > 0)]:
            short = ln if len(ln) < 300 else "a file of %d bytes in %d lines, the longest of %d bytes, key %s" % (len(ct), len(ref_lines(ct)), longest, repr(bytes(k)) if len(k) < 40 else "of %d bytes" % len(k))
            if want > 0 and r[1] == 0:
                key, what = "findrecord-line-not-read", "line %d of the file matches the key but FileFindRecord / FileExistsRecord answer %d / %d: the line was never read" % (want, r[1], r[2])
            else:
                key, what = "findrecord-ref", "FileFindRecord / FileExistsRecord answer %d / %d, the first matching line is %d" % (r[1], r[2], want)
            c.violation(key, "cmsys.FileFindRecord on %s: %s" % (short, what), {"cases": [ln], "expected": "0 %d %d" % (want, int(want > 0)), "got": toks(r)})
        c.nontrivial(("ffr", tuple(ct) if len(ct) < 200 else (len(ct), longest, sum(ct)), tuple(k[:50]), len(k)))
    c.cov["findrecord_key_on_or_after_a_line_of_64KiB_or_more"] = n_after_long
    c.sample({"op": "FileFindRecord", "file": "g LF LF <line of 70000 bytes> LF LF SYS CR LF la", "key": "sys", "expected": 5})
    # TrimDBCS
    lines = ["7|" + toks(s) for s in deep]
    for s, ln, r in zip(deep, lines, both(lines, "TrimDBCS")):
        p = cprefix(s)
        if bad_status("types.TrimDBCS", ln, r, "trimdbcs-empty" if not p else "trimdbcs-crash"):
            continue
        res, arr = r[2:2 + r[1]], r[2 + r[1]:]
        want = p[:-1] if p and dbcs_status(p, len(p) - 1) == 1 else p
        if res != want:
            k = "trimdbcs-splits-char" if (p and p[-1] >= 0x80 and res == p[:-1]) else "trimdbcs-ref"
            c.violation(k, "types.TrimDBCS(%s) = %s: %s" % (p, res, "the trail byte of a complete double-byte character is cut off, a dangling lead byte remains" if k == "trimdbcs-splits-char" else "expected %s" % want),
                        {"cases": [ln], "expected": toks([0, len(want)] + want), "got": toks(r)})
        else:
            wa = list(s)
            if len(res) < len(p):
                wa[len(res)] = 0
            if arr != wa:
                c.violation("trimdbcs-array", "types.TrimDBCS leaves the caller's array as %s, expected %s" % (arr, wa), {"cases": [ln], "got": toks(r)})
        c.nontrivial(("td", s))
    # StripNoneBig5
    lines = ["12|" + toks(s) for s in deep]
    o12 = both(lines, "StripNoneBig5")
    again = []
    for s, ln, r in zip(deep, lines, o12):
        if bad_status("cmsys.StripNoneBig5", ln, r, "nonebig5-crash"):
            again.append(None)
            continue
        res, arr = r[2:2 + r[1]], r[2 + r[1]:]
        again.append(res)
        if not big5_units_ok(res):
            c.violation("nonebig5-wellformed", "cmsys.StripNoneBig5(%s) = %s is not printable ASCII + complete lead/trail pairs" % (list(s), res), {"cases": [ln], "got": toks(r)})
        expect("cmsys.StripNoneBig5", "nonebig5-ref", ln, r[:2 + r[1]], [0, len(ref_none_big5(s))] + ref_none_big5(s))
        wa = res + ([0] + list(s[len(res) + 1:]) if len(res) < len(s) else [])
        if arr != wa:
            c.violation("nonebig5-array", "cmsys.StripNoneBig5 leaves the caller's array as %s, expected %s" % (arr, wa), {"cases": [ln], "got": toks(r)})
        c.nontrivial(("nb", s))
    idx = [i for i, a in enumerate(again) if a]
    sub = sorted(set(tuple(again[i]) for i in idx))
    lines = ["12|" + toks(s) for s in sub]
    for s, ln, r in zip(sub, lines, both(lines, "StripNoneBig5(twice)")):
        if bad_status("cmsys.StripNoneBig5", ln, r, "nonebig5-crash"):
            continue
        if r[2:2 + r[1]] != list(s):
            c.violation("nonebig5-fixpoint", "cmsys.StripNoneBig5 is not a fixed point on its own output %s: %s" % (list(s), r[2:2 + r[1]]), {"cases": [ln], "got": toks(r)})
    # StripAnsi, all three modes
    for flag in (0, 1, 2):
        lines = ["13|%s|%d" % (toks(s), flag) for s in deep]
        outs = both(lines, "StripAnsi(mode %d)" % flag)
        second = set()
        for s, ln, r in zip(deep, lines, outs):
            p = cprefix(s)
            trunc = False
            if ESC in p:
                k = len(p) - 1 - p[::-1].index(ESC)
                trunc = p == list(s) and len(p) > k + 1 and p[k + 1] == ord('[') and all(x in PARAMS for x in p[k + 2:])
            if bad_status("cmsys.StripAnsi(flag %d)" % flag, ln, r, "stripansi-truncated-csi" if trunc else "stripansi-crash"):
                continue
            out = r[1:]
            if flag == 0 and ESC in out:
                c.violation("stripansi-esc-survives", "cmsys.StripAnsi(%s, STRIP_ALL) = %s still contains ESC" % (list(s), out), {"cases": [ln], "got": toks(r)})
            if not csi_wellformed(out, flag):
                c.violation("stripansi-not-allowed-survives", "cmsys.StripAnsi(%s, %d) = %s keeps an ESC that does not start a complete allowed sequence" % (list(s), flag, out), {"cases": [ln], "got": toks(r)})
            expect("cmsys.StripAnsi(flag %d)" % flag, "stripansi-ref", ln, r, [0] + ref_strip_ansi(list(s), flag), "(tokeniser reference: kept sequences byte-identical, everything else of an escape sequence removed)")
            second.add(tuple(out))
            c.nontrivial(("sa", flag, s))
        if flag == 0:
            sub = sorted(second)
            lines = ["13|%s|0" % toks(s) for s in sub]
            for s, ln, r in zip(sub, lines, both(lines, "StripAnsi(twice)")):
                if bad_status("cmsys.StripAnsi(flag 0)", ln, r, "stripansi-crash"):
                    continue
                if r[1:] != list(s):
                    c.violation("stripansi-idempotent", "cmsys.StripAnsi(STRIP_ALL) twice differs from once on %s: %s" % (list(s), r[1:]), {"cases": [ln], "got": toks(r)})
    c.sample({"op": "StripAnsi", "input": repr(bytes(RAND[2])), "all": repr(bytes(ref_strip_ansi(list(RAND[2]), 0))), "only_color": repr(bytes(ref_strip_ansi(list(RAND[2]), 1)))})
    # DBCSSafeTrim
    lines = ["15|" + toks(s) for s in deep]
    for s, ln, r in zip(deep, lines, both(lines, "DBCSSafeTrim")):
        if bad_status("cmsys.DBCSSafeTrim", ln, r, "safetrim-crash"):
            continue
        s = list(s)
        want = s[:-1] if s and dbcs_status(s, len(s) - 1) == 1 else s
        expect("cmsys.DBCSSafeTrim", "safetrim-ref", ln, r, [0] + want, "(drop exactly a dangling lead byte)")
        c.nontrivial(("st", tuple(s)))
    # StripANSIMoveCmd
    lines = ["19|" + toks(s) for s in deep]
    for s, ln, r in zip(deep, lines, both(lines, "StripANSIMoveCmd")):
        if bad_status("ptt.StripANSIMoveCmd", ln, r, "movecmd-crash"):
            continue
        expect("ptt.StripANSIMoveCmd", "movecmd-ref", ln, r, [0] + ref_movecmd(list(s)), "(same length; only the command byte of a cursor-movement sequence becomes 's')")
        c.nontrivial(("mv", s))

    # ------------------------------------------------------------------ unary helpers, short enumeration + random
    shallow = SHORT + RAND
    M32, M64 = 2**32 - 1, 2**64 - 1
    simple = [
        (1, "Cstrlen", lambda s: [len(cprefix(s))]),
        (2, "CstrToBytes", lambda s: cprefix(s)),
        (3, "CstrTolower", lambda s: [lower(x) for x in s]),
        (4, "CstrToupper", lambda s: [upper(x) for x in s]),
        (8, "StringHash", lambda s: [ref_fnv1a(cprefix(s), FNV32_INIT, FNV32_PRIME, M32, upper)]),
        (9, "StringHashWithHashBits", lambda s: [ref_fnv1a(cprefix(s), FNV32_INIT, FNV32_PRIME, M32, upper) % (1 << HASH_BITS)]),
        (11, "StripBlank", lambda s: list(s)[:list(s).index(32)] if 32 in s else list(s)),
        (14, "Trim", lambda s: list(bytes(cprefix(s)).rstrip(b" "))),
    ]
    for op, name, ref in simple:
        lines = ["%d|%s" % (op, toks(s)) for s in shallow]
        for s, ln, r in zip(shallow, lines, both(lines, name)):
            if bad_status(name, ln, r, name.lower() + "-crash"):
                continue
            expect(name, name.lower() + "-ref", ln, r, [0] + ref(s))
            c.nontrivial((op, s))
    c.sample({"op": "StringHash", "input": repr(bytes(RAND[5][:12])), "fnv1a32_upper": ref_fnv1a(cprefix(RAND[5][:12]), FNV32_INIT, FNV32_PRIME, M32, upper)})
    # the FNV family with arbitrary start values
    fam = [(1, lambda s, h, n: ref_fnv1(list(s), h, FNV32_PRIME, M32), M32),
           (2, lambda s, h, n: ref_fnv1a(cprefix(s), h, FNV32_PRIME, M32), M32),
           (3, lambda s, h, n: ref_fnv1a(cprefix(s), h, FNV32_PRIME, M32, upper), M32),
           (4, lambda s, h, n: ref_fnv1a_dbcs(cprefix(s), h, FNV32_PRIME, M32), M32),
           (5, lambda s, h, n: ref_fnv1(list(s), h, FNV64_PRIME, M64), M64),
           (6, lambda s, h, n: ref_fnv1a(cprefix(s), h, FNV64_PRIME, M64), M64),
           (7, lambda s, h, n: ref_fnv1a(cprefix(s), h, FNV64_PRIME, M64, upper), M64),
           (8, lambda s, h, n: ref_fnv1a_dbcs(cprefix(s), h, FNV64_PRIME, M64), M64),
           (9, lambda s, h, n: ref_fnv1(list(s)[:n] if n > 0 else list(s), h, FNV64_PRIME, M64), M64)]
    hs = SMALL[:1200] + RAND[:800]
    for kind, ref, mask in fam:
        cs = []
        for s in hs:
            h = rng.choice([FNV32_INIT if mask == M32 else FNV64_INIT, 0, mask, rng.getrandbits(64) & mask])
            n = rng.choice([len(s), 0, -1, 1, len(s) + 3, max(0, len(s) - 1)])
            cs.append((s, h, n))
        lines = ["10|%d|%s|%d|%d" % (kind, toks(s), h, n) for s, h, n in cs]
        for (s, h, n), ln, r in zip(cs, lines, both(lines, "fnv kind %d" % kind)):
            if bad_status("cmsys fnv kind %d" % kind, ln, r, "fnv-crash"):
                continue
            expect("cmsys fnv kind %d" % kind, "fnv-ref", ln, r, [0, ref(s, h, n)])
    lines = ["10|10|%d|%d|0" % (b, h) for b in range(256) for h in (FNV32_INIT, 0, M32)]
    for ln, r in zip(lines, both(lines, "fnv1aByte")):
        b, h = int(ln.split("|")[2]), int(ln.split("|")[3])
        if not bad_status("cmsys.fnv1aByte", ln, r, "fnv-crash"):
            expect("cmsys.fnv1aByte", "fnv-ref", ln, r, [0, ((h ^ b) * FNV32_PRIME) & M32])
    # DBCSStatus at every position
    cs = [(s, p) for s in SMALL for p in range(-1, len(s) + 2)] + [(s, rng.randrange(-2, len(s) + 3)) for s in RAND]
    lines = ["16|%s|%d" % (toks(s), p) for s, p in cs]
    for (s, p), ln, r in zip(cs, lines, both(lines, "DBCSStatus")):
        if bad_status("cmsys.DBCSStatus", ln, r, "dbcsstatus-empty" if len(s) == 0 else "dbcsstatus-crash"):
            continue
        expect("cmsys.DBCSStatus", "dbcsstatus-ref", ln, r, [0, dbcs_status(s, p)])
        c.nontrivial(("ds", s, p))

    # ------------------------------------------------------------------ SubjectEx
    pieces = [b"Re:", b"re:", b"RE:", b"rE: ", b"Fw:", b"fw: ", b"FW:", bytes([0x5b, 0xc2, 0xe0, 0xbf, 0xfd, 0x5d]), b"[\xc2\xe0\xbf\xfd] ",
              b" ", b"  ", b"a", b"[", b"]", b"R", b"Re", b"F", b":", b"\xa4\xa4", b"\xc2", b"\xe0", b"\xbf", b"\xfd", b"\x80", b"\xef\xbf\xbd", b"\xc3\xa9",
              b"\xe4\xb8\xad", b"\xf0\x9f\x98\x80", b"\x00", b"[\x80\x80\x80\x80]", b"[\xef\xbf\xbd\xfe\xa4\xa4]", b"\xc4\xb0", b"\xe2\x84\xaa", b"I", b"K", b"e:", b"w:"]
    titles = [b"".join(t) for k in range(0, 4) for t in itertools.product(pieces, repeat=k)] if thorough else \
             [b"".join(t) for k in range(0, 3) for t in itertools.product(pieces, repeat=k)]
    for _ in range(40000 if thorough else 6000):
        titles.append(b"".join(rng.choice(pieces) for _ in range(rng.randrange(1, 30))))
    titles += [bytes(s) for s in SMALL] + [bytes(s) for s in RAND[:1000]]
    lines = ["18|" + toks(t) for t in titles]
    for t, ln, r in zip(titles, lines, both(lines, "SubjectEx")):
        if bad_status("cmbbs.SubjectEx", ln, r, "subjectex-crash"):
            continue
        p = cprefix(list(t[:TITLE_SZ]))
        ty, rest = r[1], r[2:]
        cut = len(p) - len(rest)
        if cut < 0 or p[cut:] != rest or ty not in (0, 1, 2) or (cut == 0) != (ty == 0):
            c.violation("subjectex-suffix", "cmbbs.SubjectEx(%r) = (%d, %s): not a suffix of the title / type does not reflect a stripped prefix" % (t, ty, rest), {"cases": [ln], "got": toks(r)})
        elif cut and dbcs_status(p, cut - 1) == 1:
            c.violation("subjectex-splits-char", "cmbbs.SubjectEx(%r) cuts after a lead byte (at %d)" % (t, cut), {"cases": [ln], "got": toks(r)})
        # reference: pttbbs' subject_ex (strncasecmp against "Re:", "Fw:" and the legacy forward tag, one blank skipped)
        q, ety = p, 0
        while q:
            low = bytes(lower(x) for x in q[:6])
            if low[:3] == b"re:":
                q, ety = q[3:], 1
            elif low[:3] == b"fw:":
                q, ety = q[3:], 2
            elif low == LEGACY_FW:
                q, ety = q[6:], 2
            else:
                break
            if q and q[0] == 32:
                q = q[1:]
        expect("cmbbs.SubjectEx", "subjectex-ref", ln, r, [0, ety] + q, "(reference: strncasecmp against Re: / Fw: / legacy forward tag)")
        c.nontrivial(("sx", t))
    c.sample({"op": "SubjectEx", "title": repr(titles[400])})

    # ------------------------------------------------------------------ binary helpers: all pairs + random pairs
    pa = PAIR_ALPHA_T if thorough else PAIR_ALPHA_Q
    P = strings_upto(pa, 3)
    pairs = [(a, b) for a in P for b in P]
    for _ in range(40000 if thorough else 4000):
        a = list(rng.choice(RAND))[:rng.randrange(0, 40)]
        t = rng.randrange(5)
        if t == 0:
            b = list(a)
        elif t == 1 and a:
            i = rng.randrange(len(a)); b = a[i:i + rng.randrange(0, 6)]
        elif t == 2 and a:
            b = list(a); b[rng.randrange(len(b))] = rng.choice([0, 65, 97, 255]); b = b[:rng.randrange(len(b) + 1)]
        elif t == 3:
            b = [upper(x) if rng.random() < .5 else lower(x) for x in a][:rng.randrange(0, len(a) + 1)]
        else:
            b = list(rng.choice(RAND))[:rng.randrange(0, 6)]
        pairs.append((tuple(a), tuple(b)))
    L = lambda op: ["%d|%s|%s" % (op, toks(a), toks(b)) for a, b in pairs]
    for op, name, fold in ((20, "Cstrcmp", lambda x: x), (21, "Cstrcasecmp", lower)):
        lines = L(op)
        for (a, b), ln, r in zip(pairs, lines, both(lines, name)):
            if bad_status("types." + name, ln, r, name.lower() + "-crash"):
                continue
            want = sgn(ref_strcmp([fold(x) for x in cprefix(a)], [fold(x) for x in cprefix(b)]))
            if sgn(r[1]) != want:
                c.violation(name.lower() + "-sign", "types.%s(%s, %s) = %d, str%scmp of the NUL-terminated prefixes has sign %d" % (name, list(a), list(b), r[1], "case" if op == 21 else "", want),
                            {"cases": [ln], "expected": "sign %d" % want, "got": toks(r)})
            c.nontrivial((op, a, b))
    for op, name, fold in ((22, "Cstrstr", lambda x: x), (23, "Cstrcasestr", lower)):
        lines = L(op)
        for (a, b), ln, r in zip(pairs, lines, both(lines, name)):
            if bad_status("types." + name, ln, r, name.lower() + "-crash"):
                continue
            if 0 in b:
                continue                      # the property speaks about NUL-free needles; others only feed the correspondence
            want = ref_strstr([fold(x) for x in cprefix(a)], [fold(x) for x in b])
            if r[1] != want:
                key = "strstr-empty-empty" if (len(b) == 0 and len(cprefix(a)) == 0) else name.lower() + "-position"
                c.violation(key, "types.%s(%s, %s) = %d, strstr on the NUL-terminated prefix gives %d" % (name, list(a), list(b), r[1], want), {"cases": [ln], "expected": "0 %d" % want, "got": toks(r)})
            c.nontrivial((op, a, b))
    lines = L(24)
    for (a, b), ln, r in zip(pairs, lines, both(lines, "CstrCaseHasPrefix")):
        if bad_status("types.CstrCaseHasPrefix", ln, r, "casehasprefix-crash") or 0 in b:
            continue
        pa_, pb = [lower(x) for x in cprefix(a)], [lower(x) for x in b]
        expect("types.CstrCaseHasPrefix", "casehasprefix-ref", ln, r, [0, int(pa_[:len(pb)] == pb)])
    lines = L(25)
    for (a, b), ln, r in zip(pairs, lines, both(lines, "CstrTokenR")):
        if bad_status("types.CstrTokenR", ln, r, "tokenr-crash"):
            continue
        f, rest = ref_token_r(a, b)
        expect("types.CstrTokenR", "tokenr-ref", ln, r, [0, len(f)] + f + rest, "(first = bytes before the first NUL/separator, rest = bytes after it)")
    c.sample({"op": "Cstrcmp", "a": repr(bytes(pairs[-3][0])), "b": repr(bytes(pairs[-3][1])), "sign": sgn(ref_strcmp(cprefix(pairs[-3][0]), cprefix(pairs[-3][1])))})


    # ------------------------------------------------------------------ the surroundings of a call, 1: len < cap
    # Every helper is called on buf[:n] of a LARGER buffer whose bytes behind the input are not zero (a prefix of a
    # dirty arena, a field of a record): operation 28. It must answer what it answers on a private copy of the input
    # (same run, exact capacity), and the bytes behind the input must be what they were.
    NAMES = {1: "types.Cstrlen", 2: "types.CstrToBytes", 3: "types.CstrTolower", 4: "types.CstrToupper", 6: "types.ReadLine", 7: "types.TrimDBCS",
             8: "cmsys.StringHash", 9: "cmsys.StringHashWithHashBits", 10: "cmsys.fnv", 11: "cmsys.StripBlank", 12: "cmsys.StripNoneBig5",
             13: "cmsys.StripAnsi", 14: "cmsys.Trim", 15: "cmsys.DBCSSafeTrim", 16: "cmsys.DBCSStatus", 19: "ptt.StripANSIMoveCmd",
             20: "types.Cstrcmp", 21: "types.Cstrcasecmp", 22: "types.Cstrstr", 23: "types.Cstrcasestr", 24: "types.CstrCaseHasPrefix",
             25: "types.CstrTokenR", 27: "cmsys.FileFindRecord"}
    TAILS = [[0x40], [0xA4, 0x40, 99, 100], [ESC, 91, 49, 109, 97], [97, 0, 98], [32, 10, 0xFE], [99, 100], [0x80, 0xA4], [10]]
    W1 = [(s, t) for s in strings_upto(ALPHA, 2) for t in TAILS] + \
         [(s, [rng.choice([0x40, 97, 0xA4, ESC, 91, 109, 32, 10, 255, 1]) for _ in range(rng.randrange(1, 9))]) for s in RAND[:1500 if thorough else 300]]
    wcases = []                                     # (op, [(input, tail)...], [extra groups as text], pre = extra groups BEFORE the buffers)
    for s, t in W1:
        for op in (1, 2, 3, 4, 6, 7, 8, 9, 11, 12, 14, 15, 19):
            wcases.append((op, [(s, t)], [], []))
        for flag in (0, 1, 2):
            wcases.append((13, [(s, t)], ["%d" % flag], []))
        for pos in (len(s) - 1, len(s), len(s) + 1):
            wcases.append((16, [(s, t)], ["%d" % pos], []))
        for kind in range(1, 10):
            wcases.append((10, [(s, t)], ["%d" % rng.choice([FNV32_INIT, 0, 12345]), "%d" % rng.choice([len(s), len(s) + 1, 0])], ["%d" % kind]))
    WP = strings_upto(PAIR_ALPHA_Q, 2)
    wpairs = [(a, b) for a in WP for b in WP] + [(a[:20], b[:20]) for a, b in pairs[len(pairs) - (3000 if thorough else 600):]]
    for a, b in wpairs:
        ta, tb = rng.choice(TAILS), rng.choice(TAILS)
        if rng.random() < .3:
            ta = list(b[len(a):]) + ta if list(b[:len(a)]) == list(a) else ta      # behind a: how b goes on
        for op in (20, 21, 22, 23, 24, 25):
            wcases.append((op, [(a, ta), (b, tb)], [], []))
    wl, el = [], []
    for op, bufs, extra, pre in wcases:
        ns = ["-1"] * len(pre) + ["%d" % len(s) for s, _ in bufs]
        wl.append("|".join(["28", "%d" % op, " ".join(ns)] + pre + [toks(list(s) + list(t)) for s, t in bufs] + extra))
        el.append("|".join(["%d" % op] + pre + [toks(s) for s, _ in bufs] + extra))
    wo, eo = both(wl, "helper on buf[:n] of a dirty buffer"), both(el, "the same inputs with exact capacity")
    n_win = 0
    for (op, bufs, extra, pre), ln, eln, r, e in zip(wcases, wl, el, wo, eo):
        name = NAMES[op] + ("(kind %s)" % pre[0] if op == 10 else "")
        if bad_status(name + " on buf[:n] of a larger buffer", ln, r, "window-crash") or e[0] != 0:
            continue
        inner, tails = r[2:2 + r[1]], r[2 + r[1]:]
        want_t = [x for _, t in bufs for x in t]
        ins = ", ".join("%s[:%d] (behind it: %s)" % (list(s) + list(t), len(s), list(t)) for s, t in bufs)
        if inner != e:
            c.violation("window-reads-past-input", "%s called on %s answers %s, on a private copy of the same %d-byte input it answers %s: the answer depends on bytes behind the input (between len and cap of the slice)"
                        % (name, ins, inner, len(bufs[0][0]), e), {"cases": [ln, eln], "expected": "0 %d %s %s" % (len(e), toks(e), toks(want_t)), "got": toks(r)})
        elif tails != want_t:
            c.violation("window-writes-past-input", "%s called on %s leaves %s behind the input: it wrote outside its argument" % (name, ins, tails),
                        {"cases": [ln], "expected": "0 %d %s %s" % (len(e), toks(e), toks(want_t)), "got": toks(r)})
        n_win += 1
        c.nontrivial(("win", op, tuple(pre), tuple((tuple(s), tuple(t)) for s, t in bufs), tuple(extra)))
    c.cov["calls_on_a_prefix_of_a_dirty_buffer"] = n_win
    c.cov["exhaustive_parts"].append("all strings of length <= 2 over the 16-byte alphabet x 8 dirty tails through every unary helper called on buf[:n] (len < cap), all pairs of strings of length <= 2 over %s through the binary helpers" % PAIR_ALPHA_Q)
    c.sample({"op": "StripNoneBig5(buf[:3])", "buf": [97, 98, 0xA4, 0x40, 99, 100], "expected": [97, 98], "buffer_afterwards": [97, 98, 0, 0x40, 99, 100]})

    # ------------------------------------------------------------------ the surroundings of a call, 2: several goroutines
    # G goroutines of ONE process call the helpers at the same time (operation 29), each with its own arguments, for a
    # fixed number of rounds; every distinct answer a call gave is reported and must satisfy the helper's reference.
    def conc_want(op, g):
        """None if `ans` (numbers after the status) is right for the helper called alone on groups g, else the expectation"""
        a = g[0]
        if op in (20, 21):
            fold = lower if op == 21 else (lambda x: x)
            w = sgn(ref_strcmp([fold(x) for x in cprefix(a)], [fold(x) for x in cprefix(g[1])]))
            return lambda ans: None if len(ans) == 1 and sgn(ans[0]) == w else "a value of sign %d" % w
        if op == 3:
            w = [lower(x) for x in a]
        elif op == 8:
            w = [ref_fnv1a(cprefix(a), FNV32_INIT, FNV32_PRIME, 2**32 - 1, upper)]
        elif op == 23:
            w = [ref_strstr([lower(x) for x in cprefix(a)], [lower(x) for x in g[1]])]
        elif op == 24:
            w = [int([lower(x) for x in cprefix(a)][:len(g[1])] == [lower(x) for x in g[1]])]
        elif op == 13:
            w = ref_strip_ansi(list(a), g[1][0])
        elif op == 12:
            res = ref_none_big5(a)
            w = [len(res)] + res + res + ([0] + list(a[len(res) + 1:]) if len(res) < len(a) else [])
        elif op == 14:
            w = list(bytes(cprefix(a)).rstrip(b" "))
        elif op == 27:
            i = ref_find_record(a, g[1])
            w = [i, int(i > 0)]
        else:
            return lambda ans: None
        return lambda ans: None if ans == w else toks(w[:40])

    def conc_line(G, rounds, cs):
        return "|".join(["29", "%d %d" % (G, rounds)] + ["%d %d|%s" % (len(g), op, "|".join(toks(x) for x in g)) for op, g in cs])

    G = 8
    conc = []                                       # (G, rounds, [(op, groups)])
    for n, rounds in ((rng.randrange(90, 128), 40000 if thorough else 4000), (16, 3000 if thorough else 150), (2048, 6000 if thorough else 300)):
        cs = []
        for w in range(G):                          # goroutine w gets cases w, w+G, ...: its own letters, so that a mixture of two calls is visible
            lo = [97 + (w * 3 + i) % 26 for i in range(3)]
            body = [rng.choice(lo) for _ in range(n - 1)]
            up = [upper(x) for x in body]
            mix = [upper(x) if rng.random() < .5 else x for x in body]
            k = rng.randrange(len(body))
            per = [(21, [up + [65 + w], body + [97 + w]]),                         # equal under strcasecmp
                   (21, [mix + [66], body + [99]]),                                # smaller, decided by the last byte
                   (21, [body + [122], up + [65] + [0, 65]]),                      # larger
                   (20, [body, body[:-1] + [body[-1] + 1]]),
                   (23, [up + [33], mix[k:] + [33]]),
                   (24, [mix + [48], up]),
                   (3, [mix]), (8, [mix]), (14, [body + [32, 32]]),
                   (13, [body[:n // 2] + [ESC, 91, 49, 59, 51, 49 + w % 8, 109] + up[n // 2:], [1]]),
                   (12, [body[:n // 2] + [0xA4, 0x40 + w, 0x81, 32] + body[n // 2:]])]
            if n == 16:                         # ... and a caller built on Cstrcasecmp, on a real file
                per.append((27, [[103 + w, 10] + up[:40] + [32, 120, 10] + body[:12] + [13, 10], body[:12]]))
            cs.append(per)
        conc.append((G, rounds, [cs[w][i] for i in range(len(cs[0])) for w in range(G)]))
    lines = [conc_line(*x) for x in conc]
    n_calls = 0
    for (G_, rounds, cs), ln, r in zip(conc, lines, both(lines, "helpers called by %d goroutines at once" % G, deadline_ms=300000)):
        if bad_status("helpers called by %d goroutines of one process" % G_, ln, r, "concurrent-calls-crash"):
            continue
        i = 2
        for j, (op, g) in enumerate(cs):
            d = r[i]; i += 1
            answers = []
            for _ in range(d):
                answers.append(r[i + 1:i + 1 + r[i]]); i += 1 + r[i]
            chk = conc_want(op, g)
            bad = [(a, chk(a[1:])) for a in answers if a[:1] != [0] or chk(a[1:]) is not None]
            if bad or d != 1:
                alone = "%d|%s" % (op, "|".join(toks(x) for x in g))
                c.violation("concurrent-calls-" + NAMES[op].split(".")[1].lower(),
                            "%s(%s) called by goroutine %d of %d running in one process (%d rounds) gave %d distinct answers %s%s; a call must answer what it answers alone whatever other goroutines are doing (replay: the operation-29 line; alone: %s)"
                            % (NAMES[op], ", ".join(repr(bytes(x[:24])) + ("..." if len(x) > 24 else "") for x in g), j % G_, G_, rounds, d, [a[:12] for a in answers],
                               ", expected %s" % bad[0][1] if bad else "", alone if len(alone) < 300 else alone[:300] + " ..."),
                            {"cases": [ln, alone], "expected": "one answer per case, the one of the call alone", "got": toks(r[:400])})
            c.nontrivial(("conc", op, n_calls, j))
        n_calls += len(cs) * rounds
    c.count(n_calls, "calls made while %d goroutines were calling" % G)
    c.cov["concurrent_calls"] = {"goroutines": G, "calls": n_calls, "helpers": sorted(set(NAMES[op] for _, _, cs in conc for op, _ in cs))}
    c.sample({"op": "8 goroutines", "each": "Cstrcasecmp(UPPER, lower) == 0 on its own letters, 4000 rounds", "expected": "one answer per call"})

    # ------------------------------------------------------------------ coverage-guided fuzzing (thorough tier)
    if thorough:
        import re, shutil
        secs = int(os.environ.get("VERIF_FUZZ_SECONDS", "90"))
        gd = os.path.join(vf.ROOT, "go", "impl")
        rc, out = vf.sh(["go", "test", "-tags", "verif", "-run", "^$", "-fuzz", "FuzzC18", "-fuzztime", "%ds" % secs, "./cmd/implrun"],
                        cwd=gd, env=vf.GOENV, timeout=secs + 900)
        execs = [int(x) for x in re.findall(r"execs: (\d+)", out)]
        hits = re.findall(r"C18FUZZ (\w+) case=(.*?) what=(.*)", out)
        c.cov["fuzz"] = {"cmd": "go test -tags verif -run ^$ -fuzz FuzzC18 -fuzztime %ds ./cmd/implrun" % secs, "execs": max(execs) if execs else 0,
                         "new_interesting": max([int(x) for x in re.findall(r"total: (\d+)", out)] or [0]), "failures": len(hits)}
        c.count(max(execs) if execs else 0, "coverage-guided fuzzing")
        for kind, case, what in hits:
            c.violation("fuzz-%s-op%s" % (kind, case.split("|")[0]), "fuzzing: %s on %s: %s" % (kind, case, what.strip()), {"cases": [case], "expected": "status 0 and the helper's predicate", "got": what.strip()})
        td = os.path.join(gd, "cmd", "implrun", "testdata")
        if os.path.isdir(td):
            shutil.rmtree(td)                       # failing inputs are kept as replays, not in the source tree
        if rc != 0 and not hits:                    # the fuzzer itself failed (worker killed, no cache, ...): reported, not a verdict on the code
            c.cov["fuzz"]["did_not_complete"] = out[-1500:]
            print("C18: warning: go test -fuzz did not complete (see evidence coverage.fuzz)", file=sys.stderr)

    # ------------------------------------------------------------------ extraction cross-check (run_case by vm_compute inside Coq)
    if model:
        zl = lambda ts: "[" + "; ".join(t if not t.startswith("-") else "(%s)" % t for t in ts) + "]"
        src = ["From Verif Require Import Base.Common Model.C18.", "Definition cases : list (list (list Z)) := ["]
        src.append(";\n".join("  [" + "; ".join(zl(g.split()) for g in ln.split("|")) + "]" for ln, _ in xcheck))
        src += ["].", "Definition expected : list (list Z) := ["]
        src.append(";\n".join("  " + zl(o.split()) for _, o in xcheck))
        src += ["].", "Example extraction_agrees : map run_case cases = expected.", "Proof. vm_compute. reflexivity. Qed."]
        d = os.path.join(vf.BUILD, "C18")
        open(os.path.join(d, "cases.v"), "w").write("\n".join(src) + "\n")
        rc, out = vf.sh(["bash", "-c", "ulimit -s unlimited 2>/dev/null; timeout 600 coqc -Q %s Verif cases.v" % vf.COQ], cwd=d)
        c.cov["extraction_crosscheck"] = {"cases": len(xcheck), "agrees": rc == 0}
        if rc != 0:
            c.broken.append({"kind": "extraction", "where": "build/C18/cases.v", "theorem": "extracted model = run_case evaluated by vm_compute on %d sampled cases" % len(xcheck), "log": out[-1500:]})

    c.finish(rule="exhaustive: every string up to the stated length over a 16-byte alphabet (NUL, letters of both cases, digit, ';', 'm', 'H', '[', ESC, blank, LF, CR, 0x80, 0xA4, 0xFE) through every unary helper, "
                  "every pair of strings up to length 3 over a 5/7-byte alphabet through the binary helpers, all byte values through the per-byte helpers; plus PRNG(seed) strings of length 5..90 "
                  "(alphabet / uniform bytes / ANSI-token / DBCS-token generators) and related pairs; a case is non-trivial if it is a distinct (helper, input) that returned normally",
             assumptions=["bufio.Reader.ReadBytes, bytes.Index/IndexByte/HasPrefix/TrimRight and the UTF-8 decoding inside bytes.ToLower are re-specified in Model/C18.v and exercised by the correspondence, not verified",
                          "ReadLine is exercised over in-memory streams; read errors are injected by the driver's own io.Reader (alone, with the last data, through iotest.OneByteReader/HalfReader/DataErrReader) "
                          "and modelled as events handed out once; errors of a real device (EIO/ESTALE from the kernel) are not provoked, they reach bufio through the same Read interface",
                          "FileFindRecord/FileExistsRecord run on real files of the scratch file system, lines up to 70 000 bytes in the quick tier (300 000 in the thorough tier); a file that cannot be opened is not exercised",
                          "that the helpers share no state between calls running at the same time is validated, not proved: 8 goroutines of one process make a fixed number of calls "
                          "(no clock is read) and every distinct answer is checked; the Coq model is sequential, C18_concurrent_independent states only what the parallel run is compared with. "
                          "A shared scratch area shows as a wrong answer with overwhelming, not total, certainty; races that change no answer are not looked for",
                          "calls on buf[:n] of a larger buffer use tails of 1..8 non-zero bytes directly behind the input"])


if __name__ == "__main__":
    main()
