#!/usr/bin/env python3
"""C14 — concurrent appends: theorems over the interleaving model (coq/Props/C14.v); forced
interleavings of real cmsys.AppendRecord calls (goroutines in 1..3 worker processes) validated as
traces of the model; direct predicates on results and file bytes; stress under -race.
Second use after an I/O error: appenders whose write(2) the OS refuses (they append to the 'full' device 1:7 - what /dev/full
is - under a private name next to the record file, never to the path /dev/full itself: ENOSPC) run in the
same server processes, at every position of the other appenders' interleavings; the calls on the healthy file must
behave as if the failed calls had never happened (theorem C14_failed_elsewhere_leaves_nothing).
Big record files: the same forced interleavings and predicates on sparse files of 2 GiB .. 1 TiB (big_files below; theorems
C14_offset_exact, C14_prefix_shift)."""
import errno, itertools, os, subprocess, sys
sys.path.insert(0, os.path.join(os.path.dirname(os.path.abspath(__file__)), "..", "lib"))
import vf

SZ, NINIT = 8, 1


def interleavings(counts):
    """all sequences containing thread t exactly counts[t] times"""
    def rec(cs):
        if not any(cs):
            yield []
            return
        for t, k in enumerate(cs):
            if k:
                cs2 = list(cs); cs2[t] -= 1
                for r in rec(cs2):
                    yield [t] + r
    return rec(list(counts))


def dev_full_refuses_writes():
    """the precondition of the 'away' appenders: a write(2) to /dev/full is refused with ENOSPC on this machine"""
    try:
        fd = os.open("/dev/full", os.O_WRONLY)
    except OSError:
        return False
    try:
        os.write(fd, b"x")
        return False
    except OSError as e:
        return e.errno == errno.ENOSPC
    finally:
        os.close(fd)


def insertions(s, t):
    """the schedule s with thread t (a one-step thread) placed at every position"""
    return [s[:k] + [t] + s[k:] for k in range(len(s) + 1)]


def parse(out):
    f = out.split()
    if f[0] != "0":
        return None
    i1 = f.index("-1")
    i2 = f.index("-1", i1 + 1)
    ev = [(int(f[i]), int(f[i + 1])) for i in range(1, i1, 2)]
    rs = [(int(f[i]), int(f[i + 1])) for i in range(i1 + 1, i2, 2)]
    fb = [int(x) for x in f[i2 + 1:]]
    return ev, rs, fb


def parse_big(out, n):
    """op 2: events, results, then the sparse file losslessly: size and every maximal run of non-zero bytes"""
    f = out.split()
    if f[0] != "0":
        return None
    i1 = f.index("-1")
    i2 = i1 + 1 + 2 * (n + 1)
    ev = [(int(f[i]), int(f[i + 1])) for i in range(1, i1, 2)]
    rs = [(int(f[i]), int(f[i + 1])) for i in range(i1 + 1, i2, 2)]
    rest = [int(x) for x in f[i2 + 1:]]
    size, runs, k = rest[0], [], 1
    while k < len(rest):
        off, ln = rest[k], rest[k + 1]
        runs.append((off, rest[k + 2:k + 2 + ln]))
        k += 2 + ln
    return ev, rs, size, runs


def runs_of(records, sz):
    """the non-zero runs of a file that holds exactly these records (slot -> bytes, all non-zero), zero elsewhere"""
    runs = []
    for slot in sorted(records):
        if runs and runs[-1][0] + len(runs[-1][1]) == slot * sz:
            runs[-1] = (runs[-1][0], runs[-1][1] + list(records[slot]))
        else:
            runs.append((slot * sz, list(records[slot])))
    return runs


def sparse_read(runs, off, ln):
    out = [0] * max(ln, 0)
    for o, b in runs:
        lo, hi = max(o, off), min(o + len(b), off + ln)
        for x in range(lo, hi):
            out[x - off] = b[x - o]
    return out


def clip(runs, lim):
    return [(o, b[:lim - o]) for o, b in runs if o < lim]


def find_stretch(runs, v, ln):
    """offset of the first stretch of exactly ln bytes of value v"""
    for o, b in runs:
        i = 0
        while i < len(b):
            if b[i] == v:
                j = i
                while j < len(b) and b[j] == v:
                    j += 1
                if j - i == ln:
                    return o + i
                i = j
            else:
                i += 1
    return None


def short(runs):
    return [(o, len(b), sorted(set(b))) for o, b in runs][:12]


def model_schedule(ev, n):
    """map observed events to model steps (see Model/C14.v)"""
    sch, queued, last = [], set(), {}
    for t, code in ev:
        prev = last.get(t, 0)
        last[t] = code
        if code == 10:
            sch += [t]                                  # took its process' table entry
        elif code == 1:
            sch += [t]                                  # obtained the flock
        elif code == 2:
            sch += [t]
        elif code == 3:
            sch += [t, t]
        elif code == 4:
            sch += [t, t]
        elif code == 5:
            sch += [t, t, t] if prev == 2 else [t]     # a write error after the seek: fail, unflock, drop the table entry
    return sch + [n] * 7          # the late append


def big_files(c, rng, thorough, impl, model):
    """Record files of 2 GiB, 4 GiB, 8 GiB, 1 TiB (sparse: only the first and the last record are stored). AppendRecord sees
    nothing of a file but its length, and computes slot and offset from it: a width too narrow anywhere in that computation
    shows at these lengths and nowhere below. The same forced interleavings, the same predicates; the file is observed
    losslessly as (size, non-zero runs) through SEEK_DATA/SEEK_HOLE."""
    import concurrent.futures
    cases = []     # (procs, schedule, sz, n0)
    bounds = (2 ** 31, 2 ** 32, 2 ** 33, 2 ** 40)
    for B in (2 ** 31, 2 ** 32):                                # every interleaving of two appenders on a file of exactly 2 GiB / 4 GiB
        for procs in ([0, 0], [0, 1]):
            for s in interleavings([4, 4]):
                cases.append((procs, s, 128, B // 128))
    n_enum = len(cases)
    three = [[0, 0], [0, 1], [0, 0, 0], [0, 0, 1], [0, 1, 0], [0, 1, 1], [0, 1, 2], [0], [100, 0], [0, 101]]
    for rep in range(12 if thorough else 1):
        for sz in (128, 8, 1, 100, 512, 256):
            for B in bounds:
                for d in (-1, 0, 1, 3):                         # the append that crosses the boundary, the first after it, later ones
                    procs = list(rng.choice(three))
                    s = []
                    for t, p in enumerate(procs):
                        s += [t] * (3 if p >= 100 else 4)
                    rng.shuffle(s)
                    n0 = B // sz + d
                    if n0 * sz < B and d >= 0:
                        n0 += 1
                    cases.append((procs, s, sz, n0))
    lines = ["2|%d %d|%s|%s" % (sz, n0, " ".join(map(str, p)), " ".join(map(str, s))) for p, s, sz, n0 in cases]
    chunks = [lines[i::8] for i in range(8)]
    with concurrent.futures.ThreadPoolExecutor(8) as ex:
        outs = list(ex.map(lambda ch: vf.run_impl(impl, "C14", ch, deadline_ms=60000) if ch else [], chunks))
    io = [None] * len(lines)
    for k, ch in enumerate(outs):
        for j, o in enumerate(ch):
            io[k + 8 * j] = o
    c.count(len(lines), "forced interleavings on sparse record files of 2 GiB .. 1 TiB")
    unsupported = 0
    mlines, mwant, mcase = [], [], []
    alines, aimpl = [], []
    for (procs, s, sz, n0), line, o in zip(cases, lines, io):
        n = len(procs)
        L = sz * n0
        rep = {"cases": [line], "got": o[:3000], "note": "op 2: '2|record size, records the sparse file starts with|process of each appender (100+p: its payload cannot be serialised)|schedule'; "
               "output: events -1 (code, index) per appender and for the late append -1 file size, then (offset, length, bytes) of every non-zero run"}
        if o.split()[0] == "3":
            unsupported += 1
            continue
        p = parse_big(o, n)
        if p is None:
            c.violation("bigfile-append-hang", "appenders on a file of %d bytes did not all return (status %s) for procs=%s schedule=%s" % (L, o.split()[0], procs, s), rep)
            continue
        ev, rs, size, runs = p
        c.nontrivial(("bigtrace", tuple(procs), sz, n0, tuple(ev)))
        where = "record size %d, file of %d records = %d bytes (2^%.3f), procs=%s" % (sz, n0, L, __import__("math").log2(L), procs)
        succ = [(t, idx) for t, (code, idx) in enumerate(rs) if code == 1]
        if any(code == 0 for code, _ in rs):
            c.violation("bigfile-append-unfinished", "a call neither failed nor returned: %s (%s)" % (rs, where), rep)
        for t, (code, idx) in enumerate(rs[:n]):
            if procs[t] < 100 and code == 2 and idx != 1:
                # ErrPttLock (1) is the documented fail-fast refusal; any other error of a healthy appender on a healthy file is reported by the
                # late append below if it persists - here only counted
                c.cov["bigfile_calls_failing_otherwise_than_ErrPttLock"] = c.cov.get("bigfile_calls_failing_otherwise_than_ErrPttLock", 0) + 1
        idxs = [i for _, i in succ]
        if len(set(idxs)) != len(idxs):
            c.violation("bigfile-append-double-index", "two successful appends returned the same index: %s (%s, events=%s)" % (rs, where, ev), rep)
        for t, idx in succ:
            recb = sparse_read(runs, (idx - 1) * sz, sz)
            want = [t + 1] * sz
            if idx <= n0 or recb != want:
                c.violation("bigfile-append-torn-or-lost", "thread %d returned index %d but the record there (offset %d) is %s; non-zero runs of the file (offset, length, values): %s (%s, events=%s)"
                            % (t, idx, (idx - 1) * sz, recb[:16], short(runs), where, ev), rep)
        if size != sz * (n0 + len(succ)):
            c.violation("bigfile-append-length", "file length %d != %d + %d*%d successes (results %s; %s, events %s)" % (size, L, sz, len(succ), rs, where, ev), rep)
        if rs[n][0] != 1:
            c.violation("bigfile-append-late-fails", "an append issued after all others returned failed: %s; %s, events=%s" % (rs[n], where, ev), rep)
        init_runs = runs_of({0: [200] * sz, n0 - 1: [200] * sz}, sz)
        if clip(runs, L) != init_runs:
            c.violation("bigfile-append-clobber", "earlier records were modified: the file below its initial length %d holds (offset, length, values) %s, it held %s (%s, results %s)"
                        % (L, short(clip(runs, L)), short(init_runs), where, rs), rep)
        recs = {0: [200] * sz, n0 - 1: [200] * sz}
        for t, idx in succ:
            recs[idx - 1] = [t + 1] * sz
        if runs != runs_of(recs, sz):
            c.violation("bigfile-append-file-differs", "the file is not the initial file plus the records of the successful calls at their indices: non-zero runs %s, expected %s (%s, results %s)"
                        % (short(runs), short(runs_of(recs, sz)), where, rs), rep)
        # ---- the observed trace, seen through the window that starts at the last initial record, must be a trace of the model
        shift = n0 - 1
        sch = model_schedule(ev, n)
        mlines.append("1|%d %d|%s|%s|%s" % (sz, sz // 2, " ".join(map(str, procs + [0])), " ".join(["200"] * sz), " ".join(map(str, sch))))
        win = sparse_read(runs, shift * sz, min(max(size - shift * sz, 0), 64 * sz))
        mwant.append("0 " + " ".join("%d %d" % (code, idx - shift if code == 1 else 0) for code, idx in rs) + " -1 " + " ".join(map(str, win)))
        mcase.append((line, o))
        # ---- the offset computation: index returned and offset written by the j-th writer vs Model/C14 append_ret / append_off
        order = [t for t, code in ev if code == 3] + ([n] if rs[n][0] == 1 else [])
        for j, t in enumerate(order):
            if rs[t][0] == 1:
                alines.append("2|%d %d" % (L + j * sz, sz))
                aimpl.append("0 %d %s" % (rs[t][1], find_stretch(clip_from(runs, L - sz), t + 1, sz)))
    if model and mlines:
        mo = vf.run_model(model, mlines)
        bad = [{"case": cs[0], "impl": cs[1][:2000], "model_case": ml, "model": m, "expected_from_impl": w}
               for ml, m, w, cs in zip(mlines, mo, mwant, mcase) if " ".join(m.split()) != " ".join(w.split())]
        c.cov["bigfile_traces_validated_against_impl"] = len(mlines)
        if bad:
            c.broken.append({"kind": "correspondence", "where": "observed AppendRecord traces on sparse big files vs Model/C14 replay (window from the last initial record, indices shifted)",
                             "theorem": "trace validation on big files", "mismatches": len(bad), "examples": bad[:3], "log": ""})
        if alines:
            ao = vf.run_model(model, alines)
            vf.correspond(c, "AppendRecord index/offset on files of 2 GiB .. 1 TiB vs Model/C14 append_ret/append_off (theorem C14_offset_exact)", alines, aimpl, [" ".join(x.split()) for x in ao])
            c.cov["bigfile_offset_computations_compared"] = len(alines)
    c.cov["exhaustive_parts"].append(
        "all 70 interleavings of 2 appenders, in one process and across two, on a sparse record file of exactly 2 GiB and of exactly 4 GiB (128-byte records; %d executions)" % n_enum
        if unsupported == 0 else "sparse big files: %d of %d executions not possible on this file system (no holes / file too long)" % (unsupported, len(lines)))
    if len(lines) > 3:
        c.sample({"big_file": True, "record_size": cases[3][2], "records_before": cases[3][3], "procs": cases[3][0], "schedule": cases[3][1], "observed": io[3][:600]})
    return "%d executions, %d not possible here" % (len(lines), unsupported)


def clip_from(runs, lo):
    return [(max(o, lo), b[max(lo - o, 0):]) for o, b in runs if o + len(b) > lo]


def main():
    c = vf.Check("C14")
    rng = c.rng
    thorough = c.tier == "thorough"
    c.prove()
    model_ok = c.model_ok()
    impl = vf.build_impl()
    model = vf.build_model("C14") if model_ok else None

    cases = []   # (procs, schedule[, number of records the file starts with])
    for procs in ([0, 0], [0, 1]):
        for s in interleavings([4, 4]):                         # the same on a file that does not hold a record yet (first append ever)
            cases.append((procs, s, 0))
    for s in ([0, 1, -13, 0, 1, 0, 1, 0, 1, 1, 1], [0, 0, 1, -13, 0, 1, 0, 1, 1, 1, 1], [1, 0, -13, 1, 0, 1, 0, 1, 0, 0, 0], [0, 0, 0, 1, -13, 0, 1, 1, 1, 1]):
        cases.append(([0, 1], s))                               # a slow holder: the other process must keep waiting for the flock (1.3 s pause)
    for procs in ([0, 0], [0, 1]):
        for s in interleavings([4, 4]):                         # every interleaving of two appenders, in-process and cross-process
            cases.append((procs, s))
    for procs in ([100, 0], [100, 1], [0, 100], [1, 100]):              # one appender whose write fails inside the critical section
        for s in interleavings([3, 4] if procs[0] >= 100 else [4, 3]):
            cases.append((procs, s))
    n2 = len(cases)
    three = [[0, 0, 0], [0, 0, 1], [0, 1, 0], [0, 1, 1], [0, 1, 2]]
    for _ in range(1500 if thorough else 60):
        procs = list(rng.choice(three))
        if rng.random() < 0.3:
            procs[rng.randrange(3)] += 100
        s = [0] * 4 + [1] * 4 + [2] * 4
        rng.shuffle(s)
        cases.append((procs, s))
    for _ in range(300 if thorough else 12):
        procs = [rng.randrange(3) for _ in range(4)]
        procs[0] = 0
        s = [0] * 4 + [1] * 4 + [2] * 4 + [3] * 4
        rng.shuffle(s)
        cases.append((procs, s))
    # ---- second use after an I/O error: appenders whose write the OS refuses (200+p: process p, the call goes to the 'full' device)
    # 4th component: GOMAXPROCS of the worker processes (0 = Go default). With one P whatever a failed call leaves behind
    # in per-P caches is seen by the very next call; the default setting is exercised as well.
    away_ok = dev_full_refuses_writes()
    n_away0 = len(cases)
    if away_ok:
        for mp in (1, 0):
            for ni in (NINIT, 0):
                for procs in ([200, 0], [200, 1], [201, 1]):             # the failing call at every position of one appender's call
                    for s in insertions([1, 1, 1, 1], 0):
                        cases.append((procs, s, ni, mp))
        for procs in ([0, 0, 200], [0, 1, 200], [0, 1, 201]):             # ... and at every position of 2 appenders' interleavings
            allp = [s2 for s in interleavings([4, 4]) for s2 in insertions(s, 2)]
            pick = allp if thorough else rng.sample(allp, 22)
            for s in pick:
                cases.append((procs, s, rng.choice([0, 1]), 1))
        for procs in ([200, 200, 0], [200, 100, 0], [200, 0, 200, 0], [200, 201, 0, 1]):   # several failed calls, with a failed write on the file itself
            n_ok = sum(1 for p in procs if p < 200)
            base = []
            for t, p in enumerate(procs):
                base += [t] * (1 if p >= 200 else 3 if p >= 100 else 4)
            for _ in range(60 if thorough else 4):
                s = list(base)
                rng.shuffle(s)
                cases.append((procs, s, rng.choice([0, 1]), rng.choice([1, 1, 0])))
    n_away = len(cases) - n_away0
    cases = [(cs[0], cs[1], cs[2] if len(cs) > 2 else NINIT, cs[3] if len(cs) > 3 else 0) for cs in cases]
    lines = ["1|%d %d%s|%s|%s" % (SZ, ni, " %d" % mp if mp else "", " ".join(map(str, p)), " ".join(map(str, s))) for p, s, ni, mp in cases]
    # run in parallel chunks: each case spawns its own worker processes
    import concurrent.futures
    chunks = [lines[i::8] for i in range(8)]
    with concurrent.futures.ThreadPoolExecutor(8) as ex:
        outs = list(ex.map(lambda ch: vf.run_impl(impl, "C14", ch, deadline_ms=60000) if ch else [], chunks))
    io = [None] * len(lines)
    for k, ch in enumerate(outs):
        for j, o in enumerate(ch):
            io[k + 8 * j] = o
    c.count(len(lines) - n_away, "forced interleavings")
    c.cov["exhaustive_parts"] = ["all 70 interleavings of 2 appenders at the 4 segments, in one process and across two processes, on a file holding one record and on an empty file; 4 slow-holder schedules (1.3 s pause while another process waits for the flock); all 35 interleavings with one appender whose write fails inside the critical section x 4 placements (%d executions)" % n2,
                                "a call whose write(2) the OS refuses (ENOSPC, the 'full' device under a private name) at each of the 5 positions of one appender's call, in the same and in another process, file with a record / empty, GOMAXPROCS 1 and default (60 executions)" if away_ok else "appends to /dev/full not exercised: /dev/full does not refuse writes here"]
    c.count(n_away, "interleavings with calls whose write the OS refuses")

    mlines, midx, traces = [], [], 0
    away_other_error = 0
    for k, ((procs, s, NI, MP), line, o) in enumerate(zip(cases, lines, io)):
        n = len(procs)
        p = parse(o)
        rep = {"cases": [line], "got": o}
        if p is None:
            c.violation("append-hang", "appenders did not all return (status %s) for procs=%s schedule=%s" % (o.split()[0], procs, s), rep)
            continue
        ev, rs, fb = p
        c.nontrivial(("trace", tuple(procs), NI, MP, tuple(ev)))
        failed_away = [t for t in range(n) if procs[t] >= 200]
        # ---- direct predicates on the implementation's own outputs
        succ = [(t, idx) for t, (code, idx) in enumerate(rs) if code == 1 and not (t < n and procs[t] >= 200)]   # successful calls on the record file
        if any(code == 0 for code, _ in rs):
            c.violation("append-unfinished", "a call neither failed nor returned: %s" % rs, rep)
        idxs = [i for _, i in succ]
        if len(set(idxs)) != len(idxs):
            c.violation("append-double-index", "two successful appends returned the same index: %s (procs=%s, events=%s)" % (rs, procs, ev), rep)
        for t, idx in succ:
            recb = fb[(idx - 1) * SZ: idx * SZ]
            want = [t + 1] * SZ if t < n else [n + 1] * SZ
            stale = [u for u in failed_away if recb == [u + 1] * SZ and rs[u][0] == 2]
            if stale:
                c.violation("append-stale-record-of-failed-call", "thread %d returned index %d but the record stored there is the record of call %d, which had FAILED (its write was refused by the OS, on another file): %s; file %s (procs=%s, GOMAXPROCS=%s, events=%s)"
                            % (t, idx, stale[0], recb, fb, procs, MP or "default", ev), rep)
            if idx <= NI or recb != want:
                c.violation("append-torn-or-lost", "thread %d returned index %d but the record there is %s (procs=%s, events=%s)" % (t, idx, recb, procs, ev), rep)
        if len(fb) != SZ * (NI + len(succ)):
            c.violation("append-length", "file length %d != %d + %d*%d successes (results %s, events %s)" % (len(fb), SZ * NI, SZ, len(succ), rs, ev), rep)
        if rs[n][0] != 1:
            c.violation("append-late-fails", "an append issued after all others returned failed: %s (lock not released?) procs=%s events=%s" % (rs[n], procs, ev), rep)
        if fb[:SZ * NI] != [200] * (SZ * NI):
            c.violation("append-clobber", "earlier records were modified: %s" % fb[:SZ * NI], rep)
        # ---- the observed trace must be a trace of the model with the same outcome
        sch = model_schedule(ev, n)
        for t in failed_away:
            if rs[t][0] == 1:
                c.violation("append-refused-write-reported-as-success", "an append whose write(2) the OS refuses (ENOSPC) returned index %d without error: %s" % (rs[t][1], rs), rep)
            elif rs[t] != (2, 3):
                away_other_error += 1          # an error return is what the property allows; only: the refused write was not exercised
        for t, (code, idx) in enumerate(rs[:n]):
            if 100 <= procs[t] < 200 and code != 2:
                c.violation("append-bad-payload-accepted", "an append whose payload cannot be serialised did not fail: %s" % (rs,), rep)
        mlines.append("1|%d %d|%s|%s|%s" % (SZ, SZ // 2, " ".join(map(str, procs + [0])), " ".join(["200"] * (SZ * NI)), " ".join(map(str, sch))))
        midx.append(k)
    if model and mlines:
        mo = vf.run_model(model, mlines)
        bad = []
        for k, ml, m in zip(midx, mlines, mo):
            ev, rs, fb = parse(io[k])
            want = "0 " + " ".join("%d %d" % (code, idx if code == 1 else 0) for code, idx in rs) + " -1 " + " ".join(map(str, fb))
            traces += 1
            if " ".join(m.split()) != " ".join(want.split()):
                bad.append({"case": lines[k], "impl": io[k], "model_case": ml, "model": m})
        c.cov["traces_validated_against_impl"] = traces
        c.cov["away_calls_failing_otherwise_than_ENOSPC"] = away_other_error
        if bad:
            c.broken.append({"kind": "correspondence", "where": "observed AppendRecord traces vs Model/C14 replay", "theorem": "trace validation (replay accepts the observed trace with the same results and file)",
                             "mismatches": len(bad), "examples": bad[:3], "log": ""})
    c.sample({"procs": cases[150][0], "schedule": cases[150][1], "records_before": cases[150][2], "observed": io[150]})
    c.sample({"procs": cases[n2 + 1][0], "schedule": cases[n2 + 1][1], "observed": io[n2 + 1]})
    if n_away:
        c.sample({"procs": cases[n_away0 + 2][0], "schedule": cases[n_away0 + 2][1], "records_before": cases[n_away0 + 2][2], "GOMAXPROCS": cases[n_away0 + 2][3], "observed": io[n_away0 + 2]})

    big_note = big_files(c, rng, thorough, impl, model)

    race_note = ""
    if True:
        # 16 goroutines x 2 processes hammering one file under the race detector, every 8th call preceded by an append whose
        # write the OS refuses (/dev/full). Built WITHOUT the verif tag: the production code, no schedule points (and the verif
        # crash-point counter in types.BinaryWrite, a plain int of the harness, is not reported once two files are written at once)
        rc, out = vf.sh(["go", "run", "-race", "./cmd/c14stress"], cwd=os.path.join(vf.ROOT, "go", "impl"), env=vf.GOENV, timeout=1200)
        race_note = out.strip().split("\n")[-1][:300]
        c.count(1, "race stress")
        if rc != 0:
            c.violation("append-race-stress", "stress under -race failed: %s" % out[-600:], {"cmd": "cd go/impl && go run -race ./cmd/c14stress", "got": out[-2000:]})
    c.finish(rule="every interleaving of 2 appenders (4 segments each) in-process and cross-process; PRNG(seed)-sampled interleavings of 3 and 4 appenders over 1..3 processes; "
                  "a call whose write the OS refuses (/dev/full) at every position of one appender's call (enumerated) and at PRNG(seed)-sampled positions of 2 appenders' interleavings, several such calls; "
                  "the same forced interleavings on sparse record files: every interleaving of 2 appenders (in-process, cross-process) at exactly 2 GiB and 4 GiB; PRNG(seed)-sampled interleavings of 1..3 appenders for 6 record sizes x {2^31, 2^32, 2^33, 2^40} x {the append that crosses the boundary, the first one after it, later ones}; "
                  "a case is non-trivial/distinct by its (process assignment, observed event trace)",
             extra={"race_stress": race_note, "big_files": big_note},
             assumptions=["atomicity/exclusivity of flock(2), atomicity of one write(2) under it, lockFDMap accesses atomic under its mutex (race detector in the thorough tier), Go memory model",
                          "a thread is known to hold its process' table entry from the flock.tabled schedule point; which queued thread obtains a freed flock is observed, not predicted",
                          "second use after an I/O error: the refused write is provoked with the 'full' device 1:7 under a private name (own mknod node, else a symlink to /dev/full; ENOSPC on the first byte; the call names that path, so it fails on ANOTHER file than the one observed) and, on the record file itself, with a payload encoding/binary refuses; a write that the OS cuts short in the middle of a record (EFBIG/EDQUOT after some bytes) on the record file itself is not provoked. In the model such a call is one step that changes nothing (cfg.away): that AppendRecord keeps no state between calls besides lockFDMap and the files is what the forced executions test, it is not derived from the Go source",
                          "big record files: C14_offset_exact and C14_prefix_shift are theorems about the model's arithmetic (64-bit quotient and product, wrap after every operation) and about the step relation; that the compiled AppendRecord computes slot, offset and index in those widths is validated, not derived from the source: sparse files (first and last record stored, a hole between) of lengths just below, at and above 2^31, 2^32, 2^33 and 2^40 bytes, 6 record sizes, on this 64-bit platform (int is 64 bits; a 32-bit build has a 32-bit SortIdxInStore and is outside the theorem's widths); lengths the scratch file system cannot hold (above 16 TiB on ext4) are covered by the theorem only. The file is read back through lseek(SEEK_DATA/SEEK_HOLE): bytes the file system reports as a hole are taken to be zero. A trace observed on a big file is replayed through the model on the window that starts at the last initial record, with the indices shifted (C14_prefix_shift)",
                          "per-P caches (sync.Pool and the like) are made deterministic by running the worker processes of these cases with GOMAXPROCS=1 (one half of the enumerated cases also with the default); with several Ps whether a later call meets what a failed call left behind depends on the Go scheduler"])


if __name__ == "__main__":
    main()
