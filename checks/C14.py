#!/usr/bin/env python3
"""C14 — concurrent appends: theorems over the interleaving model (coq/Props/C14.v); forced
interleavings of real cmsys.AppendRecord calls (goroutines in 1..3 worker processes) validated as
traces of the model; direct predicates on results and file bytes; stress under -race.
Second use after an I/O error: appenders whose write(2) the OS refuses (they append to the 'full' device 1:7 - what /dev/full
is - under a private name next to the record file, never to the path /dev/full itself: ENOSPC) run in the
same server processes, at every position of the other appenders' interleavings; the calls on the healthy file must
behave as if the failed calls had never happened (theorem C14_failed_elsewhere_leaves_nothing)."""
import errno, itertools, os, subprocess, sys
sys.path.insert(0, os.path.join(os.path.dirname(os.path.abspath(__file__)), "..", "lib"))
import vf

SZ, NINIT = 8, 1


def interleavings(counts):
    """all sequences containing thread t exactly counts[t] times"""
    def rec(cs):
        if not any(cs):
            yield []
            return
        for t, k in enumerate(cs):
            if k:
                cs2 = list(cs); cs2[t] -= 1
                for r in rec(cs2):
                    yield [t] + r
    return rec(list(counts))


def dev_full_refuses_writes():
    """the precondition of the 'away' appenders: a write(2) to /dev/full is refused with ENOSPC on this machine"""
    try:
        fd = os.open("/dev/full", os.O_WRONLY)
    except OSError:
        return False
    try:
        os.write(fd, b"x")
        return False
    except OSError as e:
        return e.errno == errno.ENOSPC
    finally:
        os.close(fd)


def insertions(s, t):
    """the schedule s with thread t (a one-step thread) placed at every position"""
    return [s[:k] + [t] + s[k:] for k in range(len(s) + 1)]


def parse(out):
    f = out.split()
    if f[0] != "0":
        return None
    i1 = f.index("-1")
    i2 = f.index("-1", i1 + 1)
    ev = [(int(f[i]), int(f[i + 1])) for i in range(1, i1, 2)]
    rs = [(int(f[i]), int(f[i + 1])) for i in range(i1 + 1, i2, 2)]
    fb = [int(x) for x in f[i2 + 1:]]
    return ev, rs, fb


def model_schedule(ev, n):
    """map observed events to model steps (see Model/C14.v)"""
    sch, queued, last = [], set(), {}
    for t, code in ev:
        prev = last.get(t, 0)
        last[t] = code
        if code == 10:
            sch += [t]                                  # took its process' table entry
        elif code == 1:
            sch += [t]                                  # obtained the flock
        elif code == 2:
            sch += [t]
        elif code == 3:
            sch += [t, t]
        elif code == 4:
            sch += [t, t]
        elif code == 5:
            sch += [t, t, t] if prev == 2 else [t]     # a write error after the seek: fail, unflock, drop the table entry
    return sch + [n] * 7          # the late append


def main():
    c = vf.Check("C14")
    rng = c.rng
    thorough = c.tier == "thorough"
    c.prove()
    model_ok = c.model_ok()
    impl = vf.build_impl()
    model = vf.build_model("C14") if model_ok else None

    cases = []   # (procs, schedule[, number of records the file starts with])
    for procs in ([0, 0], [0, 1]):
        for s in interleavings([4, 4]):                         # the same on a file that does not hold a record yet (first append ever)
            cases.append((procs, s, 0))
    for s in ([0, 1, -13, 0, 1, 0, 1, 0, 1, 1, 1], [0, 0, 1, -13, 0, 1, 0, 1, 1, 1, 1], [1, 0, -13, 1, 0, 1, 0, 1, 0, 0, 0], [0, 0, 0, 1, -13, 0, 1, 1, 1, 1]):
        cases.append(([0, 1], s))                               # a slow holder: the other process must keep waiting for the flock (1.3 s pause)
    for procs in ([0, 0], [0, 1]):
        for s in interleavings([4, 4]):                         # every interleaving of two appenders, in-process and cross-process
            cases.append((procs, s))
    for procs in ([100, 0], [100, 1], [0, 100], [1, 100]):              # one appender whose write fails inside the critical section
        for s in interleavings([3, 4] if procs[0] >= 100 else [4, 3]):
            cases.append((procs, s))
    n2 = len(cases)
    three = [[0, 0, 0], [0, 0, 1], [0, 1, 0], [0, 1, 1], [0, 1, 2]]
    for _ in range(1500 if thorough else 60):
        procs = list(rng.choice(three))
        if rng.random() < 0.3:
            procs[rng.randrange(3)] += 100
        s = [0] * 4 + [1] * 4 + [2] * 4
        rng.shuffle(s)
        cases.append((procs, s))
    for _ in range(300 if thorough else 12):
        procs = [rng.randrange(3) for _ in range(4)]
        procs[0] = 0
        s = [0] * 4 + [1] * 4 + [2] * 4 + [3] * 4
        rng.shuffle(s)
        cases.append((procs, s))
    # ---- second use after an I/O error: appenders whose write the OS refuses (200+p: process p, the call goes to the 'full' device)
    # 4th component: GOMAXPROCS of the worker processes (0 = Go default). With one P whatever a failed call leaves behind
    # in per-P caches is seen by the very next call; the default setting is exercised as well.
    away_ok = dev_full_refuses_writes()
    n_away0 = len(cases)
    if away_ok:
        for mp in (1, 0):
            for ni in (NINIT, 0):
                for procs in ([200, 0], [200, 1], [201, 1]):             # the failing call at every position of one appender's call
                    for s in insertions([1, 1, 1, 1], 0):
                        cases.append((procs, s, ni, mp))
        for procs in ([0, 0, 200], [0, 1, 200], [0, 1, 201]):             # ... and at every position of 2 appenders' interleavings
            allp = [s2 for s in interleavings([4, 4]) for s2 in insertions(s, 2)]
            pick = allp if thorough else rng.sample(allp, 22)
            for s in pick:
                cases.append((procs, s, rng.choice([0, 1]), 1))
        for procs in ([200, 200, 0], [200, 100, 0], [200, 0, 200, 0], [200, 201, 0, 1]):   # several failed calls, with a failed write on the file itself
            n_ok = sum(1 for p in procs if p < 200)
            base = []
            for t, p in enumerate(procs):
                base += [t] * (1 if p >= 200 else 3 if p >= 100 else 4)
            for _ in range(60 if thorough else 4):
                s = list(base)
                rng.shuffle(s)
                cases.append((procs, s, rng.choice([0, 1]), rng.choice([1, 1, 0])))
    n_away = len(cases) - n_away0
    cases = [(cs[0], cs[1], cs[2] if len(cs) > 2 else NINIT, cs[3] if len(cs) > 3 else 0) for cs in cases]
    lines = ["1|%d %d%s|%s|%s" % (SZ, ni, " %d" % mp if mp else "", " ".join(map(str, p)), " ".join(map(str, s))) for p, s, ni, mp in cases]
    # run in parallel chunks: each case spawns its own worker processes
    import concurrent.futures
    chunks = [lines[i::8] for i in range(8)]
    with concurrent.futures.ThreadPoolExecutor(8) as ex:
        outs = list(ex.map(lambda ch: vf.run_impl(impl, "C14", ch, deadline_ms=60000) if ch else [], chunks))
    io = [None] * len(lines)
    for k, ch in enumerate(outs):
        for j, o in enumerate(ch):
            io[k + 8 * j] = o
    c.count(len(lines) - n_away, "forced interleavings")
    c.cov["exhaustive_parts"] = ["all 70 interleavings of 2 appenders at the 4 segments, in one process and across two processes, on a file holding one record and on an empty file; 4 slow-holder schedules (1.3 s pause while another process waits for the flock); all 35 interleavings with one appender whose write fails inside the critical section x 4 placements (%d executions)" % n2,
                                "a call whose write(2) the OS refuses (ENOSPC, the 'full' device under a private name) at each of the 5 positions of one appender's call, in the same and in another process, file with a record / empty, GOMAXPROCS 1 and default (60 executions)" if away_ok else "appends to /dev/full not exercised: /dev/full does not refuse writes here"]
    c.count(n_away, "interleavings with calls whose write the OS refuses")

    mlines, midx, traces = [], [], 0
    away_other_error = 0
    for k, ((procs, s, NI, MP), line, o) in enumerate(zip(cases, lines, io)):
        n = len(procs)
        p = parse(o)
        rep = {"cases": [line], "got": o}
        if p is None:
            c.violation("append-hang", "appenders did not all return (status %s) for procs=%s schedule=%s" % (o.split()[0], procs, s), rep)
            continue
        ev, rs, fb = p
        c.nontrivial(("trace", tuple(procs), NI, MP, tuple(ev)))
        failed_away = [t for t in range(n) if procs[t] >= 200]
        # ---- direct predicates on the implementation's own outputs
        succ = [(t, idx) for t, (code, idx) in enumerate(rs) if code == 1 and not (t < n and procs[t] >= 200)]   # successful calls on the record file
        if any(code == 0 for code, _ in rs):
            c.violation("append-unfinished", "a call neither failed nor returned: %s" % rs, rep)
        idxs = [i for _, i in succ]
        if len(set(idxs)) != len(idxs):
            c.violation("append-double-index", "two successful appends returned the same index: %s (procs=%s, events=%s)" % (rs, procs, ev), rep)
        for t, idx in succ:
            recb = fb[(idx - 1) * SZ: idx * SZ]
            want = [t + 1] * SZ if t < n else [n + 1] * SZ
            stale = [u for u in failed_away if recb == [u + 1] * SZ and rs[u][0] == 2]
            if stale:
                c.violation("append-stale-record-of-failed-call", "thread %d returned index %d but the record stored there is the record of call %d, which had FAILED (its write was refused by the OS, on another file): %s; file %s (procs=%s, GOMAXPROCS=%s, events=%s)"
                            % (t, idx, stale[0], recb, fb, procs, MP or "default", ev), rep)
            if idx <= NI or recb != want:
                c.violation("append-torn-or-lost", "thread %d returned index %d but the record there is %s (procs=%s, events=%s)" % (t, idx, recb, procs, ev), rep)
        if len(fb) != SZ * (NI + len(succ)):
            c.violation("append-length", "file length %d != %d + %d*%d successes (results %s, events %s)" % (len(fb), SZ * NI, SZ, len(succ), rs, ev), rep)
        if rs[n][0] != 1:
            c.violation("append-late-fails", "an append issued after all others returned failed: %s (lock not released?) procs=%s events=%s" % (rs[n], procs, ev), rep)
        if fb[:SZ * NI] != [200] * (SZ * NI):
            c.violation("append-clobber", "earlier records were modified: %s" % fb[:SZ * NI], rep)
        # ---- the observed trace must be a trace of the model with the same outcome
        sch = model_schedule(ev, n)
        for t in failed_away:
            if rs[t][0] == 1:
                c.violation("append-refused-write-reported-as-success", "an append whose write(2) the OS refuses (ENOSPC) returned index %d without error: %s" % (rs[t][1], rs), rep)
            elif rs[t] != (2, 3):
                away_other_error += 1          # an error return is what the property allows; only: the refused write was not exercised
        for t, (code, idx) in enumerate(rs[:n]):
            if 100 <= procs[t] < 200 and code != 2:
                c.violation("append-bad-payload-accepted", "an append whose payload cannot be serialised did not fail: %s" % (rs,), rep)
        mlines.append("1|%d %d|%s|%s|%s" % (SZ, SZ // 2, " ".join(map(str, procs + [0])), " ".join(["200"] * (SZ * NI)), " ".join(map(str, sch))))
        midx.append(k)
    if model and mlines:
        mo = vf.run_model(model, mlines)
        bad = []
        for k, ml, m in zip(midx, mlines, mo):
            ev, rs, fb = parse(io[k])
            want = "0 " + " ".join("%d %d" % (code, idx if code == 1 else 0) for code, idx in rs) + " -1 " + " ".join(map(str, fb))
            traces += 1
            if " ".join(m.split()) != " ".join(want.split()):
                bad.append({"case": lines[k], "impl": io[k], "model_case": ml, "model": m})
        c.cov["traces_validated_against_impl"] = traces
        c.cov["away_calls_failing_otherwise_than_ENOSPC"] = away_other_error
        if bad:
            c.broken.append({"kind": "correspondence", "where": "observed AppendRecord traces vs Model/C14 replay", "theorem": "trace validation (replay accepts the observed trace with the same results and file)",
                             "mismatches": len(bad), "examples": bad[:3], "log": ""})
    c.sample({"procs": cases[150][0], "schedule": cases[150][1], "records_before": cases[150][2], "observed": io[150]})
    c.sample({"procs": cases[n2 + 1][0], "schedule": cases[n2 + 1][1], "observed": io[n2 + 1]})
    if n_away:
        c.sample({"procs": cases[n_away0 + 2][0], "schedule": cases[n_away0 + 2][1], "records_before": cases[n_away0 + 2][2], "GOMAXPROCS": cases[n_away0 + 2][3], "observed": io[n_away0 + 2]})

    race_note = ""
    if True:
        # 16 goroutines x 2 processes hammering one file under the race detector, every 8th call preceded by an append whose
        # write the OS refuses (/dev/full). Built WITHOUT the verif tag: the production code, no schedule points (and the verif
        # crash-point counter in types.BinaryWrite, a plain int of the harness, is not reported once two files are written at once)
        rc, out = vf.sh(["go", "run", "-race", "./cmd/c14stress"], cwd=os.path.join(vf.ROOT, "go", "impl"), env=vf.GOENV, timeout=1200)
        race_note = out.strip().split("\n")[-1][:300]
        c.count(1, "race stress")
        if rc != 0:
            c.violation("append-race-stress", "stress under -race failed: %s" % out[-600:], {"cmd": "cd go/impl && go run -race ./cmd/c14stress", "got": out[-2000:]})
    c.finish(rule="every interleaving of 2 appenders (4 segments each) in-process and cross-process; PRNG(seed)-sampled interleavings of 3 and 4 appenders over 1..3 processes; "
                  "a call whose write the OS refuses (/dev/full) at every position of one appender's call (enumerated) and at PRNG(seed)-sampled positions of 2 appenders' interleavings, several such calls; "
                  "a case is non-trivial/distinct by its (process assignment, observed event trace)",
             extra={"race_stress": race_note},
             assumptions=["atomicity/exclusivity of flock(2), atomicity of one write(2) under it, lockFDMap accesses atomic under its mutex (race detector in the thorough tier), Go memory model",
                          "a thread is known to hold its process' table entry from the flock.tabled schedule point; which queued thread obtains a freed flock is observed, not predicted",
                          "second use after an I/O error: the refused write is provoked with the 'full' device 1:7 under a private name (own mknod node, else a symlink to /dev/full; ENOSPC on the first byte; the call names that path, so it fails on ANOTHER file than the one observed) and, on the record file itself, with a payload encoding/binary refuses; a write that the OS cuts short in the middle of a record (EFBIG/EDQUOT after some bytes) on the record file itself is not provoked. In the model such a call is one step that changes nothing (cfg.away): that AppendRecord keeps no state between calls besides lockFDMap and the files is what the forced executions test, it is not derived from the Go source",
                          "per-P caches (sync.Pool and the like) are made deterministic by running the worker processes of these cases with GOMAXPROCS=1 (one half of the enumerated cases also with the default); with several Ps whether a later call meets what a failed call left behind depends on the Go scheduler"])


if __name__ == "__main__":
    main()
