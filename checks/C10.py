#!/usr/bin/env python3
"""C10 — comments are appended, never rewrite, and move the score by at most one.
Proofs in coq/Props/C10.v; correspondence of the extracted model with ptt.Recommend on a planted board;
direct predicates on the implementation's own outputs after every step: the article file only grew by the
returned line, the line has the comment format, .DIR changed only in bytes 28..31 and 33 of the addressed
entry, the score is clamp(old + delta) within [-100, 100], refused comments leave both files untouched."""
import os, re, struct, sys
sys.path.insert(0, os.path.join(os.path.dirname(os.path.abspath(__file__)), "..", "lib"))
import vf

REC = 128
ESC = b"\x1b"
MARK = {1: ESC + b"[1;37m\xb1\xc0", 2: ESC + b"[1;31m\xbcN", 3: ESC + b"[1;31m\xa1\xf7"}
DELTA = {1: 1, 2: -1}
FILE_MARKED, FILE_SOLVED = 0x02, 0x10


def entry(i, score, filemode, rng, first=b"M"):
    t = 1607200000 + 100 * i
    name = first + b".%010d.A.%03X" % (t, (i * 291 + 13) % 4096)
    r = bytearray(REC)
    r[0:len(name)] = name
    r[28:32] = struct.pack("<i", t - 1)
    r[32] = rng.choice([0, 0x5A, 0xFF])            # Pad
    r[33] = score & 0xFF
    r[34:39] = b"SYSOP"
    r[48:53] = b"12/06"
    title = b"[test] " + bytes(rng.choice(b"abcXYZ\xa4\xa4 ") for _ in range(rng.randrange(0, 40)))
    r[54:54 + len(title)] = title
    r[119] = rng.choice([0, 7])                    # Pad2
    r[120:124] = bytes(rng.randrange(256) for _ in range(4))   # Multi
    r[124] = filemode
    r[125:128] = bytes(rng.choice([0, 1, 0xEE]) for _ in range(3))   # Pad3
    return bytes(r), name


def toks(bs):
    return " ".join(str(b) for b in bs)


class Scenario:
    def __init__(self, rng, n, target, score, filemode=0, link=False, align=0, iplog=0, norec=0, uid=b"A1", ip=b"192.168.0.1", art=None):
        self.align, self.iplog, self.norec, self.uid, self.ip = align, iplog, norec, uid, ip
        self.target, self.score, self.filemode, self.link = target, score, filemode, link
        recs = []
        for i in range(n):
            if i == target:
                r, self.name = entry(i, score, filemode, rng, b"L" if link else b"M")
            else:
                r, _ = entry(i, rng.randrange(-100, 101), rng.choice([0, 0, 2, 16, 18, 1]), rng)
            recs.append(r)
        self.dir = b"".join(recs)
        self.art = art if art is not None else b"\xa7@\xaa\xcc: SYSOP\n\xbc\xd0\xc3D: test\n\ncontent line\n--\n"
        self.steps = []

    def line(self, obs=None):
        head = "1|%d %d %d|%s|%s|%s|%s|%s" % (self.align, self.iplog, self.norec, toks(self.dir), toks(self.name.ljust(28, b"\0")),
                                              toks(self.art), toks(self.ip), toks(self.uid))
        s = head + "".join("|" + toks([ct] + list(txt)) for ct, txt in self.steps)
        if obs is not None:
            s += "|99" + "".join("|" + toks(o) for o in obs)
        return s

    def refused(self):
        return bool(self.norec or self.link or (self.filemode & FILE_MARKED and self.filemode & FILE_SOLVED))


def parse_steps(res):
    """[('ok', line, mtime, preserved, appended, diff, score) | ('err', code, artchg, dirchg)]"""
    t = res.split()
    if t[0] != "0":
        return None
    n = int(t[1]); pos = 2
    out = []
    for _ in range(n):
        if t[pos] == "3":
            out.append(("err", int(t[pos + 1]), int(t[pos + 2]), int(t[pos + 3]))); pos += 4
            continue
        assert t[pos] == "0"
        ln = int(t[pos + 1]); pos += 2
        line = bytes(int(x) for x in t[pos:pos + ln]); pos += ln
        mtime, preserved, na = int(t[pos]), int(t[pos + 1]), int(t[pos + 2]); pos += 3
        app = bytes(int(x) for x in t[pos:pos + na]); pos += na
        nd = int(t[pos]); pos += 1
        diff = [(int(t[pos + 2 * k]), int(t[pos + 2 * k + 1])) for k in range(nd)]; pos += 2 * nd
        score = int(t[pos]); pos += 1
        out.append(("ok", line, mtime, preserved, app, diff, score))
    assert pos == len(t)
    return out


LINE_RE = re.compile(rb"^(?P<mark>(\x1b\[1;3[17]m..)?) \x1b\[33m(?P<user>[^\x1b]*)\x1b\[m\x1b\[33m: (?P<rest>.*)\n$", re.S)
CLOCK_RE = re.compile(rb"^\d\d/\d\d \d\d:\d\d$")


def line_ok(sc, ct, text, line):
    """type mark, commenter (padded to 13 on aligned boards), text, padding, optional IP, MM/DD HH:MM, LF - in that order"""
    m = LINE_RE.match(line)
    if not m or m.group("mark") != MARK.get(ct, b""):
        return "type mark / colour / user field"
    user = m.group("user")
    if user.rstrip(b"\0 ") != sc.uid or (sc.align and len(user) != 13) or (not sc.align and user != sc.uid):
        return "commenter field %r" % user
    rest = m.group("rest")
    if not rest.startswith(text):
        return "text"
    rest = rest[len(text):]
    width = 62 - (15 if sc.iplog else 0) - len(user) - len(text)
    pad = max(width, 0)
    if rest[:pad] != b" " * pad or rest[pad:pad + 3] != ESC + b"[m":
        return "padding to the fixed width"
    tail = rest[pad + 3:]
    if sc.iplog:
        if not tail.startswith(sc.ip + b" "):
            return "ip"
        tail = tail[len(sc.ip):]
    if tail[:1] != b" " or not CLOCK_RE.match(tail[1:]):
        return "time"
    return None


def clamp(x):
    return max(-100, min(100, x))


def main():
    c = vf.Check("C10")
    rng = c.rng
    thorough = c.tier == "thorough"
    c.prove()
    model_ok = c.model_ok()
    impl = vf.build_impl()
    model = vf.build_model("C10") if model_ok else None
    try:
        run(c, rng, thorough, impl, model)
    finally:
        vf.ipc_cleanup()
    c.finish(rule="every start score in [-100,100] planted in a scratch .DIR x one comment of every type (push, boo, arrow, and two types without a mark) on plain, "
                  "aligned and IP-logging boards; PRNG(seed) sequences of <= 40 comments on three articles (different positions in the index, different contents) with texts "
                  "of 0..120 bytes incl. DBCS lead/trail bytes; the three refusal conditions and their near misses. A step is non-trivial if it is a distinct "
                  "(start score, type, board flags, text) accepted comment or a distinct refusal class",
             assumptions=["the clock string of the line and the article's mtime after the append are observed from the implementation and fed to the model",
                          "the index entry is found by name; cmsys.GetRecord/FindRecordStartIdx are the subject of C06 (names in the planted .DIR are unique and sorted by time)",
                          "permission checks before the refusal conditions (C07/C08) are passed by the driver's user; ptt.Recommend is called directly (bbs.CreateComment cannot address a link entry by article id)",
                          "sequential comments only: the non-blocking flock retry path and concurrent commenters are outside this check"])


def judge(c, sc, steps, label):
    """direct predicates on the observed steps of one scenario"""
    base = sc.target * REC
    allowed = set(range(base + 28, base + 32)) | {base + 33}
    score = sc.score
    cur_dir = bytearray(sc.dir)
    case = [sc.line()]
    for (ct, text), st in zip(sc.steps, steps):
        if sc.refused():
            if st[0] != "err":
                c.violation("not-refused", "%s: a comment was accepted although the board/article refuses comments (norec=%d link=%s filemode=%#x)" % (label, sc.norec, sc.link, sc.filemode),
                            {"cases": case, "got": repr(st)[:300]})
            elif st[2] or st[3]:
                c.violation("refusal-trace", "%s: a refused comment changed the %s" % (label, "article file" if st[2] else ".DIR"), {"cases": case, "got": repr(st)})
            else:
                c.nontrivial(("refused", sc.norec, sc.link, sc.filemode))
            continue
        if st[0] == "err":
            continue          # not a statement about C10 ("a successful comment ..."); the correspondence reports it
        _, line, mtime, preserved, app, diff, after = st
        if not preserved:
            c.violation("rewrite", "%s: earlier bytes of the article file changed" % label, {"cases": case, "got": repr(st)[:300]})
        elif app != line:
            c.violation("append-mismatch", "%s: the bytes appended to the article are not the returned line" % label, {"cases": case, "expected": repr(line), "got": repr(app)})
        why = line_ok(sc, ct, bytes(text), line)
        if why and b"\n" not in bytes(text) and b"\x1b" not in bytes(text):
            c.violation("line-format", "%s: the comment line does not have the format (%s)" % (label, why), {"cases": case, "got": repr(line)})
        if b"\n" not in bytes(text) and line.count(b"\n") != 1:
            c.violation("line-lf", "%s: the comment is not exactly one line" % label, {"cases": case, "got": repr(line)})
        bad = [o for o, _ in diff if o not in allowed]
        if bad:
            c.violation("index-frame", "%s: .DIR changed outside Modified/Recommend of the addressed entry (offsets %s, entry at %d)" % (label, bad[:8], base),
                        {"cases": case, "got": repr(diff)[:300]})
        for o, v in diff:
            if 0 <= o < len(cur_dir):
                cur_dir[o] = v
        want = clamp(score + DELTA.get(ct, 0))
        planted = cur_dir[base + 33] - 256 if cur_dir[base + 33] > 127 else cur_dir[base + 33]
        if after != want or planted != want or not -100 <= after <= 100 or abs(after - score) > 1:
            c.violation("score", "%s: score %d, comment type %d -> %d (expected %d)" % (label, score, ct, after, want), {"cases": case, "expected": want, "got": after})
        if struct.unpack("<i", bytes(cur_dir[base + 28:base + 32]))[0] != mtime:
            c.violation("mtime", "%s: Modified of the entry is not the article's modification time" % label, {"cases": case, "got": repr(diff)[:200]})
        c.nontrivial(("step", score, ct, sc.align, sc.iplog, bytes(text)))
        score = after


def observations(steps):
    obs = []
    for st in steps:
        if st[0] == "ok":
            line = st[1]
            obs.append(list(line[-12:-1]) + [st[2]])
        else:
            obs.append([0] * 11 + [0])
    return obs


def run(c, rng, thorough, impl, model):
    def text(maxlen=120):
        n = rng.choice([0, 1, 5, 20, 45, 46, 47, 48, 60, 61, 62, 63, 80, 120, rng.randrange(0, maxlen + 1)])
        out = bytearray()
        while len(out) < n:
            r = rng.random()
            if r < 0.35 and len(out) + 2 <= n:
                out += bytes([rng.randrange(0x81, 0xFF), rng.choice([rng.randrange(0x40, 0x7F), rng.randrange(0xA1, 0xFF)])])
            else:
                out.append(rng.choice(b"abcdefghijklmnopqrstuvwxyz ABC0123456789:/!?\\~") if r < 0.95 else rng.randrange(0x20, 0x100))
        return bytes(out[:n])

    def drive(scs, label):
        l1 = [sc.line() for sc in scs]
        o1 = vf.run_impl(impl, "C10", l1, deadline_ms=120000)
        parsed = []
        for sc, line, res in zip(scs, l1, o1):
            st = res.split()[0]
            if st in ("1", "2"):
                c.violation("crash" if st == "1" else "hang", "%s: ptt.Recommend %s" % (label, "panics" if st == "1" else "hangs"), {"cases": [line], "got": res[:100]})
                parsed.append(None)
                continue
            if st != "0":
                raise SystemExit("C10: bad case from the generator: " + line[:200])
            parsed.append(parse_steps(res))
        if model:
            idx = [i for i, p in enumerate(parsed) if p is not None]
            l2 = [scs[i].line(observations(parsed[i])) for i in idx]
            mo = vf.run_model(model, l2)
            vf.correspond(c, label, l2, [o1[i] for i in idx], mo)
        for sc, p in zip(scs, parsed):
            if p is not None:
                judge(c, sc, p, label)
        c.count(sum(len(sc.steps) for sc in scs), label)
        return o1

    # ---------------------------------------------------------------- 1. every start score x every type
    scs = []
    for score in range(-100, 101):
        for ct in (1, 2, 3, 0, 4):
            flags = rng.choice([(0, 0), (1, 0), (0, 1), (1, 1)])
            sc = Scenario(rng, 3, 1, score, align=flags[0], iplog=flags[1], uid=rng.choice([b"A1", b"SYSOP", b"abcdefghijkl"]))
            sc.steps = [(ct, text(70))]
            scs.append(sc)
    o = drive(scs, "one comment of each type from every start score")
    c.cov["exhaustive_parts"].append("every start score in [-100,100] x comment types {push, boo, arrow, 0, 4}: %d planted boards" % len(scs))
    c.sample({"op": "Recommend", "start": scs[3].score, "type": scs[3].steps[0][0], "result": o[3][:160]})

    # ---------------------------------------------------------------- 2. random sequences on three articles
    arts = [(4, 0, b"short\n"), (5, 2, None), (6, 5, bytes(rng.randrange(256) for _ in range(700)) + b"\n")]
    scs = []
    for _ in range(400 if thorough else 60):
        n, tg, art = rng.choice(arts)
        sc = Scenario(rng, n, tg, rng.choice([-100, -99, -98, -1, 0, 1, 98, 99, 100, rng.randrange(-100, 101)]),
                      filemode=rng.choice([0, 0, 1, 2, 16, 4, 8]), align=rng.choice([0, 1]), iplog=rng.choice([0, 1]),
                      uid=rng.choice([b"A1", b"SYSOP", b"abcdefghijkl"]), ip=rng.choice([b"127.0.0.1", b"255.255.255.255", b"8.8.8.8"]), art=art)
        bias = rng.choice([(6, 1, 1), (1, 6, 1), (2, 2, 2)])
        sc.steps = [(rng.choices([1, 2, 3], bias)[0], text()) for _ in range(rng.randrange(1, 41))]
        scs.append(sc)
    # saturation walks: from +-97 straight through the limit and back
    for start, ct in ((97, 1), (-97, 2)):
        sc = Scenario(rng, 4, 3, start)
        sc.steps = [(ct, b"up")] * 8 + [(3 - ct, b"down")] * 4 + [(3, b"->")] * 2
        scs.append(sc)
    o = drive(scs, "random sequences of comments")
    c.sample({"op": "Recommend sequence", "steps": len(scs[0].steps), "start": scs[0].score, "result": o[0][:160]})

    # ---------------------------------------------------------------- 3. refusals and near misses
    scs = []
    for ct in (1, 2, 3):
        for score in (-100, 0, 37, 100):
            scs.append(Scenario(rng, 3, 1, score, norec=1))
            scs.append(Scenario(rng, 3, 1, score, link=True))
            for fm in (0x12, 0x13, 0x16, 0x1A, 0xFF, 0x32):
                scs.append(Scenario(rng, 3, rng.randrange(3), score, filemode=fm))
            for fm in (0x02, 0x10, 0x01, 0x0D, 0xED):                     # marked only, solved only, neither: accepted
                scs.append(Scenario(rng, 3, rng.randrange(3), score, filemode=fm))
        for sc in scs:
            if not sc.steps:
                sc.steps = [(ct, text(30)), (ct, text(30))]
    o = drive(scs, "refusal conditions")
    c.cov["exhaustive_parts"].append("no-comment board, link entry, marked-and-solved (6 file modes) and 5 near-miss file modes x 3 types x 4 scores")
    c.sample({"op": "Recommend refused", "result": o[0][:60]})


if __name__ == "__main__":
    main()
