#!/usr/bin/env python3
"""C10 — comments are appended, never rewrite, and move the score by at most one.
Entries stamped (Modified) earlier than, at and LATER than the clock of the comment (op 4 of the driver plants the stamp, absolute or
relative to its own clock): the score moves and Modified becomes the article file's own mtime (stat by the driver) whatever was stored.
Proofs in coq/Props/C10.v; correspondence of the extracted model with ptt.Recommend on a planted board;
direct predicates on the implementation's own outputs after every step: the article file only grew by the
returned line, the line has the comment format, .DIR changed only in bytes 28..31 and 33 of the addressed
entry, the score is clamp(old + delta) within [-100, 100], refused comments leave both files untouched.
Board sessions (ops 2/3 of the driver): several articles and several commenters on boards with every combination of
the comment-related board attributes (aligned, IP log, no-comment, no-boo, no-fast-recommend) and pause values, the
comments issued back to back: the outcome of a comment may depend only on its own type and on the addressed entry -
never on what anybody commented before (a push carries the push mark and moves the score by +1 whatever preceded it)."""
import os, re, struct, sys
sys.path.insert(0, os.path.join(os.path.dirname(os.path.abspath(__file__)), "..", "lib"))
import vf

REC = 128
ESC = b"\x1b"
MARK = {1: ESC + b"[1;37m\xb1\xc0", 2: ESC + b"[1;31m\xbcN", 3: ESC + b"[1;31m\xa1\xf7"}
DELTA = {1: 1, 2: -1}
FILE_MARKED, FILE_SOLVED = 0x02, 0x10


def entry(i, score, filemode, rng, first=b"M", modified=None):
    t = 1607200000 + 100 * i
    name = first + b".%010d.A.%03X" % (t, (i * 291 + 13) % 4096)
    r = bytearray(REC)
    r[0:len(name)] = name
    r[28:32] = struct.pack("<i", t - 1 if modified is None else modified)
    r[32] = rng.choice([0, 0x5A, 0xFF])            # Pad
    r[33] = score & 0xFF
    r[34:39] = b"SYSOP"
    r[48:53] = b"12/06"
    title = b"[test] " + bytes(rng.choice(b"abcXYZ\xa4\xa4 ") for _ in range(rng.randrange(0, 40)))
    r[54:54 + len(title)] = title
    r[119] = rng.choice([0, 7])                    # Pad2
    r[120:124] = bytes(rng.randrange(256) for _ in range(4))   # Multi
    r[124] = filemode
    r[125:128] = bytes(rng.choice([0, 1, 0xEE]) for _ in range(3))   # Pad3
    return bytes(r), name


def toks(bs):
    return " ".join(str(b) for b in bs)


class Scenario:
    def __init__(self, rng, n, target, score, filemode=0, link=False, align=0, iplog=0, norec=0, uid=b"A1", ip=b"192.168.0.1", art=None, stamp=None):
        self.align, self.iplog, self.norec, self.uid, self.ip = align, iplog, norec, uid, ip
        # stamp = (rel, v): the Modified field of the addressed entry is v (rel = 0) or the driver's clock reading when it plants
        # the board + v seconds (rel = 1); the driver reports the stamp it planted -> stamp_abs
        self.stamp, self.stamp_abs = stamp, None
        self.target, self.score, self.filemode, self.link = target, score, filemode, link
        recs = []
        for i in range(n):
            if i == target:
                r, self.name = entry(i, score, filemode, rng, b"L" if link else b"M")
            else:
                r, _ = entry(i, rng.randrange(-100, 101), rng.choice([0, 0, 2, 16, 18, 1]), rng)
            recs.append(r)
        self.dir = b"".join(recs)
        self.art = art if art is not None else b"\xa7@\xaa\xcc: SYSOP\n\xbc\xd0\xc3D: test\n\ncontent line\n--\n"
        self.steps = []

    def line(self, obs=None):
        head = "%d|%d %d %d|%s|%s|%s|%s|%s" % (4 if self.stamp else 1, self.align, self.iplog, self.norec, toks(self.dir), toks(self.name.ljust(28, b"\0")),
                                               toks(self.art), toks(self.ip), toks(self.uid))
        if self.stamp:       # implementation driver: [rel v]; model: [the stamp that was planted]
            head += "|%d" % self.stamp_abs if obs is not None else "|%d %d" % self.stamp
        s = head + "".join("|" + toks([ct] + list(txt)) for ct, txt in self.steps)
        if obs is not None:
            s += "|99" + "".join("|" + toks(o) for o in obs)
        return s

    def refused(self):
        return bool(self.norec or self.link or (self.filemode & FILE_MARKED and self.filemode & FILE_SOLVED))


def parse_steps(res):
    """[('ok', line, mtime, preserved, appended, diff, score, the article file's own mtime) | ('err', code, artchg, dirchg)]"""
    t = res.split()
    if t[0] != "0":
        return None
    n = int(t[1]); pos = 2
    out = []
    for _ in range(n):
        if t[pos] == "3":
            out.append(("err", int(t[pos + 1]), int(t[pos + 2]), int(t[pos + 3]))); pos += 4
            continue
        assert t[pos] == "0"
        ln = int(t[pos + 1]); pos += 2
        line = bytes(int(x) for x in t[pos:pos + ln]); pos += ln
        mtime, preserved, na = int(t[pos]), int(t[pos + 1]), int(t[pos + 2]); pos += 3
        app = bytes(int(x) for x in t[pos:pos + na]); pos += na
        nd = int(t[pos]); pos += 1
        diff = [(int(t[pos + 2 * k]), int(t[pos + 2 * k + 1])) for k in range(nd)]; pos += 2 * nd
        score, fmtime = int(t[pos]), int(t[pos + 1]); pos += 2
        out.append(("ok", line, mtime, preserved, app, diff, score, fmtime))
    assert pos == len(t)
    return out


LINE_RE = re.compile(rb"^(?P<mark>(\x1b\[1;3[17]m..)?) \x1b\[33m(?P<user>[^\x1b]*)\x1b\[m\x1b\[33m: (?P<rest>.*)\n$", re.S)
CLOCK_RE = re.compile(rb"^\d\d/\d\d \d\d:\d\d$")


def line_ok(sc, ct, text, line):
    """type mark, commenter (padded to 13 on aligned boards), text, padding, optional IP, MM/DD HH:MM, LF - in that order"""
    m = LINE_RE.match(line)
    if not m or m.group("mark") != MARK.get(ct, b""):
        return "type mark / colour / user field"
    user = m.group("user")
    if user.rstrip(b"\0 ") != sc.uid or (sc.align and len(user) != 13) or (not sc.align and user != sc.uid):
        return "commenter field %r" % user
    rest = m.group("rest")
    if not rest.startswith(text):
        return "text"
    rest = rest[len(text):]
    width = 62 - (15 if sc.iplog else 0) - len(user) - len(text)
    pad = max(width, 0)
    if rest[:pad] != b" " * pad or rest[pad:pad + 3] != ESC + b"[m":
        return "padding to the fixed width"
    tail = rest[pad + 3:]
    if sc.iplog:
        if not tail.startswith(sc.ip + b" "):
            return "ip"
        tail = tail[len(sc.ip):]
    if tail[:1] != b" " or not CLOCK_RE.match(tail[1:]):
        return "time"
    return None


def mark_type(line):
    for ct in (1, 2, 3):
        if line.startswith(MARK[ct] + b" "):
            return ct
    return 0 if line.startswith(b" " + ESC + b"[33m") else 9


TYPE_NAME = {1: "push", 2: "boo", 3: "arrow"}


class BoardSession:
    """a planted board with several commentable articles, several commenters, all comment-related attributes"""
    def __init__(self, rng, n, targets, flags, pause, users, ip=b"10.1.2.3", arts=None, stamps=None):
        # targets: [(entry index, score, filemode, link)]; flags: (align, iplog, norec, noboo, nofast); users: [(uid number, sysop, id)]
        self.flags, self.pause, self.users, self.ip, self.targets = tuple(flags), pause, users, ip, targets
        self.stamps = stamps or {}      # entry index -> Modified stamp planted (absolute; e.g. 2033 or 2038: ahead of every clock reading)
        self.align, self.iplog, self.norec = flags[0], flags[1], flags[2]
        recs, self.names = [], []
        tmap = {t[0]: t for t in targets}
        byidx = {}
        for i in range(n):
            if i in tmap:
                _, score, fm, link = tmap[i]
                r, name = entry(i, score, fm, rng, b"L" if link else b"M", modified=(stamps or {}).get(i))
                byidx[i] = name
            else:
                r, _ = entry(i, rng.randrange(-100, 101), rng.choice([0, 0, 2, 16, 18, 1]), rng)
            recs.append(r)
        self.names = [byidx[t[0]] for t in targets]
        self.dir = b"".join(recs)
        self.arts = arts if arts is not None else [b"\xa7@\xaa\xcc: SYSOP\n\xbc\xd0\xc3D: article %d\n\nbody\n--\n" % j for j in range(len(targets))]
        self.steps = []          # (user, article, type, text)
        self.tried = set()

    def line(self, op=2, obs=None, steps=None):
        steps = self.steps if steps is None else steps
        g = ["%d" % op, toks(list(self.flags) + [self.pause]), toks(self.dir), toks(self.ip), "%d %d" % (len(self.names), len(self.users))]
        g += [toks(nm.ljust(28, b"\0")) for nm in self.names]
        g += [toks(a) for a in self.arts]
        g += [toks([u, so] + list(uid)) for u, so, uid in self.users]
        g += [toks([u, a, ct] + list(txt)) for u, a, ct, txt in steps]
        if obs is not None:
            g += ["99"] + [toks(o) for o in obs]
        return "|".join(g)

    def refused(self, a):
        _, _, fm, link = self.targets[a]
        return bool(self.norec or link or (fm & FILE_MARKED and fm & FILE_SOLVED))

    def expected_digest(self, steps=None):
        """the reference written here: what the digest (op 3) of this history must be, step by step"""
        steps = self.steps if steps is None else steps
        score = [t[1] for t in self.targets]
        out = []
        for u, a, ct, txt in steps:
            if self.refused(a):
                out.append("3 1 0 0")
                continue
            new = clamp(score[a] + DELTA.get(ct, 0))
            out.append("0 %d %d %d 1 0 0 1" % (ct if ct in MARK else 0, score[a], new))
            score[a] = new
        return out

    def describe(self, steps=None):
        steps = self.steps if steps is None else steps
        ahead = "".join("entry %d carries the Modified stamp %d; " % kv for kv in sorted(self.stamps.items()))
        return "board attrs aligned=%d iplog=%d nocomment=%d noboo=%d nofastrecommend=%d pause=%d; " % (self.flags + (self.pause,)) + ahead + \
               ", ".join("%s by %s on article %d" % (TYPE_NAME.get(ct, "type %d" % ct), self.users[u][2].decode("latin1"), a) for u, a, ct, _ in steps[-6:])


class _Who:          # what line_ok needs to know about the commenter and the board
    def __init__(self, bs, u):
        self.uid, self.ip, self.align, self.iplog = bs.users[u][2], bs.ip, bs.align, bs.iplog


def parse_board_steps(res):
    """op 2: as parse_steps, an accepted step carries the number of OTHER article files that changed at its end"""
    t = res.split()
    if t[0] != "0":
        return None
    n = int(t[1]); pos = 2
    out = []
    for _ in range(n):
        if t[pos] == "3":
            out.append(("err", int(t[pos + 1]), int(t[pos + 2]), int(t[pos + 3]))); pos += 4
            continue
        assert t[pos] == "0"
        ln = int(t[pos + 1]); pos += 2
        line = bytes(int(x) for x in t[pos:pos + ln]); pos += ln
        mtime, preserved, na = int(t[pos]), int(t[pos + 1]), int(t[pos + 2]); pos += 3
        app = bytes(int(x) for x in t[pos:pos + na]); pos += na
        nd = int(t[pos]); pos += 1
        diff = [(int(t[pos + 2 * k]), int(t[pos + 2 * k + 1])) for k in range(nd)]; pos += 2 * nd
        score, fmtime, others = int(t[pos]), int(t[pos + 1]), int(t[pos + 2]); pos += 3
        out.append(("ok", line, mtime, preserved, app, diff, score, others, fmtime))
    assert pos == len(t)
    return out


def split_digest(res, n):
    """op 3 result -> one string per step (None if the result is not a digest of n steps)"""
    t = res.split()
    if t[:1] != ["0"] or len(t) < 2 or int(t[1]) != n:
        return None
    out, pos = [], 2
    for _ in range(n):
        w = 4 if t[pos] == "3" else 8
        out.append(" ".join(t[pos:pos + w])); pos += w
    return out if pos == len(t) else None


def clamp(x):
    return max(-100, min(100, x))


class TwoBoards:
    """op 5: two boards (WhoAmI, SYSOP) of one process; board b's index holds the entries idx[b] (entry numbers of entry(): the name
    depends on the number only, so a number present in both boards is the SAME article file name, at different positions)"""
    def __init__(self, rng, idx, uid=b"A1", ip=b"10.9.8.7"):
        self.idx, self.uid, self.ip = idx, uid, ip
        self.scores = [[rng.choice([-100, -99, 0, 7, 99, 100, rng.randrange(-100, 101)]) for _ in ix] for ix in idx]
        self.dirs = [b"".join(entry(i, sc, rng.choice([0, 0, 1, 2, 16]), rng)[0] for i, sc in zip(ix, scs)) for ix, scs in zip(idx, self.scores)]
        self.arts = [[b"board %d article %d\n--\n" % (b, i) for i in ix] for b, ix in enumerate(idx)]
        self.steps = []        # (board, position in that board's index, type, text)

    def line(self, steps=None):
        steps = self.steps if steps is None else steps
        g = ["5", toks(self.dirs[0]), toks(self.dirs[1]), toks(self.ip), toks(self.uid), "%d %d" % (len(self.idx[0]), len(self.idx[1]))]
        g += [toks(a) for a in self.arts[0]] + [toks(a) for a in self.arts[1]]
        g += [toks([b, j, ct] + list(txt)) for b, j, ct, txt in steps]
        return "|".join(g)

    def expected_digest(self, steps=None):
        steps = self.steps if steps is None else steps
        score = [list(x) for x in self.scores]
        out = []
        for b, j, ct, _ in steps:
            new = clamp(score[b][j] + DELTA.get(ct, 0))
            out.append("0 %d %d %d 1 0 0 0 0 1" % (ct if ct in MARK else 0, score[b][j], new))
            score[b][j] = new
        return out

    def describe(self, steps=None):
        steps = self.steps if steps is None else steps
        nm = lambda b, j: entry(self.idx[b][j], 0, 0, __import__("random").Random(0))[1].decode()
        return "WhoAmI holds entries %s, SYSOP holds entries %s (same number = same article file name); " % (self.idx[0], self.idx[1]) + \
               ", ".join("%s on %s/%s (position %d)" % (TYPE_NAME.get(ct, "type %d" % ct), ("WhoAmI", "SYSOP")[b], nm(b, j), j) for b, j, ct, _ in steps[-6:])


TWO_DOC = ("digest per step: status, type mark of the returned line, score of the addressed entry before, after, the addressed article of the addressed board grew by exactly "
           "the returned line, other article files of that board changed, article files of the OTHER board changed, .DIR offsets outside Modified/Recommend of the addressed "
           "entry, the OTHER board's .DIR changed, Modified = returned mtime = the file's own mtime")


def split_two(res, n):
    t = res.split()
    if t[:1] != ["0"] or len(t) < 2 or int(t[1]) != n:
        return None
    out, pos = [], 2
    for _ in range(n):
        w = 3 if t[pos] == "3" else 10
        out.append(" ".join(t[pos:pos + w])); pos += w
    return out if pos == len(t) else None


def judge_two(c, impl, tb, dg, label):
    """direct predicate on a two-board session: the digest of the implementation's run against the reference written here; shrunk replay"""
    def digest(st):
        r = vf.run_impl(impl, "C10", [tb.line(st)], deadline_ms=120000)[0]
        return split_two(r, len(st)) if r.split()[:1] == ["0"] else None

    def bad(st, d):
        if d is None:
            return 0
        for k, (e, g) in enumerate(zip(tb.expected_digest(st), d)):
            if e != g:
                return k
        return None
    k = bad(tb.steps, dg)
    if k is None:
        for (b, j, ct, _), d in zip(tb.steps, dg):
            c.nontrivial(("two-boards", b, ct, tb.idx[b][j] in tb.idx[1 - b], tb.idx[b][j] in tb.idx[1 - b] and tb.idx[1 - b].index(tb.idx[b][j]) != j))
        return
    if "cross-board" in [v[0] for v in c.violations]:
        return
    steps, d = tb.steps[:k + 1], dg
    budget, i = 16, len(steps) - 2
    d = digest(steps)
    if bad(steps, d) is None:          # not reproduced by this session alone in a fresh process: keep the whole history
        steps, d = tb.steps, dg
    else:
        while i >= 0 and budget > 0:
            trial = steps[:i] + steps[i + 1:]
            budget -= 1
            d2 = digest(trial)
            k2 = bad(trial, d2)
            if k2 is not None:
                steps, d = trial[:k2 + 1], (d2[:k2 + 1] if d2 else None)
                i = min(i, len(steps) - 1)
            i -= 1
        d = digest(steps)
    kk = bad(steps, d)
    exp = tb.expected_digest(steps)
    c.violation("cross-board", "%s: a comment on one board does not have the outcome its own type and the addressed entry of THAT board determine: step %s got [%s], expected [%s]; %s [%s]"
                % (label, kk, d[kk] if d and kk is not None else "no digest", exp[kk] if kk is not None else "", tb.describe(steps), TWO_DOC),
                {"cases": [tb.line(steps)], "expected": "0 %d " % len(steps) + " ".join(exp), "got": "0 %d " % len(steps) + " ".join(d) if d else "no digest"})


def main():
    c = vf.Check("C10")
    rng = c.rng
    thorough = c.tier == "thorough"
    c.prove()
    model_ok = c.model_ok()
    impl = vf.build_impl()
    model = vf.build_model("C10") if model_ok else None
    try:
        run(c, rng, thorough, impl, model)
    finally:
        vf.ipc_cleanup()
    c.finish(rule="every start score in [-100,100] planted in a scratch .DIR x one comment of every type (push, boo, arrow, and two types without a mark) on plain, "
                  "aligned and IP-logging boards; PRNG(seed) sequences of <= 40 comments on three articles (different positions in the index, different contents) with texts "
                  "of 0..120 bytes incl. DBCS lead/trail bytes; the three refusal conditions and their near misses; the addressed entry stamped (Modified) earlier than, at and "
                  "LATER than the clock of the comment: 7 absolute stamps and 11 stamps relative to the driver's clock (-1 day .. +1 s .. +1 year) x 3 types x 4 scores, and "
                  "PRNG(seed) stamps with sequences of <= 11 comments; board sessions (one entry stamped 2033/2038 in each): all 32 combinations of the "
                  "comment-related board attributes (aligned, IP log, no-comment, no-boo, no-fast-recommend) x FastRecommendPause {0,1,60,255} with 3 articles x 3 commenters "
                  "(different uid numbers, one with PERM_SYSOP) commenting back to back, and PRNG(seed) histories of <= 40 comments by 2-4 commenters on 2-4 articles "
                  "(locked and link entries among them) with random attributes and pauses; every history is run twice (full observation, digest); two boards (WhoAmI, SYSOP) "
                  "of one driver process planted with overlapping entry sets (6 layouts + PRNG(seed) repeats: the same article file name at different index positions), comments "
                  "alternating between the boards on the common names plus 4-15 random ones, digest against the reference. A step is non-trivial if it "
                  "is a distinct (start score, type, board flags, text) accepted comment, a distinct refusal class, or in a board session a distinct (attributes, pause class, "
                  "type, saturated, what the previous step was: type / same commenter / same article)",
             assumptions=["the clock string of the line is observed from the implementation; the article file's mtime after the append is read by the driver itself (stat after the "
                          "step) - both are fed to the model, and the predicate mtime-source requires the returned mtime and the entry's Modified to equal that stat value",
                          "clock behind a stored stamp: produced by planting stamps ahead of the driver's clock reading (and absolute stamps of 2033/2038), not by stepping the host clock; "
                          "C10_clock_behind_stamp / C10_modified_is_file_mtime are theorems about the model for every stamp and every mtime, the tie to the code on such entries is validation "
                          "(correspondence + predicates on the planted cases). The relative stamps make the case line clock-relative, never the verdict: on the unchanged tree the outcome "
                          "does not depend on the stamp",
                          "the index entry is found by name; cmsys.GetRecord/FindRecordStartIdx are the subject of C06 (names in the planted .DIR are unique and sorted by time)",
                          "permission checks before the refusal conditions (C07/C08) are passed by the driver's user; ptt.Recommend is called directly (bbs.CreateComment cannot address a link entry by article id)",
                          "sequential comments only: the non-blocking flock retry path and concurrent commenters are outside this check",
                          "board sessions issue their comments back to back (milliseconds apart) in one driver process, one board (bid 10); nothing in the verdict depends on the "
                          "clock: on the unchanged tree the outcome of a comment is a function of its type and the addressed entry. A rule that would need comments more than "
                          "a pause apart to show (minutes of waiting) is not exercised",
                          "two boards (op 5): validation only - no model and no theorem covers two boards; the digest (files and both indexes read straight from the disk before and "
                          "after every step) is compared with the reference written in the check. Two boards, one process, one commenter with PERM_SYSOP; more boards, board "
                          "copies made while the process runs and the look-up itself (cmsys.GetRecord, C06) are outside"])


def judge(c, sc, steps, label):
    """direct predicates on the observed steps of one scenario"""
    base = sc.target * REC
    allowed = set(range(base + 28, base + 32)) | {base + 33}
    score = sc.score
    cur_dir = bytearray(sc.dir)
    if sc.stamp:
        cur_dir[base + 28:base + 32] = struct.pack("<i", sc.stamp_abs)
    case = [sc.line()]
    for (ct, text), st in zip(sc.steps, steps):
        if sc.refused():
            if st[0] != "err":
                c.violation("not-refused", "%s: a comment was accepted although the board/article refuses comments (norec=%d link=%s filemode=%#x)" % (label, sc.norec, sc.link, sc.filemode),
                            {"cases": case, "got": repr(st)[:300]})
            elif st[2] or st[3]:
                c.violation("refusal-trace", "%s: a refused comment changed the %s" % (label, "article file" if st[2] else ".DIR"), {"cases": case, "got": repr(st)})
            else:
                c.nontrivial(("refused", sc.norec, sc.link, sc.filemode))
            continue
        if st[0] == "err":
            continue          # not a statement about C10 ("a successful comment ..."); the correspondence reports it
        _, line, mtime, preserved, app, diff, after, fmtime = st
        stored = struct.unpack("<i", bytes(cur_dir[base + 28:base + 32]))[0]          # the stamp the entry carried before this comment
        if not preserved:
            c.violation("rewrite", "%s: earlier bytes of the article file changed" % label, {"cases": case, "got": repr(st)[:300]})
        elif app != line:
            c.violation("append-mismatch", "%s: the bytes appended to the article are not the returned line" % label, {"cases": case, "expected": repr(line), "got": repr(app)})
        why = line_ok(sc, ct, bytes(text), line)
        if why and b"\n" not in bytes(text) and b"\x1b" not in bytes(text):
            c.violation("line-format", "%s: the comment line does not have the format (%s)" % (label, why), {"cases": case, "got": repr(line)})
        if b"\n" not in bytes(text) and line.count(b"\n") != 1:
            c.violation("line-lf", "%s: the comment is not exactly one line" % label, {"cases": case, "got": repr(line)})
        bad = [o for o, _ in diff if o not in allowed]
        if bad:
            c.violation("index-frame", "%s: .DIR changed outside Modified/Recommend of the addressed entry (offsets %s, entry at %d)" % (label, bad[:8], base),
                        {"cases": case, "got": repr(diff)[:300]})
        for o, v in diff:
            if 0 <= o < len(cur_dir):
                cur_dir[o] = v
        want = clamp(score + DELTA.get(ct, 0))
        planted = cur_dir[base + 33] - 256 if cur_dir[base + 33] > 127 else cur_dir[base + 33]
        if after != want or planted != want or not -100 <= after <= 100 or abs(after - score) > 1:
            c.violation("score", "%s: score %d, comment type %d -> %d (expected %d)" % (label, score, ct, after, want), {"cases": case, "expected": want, "got": after})
        if struct.unpack("<i", bytes(cur_dir[base + 28:base + 32]))[0] != mtime:
            c.violation("mtime", "%s: Modified of the entry is not the article's modification time" % label, {"cases": case, "got": repr(diff)[:200]})
        now_stamp = struct.unpack("<i", bytes(cur_dir[base + 28:base + 32]))[0]
        if mtime != fmtime or now_stamp != fmtime:
            c.violation("mtime-source", "%s: after a successful comment the entry's Modified (%d) / the returned mtime (%d) is not the article file's own modification time (%d); "
                        "the entry carried the stamp %d before the comment (%s the file's mtime)"
                        % (label, now_stamp, mtime, fmtime, stored, "LATER than" if stored > fmtime else "not later than"), {"cases": case, "expected": fmtime, "got": [now_stamp, mtime]})
        if sc.stamp:
            c.nontrivial(("stamp", (stored > fmtime) - (stored < fmtime), ct, score in (-100, 100)))
        c.nontrivial(("step", score, ct, sc.align, sc.iplog, bytes(text)))
        score = after


def first_bad(bs, steps, dg):
    """index of the first step whose digest differs from the reference (None: all agree)"""
    exp = bs.expected_digest(steps)
    if dg is None:
        return 0
    for k, (e, g) in enumerate(zip(exp, dg)):
        if e != g:
            return k
    return None


def shrink_board(bs, steps, impl, budget=24):
    """shortest history (greedy removal of earlier steps) whose digest still differs from the reference"""
    def digest(st):
        r = vf.run_impl(impl, "C10", [bs.line(3, steps=st)], deadline_ms=120000)[0]
        return split_digest(r, len(st)) if r.split()[:1] == ["0"] else None
    dg = digest(steps)
    k = first_bad(bs, steps, dg)
    if k is None:
        return None, None
    steps = steps[:k + 1]
    i = len(steps) - 2
    while i >= 0 and budget > 0:
        trial = steps[:i] + steps[i + 1:]
        budget -= 1
        d2 = digest(trial)
        k2 = first_bad(bs, trial, d2)
        if k2 is not None:
            steps = trial[:k2 + 1]
            i = min(i, len(steps) - 1)
        i -= 1
    return steps, digest(steps)


def board_violation(c, impl, key, desc, bs, upto):
    """a violation seen in a board session: the replay is the shrunk history as an op-3 case with the expected digest.
    When the session alone (fresh process) does not show it, it is deferred: the driver process carried something over
    from the sessions before it; flush_deferred() then replays the whole batch up to this session."""
    if key in [v[0] for v in c.violations] or key in bs.tried:
        return
    bs.tried.add(key)
    steps, dg = shrink_board(bs, bs.steps[:upto + 1], impl)
    if steps is None and upto + 1 < len(bs.steps):
        steps, dg = shrink_board(bs, bs.steps, impl)      # this step needed the sessions before it; a later one of this session may not
    if steps is None:
        DEFERRED.append((key, desc, bs, upto))
        return
    exp = "0 %d " % len(steps) + " ".join(bs.expected_digest(steps))
    got = "0 %d " % len(steps) + " ".join(dg) if dg else "no digest"
    c.violation(key, desc + " [shrunk history: " + bs.describe(steps) + "; " + DIGEST_DOC + "]",
                {"cases": [bs.line(3, steps=steps)], "expected": exp, "got": got})


DEFERRED = []
DIGEST_DOC = ("digest per step: status, type mark of the appended line, score before, score after, grew by the returned line, "
              "other article files changed, .DIR offsets outside Modified/Recommend, Modified of the entry = returned mtime = the article file's own mtime")


def flush_deferred(c, batch):
    """violations that no single session reproduces on its own: replay = all sessions of the batch up to the failing one, in one process"""
    for key, desc, bs, upto in DEFERRED:
        if key in [v[0] for v in c.violations]:
            continue
        i = batch.index(bs)
        exp = "0 %d " % len(bs.steps) + " ".join(bs.expected_digest())
        c.violation(key, desc + " [not shown by this session alone in a fresh process: the replay runs the %d sessions before it in the same process; %s]" % (i, DIGEST_DOC),
                    {"cases": [b.line(3) for b in batch[:i + 1]], "expected": exp, "got": "see what"})
    del DEFERRED[:]


def judge_board(c, impl, bs, steps, dg, label):
    """direct predicates on one board session: op-2 observations [steps] and the op-3 digest [dg] of a second run"""
    score = [t[1] for t in bs.targets]
    cur_dir = bytearray(bs.dir)
    for k, ((u, a, ct, text), st) in enumerate(zip(bs.steps, steps)):
        who = bs.users[u][2].decode("latin1")
        if bs.refused(a):
            if st[0] != "err":
                board_violation(c, impl, "not-refused", "%s: a comment was accepted although the board/article refuses comments (%s)" % (label, bs.describe(bs.steps[:k + 1])), bs, k)
            elif st[2] or st[3]:
                board_violation(c, impl, "refusal-trace", "%s: a refused comment changed %s" % (label, "an article file" if st[2] else ".DIR"), bs, k)
            else:
                c.nontrivial(("board-refused", bs.flags, bs.targets[a][2], bs.targets[a][3]))
            continue
        if st[0] == "err":
            continue          # "a successful comment ..."; the correspondence and the digest comparison report it
        _, line, mtime, preserved, app, diff, after, others, fmtime = st
        base = bs.targets[a][0] * REC
        stored = struct.unpack("<i", bytes(cur_dir[base + 28:base + 32]))[0]
        allowed = set(range(base + 28, base + 32)) | {base + 33}
        if not preserved:
            board_violation(c, impl, "rewrite", "%s: earlier bytes of the article file changed" % label, bs, k)
        elif app != line:
            board_violation(c, impl, "append-mismatch", "%s: the bytes appended to the article are not the returned line" % label, bs, k)
        if others:
            board_violation(c, impl, "other-article", "%s: a comment on one article changed %d other article file(s)" % (label, others), bs, k)
        got_type = mark_type(line)
        if ct in MARK and got_type != ct:
            board_violation(c, impl, "type-rewritten",
                            "%s: a successful %s by %s was appended with %s; it depends on what was commented before on this board (%s)"
                            % (label, TYPE_NAME[ct], who, "the %s mark" % TYPE_NAME[got_type] if got_type in MARK else "no type mark", bs.describe(bs.steps[:k + 1])), bs, k)
        else:
            why = line_ok(_Who(bs, u), ct, bytes(text), line)
            if why and b"\n" not in bytes(text) and b"\x1b" not in bytes(text):
                board_violation(c, impl, "line-format", "%s: the comment line does not have the format (%s)" % (label, why), bs, k)
        if b"\n" not in bytes(text) and line.count(b"\n") != 1:
            board_violation(c, impl, "line-lf", "%s: the comment is not exactly one line" % label, bs, k)
        bad = [o for o, _ in diff if o not in allowed]
        if bad:
            board_violation(c, impl, "index-frame", "%s: .DIR changed outside Modified/Recommend of the addressed entry (offsets %s, entry at %d)" % (label, bad[:8], base), bs, k)
        for o, v in diff:
            if 0 <= o < len(cur_dir):
                cur_dir[o] = v
        want = clamp(score[a] + DELTA.get(ct, 0))
        planted = cur_dir[base + 33] - 256 if cur_dir[base + 33] > 127 else cur_dir[base + 33]
        if after != want or planted != want or not -100 <= after <= 100 or abs(after - score[a]) > 1:
            board_violation(c, impl, "score", "%s: score %d, a successful %s by %s -> %d (expected %d); %s"
                            % (label, score[a], TYPE_NAME.get(ct, "comment of type %d" % ct), who, after, want, bs.describe(bs.steps[:k + 1])), bs, k)
        if struct.unpack("<i", bytes(cur_dir[base + 28:base + 32]))[0] != mtime:
            board_violation(c, impl, "mtime", "%s: Modified of the entry is not the article's modification time" % label, bs, k)
        now_stamp = struct.unpack("<i", bytes(cur_dir[base + 28:base + 32]))[0]
        if mtime != fmtime or now_stamp != fmtime:
            board_violation(c, impl, "mtime-source", "%s: after a successful comment the entry's Modified (%d) / the returned mtime (%d) is not the article file's own modification "
                            "time (%d); the entry carried the stamp %d before the comment" % (label, now_stamp, mtime, fmtime, stored), bs, k)
        if stored > fmtime:
            c.nontrivial(("board-stamp-ahead", ct, score[a] in (-100, 100)))
        prev = bs.steps[k - 1] if k else None
        c.nontrivial(("board-step", bs.flags, min(bs.pause, 2), ct, score[a] in (-100, 100), prev and (prev[2], prev[0] == u, prev[1] == a)))
        score[a] = after
    # the digest of an independent second run of the same history against the reference written in this check
    kbad = first_bad(bs, bs.steps, dg)
    if kbad is not None:
        exp = bs.expected_digest()
        board_violation(c, impl, "history", "%s: step %d of a comment history does not have the outcome its own type and the addressed entry determine: got [%s], expected [%s]; %s"
                        % (label, kbad, dg[kbad] if dg else "no digest", exp[kbad], bs.describe(bs.steps[:kbad + 1])), bs, kbad)


def observations(steps):
    obs = []
    for st in steps:
        if st[0] == "ok":
            line = st[1]
            obs.append(list(line[-12:-1]) + [st[-1]])       # the clock string of the line, the article file's own mtime (stat by the driver)
        else:
            obs.append([0] * 11 + [0])
    return obs


def run(c, rng, thorough, impl, model):
    def text(maxlen=120):
        n = rng.choice([0, 1, 5, 20, 45, 46, 47, 48, 60, 61, 62, 63, 80, 120, rng.randrange(0, maxlen + 1)])
        out = bytearray()
        while len(out) < n:
            r = rng.random()
            if r < 0.35 and len(out) + 2 <= n:
                out += bytes([rng.randrange(0x81, 0xFF), rng.choice([rng.randrange(0x40, 0x7F), rng.randrange(0xA1, 0xFF)])])
            else:
                out.append(rng.choice(b"abcdefghijklmnopqrstuvwxyz ABC0123456789:/!?\\~") if r < 0.95 else rng.randrange(0x20, 0x100))
        return bytes(out[:n])

    def drive(scs, label):
        l1 = [sc.line() for sc in scs]
        o1 = vf.run_impl(impl, "C10", l1, deadline_ms=120000)
        parsed = []
        for sc, line, res in zip(scs, l1, o1):
            st = res.split()[0]
            if st in ("1", "2"):
                c.violation("crash" if st == "1" else "hang", "%s: ptt.Recommend %s" % (label, "panics" if st == "1" else "hangs"), {"cases": [line], "got": res[:100]})
                parsed.append(None)
                continue
            if st != "0":
                raise SystemExit("C10: bad case from the generator: " + line[:200])
            if sc.stamp:                 # op 4: the last number is the stamp the driver planted
                res, last = res.rsplit(None, 1)
                sc.stamp_abs = int(last)
                o1[len(parsed)] = res
            parsed.append(parse_steps(res))
        if model:
            idx = [i for i, p in enumerate(parsed) if p is not None]
            l2 = [scs[i].line(observations(parsed[i])) for i in idx]
            mo = vf.run_model(model, l2)
            vf.correspond(c, label, l2, [o1[i] for i in idx], mo)
        for sc, p in zip(scs, parsed):
            if p is not None:
                judge(c, sc, p, label)
        c.count(sum(len(sc.steps) for sc in scs), label)
        return o1

    # ---------------------------------------------------------------- 1. every start score x every type
    scs = []
    for score in range(-100, 101):
        for ct in (1, 2, 3, 0, 4):
            flags = rng.choice([(0, 0), (1, 0), (0, 1), (1, 1)])
            sc = Scenario(rng, 3, 1, score, align=flags[0], iplog=flags[1], uid=rng.choice([b"A1", b"SYSOP", b"abcdefghijkl"]))
            sc.steps = [(ct, text(70))]
            scs.append(sc)
    o = drive(scs, "one comment of each type from every start score")
    c.cov["exhaustive_parts"].append("every start score in [-100,100] x comment types {push, boo, arrow, 0, 4}: %d planted boards" % len(scs))
    c.sample({"op": "Recommend", "start": scs[3].score, "type": scs[3].steps[0][0], "result": o[3][:160]})

    # ---------------------------------------------------------------- 2. random sequences on three articles
    arts = [(4, 0, b"short\n"), (5, 2, None), (6, 5, bytes(rng.randrange(256) for _ in range(700)) + b"\n")]
    scs = []
    for _ in range(400 if thorough else 60):
        n, tg, art = rng.choice(arts)
        sc = Scenario(rng, n, tg, rng.choice([-100, -99, -98, -1, 0, 1, 98, 99, 100, rng.randrange(-100, 101)]),
                      filemode=rng.choice([0, 0, 1, 2, 16, 4, 8]), align=rng.choice([0, 1]), iplog=rng.choice([0, 1]),
                      uid=rng.choice([b"A1", b"SYSOP", b"abcdefghijkl"]), ip=rng.choice([b"127.0.0.1", b"255.255.255.255", b"8.8.8.8"]), art=art)
        bias = rng.choice([(6, 1, 1), (1, 6, 1), (2, 2, 2)])
        sc.steps = [(rng.choices([1, 2, 3], bias)[0], text()) for _ in range(rng.randrange(1, 41))]
        scs.append(sc)
    # saturation walks: from +-97 straight through the limit and back
    for start, ct in ((97, 1), (-97, 2)):
        sc = Scenario(rng, 4, 3, start)
        sc.steps = [(ct, b"up")] * 8 + [(3 - ct, b"down")] * 4 + [(3, b"->")] * 2
        scs.append(sc)
    o = drive(scs, "random sequences of comments")
    c.sample({"op": "Recommend sequence", "steps": len(scs[0].steps), "start": scs[0].score, "result": o[0][:160]})

    # ---------------------------------------------------------------- 3. refusals and near misses
    scs = []
    for ct in (1, 2, 3):
        for score in (-100, 0, 37, 100):
            scs.append(Scenario(rng, 3, 1, score, norec=1))
            scs.append(Scenario(rng, 3, 1, score, link=True))
            for fm in (0x12, 0x13, 0x16, 0x1A, 0xFF, 0x32):
                scs.append(Scenario(rng, 3, rng.randrange(3), score, filemode=fm))
            for fm in (0x02, 0x10, 0x01, 0x0D, 0xED):                     # marked only, solved only, neither: accepted
                scs.append(Scenario(rng, 3, rng.randrange(3), score, filemode=fm))
        for sc in scs:
            if not sc.steps:
                sc.steps = [(ct, text(30)), (ct, text(30))]
    o = drive(scs, "refusal conditions")
    c.cov["exhaustive_parts"].append("no-comment board, link entry, marked-and-solved (6 file modes) and 5 near-miss file modes x 3 types x 4 scores")
    c.sample({"op": "Recommend refused", "result": o[0][:60]})

    # ---------------------------------------------------------------- 3b. the stamp already in the entry vs. the clock
    # The addressed entry carries a Modified stamp that is earlier than, equal to or LATER than the clock reading at the comment
    # (clock stepped back after the last post/edit/comment; entry stamped by a host whose clock runs ahead): absolute stamps
    # (1970, the planted past, 2033, the last second of int32) and stamps relative to the driver's clock when it plants the board
    # (an hour ago ... one second ahead ... a year ahead). Nothing in the verdict depends on the clock: on the unchanged tree the
    # outcome of a comment does not depend on the stamp at all.
    scs = []
    stamps = [(0, 0), (0, 1), (0, 1607200099), (0, 2000000000), (0, 0x7FFFFFFF), (0, -1), (0, -0x80000000),
              (1, -86400), (1, -3600), (1, -1), (1, 0), (1, 1), (1, 2), (1, 5), (1, 60), (1, 3600), (1, 86400), (1, 31536000)]
    for stamp in stamps:
        for ct in (1, 2, 3):
            for score in (rng.choice([0, 7, -31]), 99 if ct == 1 else -99, 100, -100):
                flags = rng.choice([(0, 0), (1, 0), (0, 1), (1, 1)])
                sc = Scenario(rng, 3, rng.randrange(3), score, align=flags[0], iplog=flags[1], uid=rng.choice([b"A1", b"SYSOP", b"abcdefghijkl"]), stamp=stamp)
                sc.steps = [(ct, text(40))] + [(rng.choice([1, 2, 3]), text(40)) for _ in range(rng.randrange(0, 3))]
                scs.append(sc)
    for _ in range(200 if thorough else 20):
        sc = Scenario(rng, 5, rng.randrange(5), rng.randrange(-100, 101), filemode=rng.choice([0, 0, 2, 16, 0x12]), align=rng.choice([0, 1]), iplog=rng.choice([0, 1]),
                      stamp=rng.choice([(1, rng.randrange(1, 100000)), (1, -rng.randrange(0, 100000)), (0, rng.randrange(-2 ** 31, 2 ** 31))]))
        sc.steps = [(rng.choice([1, 2, 3]), text()) for _ in range(rng.randrange(1, 12))]
        scs.append(sc)
    o = drive(scs, "entries stamped before, at and ahead of the clock")
    c.cov["exhaustive_parts"].append("Modified stamp of the addressed entry {0, 1, -1, int32 min, 2020, 2033, int32 max; clock -1 day, -1 h, -1 s, +0, +1 s, +2 s, +5 s, +1 min, +1 h, +1 day, +1 year} "
                                     "x types {push, boo, arrow} x scores {mid, next to the limit, +100, -100}: %d planted boards" % (len(stamps) * 12))
    c.sample({"op": "Recommend on an entry stamped ahead of the clock", "stamp": scs[-30].stamp, "planted": scs[-30].stamp_abs, "result": o[-30][:160]})

    # ---------------------------------------------------------------- 4. board sessions: several articles, several commenters, all attributes
    def drive_boards(bss, label):
        l2 = [bs.line(2) for bs in bss]
        o2 = vf.run_impl(impl, "C10", l2, deadline_ms=120000)
        l3 = [bs.line(3) for bs in bss]
        o3 = vf.run_impl(impl, "C10", l3, deadline_ms=120000)
        parsed = []
        for bs, line, res in zip(bss, l2, o2):
            st = res.split()[0]
            if st in ("1", "2"):
                c.violation("crash" if st == "1" else "hang", "%s: ptt.Recommend %s" % (label, "panics" if st == "1" else "hangs"), {"cases": [line], "got": res[:100]})
                parsed.append(None)
                continue
            if st != "0":
                raise SystemExit("C10: bad case from the generator: " + line[:200])
            parsed.append(parse_board_steps(res))
        if model:
            idx = [i for i, p in enumerate(parsed) if p is not None]
            lm = [bss[i].line(2, observations(parsed[i])) for i in idx]
            mo = vf.run_model(model, lm)
            vf.correspond(c, label, lm, [o2[i] for i in idx], mo)
        for bs, p, r3 in zip(bss, parsed, o3):
            if p is not None:
                dg = split_digest(r3, len(bs.steps)) if r3.split()[:1] == ["0"] else None
                judge_board(c, impl, bs, p, dg, label)
        flush_deferred(c, bss)
        c.count(2 * sum(len(bs.steps) for bs in bss), label)
        return o3

    people = [(1, 1, b"SYSOP"), (2, 0, b"A1"), (3, 0, b"abcdefghijkl"), (4, 0, b"B2"), (5, 0, b"Zed9"), (2, 0, b"A1")]
    bss = []
    # every combination of the five comment-related attributes x pause values: pushes in quick succession by several users on
    # several articles, the same user twice, boos and arrows in between, a saturated article
    for flags in [(a, i, nr, nb, nf) for a in (0, 1) for i in (0, 1) for nr in (0, 1) for nb in (0, 1) for nf in (0, 1)]:
        for pause in (255, 60, 1, 0):
            users = rng.sample(people[:5], 3)
            bs = BoardSession(rng, 5, [(0, rng.choice([0, -3, 41]), 0, False), (2, rng.choice([98, -99, 7]), rng.choice([0, 2, 16]), False), (4, 99, 0, False)],
                              flags, pause, users, ip=rng.choice([b"127.0.0.1", b"255.255.255.255", b"8.8.8.8"]),
                              stamps={rng.choice([0, 2, 4]): rng.choice([2000000000, 0x7FFFFFFF])})     # one article's entry is stamped ahead of every clock reading
            if flags[2]:
                bs.steps = [(0, 0, 1, b"p"), (1, 1, 2, b"b"), (2, 2, 3, b"a"), (0, 0, 1, b"p")]
            else:
                bs.steps = [(0, 0, 1, b"push"), (1, 1, 1, text(30)), (0, 0, 1, b"push"), (2, 0, 1, text(30)), (1, 2, 1, b"up"), (2, 2, 1, b"up"),
                            (1, 0, 2, b"boo"), (1, 0, 2, b"boo"), (0, 1, 3, b"arrow"), (2, 1, 1, b"after an arrow"), (0, 1, 2, b"boo"), (1, 1, 1, b"after a boo"),
                            (0, 2, 2, b"down"), (0, 2, 1, b"up again")]
                bs.steps += [(rng.randrange(3), rng.randrange(3), rng.choices([1, 2, 3], (5, 2, 1))[0], text(40)) for _ in range(rng.randrange(0, 6))]
            bss.append(bs)
    o = drive_boards(bss, "board sessions: every attribute combination x pause")
    c.cov["exhaustive_parts"].append("board attributes {aligned, IP log, no-comment, no-boo, no-fast-recommend} (all 32 combinations) x FastRecommendPause {0, 1, 60, 255}: "
                                     "%d boards, 3 articles x 3 commenters, pushes back to back by different users and by the same user, boos/arrows in between, saturation" % len(bss))
    c.sample({"op": "board session digest", "attrs": bss[7].flags, "pause": bss[7].pause, "steps": len(bss[7].steps), "result": o[7][:160]})

    bss = []
    for _ in range(300 if thorough else 40):
        flags = (rng.choice([0, 1]), rng.choice([0, 1]), rng.choice([0, 0, 0, 0, 0, 1]), rng.choice([0, 1]), rng.choice([0, 1, 1]))
        k = rng.choice([2, 3, 4])
        n = k + rng.randrange(0, 4)
        where = sorted(rng.sample(range(n), k))
        targets = [(i, rng.choice([-100, -99, -1, 0, 1, 98, 99, 100, rng.randrange(-100, 101)]), rng.choice([0, 0, 0, 1, 2, 16, 0x12, 8]), rng.random() < 0.08) for i in where]
        users = rng.sample(people, rng.choice([2, 3, 4]))
        bs = BoardSession(rng, n, targets, flags, rng.choice([0, 1, 2, 5, 30, 60, 255, rng.randrange(256)]), users,
                          ip=rng.choice([b"127.0.0.1", b"255.255.255.255", b"8.8.8.8"]),
                          arts=[rng.choice([b"short\n", b"\xa7@\xaa\xcc: SYSOP\n\nbody\n--\n", bytes(rng.randrange(256) for _ in range(300)) + b"\n"]) for _ in range(k)],
                          stamps={i: rng.choice([0, 1, 2000000000, 0x7FFFFFFF, -1, rng.randrange(1700000000, 2 ** 31)]) for i in where if rng.random() < 0.5})
        bias = rng.choice([(8, 1, 1), (3, 3, 2), (1, 6, 1)])
        bs.steps = [(rng.randrange(len(users)), rng.randrange(k), rng.choices([1, 2, 3, 0, 4], bias + (0.2, 0.2))[0], text(60)) for _ in range(rng.randrange(2, 41))]
        bss.append(bs)
    o = drive_boards(bss, "board sessions: random histories")
    c.sample({"op": "board session digest (random)", "attrs": bss[0].flags, "pause": bss[0].pause, "steps": len(bss[0].steps), "result": o[0][:160]})

    # ---------------------------------------------------------------- 5. two boards of one process holding the same article file name
    # WhoAmI and SYSOP are planted with overlapping sets of entries: the same file name sits at different positions of the two indexes
    # (M.<second>.A.<hex> names collide across boards; copied boards). Comments alternate between the boards back to back in one driver
    # process; every one must land in the article of that name of ITS board and move that entry only. No model for this op: the
    # look-up is C06's subject; this is validation of the property's frame ("changes only that article's index entry") across boards.
    tbs = []
    layouts = [([0, 1, 2], [1, 2, 3]), ([0, 1, 2, 3], [2, 3]), ([1, 2], [0, 1, 2, 4]), ([0, 2, 4], [1, 2, 3, 4]), ([3], [0, 1, 2, 3]), ([0, 1, 2, 3, 4], [4])]
    for la in layouts + [rng.choice(layouts) for _ in range(60 if thorough else 6)]:
        tb = TwoBoards(rng, la, uid=rng.choice([b"A1", b"SYSOP", b"abcdefghijkl"]))
        common = [i for i in la[0] if i in la[1]]
        for i in common:              # the same name, board after board
            for b in (0, 1, 0, 1):
                tb.steps.append((b, la[b].index(i), rng.choice([1, 1, 2, 3]), text(30)))
        tb.steps += [(b, rng.randrange(len(la[b])), rng.choice([1, 2, 3]), text(30)) for b in [rng.randrange(2) for _ in range(rng.randrange(4, 16))]]
        tbs.append(tb)
    lines = [tb.line() for tb in tbs]
    o5 = vf.run_impl(impl, "C10", lines, deadline_ms=120000)
    for tb, line, res in zip(tbs, lines, o5):
        st = res.split()[0]
        if st in ("1", "2"):
            c.violation("crash" if st == "1" else "hang", "two boards: ptt.Recommend %s" % ("panics" if st == "1" else "hangs"), {"cases": [line], "got": res[:100]})
            continue
        if st != "0":
            raise SystemExit("C10: bad case from the generator: " + line[:200])
        judge_two(c, impl, tb, split_two(res, len(tb.steps)), "two boards holding the same article file name")
    c.count(sum(len(tb.steps) for tb in tbs), "two boards holding the same article file name")
    c.sample({"op": "two boards digest", "layout": tbs[0].idx, "steps": len(tbs[0].steps), "result": o5[0][:160]})


if __name__ == "__main__":
    main()
